//go:build verif

// c18: cumulative diffs of transport tries (Trie.Insert, Diff, Iterate, Serialize with ratio, Deserialize).
// Dump only; the oracle is Corr/CorrC18.v.
package main

import (
	"bytes"
	"fmt"
	"math/rand"
	"sync"
	"time"

	"github.com/pyroscope-io/pyroscope/pkg/agent"
	"github.com/pyroscope-io/pyroscope/pkg/agent/spy"
	"github.com/pyroscope-io/pyroscope/pkg/agent/upstream"
	"github.com/pyroscope-io/pyroscope/pkg/structs/transporttrie"
	"verifharness/lib"
	"verifharness/lib/trieu"
)

type Op struct {
	K []byte `json:"k"`
	V uint64 `json:"v"`
	M bool   `json:"m"` // merge flag of Insert
}

type Input struct {
	Cur   []Op   `json:"cur"`
	Prev  []Op   `json:"prev"`
	M     int    `json:"mul"`
	D     int    `json:"div"`
	Class string `json:"class"`
	// how the caller treats the key slices it hands to Insert:
	//   ""              a fresh copy per call
	//   "shared-buffer" one buffer reused for all Insert calls of a snapshot, overwritten in place (as a spy does)
	//   "mutate-after"  the caller scribbles over the key slice right after Insert returns
	Reuse string `json:"reuse,omitempty"`
	Ratio string `json:"ratio,omitempty"`
	// session level: one scripted spy per profile type; what it reports in each upload window
	Sess []SessType `json:"sess,omitempty"`
}

type SessType struct {
	Type string       `json:"type"`
	Wins [][]trieu.KV `json:"wins"`
}

func gcd(a, b int) int {
	for b != 0 {
		a, b = b, a%b
	}
	return a
}

func randVal(r *rand.Rand) uint64 {
	switch r.Intn(10) {
	case 0:
		return 0
	case 1:
		return 1
	case 2:
		return uint64(r.Int63n(1 << 40))
	default:
		return uint64(1 + r.Intn(20))
	}
}

func gen(r *rand.Rand, idx int, tier string) Input {
	var in Input
	nframes := lib.Pick(r, []int{4, 8, 12, 20})
	depth := lib.Pick(r, []int{1, 2, 3, 4})
	ncur := lib.Range(r, 0, 8)
	if lib.Chance(r, 0.1) {
		ncur = lib.Range(r, 9, 25)
	}
	mergeP := 1.0
	if lib.Chance(r, 0.15) {
		mergeP = 0.7 // some plain (overwriting) inserts
	}
	mk := func(k []byte, v uint64) Op { return Op{K: k, V: v, M: lib.Chance(r, mergeP)} }
	for i := 0; i < ncur; i++ {
		k := trieu.RandKey(r, depth, nframes)
		if lib.Chance(r, 0.03) {
			k = []byte{}
		}
		in.Cur = append(in.Cur, mk(k, randVal(r)))
		if lib.Chance(r, 0.25) { // repeated insertion of the same stack
			in.Cur = append(in.Cur, mk(append([]byte{}, k...), randVal(r)))
		}
	}
	classes := []string{"subset", "disjoint", "underflow", "prevonly-split", "mixed", "equal", "empty-prev", "wide"}
	in.Class = classes[idx%len(classes)]
	if in.Class == "wide" {
		// a node with 17..40 children (distinct first bytes), at the root or below a prefix; after it became wide,
		// stacks through its smallest and its largest lead byte are inserted again (same key, extension, divergence)
		prefix := lib.Pick(r, [][]byte{{}, []byte("main;"), []byte("ab")})
		fan := lib.Range(r, 17, 40)
		keys, lo, hi := trieu.WideKeys(r, prefix, fan, false)
		again := func(k []byte) [][]byte {
			ext := append(append([]byte{}, k...), 'z', 'z')
			div := append([]byte{}, k...)
			div[len(div)-1] ^= 1
			return [][]byte{k, ext, k, div}
		}
		in.Cur = in.Cur[:0]
		for _, k := range keys {
			in.Cur = append(in.Cur, Op{K: k, V: randVal(r), M: true})
		}
		for _, k := range append(again(lo), again(hi)...) {
			in.Cur = append(in.Cur, Op{K: k, V: 1 + randVal(r), M: true})
		}
		if lib.Chance(r, 0.5) { // a few more re-insertions anywhere in the wide node
			for i := 0; i < 4; i++ {
				in.Cur = append(in.Cur, Op{K: lib.Pick(r, keys), V: randVal(r), M: true})
			}
		}
		// prev: wide as well (same lead bytes), then the smallest / largest again; counts above and below cur's
		for _, k := range keys {
			if lib.Chance(r, 0.8) {
				in.Prev = append(in.Prev, Op{K: k, V: randVal(r), M: true})
			}
		}
		for _, k := range append(again(lo), again(hi)...) {
			in.Prev = append(in.Prev, Op{K: k, V: randVal(r), M: true})
		}
	}
	switch in.Class {
	case "subset":
		for _, o := range in.Cur {
			if lib.Chance(r, 0.6) {
				v := o.V
				if v > 0 {
					v = uint64(r.Int63n(int64(v) + 1))
				}
				in.Prev = append(in.Prev, Op{K: o.K, V: v, M: true})
			}
		}
	case "disjoint":
		n := lib.Range(r, 1, 6)
		for i := 0; i < n; i++ {
			k := append([]byte("zz;"), trieu.RandKey(r, depth, nframes)...)
			if lib.Chance(r, 0.5) && len(in.Cur) > 0 {
				k = trieu.Mutate(r, lib.Pick(r, in.Cur).K)
			}
			in.Prev = append(in.Prev, Op{K: k, V: randVal(r), M: true})
		}
	case "underflow":
		for _, o := range in.Cur {
			if lib.Chance(r, 0.7) {
				in.Prev = append(in.Prev, Op{K: o.K, V: o.V + uint64(r.Intn(5)), M: true})
			}
		}
	case "prevonly-split":
		for _, o := range in.Cur {
			if lib.Chance(r, 0.7) {
				in.Prev = append(in.Prev, Op{K: trieu.Mutate(r, o.K), V: 1 + randVal(r), M: true})
			}
			if lib.Chance(r, 0.3) {
				in.Prev = append(in.Prev, Op{K: o.K, V: randVal(r), M: true})
			}
		}
	case "mixed":
		n := lib.Range(r, 0, 8)
		for i := 0; i < n; i++ {
			var k []byte
			switch {
			case len(in.Cur) > 0 && lib.Chance(r, 0.4):
				k = lib.Pick(r, in.Cur).K
			case len(in.Cur) > 0 && lib.Chance(r, 0.5):
				k = trieu.Mutate(r, lib.Pick(r, in.Cur).K)
			default:
				k = trieu.RandKey(r, depth, nframes)
			}
			if lib.Chance(r, 0.03) {
				k = []byte{}
			}
			in.Prev = append(in.Prev, mk(k, randVal(r)))
		}
	case "equal":
		in.Prev = append(in.Prev, in.Cur...)
	case "empty-prev":
	}
	in.Reuse = []string{"", "shared-buffer", "mutate-after", "shared-buffer"}[(idx/len(classes))%4]
	switch r.Intn(8) {
	case 0:
		in.M, in.D = 1, 1
	case 1:
		in.M, in.D = lib.Range(r, 1, 9), lib.Range(r, 1, 9)
	case 2:
		in.M, in.D = 0, lib.Range(r, 1, 5)
	case 3: // v < 2^41 after accumulation of < 64 values below 2^40 ... keep v*m < 2^64: m < 2^17
		in.M, in.D = lib.Range(r, 1, 1<<17), lib.Range(r, 1, 1<<20)
	case 4:
		in.M, in.D = 1, lib.Range(r, 2, 100)
	default: // ratios that are not binary fractions: m in 1..16, d in 1..64
		in.M, in.D = lib.Range(r, 1, 16), lib.Range(r, 1, 64)
		in.Ratio = "small-rational"
		g := gcd(in.M, in.D)
		step := uint64(in.D / g) // v*m is an exact multiple of d iff v is a multiple of d/gcd(m,d)
		mode := r.Intn(4)
		for i := range in.Cur {
			switch {
			case mode <= 1: // exact multiples (sums of multiples stay multiples)
				in.Cur[i].V = step * uint64(lib.Range(r, 0, 40))
				in.Cur[i].M = true
			case mode == 2 && lib.Chance(r, 0.5): // near 2^53 and above (v*m stays below 2^60)
				in.Cur[i].V = (uint64(1) << uint(lib.Range(r, 52, 55))) - uint64(r.Intn(3)) + uint64(r.Intn(3))
				if lib.Chance(r, 0.5) {
					in.Cur[i].V -= in.Cur[i].V % step
				}
			default:
				in.Cur[i].V = uint64(lib.Range(r, 0, 200))
			}
		}
	}
	// counts around 2^63 and 2^64-1 on ONE side of a stack present in both snapshots (or only in prev)
	if in.Class != "wide" && len(in.Cur) > 0 && idx%9 == 4 {
		big := lib.Pick(r, []uint64{1 << 63, 1<<63 + 10, 1<<64 - 1, 1<<63 - 1, 1<<64 - 7})
		small := lib.Pick(r, []uint64{0, 3, 1 << 40, 1<<63 - 1})
		k := append([]byte{}, lib.Pick(r, in.Cur).K...)
		drop := func(ops []Op) []Op {
			res := ops[:0:0]
			for _, o := range ops {
				if !bytes.Equal(o.K, k) {
					res = append(res, o)
				}
			}
			return res
		}
		in.Cur, in.Prev = drop(in.Cur), drop(in.Prev)
		switch r.Intn(4) {
		case 0: // current huge, previous small
			in.Cur = append(in.Cur, Op{K: k, V: big, M: true})
			in.Prev = append(in.Prev, Op{K: k, V: small, M: true})
		case 1: // previous huge, current small: clipped to nothing
			in.Cur = append(in.Cur, Op{K: k, V: small, M: true})
			in.Prev = append(in.Prev, Op{K: k, V: big, M: true})
		case 2: // only the previous snapshot has it, huge
			in.Prev = append(in.Prev, Op{K: k, V: big, M: true})
		default: // both huge
			in.Cur = append(in.Cur, Op{K: k, V: big, M: true})
			in.Prev = append(in.Prev, Op{K: k, V: lib.Pick(r, []uint64{1 << 63, 1<<64 - 1, 1<<63 + 5}), M: true})
		}
		in.M, in.D = 1, 1 // v*m must stay below 2^64
		in.Ratio = "one-side-ge-2^63"
	}
	// session level stream
	if idx%11 == 7 {
		stacks := [][]byte{[]byte("main;alloc"), []byte("main;alloc;x"), []byte("main;a"), []byte("gc"), []byte("main;allocate")}
		types := [][]string{{"alloc_objects"}, {"alloc_space"}, {"alloc_objects", "inuse_objects"}, {"alloc_space", "alloc_objects"}}[r.Intn(4)]
		nw := lib.Range(r, 2, 5)
		for _, ty := range types {
			st := SessType{Type: ty}
			counters := map[string]uint64{}
			if lib.Chance(r, 0.5) { // counters that have been running for a while: around 2^32, 2^33 (byte counters), 2^40
				for _, sk := range stacks {
					counters[string(sk)] = lib.Pick(r, []uint64{0, 1<<32 - 8, 1<<32 - 1, 1<<33 - 5, 3<<32 - 2, 1 << 40})
				}
			}
			for w := 0; w < nw; w++ {
				var win []trieu.KV
				if !(w > 0 && lib.Chance(r, 0.35)) { // otherwise: an idle window, the spy reports nothing
					for _, sk := range stacks {
						if lib.Chance(r, 0.6) {
							counters[string(sk)] += uint64(r.Intn(12))
							v := counters[string(sk)]
							if lib.Chance(r, 0.1) {
								v = uint64(r.Intn(3)) // a counter that went backwards
							}
							if lib.Chance(r, 0.2) && v > 1 { // the same stack twice in one reading
								win = append(win, trieu.KV{K: sk, V: 1}, trieu.KV{K: sk, V: v - 1})
							} else {
								win = append(win, trieu.KV{K: sk, V: v})
							}
						}
					}
				}
				st.Wins = append(st.Wins, win)
			}
			in.Sess = append(in.Sess, st)
		}
	}
	return in
}

// ---- session level: scripted spies and a recording upstream ----
type scriptSpy struct {
	mu        sync.Mutex
	wins      [][]trieu.KV
	w         int
	emitted   bool
	resetSeen bool
}

func (s *scriptSpy) Stop() error { return nil }

// Reset is called at the tick that closes an upload window, before that tick's Snapshot calls
func (s *scriptSpy) Reset() { s.mu.Lock(); s.resetSeen = true; s.mu.Unlock() }

func (s *scriptSpy) Snapshot(cb func([]byte, uint64, error)) {
	s.mu.Lock()
	var emit []trieu.KV
	if !s.emitted && s.w < len(s.wins) {
		emit = s.wins[s.w]
		s.emitted = true
	}
	if s.resetSeen { // this Snapshot still belongs to the window being closed
		s.resetSeen = false
		s.w++
		s.emitted = false
	}
	s.mu.Unlock()
	for _, kv := range emit {
		cb(append([]byte{}, kv.K...), kv.V, nil)
	}
}

func (s *scriptSpy) done() bool { s.mu.Lock(); defer s.mu.Unlock(); return s.w >= len(s.wins) }

type recUpstream struct {
	mu   sync.Mutex
	jobs map[string][][]trieu.KV
}

func (u *recUpstream) Stop() {}
func (u *recUpstream) Upload(j *upstream.UploadJob) {
	it := trieu.Iter(j.Trie)
	u.mu.Lock()
	u.jobs[j.Name] = append(u.jobs[j.Name], it)
	u.mu.Unlock()
}

func runSession(sess []SessType) string {
	if len(sess) == 0 {
		return "[]"
	}
	up := &recUpstream{jobs: map[string][][]trieu.KV{}}
	pts := make([]spy.ProfileType, len(sess))
	spies := make([]spy.Spy, len(sess))
	scripts := make([]*scriptSpy, len(sess))
	for i, st := range sess {
		pts[i] = spy.ProfileType(st.Type)
		scripts[i] = &scriptSpy{wins: st.Wins}
		spies[i] = scripts[i]
	}
	ps := agent.VerifNewSessionWithSpies(&agent.SessionConfig{
		Upstream: up, AppName: "sess", ProfilingTypes: pts, SampleRate: 1000, UploadRate: 20 * time.Millisecond, Pid: 0,
	}, &agent.NoopLogger{}, spies)
	deadline := time.Now().Add(20 * time.Second)
	for time.Now().Before(deadline) {
		all := true
		for _, s := range scripts {
			if !s.done() {
				all = false
			}
		}
		if all {
			break
		}
		time.Sleep(time.Millisecond)
	}
	ps.Stop()
	time.Sleep(5 * time.Millisecond)
	items := make([]string, len(sess))
	up.mu.Lock()
	defer up.mu.Unlock()
	for i, st := range sess {
		wins := make([]string, len(st.Wins))
		for k, w := range st.Wins {
			wins[k] = trieu.CoqKVs(w)
		}
		jobs := []string{}
		for _, j := range up.jobs["sess."+st.Type] {
			jobs = append(jobs, trieu.CoqKVs(j))
		}
		items[i] = "(" + lib.Bool(pts[i].IsCumulative()) + ", " + lib.List(wins) + ", " + lib.List(jobs) + ")"
	}
	return lib.List(items)
}

func build(ops []Op, reuse string) *transporttrie.Trie {
	t := transporttrie.New()
	switch reuse {
	case "shared-buffer":
		// session.go hands the spy's slice straight to Insert; spies reuse ONE buffer for successive stacks
		max := 0
		for _, o := range ops {
			if len(o.K) > max {
				max = len(o.K)
			}
		}
		buf := make([]byte, max)
		for _, o := range ops {
			for i := range buf {
				buf[i] = '#' // stale bytes of earlier, longer stacks must not matter either
			}
			copy(buf, o.K)
			t.Insert(buf[:len(o.K)], o.V, o.M)
		}
		for i := range buf {
			buf[i] = '!'
		}
	case "mutate-after":
		for _, o := range ops {
			k := append([]byte{}, o.K...)
			t.Insert(k, o.V, o.M)
			for i := range k {
				k[i] ^= 0x55
			}
		}
	default:
		for _, o := range ops {
			t.Insert(append([]byte{}, o.K...), o.V, o.M)
		}
	}
	return t
}

func coqOps(ops []Op) string {
	items := make([]string, len(ops))
	for i, o := range ops {
		items[i] = "(" + lib.Bytes(o.K) + ", " + lib.N(o.V) + ", " + lib.Bool(o.M) + ")"
	}
	return lib.List(items)
}

func roundTrip(t *transporttrie.Trie) string {
	var b bytes.Buffer
	if err := t.Serialize(&b); err != nil {
		return "None"
	}
	t2, err := transporttrie.Deserialize(bytes.NewReader(b.Bytes()))
	if err != nil || t2 == nil {
		return "None"
	}
	return lib.Some(trieu.CoqKVs(trieu.Iter(t2)))
}

func run(in Input) (res lib.Result) {
	defer func() {
		if r := recover(); r != nil {
			res = lib.Result{Crash: fmt.Sprintf("panic: %v", r)}
		}
	}()
	if in.D == 0 {
		in.D = 1
	}
	cur := build(in.Cur, in.Reuse)
	prev := build(in.Prev, in.Reuse)
	curDump, curIter := cur.VerifDump(), trieu.Iter(cur)
	prevDump, prevIter := prev.VerifDump(), trieu.Iter(prev)

	diff := cur.Diff(prev)

	curDump2, curIter2 := cur.VerifDump(), trieu.Iter(cur)
	prevDump2, prevIter2 := prev.VerifDump(), trieu.Iter(prev)
	diffDump, diffIter := diff.VerifDump(), trieu.Iter(diff)

	// payloads alive at the same time, as in the upstream queue: produce A and D, then payloads of other tries
	// (a larger and a smaller one), and only then decode A and D
	payloadA := cur.Clone(in.M, in.D).Bytes()
	payloadD := diff.Bytes()
	larger := build(append(append(append([]Op{}, in.Cur...), in.Prev...), Op{K: []byte("zzzz;larger;payload;with;a;long;tail"), V: 77, M: true}), "")
	_ = larger.Clone(3, 2).Bytes()
	_ = build([]Op{{K: []byte("s"), V: 1, M: true}}, "").Bytes()
	_ = prev.Bytes()
	decode := func(p []byte) string {
		t2, err := transporttrie.Deserialize(bytes.NewReader(p))
		if err != nil || t2 == nil {
			return "None"
		}
		return lib.Some(trieu.CoqKVs(trieu.Iter(t2)))
	}
	scaledHeld, diffHeld := decode(payloadA), decode(payloadD)

	diffRT := roundTrip(diff)
	scaled := roundTrip(cur.Clone(in.M, in.D))

	coq := "{| c_cur := " + coqOps(in.Cur) + "; c_prev := " + coqOps(in.Prev) +
		"; c_m := " + lib.N(uint64(in.M)) + "; c_d := " + lib.N(uint64(in.D)) +
		"; c_cur_dump := " + trieu.Coq(curDump) + "; c_cur_iter := " + trieu.CoqKVs(curIter) +
		"; c_prev_dump := " + trieu.Coq(prevDump) + "; c_prev_iter := " + trieu.CoqKVs(prevIter) +
		"; c_cur_dump2 := " + trieu.Coq(curDump2) + "; c_cur_iter2 := " + trieu.CoqKVs(curIter2) +
		"; c_prev_dump2 := " + trieu.Coq(prevDump2) + "; c_prev_iter2 := " + trieu.CoqKVs(prevIter2) +
		"; c_diff_dump := " + trieu.Coq(diffDump) + "; c_diff_iter := " + trieu.CoqKVs(diffIter) +
		"; c_diff_rt := " + diffRT + "; c_scaled := " + scaled +
		"; c_scaled_held := " + scaledHeld + "; c_diff_held := " + diffHeld + "; c_sess := " + runSession(in.Sess) + " |}"

	// features: did a key of prev that cur does not have force a split; did a count underflow
	curSet, diffSet := trieu.NodeSet(curDump), trieu.NodeSet(diffDump)
	split := false
	for k := range curSet {
		if !diffSet[k] {
			split = true
		}
	}
	curVals := map[string]uint64{}
	for _, kv := range curIter {
		curVals[string(kv.K)] = kv.V
	}
	underflow, prevOnly := false, false
	for _, kv := range prevIter {
		cv, ok := curVals[string(kv.K)]
		if ok && kv.V > cv {
			underflow = true
		}
		if !ok {
			prevOnly = true
		}
	}
	ratio := "one"
	switch {
	case in.M == 0:
		ratio = "zero"
	case in.M == 1 && in.D == 1:
	case in.M > 1<<10 || in.D > 1<<10:
		ratio = "large"
	case in.M < in.D:
		ratio = "lt1"
	default:
		ratio = "ge1"
	}
	return lib.Result{
		Coq:        coq,
		NonTrivial: (prevOnly && split) || underflow,
		Feat: map[string]interface{}{"class": in.Class, "cur_ops": len(in.Cur), "prev_ops": len(in.Prev),
			"key_slices": map[string]string{"": "fresh", "shared-buffer": "shared-buffer", "mutate-after": "mutate-after"}[in.Reuse], "split": split, "underflow": underflow, "prev_only_key": prevOnly, "ratio": ratio,
			"cur_nodes": trieu.Size(curDump), "diff_nodes": trieu.Size(diffDump), "max_fanout_gt16": maxFan(curDump) > 16,
			"exact_multiple_count": exactMultiple(curIter, in.M, in.D), "count_ge_2^53": bigCount(curIter),
			"one_side_ge_2^63": in.Ratio == "one-side-ge-2^63", "session_types": len(in.Sess), "session_idle_window": sessIdle(in.Sess), "session_count_ge_2^32": sessBig(in.Sess)},
		Obs: map[string]interface{}{"diff": diffIter},
	}
}

func sessBig(sess []SessType) bool {
	for _, st := range sess {
		for _, w := range st.Wins {
			for _, kv := range w {
				if kv.V >= 1<<32 {
					return true
				}
			}
		}
	}
	return false
}

func sessIdle(sess []SessType) bool {
	for _, st := range sess {
		for i, w := range st.Wins {
			if i > 0 && len(w) == 0 {
				return true
			}
		}
	}
	return false
}

func maxFan(n *transporttrie.VerifNode) int {
	m := len(n.Children)
	for _, c := range n.Children {
		if x := maxFan(c); x > m {
			m = x
		}
	}
	return m
}

func exactMultiple(l []trieu.KV, m, d int) bool {
	if d <= 1 || m == 0 {
		return false
	}
	for _, kv := range l {
		if kv.V > 0 && (kv.V*uint64(m))%uint64(d) == 0 {
			return true
		}
	}
	return false
}

func bigCount(l []trieu.KV) bool {
	for _, kv := range l {
		if kv.V >= 1<<53 {
			return true
		}
	}
	return false
}

func main() {
	lib.Main(lib.Harness[Input]{Prop: "C18", Quick: 1200, Thorough: 24000, Gen: gen, Run: run})
}
