//go:build verif

// c07: selectors and label listings (dimension.Intersection/Union, Storage.Put/Get/Delete/GetKeys/GetValues).
// Dump only: the oracle is Corr/CorrC07.v.
package main

import (
	"encoding/json"
	"fmt"
	"math/rand"
	"net/http"
	"net/http/httptest"
	"net/url"
	"os"
	"reflect"
	"runtime"
	"sort"
	"sync"
	"strings"
	"time"

	"github.com/pyroscope-io/pyroscope/pkg/config"
	"github.com/pyroscope-io/pyroscope/pkg/server"
	"github.com/pyroscope-io/pyroscope/pkg/storage"
	"github.com/pyroscope-io/pyroscope/pkg/storage/dimension"
	"github.com/pyroscope-io/pyroscope/pkg/storage/tree"
	"github.com/sirupsen/logrus"
	"verifharness/lib"
)

// ---------- input ----------

type DOp struct {
	Del bool   `json:"del,omitempty"`
	Key string `json:"key"`
}

type DimIn struct {
	Ops    [][]DOp `json:"ops"`    // per dimension: Insert/Delete calls on a fresh dimension
	Orders [][]int `json:"orders"` // argument orders (indices into Ops) to call Intersection/Union with
}

type SOp struct {
	Put    string `json:"put,omitempty"`    // series name (as written by a client: any tag order, white space)
	Delete string `json:"delete,omitempty"` // selector
	IsDel  bool   `json:"is_del,omitempty"`
	Stack  string `json:"stack,omitempty"`
	Count  uint64 `json:"count,omitempty"`
	Slot   int    `json:"slot,omitempty"` // upload covers [base + era*1e6 + slot*10, +10) seconds
	Era    int    `json:"era,omitempty"`  // 0 = old, 1 = new (a million seconds later)
	// a retention pass: Storage.DeleteDataBefore(time.Unix(Retain, 0))
	IsRetain bool  `json:"is_retain,omitempty"`
	Retain   int64 `json:"retain,omitempty"`
	// a graceful restart: Close, then New on the same directory
	IsRestart bool `json:"is_restart,omitempty"`
	// evict the whole dimensions cache to disk (VerifEvict); the next use of a dimension reloads it
	IsEvict bool `json:"is_evict,omitempty"`
	// put only: the write-back of the dimensions cache runs in the middle of this Put (when the segment of the
	// series is created or loaded), repeated until every dimension of the series has been saved
	Tick bool `json:"tick,omitempty"`
}

type StoreIn struct {
	Ops       []SOp    `json:"ops"`
	Selectors []string `json:"selectors"`
	ValueKeys []string `json:"value_keys,omitempty"` // GetValues is called for these and for every key GetKeys lists
	DimNames  []string `json:"dim_names,omitempty"`  // dimensions to dump ("k:v")
	Hide      []string `json:"hide,omitempty"`       // config HideApplications
}

// ConcIn: concurrent Insert/Delete on one dimension
type ConcIn struct {
	Init      []string `json:"init"`
	Ins       []string `json:"ins"`
	Dels      []string `json:"dels"`
	Rounds    int      `json:"rounds"`
	Inserters int      `json:"inserters"`
	Deleters  int      `json:"deleters"`
}

type Input struct {
	Dim   *DimIn   `json:"dim,omitempty"`
	Store *StoreIn `json:"store,omitempty"`
	Conc  *ConcIn  `json:"conc,omitempty"`
}

// ---------- printers ----------

func bs(s string) string { return lib.Bytes([]byte(s)) }

func keyList(ks []dimension.Key) string {
	items := make([]string, len(ks))
	for i, k := range ks {
		items[i] = lib.Bytes([]byte(k))
	}
	return lib.List(items)
}

func strList(ss []string) string {
	items := make([]string, len(ss))
	for i, s := range ss {
		items[i] = bs(s)
	}
	return lib.List(items)
}

// ---------- dimension level ----------

func runDim(in *DimIn) lib.Result {
	dims := make([]*dimension.Dimension, len(in.Ops))
	var opsC, keysC, rereadC []string
	maxLen, dels, maxKey := 0, 0, 0
	for i, ops := range in.Ops {
		d := dimension.New()
		var oc []string
		for _, o := range ops {
			if o.Del {
				d.Delete(dimension.Key(o.Key))
				oc = append(oc, "DDel "+bs(o.Key))
				dels++
			} else {
				d.Insert(dimension.Key(o.Key))
				oc = append(oc, "DIns "+bs(o.Key))
			}
		}
		dims[i] = d
		opsC = append(opsC, lib.List(oc))
		ks := d.VerifKeys()
		keysC = append(keysC, keyList(ks))
		for _, k := range ks {
			if len(k) > maxKey {
				maxKey = len(k)
			}
		}
		rr := "None"
		if b, err := d.Bytes(); err == nil {
			if d2, err := dimension.FromBytes(b); err == nil && d2 != nil {
				rr = lib.Some(keyList(d2.VerifKeys()))
			}
		}
		rereadC = append(rereadC, rr)
		if len(ks) > maxLen {
			maxLen = len(ks)
		}
	}
	var ordC []string
	largestAt := -1
	for _, ord := range in.Orders {
		args := make([]*dimension.Dimension, len(ord))
		idx := make([]string, len(ord))
		best, bestKey := -1, ""
		for j, i := range ord {
			args[j] = dims[i]
			idx[j] = lib.Nat(i)
			if ks := dims[i].VerifKeys(); len(ks) > 0 && (best < 0 || string(ks[0]) > bestKey) {
				best, bestKey = j, string(ks[0])
			}
		}
		if largestAt < 0 {
			largestAt = best // position of the argument with the largest head, first order
		}
		gi := dimension.Intersection(args...)
		gu := dimension.Union(args...)
		ordC = append(ordC, fmt.Sprintf("(%s, %s, %s)", lib.List(idx), keyList(gi), keyList(gu)))
	}
	heads := map[string]bool{}
	for _, d := range dims {
		if ks := d.VerifKeys(); len(ks) > 0 {
			heads[string(ks[0])] = true
		}
	}
	coq := "CDim " + lib.List(opsC) + " " + lib.List(keysC) + " " + lib.List(rereadC) + " " + lib.List(ordC)
	return lib.Result{Coq: coq, NonTrivial: len(dims) >= 2 && len(heads) >= 2,
		Feat: map[string]interface{}{"kind": "dim", "dimensions": len(dims), "max_len": maxLen, "deletes": dels,
			"orders": len(in.Orders), "distinct_heads": len(heads), "largest_head_at": largestAt, "max_key_len": maxKey}}
}

// ---------- storage level ----------

const baseUnix = 1600000000
const retainUnix = baseUnix + 500000 // between the two eras

var baseTime = time.Unix(baseUnix, 0)

func flatten(n *tree.VerifNode, prefix string, out *[][2]interface{}) {
	for _, c := range n.Children {
		p := string(c.Name)
		if prefix != "" {
			p = prefix + ";" + p
		}
		if c.Self > 0 {
			*out = append(*out, [2]interface{}{p, c.Self})
		}
		flatten(c, p, out)
	}
}

func dimNamesOf(k *storage.Key) []string {
	v := reflect.ValueOf(k).Elem().FieldByName("labels")
	var out []string
	it := v.MapRange()
	for it.Next() {
		out = append(out, it.Key().String()+":"+it.Value().String())
	}
	return out
}

// tick state: armed by a put op, fired from inside Storage.Put through the segments/trees cache constructors
type tickState struct {
	armed     bool
	want      []string
	recording bool
	saved     map[string]bool
	fired     int
}

func installTick(s *storage.Storage, ts *tickState) {
	s.VerifWrapCaches(func(cacheName, key string) {
		if ts.recording && cacheName == "dimensions" {
			ts.saved[key] = true
		}
	})
	dc := s.VerifCache("dimensions")
	fire := func() {
		if !ts.armed {
			return
		}
		ts.armed = false
		ts.recording, ts.saved = true, map[string]bool{}
		// what the periodic write-back task does to the dimensions cache, at this very moment; one pass hands over
		// only what the saver goroutine can take, so repeat until every dimension of the series went to disk
		for i := 0; i < 2000; i++ {
			dc.WriteBack()
			dc.VerifBarrier()
			all := true
			for _, n := range ts.want {
				if !ts.saved[n] {
					all = false
				}
			}
			if all {
				break
			}
		}
		ts.recording = false
		ts.fired++
	}
	for _, name := range []string{"segments", "trees"} {
		c := s.VerifCache(name)
		origNew, origFrom := c.New, c.FromBytes
		c.New = func(k string) interface{} { fire(); return origNew(k) }
		c.FromBytes = func(k string, v []byte) (interface{}, error) { fire(); return origFrom(k, v) }
	}
}

func runStore(in *StoreIn) (res lib.Result) {
	dir, err := os.MkdirTemp("/tmp", "keys-harness-")
	if err != nil {
		return lib.Result{Crash: "mkdtemp: " + err.Error()}
	}
	defer os.RemoveAll(dir)
	storage.VerifDisablePeriodicTasks()
	storage.OutOfSpaceThreshold = 0
	cfg := &config.Server{StoragePath: dir, APIBindAddr: ":4040", CacheEvictThreshold: 0.02, CacheEvictVolume: 0.10,
		MaxNodesSerialization: 2048, MaxNodesRender: 2048, HideApplications: in.Hide}
	s, err := storage.New(cfg)
	if err != nil {
		return lib.Result{Crash: "storage.New: " + err.Error()}
	}
	ts := &tickState{}
	installTick(s, ts)
	defer func() { s.Close() }()
	defer func() {
		if r := recover(); r != nil {
			res = lib.Result{Crash: fmt.Sprintf("storage panicked: %v", r)}
		}
	}()

	var opsC []string
	nput, ndel, nret, reingest := 0, 0, 0, 0
	retained := false
	nrestart, nevict, maxSeriesKey := 0, 0, 0
	for _, o := range in.Ops {
		if o.IsRestart {
			if err := s.Close(); err != nil {
				return lib.Result{Crash: "Close: " + err.Error()}
			}
			s, err = storage.New(cfg)
			if err != nil {
				return lib.Result{Crash: "storage.New after Close: " + err.Error()}
			}
			installTick(s, ts)
			opsC = append(opsC, "SRestart")
			nrestart++
			continue
		}
		if o.IsEvict {
			if nput > 0 {
				s.VerifEvict("dimensions", 1.0)
			}
			opsC = append(opsC, "SEvict")
			nevict++
			continue
		}
		if o.IsRetain {
			if err := s.DeleteDataBefore(time.Unix(o.Retain, 0)); err != nil {
				return lib.Result{Crash: "DeleteDataBefore: " + err.Error()}
			}
			opsC = append(opsC, fmt.Sprintf("SRetain %d", o.Retain))
			nret++
			retained = true
			continue
		}
		if o.IsDel {
			k, _ := storage.ParseKey(o.Delete)
			if err := s.Delete(&storage.DeleteInput{Key: k}); err != nil {
				return lib.Result{Crash: "Delete: " + err.Error()}
			}
			opsC = append(opsC, "SDelete "+bs(o.Delete))
			ndel++
			continue
		}
		k, _ := storage.ParseKey(o.Put)
		if n := len(k.Normalized()); n > maxSeriesKey {
			maxSeriesKey = n
		}
		t := tree.New()
		t.Insert([]byte(o.Stack), o.Count)
		unix := int64(baseUnix) + int64(o.Era)*1000000 + int64(o.Slot)*10
		st := time.Unix(unix, 0)
		if o.Tick {
			ts.armed, ts.want = true, dimNamesOf(k)
		}
		if retained && o.Era == 0 {
			reingest++
		}
		if err := s.Put(&storage.PutInput{StartTime: st, EndTime: st.Add(10 * time.Second), Key: k, Val: t,
			SpyName: "verif", SampleRate: 100}); err != nil {
			return lib.Result{Crash: "Put: " + err.Error()}
		}
		ts.armed = false
		opsC = append(opsC, fmt.Sprintf("SPut %s %s %d %d", bs(o.Put), bs(o.Stack), o.Count, unix))
		nput++
	}

	var getsC []string
	maxTags := 0
	for _, q := range in.Selectors {
		k, _ := storage.ParseKey(q)
		out, err := s.Get(&storage.GetInput{StartTime: baseTime, EndTime: baseTime.Add(10000000 * time.Second), Key: k})
		if err != nil {
			return lib.Result{Crash: "Get: " + err.Error()}
		}
		var flat [][2]interface{}
		if out != nil && out.Tree != nil {
			flatten(out.Tree.VerifDump(), "", &flat)
		}
		items := make([]string, len(flat))
		for i, f := range flat {
			items[i] = lib.Pair(bs(f[0].(string)), lib.N(f[1].(uint64)))
		}
		getsC = append(getsC, lib.Pair(bs(q), lib.List(items)))
		if n := strings.Count(q, "="); n > maxTags {
			maxTags = n
		}
	}

	var keys []string
	s.GetKeys(func(k string) bool { keys = append(keys, k); return true })
	want := append([]string{}, keys...)
	want = append(want, in.ValueKeys...)
	want = append(want, "__name__")
	seen := map[string]bool{}
	var valsC []string
	for _, k := range want {
		if seen[k] {
			continue
		}
		seen[k] = true
		var vs []string
		s.GetValues(k, func(v string) bool { vs = append(vs, v); return true })
		valsC = append(valsC, lib.Pair(bs(k), strList(vs)))
	}
	var dimsC []string
	for _, n := range in.DimNames {
		d, err := s.VerifCache("dimensions").Get(n)
		if err != nil || d == nil {
			continue
		}
		dimsC = append(dimsC, lib.Pair(bs(n), keyList(d.(*dimension.Dimension).VerifKeys())))
	}
	// the same listings through the HTTP handlers of pkg/server/labels.go
	ctrl, err := server.New(cfg, s)
	if err != nil {
		return lib.Result{Crash: "server.New: " + err.Error()}
	}
	mux := ctrl.VerifMux()
	httpList := func(path string) ([]string, string) {
		rec := httptest.NewRecorder()
		mux.ServeHTTP(rec, httptest.NewRequest(http.MethodGet, path, nil))
		if rec.Code != 200 {
			return nil, fmt.Sprintf("GET %s: status %d", path, rec.Code)
		}
		var out []string
		if err := json.Unmarshal(rec.Body.Bytes(), &out); err != nil {
			return nil, fmt.Sprintf("GET %s: %v", path, err)
		}
		return out, ""
	}
	hkeys, e := httpList("/labels")
	if e != "" {
		return lib.Result{Crash: e}
	}
	var hvalsC []string
	for _, k := range want {
		if !seen[k] {
			continue
		}
		seen[k] = false
		vs, e := httpList("/label-values?label=" + url.QueryEscape(k))
		if e != "" {
			return lib.Result{Crash: e}
		}
		hvalsC = append(hvalsC, lib.Pair(bs(k), strList(vs)))
	}
	coq := "CStore " + lib.List(opsC) + " " + lib.List(getsC) + " " + strList(keys) + " " + lib.List(valsC) + " " + lib.List(dimsC) +
		" " + strList(hkeys) + " " + lib.List(hvalsC) + " " + strList(in.Hide)
	special := false
	for _, o := range in.Ops {
		if strings.ContainsAny(o.Put, ":/.") {
			special = true
		}
	}
	return lib.Result{Coq: coq, NonTrivial: nput >= 3 && maxTags >= 2,
		Feat: map[string]interface{}{"kind": "store", "puts": nput, "deletes": ndel, "retention_passes": nret, "restarts": nrestart, "evictions": nevict, "writeback_inside_put": ts.fired, "max_series_key_len": maxSeriesKey, "hidden_apps": len(in.Hide),
			"old_era_puts_after_retention": reingest, "selectors": len(in.Selectors),
			"max_selector_tags": maxTags, "special_value_chars": special}}
}

func runConc(in *ConcIn) lib.Result {
	finals := map[string][]dimension.Key{}
	var order []string
	var mu sync.Mutex
	crash := ""
	for round := 0; round < in.Rounds; round++ {
		d := dimension.New()
		for _, k := range in.Init {
			d.Insert(dimension.Key(k))
		}
		start := make(chan struct{})
		var wg sync.WaitGroup
		work := func(keys []string, n, j int, f func(dimension.Key)) {
			defer wg.Done()
			defer func() {
				if r := recover(); r != nil {
					mu.Lock()
					crash = fmt.Sprintf("Dimension panicked under concurrent Insert/Delete: %v", r)
					mu.Unlock()
				}
			}()
			<-start
			for i := j; i < len(keys); i += n {
				f(dimension.Key(keys[i]))
				runtime.Gosched()
			}
		}
		for j := 0; j < in.Inserters; j++ {
			wg.Add(1)
			go work(in.Ins, in.Inserters, j, d.Insert)
		}
		for j := 0; j < in.Deleters; j++ {
			wg.Add(1)
			go work(in.Dels, in.Deleters, j, d.Delete)
		}
		close(start)
		wg.Wait()
		if crash != "" {
			return lib.Result{Crash: crash}
		}
		ks := d.VerifKeys()
		sig := ""
		for _, k := range ks {
			sig += string(k) + "\x00"
		}
		if _, ok := finals[sig]; !ok {
			finals[sig] = ks
			order = append(order, sig)
		}
	}
	fs := make([]string, len(order))
	for i, sg := range order {
		fs[i] = keyList(finals[sg])
	}
	coq := "CConc " + strList(in.Init) + " " + strList(in.Ins) + " " + strList(in.Dels) + " " + lib.List(fs)
	return lib.Result{Coq: coq, NonTrivial: in.Inserters >= 2 && in.Deleters >= 1,
		Feat: map[string]interface{}{"kind": "conc", "rounds": in.Rounds, "inserters": in.Inserters, "deleters": in.Deleters,
			"distinct_finals": len(order)}}
}

func genConc(r *rand.Rand) Input {
	c := &ConcIn{Rounds: 300, Inserters: lib.Range(r, 2, 6), Deleters: lib.Range(r, 1, 3)}
	n := lib.Range(r, 20, 50)
	for i := 0; i < n; i++ {
		c.Init = append(c.Init, fmt.Sprintf("k%03d", 2*i))
	}
	for i := 0; i < n; i++ { // new keys between and after the initial ones
		if lib.Chance(r, 0.7) {
			c.Ins = append(c.Ins, fmt.Sprintf("k%03d", 2*i+1))
		}
	}
	for i := 0; i < n/2; i++ { // deleted keys are small: they sort before most insert positions
		if lib.Chance(r, 0.8) {
			c.Dels = append(c.Dels, fmt.Sprintf("k%03d", 2*i))
		}
	}
	r.Shuffle(len(c.Ins), func(i, j int) { c.Ins[i], c.Ins[j] = c.Ins[j], c.Ins[i] })
	if c.Ins == nil {
		c.Ins = []string{"k999"}
	}
	if c.Dels == nil {
		c.Dels = []string{"k000"}
	}
	return Input{Conc: c}
}

func run(in Input) lib.Result {
	if in.Conc != nil {
		return runConc(in.Conc)
	}
	if in.Dim != nil {
		return runDim(in.Dim)
	}
	if in.Store != nil {
		for _, o := range in.Store.Ops {
			for _, c := range []byte(o.Put + o.Delete) {
				if c >= 128 {
					return lib.Result{Crash: "harness: storage-level names must be ASCII"}
				}
			}
		}
		return runStore(in.Store)
	}
	return lib.Result{Crash: "harness: empty input"}
}

// ---------- generators ----------

var universe = []string{"", "a", "aa", "ab", "b"}

func subsetOps(mask int, scramble int) []DOp {
	var ks []string
	for i, k := range universe {
		if mask&(1<<i) != 0 {
			ks = append(ks, k)
		}
	}
	// a deterministic insertion order that is not the sorted one
	rot := 0
	if len(ks) > 0 {
		rot = scramble % len(ks)
	}
	ks = append(ks[rot:], ks[:rot]...)
	if scramble%2 == 1 {
		for i, j := 0, len(ks)-1; i < j; i, j = i+1, j-1 {
			ks[i], ks[j] = ks[j], ks[i]
		}
	}
	ops := []DOp{}
	for _, k := range ks {
		ops = append(ops, DOp{Key: k})
	}
	if scramble%3 == 0 { // insert and delete a key outside the subset, re-insert a member
		for i, k := range universe {
			if mask&(1<<i) == 0 {
				ops = append([]DOp{{Key: k}}, ops...)
				ops = append(ops, DOp{Del: true, Key: k})
				break
			}
		}
		if len(ks) > 0 {
			ops = append(ops, DOp{Key: ks[0]})
		}
	}
	return ops
}

func perms(n int) [][]int {
	if n == 0 {
		return [][]int{{}}
	}
	var out [][]int
	for _, p := range perms(n - 1) {
		for i := 0; i <= len(p); i++ {
			q := append([]int{}, p[:i]...)
			q = append(q, n-1)
			q = append(q, p[i:]...)
			out = append(out, q)
		}
	}
	return out
}

// distinct argument orders of a multiset of subsets
func ordersOf(masks []int) [][]int {
	seen := map[string]bool{}
	var out [][]int
	for _, p := range perms(len(masks)) {
		sig := ""
		for _, i := range p {
			sig += fmt.Sprintf("%d,", masks[i])
		}
		if !seen[sig] {
			seen[sig] = true
			out = append(out, p)
		}
	}
	return out
}

func enum(tier string) []Input {
	var out []Input
	n := 0
	add := func(masks []int, stride int) {
		n++
		if stride > 1 && n%stride != 0 {
			return
		}
		d := &DimIn{}
		for j, m := range masks {
			d.Ops = append(d.Ops, subsetOps(m, n+j))
		}
		d.Orders = ordersOf(masks)
		out = append(out, Input{Dim: d})
	}
	s3, s4 := 13, 151
	if tier == "thorough" {
		s3, s4 = 1, 1
	}
	for a := 0; a < 32; a++ {
		add([]int{a}, 1)
	}
	for a := 0; a < 32; a++ {
		for b := a; b < 32; b++ {
			add([]int{a, b}, 1)
		}
	}
	for a := 0; a < 32; a++ {
		for b := a; b < 32; b++ {
			for c := b; c < 32; c++ {
				add([]int{a, b, c}, s3)
			}
		}
	}
	for a := 0; a < 32; a++ {
		for b := a; b < 32; b++ {
			for c := b; c < 32; c++ {
				for d := c; d < 32; d++ {
					add([]int{a, b, c, d}, s4)
				}
			}
		}
	}
	return out
}

func genDim(r *rand.Rand) Input {
	nd := lib.Pick(r, []int{2, 3, 3, 4, 5, 5, 6, 8, 13})
	univ := []string{}
	nu := lib.Range(r, 3, 12)
	for i := 0; i < nu; i++ {
		var sb strings.Builder
		l := lib.Range(r, 0, 3)
		for j := 0; j < l; j++ {
			sb.WriteByte(lib.Pick(r, []byte("ab{}=,:z")))
		}
		univ = append(univ, sb.String())
	}
	d := &DimIn{}
	for i := 0; i < nd; i++ {
		var ops []DOp
		no := lib.Range(r, 0, 2*nu)
		for j := 0; j < no; j++ {
			ops = append(ops, DOp{Key: lib.Pick(r, univ), Del: lib.Chance(r, 0.15)})
		}
		if lib.Chance(r, 0.5) { // make a non-empty intersection likely
			ops = append(ops, DOp{Key: univ[0]}, DOp{Key: univ[len(univ)-1]})
		}
		if ops == nil {
			ops = []DOp{}
		}
		d.Ops = append(d.Ops, ops)
	}
	no := lib.Range(r, 1, 6)
	for i := 0; i < no; i++ {
		p := r.Perm(nd)
		if lib.Chance(r, 0.3) {
			p = p[:lib.Range(r, 0, nd)]
		}
		if lib.Chance(r, 0.1) && len(p) > 0 {
			p = append(p, p[0]) // the same dimension twice
		}
		d.Orders = append(d.Orders, p)
	}
	return Input{Dim: d}
}

var appPool = []string{"app", "ap", "app2", "b", "a.b", "zzz", "app:x", "", ""}
var tagKeys = []string{"a", "b", "c", "env"}
var tagVals = []string{"1", "2", "x", "x:y", "http://x/y.z", "a.b", "v/1", "1:2:3", ""}

type series struct {
	app  string
	tags map[string]string
	era  int
}

// words split at two positions give tag pairs whose name+value concatenations collide
var collideWords = []string{"host1:9090", "zonea/b.c", "abc", "envx.y", "k12"}

func collidingPairs(r *rand.Rand) [2][2]string {
	w := lib.Pick(r, collideWords)
	lim := strings.IndexAny(w, ":")
	if lim < 0 {
		lim = len(w)
	}
	// names are non-empty and contain no ':'
	i := lib.Range(r, 1, lim-1)
	j := lib.Range(r, i+1, lim)
	return [2][2]string{{w[:i], w[i:]}, {w[:j], w[j:]}}
}

func (s series) render(r *rand.Rand, ws bool) string {
	ks := make([]string, 0, len(s.tags))
	for k := range s.tags {
		ks = append(ks, k)
	}
	sort.Strings(ks)
	r.Shuffle(len(ks), func(i, j int) { ks[i], ks[j] = ks[j], ks[i] })
	sp := func() string {
		if ws && lib.Chance(r, 0.3) {
			return " "
		}
		return ""
	}
	if len(ks) == 0 && lib.Chance(r, 0.5) {
		return s.app
	}
	var sb strings.Builder
	sb.WriteString(sp() + s.app + sp() + "{")
	for i, k := range ks {
		if i > 0 {
			sb.WriteString(",")
		}
		sb.WriteString(sp() + k + sp() + "=" + sp() + s.tags[k] + sp())
	}
	sb.WriteString("}")
	return sb.String()
}

func (s series) canon() string {
	ks := make([]string, 0, len(s.tags))
	for k := range s.tags {
		ks = append(ks, k)
	}
	sort.Strings(ks)
	out := s.app + "{"
	for _, k := range ks {
		out += k + "=" + s.tags[k] + ","
	}
	return out + "}"
}

func genStore(r *rand.Rand) Input {
	apps := []string{lib.Pick(r, appPool)}
	for lib.Chance(r, 0.6) && len(apps) < 3 {
		apps = append(apps, lib.Pick(r, appPool))
	}
	vals := []string{lib.Pick(r, tagVals), lib.Pick(r, tagVals), lib.Pick(r, tagVals)}
	keys := tagKeys[:lib.Range(r, 2, 4)]
	// a pool of series with overlapping tag sets
	var pool []series
	seen := map[string]bool{}
	np := lib.Range(r, 3, 8)
	for tries := 0; len(pool) < np && tries < 50; tries++ {
		s := series{app: lib.Pick(r, apps), tags: map[string]string{}}
		if lib.Chance(r, 0.3) {
			s.era = 1
		}
		for _, k := range keys {
			if lib.Chance(r, 0.6) {
				s.tags[k] = lib.Pick(r, vals)
			}
		}
		if !seen[s.canon()] {
			seen[s.canon()] = true
			pool = append(pool, s)
		}
	}
	// tag pairs with colliding name+value concatenations, on one series or spread over two
	var collideKeys []string
	if lib.Chance(r, 0.35) && len(pool) >= 2 {
		cp := collidingPairs(r)
		a, b := r.Intn(len(pool)), r.Intn(len(pool))
		pool[a].tags[cp[0][0]] = cp[0][1]
		pool[b].tags[cp[1][0]] = cp[1][1]
		collideKeys = []string{cp[0][0], cp[1][0]}
	}
	sub := func(s series, p float64) series {
		q := series{app: s.app, tags: map[string]string{}}
		for k, v := range s.tags {
			if lib.Chance(r, p) {
				q.tags[k] = v
			}
		}
		return q
	}
	in := &StoreIn{}
	nops := lib.Range(r, 4, 18)
	retention := lib.Chance(r, 0.5)
	for i := 0; i < nops; i++ {
		if retention && i > 1 && lib.Chance(r, 0.15) {
			in.Ops = append(in.Ops, SOp{IsRetain: true, Retain: retainUnix})
			continue
		}
		if i > 1 && lib.Chance(r, 0.2) {
			q := sub(lib.Pick(r, pool), lib.Pick(r, []float64{0, 0.5, 1}))
			if lib.Chance(r, 0.1) {
				q.tags["a"] = "nope"
			}
			in.Ops = append(in.Ops, SOp{IsDel: true, Delete: q.render(r, true)})
			continue
		}
		j := r.Intn(len(pool))
		in.Ops = append(in.Ops, SOp{Put: pool[j].render(r, true), Stack: fmt.Sprintf("s%d", j),
			Count: uint64(lib.Range(r, 1, 9)), Slot: lib.Range(r, 0, 30), Era: pool[j].era})
	}
	// selectors: 0..4 tags in random order
	nq := lib.Range(r, 4, 9)
	for i := 0; i < nq; i++ {
		q := sub(lib.Pick(r, pool), lib.Pick(r, []float64{0, 0.3, 0.7, 1}))
		switch r.Intn(10) {
		case 0:
			q.tags[lib.Pick(r, tagKeys)] = lib.Pick(r, tagVals)
		case 1:
			q.app = lib.Pick(r, appPool)
		case 2:
			q.tags["zz"] = "1"
		}
		in.Selectors = append(in.Selectors, q.render(r, lib.Chance(r, 0.3)))
	}
	for _, a := range apps {
		in.Selectors = append(in.Selectors, a)
		in.DimNames = append(in.DimNames, "__name__:"+a)
	}
	for _, k := range keys {
		for _, v := range vals {
			in.DimNames = append(in.DimNames, k+":"+v)
		}
	}
	in.ValueKeys = append(in.ValueKeys, keys...)
	in.ValueKeys = append(in.ValueKeys, collideKeys...)
	// hide one or two of the case's applications (config HideApplications); with three applications the
	// middle one in sort order is hidden most of the time, so that others sort before and after it
	if len(apps) >= 2 && lib.Chance(r, 0.5) {
		sorted := append([]string{}, apps...)
		sort.Strings(sorted)
		h := sorted[r.Intn(len(sorted))]
		if len(sorted) >= 3 && lib.Chance(r, 0.7) {
			h = sorted[len(sorted)/2]
		}
		in.Hide = []string{h}
		if len(sorted) >= 3 && lib.Chance(r, 0.3) {
			in.Hide = append(in.Hide, sorted[0])
		}
		if lib.Chance(r, 0.3) {
			in.Hide = append(in.Hide, "never-ingested")
		}
	}
	if lib.Chance(r, 0.15) {
		at := lib.Range(r, 1, len(in.Ops))
		ops := append([]SOp{}, in.Ops[:at]...)
		ops = append(ops, SOp{IsRestart: true})
		in.Ops = append(ops, in.Ops[at:]...)
	}
	return Input{Store: in}
}

// skewed families: one dimension of 1-4 keys against dimensions of 16-60 keys over a universe of 20-60 keys,
// overlapping partially; the short one often holds a key absent from a long one immediately followed by a
// common key (the place where a lookup-based intersection must not skip); every argument order
func genDimSkewed(r *rand.Rand) Input {
	nu := lib.Range(r, 20, 60)
	univ := make([]string, nu)
	for i := range univ {
		univ[i] = fmt.Sprintf("k%02d", i)
		if lib.Chance(r, 0.2) {
			univ[i] += "x" // shared prefixes
		}
	}
	nd := lib.Range(r, 2, 4)
	ns := lib.Range(r, 1, 4)
	if ns*8 > nu-2 {
		ns = (nu - 2) / 8
	}
	// the short dimension: runs of adjacent universe keys
	shortSet := map[int]bool{}
	for len(shortSet) < ns {
		i := r.Intn(nu)
		shortSet[i] = true
		if len(shortSet) < ns && i+1 < nu && lib.Chance(r, 0.7) {
			shortSet[i+1] = true
		}
	}
	d := &DimIn{}
	var shortOps []DOp
	for _, i := range r.Perm(nu) {
		if shortSet[i] {
			shortOps = append(shortOps, DOp{Key: univ[i]})
		}
	}
	shortAt := r.Intn(nd)
	for j := 0; j < nd; j++ {
		if j == shortAt {
			d.Ops = append(d.Ops, shortOps)
			continue
		}
		// a long dimension: at least 8*ns keys (often many more); each key of the short one is in with prob 1/2
		minLen := 8 * ns
		if minLen < 16 {
			minLen = 16
		}
		if minLen > nu-1 {
			minLen = nu - 1
		}
		want := lib.Range(r, minLen, nu)
		in := map[int]bool{}
		for i := range shortSet {
			if lib.Chance(r, 0.5) {
				in[i] = true
			}
		}
		for _, i := range r.Perm(nu) {
			if len(in) >= want {
				break
			}
			if !shortSet[i] {
				in[i] = true
			}
		}
		var ops []DOp
		for _, i := range r.Perm(nu) {
			if in[i] {
				ops = append(ops, DOp{Key: univ[i]})
			}
		}
		if lib.Chance(r, 0.2) && len(ops) > 0 { // a delete that does not change the set
			ops = append(ops, DOp{Key: "zzz"}, DOp{Del: true, Key: "zzz"})
		}
		d.Ops = append(d.Ops, ops)
	}
	d.Orders = perms(nd)
	if len(d.Orders) > 6 { // 4 dimensions: 6 of the 24 orders, the short one in every position
		all := d.Orders
		r.Shuffle(len(all), func(i, j int) { all[i], all[j] = all[j], all[i] })
		var pick [][]int
		seenPos := map[int]bool{}
		for _, o := range all {
			pos := 0
			for i, x := range o {
				if x == shortAt {
					pos = i
				}
			}
			if !seenPos[pos] || len(pick) < 6 && len(all) > 0 {
				if !seenPos[pos] || len(pick) < 6 {
					pick = append(pick, o)
					seenPos[pos] = true
				}
			}
			if len(pick) >= 6 && len(seenPos) == nd {
				break
			}
		}
		d.Orders = pick
	}
	return Input{Dim: d}
}

// one application with 16-30 series and a selective tag carried by a few adjacent series (one of them outside
// the second, broad tag), plus another application sharing tag values that sorts before or after it
func genStoreBig(r *rand.Rand) Input {
	app := lib.Pick(r, []string{"app", "svc.api", "m"})
	other := lib.Pick(r, []string{"ap", "app2", "b", "zzz", "a"})
	n := lib.Range(r, 16, 30)
	sel := lib.Pick(r, []string{"x", "x:y", "v/1"})
	p := r.Intn(n - 1)
	if lib.Chance(r, 0.25) {
		p = 0
	}
	var pool []series
	for i := 0; i < n; i++ {
		s := series{app: app, tags: map[string]string{"id": fmt.Sprintf("%02d", i), "env": "prod"}}
		if lib.Chance(r, 0.12) {
			s.tags["env"] = "dev"
		}
		if i == p {
			s.tags["t"] = sel
			s.tags["env"] = "dev"
		}
		if i == p+1 || (i > p+1 && lib.Chance(r, 0.04)) {
			s.tags["t"] = sel
			s.tags["env"] = "prod"
		}
		pool = append(pool, s)
	}
	no := lib.Range(r, 1, 3)
	for i := 0; i < no; i++ {
		s := series{app: other, tags: map[string]string{"id": fmt.Sprintf("%02d", i), "env": lib.Pick(r, []string{"prod", "dev"})}}
		if i == 0 || lib.Chance(r, 0.5) {
			s.tags["t"] = sel
		}
		pool = append(pool, s)
	}
	in := &StoreIn{}
	for _, j := range r.Perm(len(pool)) {
		in.Ops = append(in.Ops, SOp{Put: pool[j].render(r, false), Stack: fmt.Sprintf("s%d", j), Count: uint64(lib.Range(r, 1, 5)),
			Slot: lib.Range(r, 0, 30)})
	}
	if lib.Chance(r, 0.3) { // one delete of a single series away from the selective ones, and its re-ingest
		j := (p + 5) % n
		in.Ops = append(in.Ops, SOp{IsDel: true, Delete: pool[j].render(r, false)})
		if lib.Chance(r, 0.5) {
			in.Ops = append(in.Ops, SOp{Put: pool[j].render(r, false), Stack: fmt.Sprintf("s%d", j), Count: 7, Slot: 3})
		}
	}
	q := func(a string, kv ...string) string {
		t := series{app: a, tags: map[string]string{}}
		for i := 0; i+1 < len(kv); i += 2 {
			t.tags[kv[i]] = kv[i+1]
		}
		return t.render(r, false)
	}
	in.Selectors = []string{q(app), q(app, "t", sel), q(app, "t", sel, "env", "prod"), q(app, "env", "prod", "t", sel),
		q(app, "t", sel, "env", "dev"), q(app, "env", "dev"), q(other, "t", sel), q(other),
		q(app, "t", sel, "env", "prod", "id", fmt.Sprintf("%02d", p+1)), q(app, "id", fmt.Sprintf("%02d", p))}
	in.ValueKeys = []string{"t", "env", "id"}
	in.DimNames = []string{"__name__:" + app, "__name__:" + other, "t:" + sel, "env:prod", "env:dev"}
	return Input{Store: in}
}

// one application of 120-300 series sharing a tag (its dimension and the __name__ dimension serialize to more
// than 4 KiB), a graceful restart in the middle, then selector checks and a re-ingest
func genStoreHuge(r *rand.Rand) Input {
	app := lib.Pick(r, []string{"app", "big.svc"})
	n := lib.Range(r, 120, 300)
	region := lib.Pick(r, []string{"us-east-1-zone-a", "eu-central-1:b/c.d"})
	var pool []series
	for i := 0; i < n; i++ {
		s := series{app: app, tags: map[string]string{"id": fmt.Sprintf("%03d", i), "region": region, "env": "prod"}}
		if i%7 == 3 {
			s.tags["env"] = "dev"
		}
		if i%50 == 10 {
			s.tags["t"] = "x"
		}
		pool = append(pool, s)
	}
	pool = append(pool, series{app: "zz", tags: map[string]string{"region": region}})
	in := &StoreIn{}
	for _, j := range r.Perm(len(pool)) {
		in.Ops = append(in.Ops, SOp{Put: pool[j].render(r, false), Stack: fmt.Sprintf("s%d", j), Count: 1, Slot: j % 30})
	}
	in.Ops = append(in.Ops, SOp{IsRestart: true})
	j := r.Intn(n)
	in.Ops = append(in.Ops, SOp{Put: pool[j].render(r, false), Stack: fmt.Sprintf("s%d", j), Count: 5, Slot: 2})
	nw := series{app: app, tags: map[string]string{"id": "new", "region": region, "env": "prod"}}
	in.Ops = append(in.Ops, SOp{Put: nw.render(r, false), Stack: "snew", Count: 9, Slot: 4})
	if lib.Chance(r, 0.5) {
		in.Ops = append(in.Ops, SOp{IsDel: true, Delete: pool[(j+1)%n].render(r, false)})
	}
	q := func(a string, kv ...string) string {
		t := series{app: a, tags: map[string]string{}}
		for i := 0; i+1 < len(kv); i += 2 {
			t.tags[kv[i]] = kv[i+1]
		}
		return t.render(r, false)
	}
	in.Selectors = []string{q(app), q(app, "region", region), q(app, "env", "dev", "region", region), q(app, "t", "x", "region", region),
		q("zz", "region", region), q(app, "id", fmt.Sprintf("%03d", j))}
	in.ValueKeys = []string{"env", "t", "region"}
	in.DimNames = []string{"__name__:" + app, "region:" + region, "env:dev", "t:x"}
	return Input{Store: in}
}

// long tag values of the kind the property names (':' '/' '.'): URLs, host:port, dotted names
var longVals = []string{
	"http://service.internal.example.com:8080/api/v1/profiles/upload",
	"https://eu-central-1.compute.example.org/region/zone-b/instance/0123456789",
	"node-17.rack-4.dc-2.prod.example.net:9090",
	"com.example.profiling.pipeline.ingest.worker.Main",
	"/var/lib/service/releases/2021.04.01-rc3/bin/server",
}

// series whose normalized key is 100-300 bytes long, with short siblings sharing the application or a tag value;
// the dimensions go to disk and come back (restart or eviction of the dimensions cache) before the queries, and
// more series are ingested afterwards
func genStoreLong(r *rand.Rand) Input {
	apps := []string{lib.Pick(r, []string{"svc", "app", "frontend.web"}), lib.Pick(r, []string{"other", "b", "zz"})}
	lkeys := []string{"url", "host", "class", "path"}
	var pool []series
	nl := lib.Range(r, 1, 3)
	for i := 0; i < nl; i++ {
		s := series{app: apps[0], tags: map[string]string{"zone": lib.Pick(r, []string{"a", "b"})}}
		nt := lib.Range(r, 2, 4)
		for _, k := range lkeys[:nt] {
			s.tags[k] = lib.Pick(r, longVals)
		}
		if lib.Chance(r, 0.3) { // push some keys beyond 255 bytes
			s.tags["extra"] = lib.Pick(r, longVals) + "/" + lib.Pick(r, longVals)
		}
		pool = append(pool, s)
	}
	// short siblings: same application, same zone; another application sharing zone and one long value
	pool = append(pool, series{app: apps[0], tags: map[string]string{"zone": "a"}})
	pool = append(pool, series{app: apps[0], tags: map[string]string{"zone": "b", "id": "1"}})
	pool = append(pool, series{app: apps[1], tags: map[string]string{"zone": "a"}})
	pool = append(pool, series{app: apps[1], tags: map[string]string{"zone": "b", "url": pool[0].tags["url"]}})
	in := &StoreIn{}
	half := len(pool) - 2
	put := func(j int) {
		in.Ops = append(in.Ops, SOp{Put: pool[j].render(r, false), Stack: fmt.Sprintf("s%d", j), Count: uint64(lib.Range(r, 1, 5)), Slot: lib.Range(r, 0, 30)})
	}
	for _, j := range r.Perm(half) {
		put(j)
	}
	cycle := func() {
		if lib.Chance(r, 0.5) {
			in.Ops = append(in.Ops, SOp{IsRestart: true})
		} else {
			in.Ops = append(in.Ops, SOp{IsEvict: true})
		}
	}
	cycle()
	for j := half; j < len(pool); j++ { // ingests after the dimensions came back from disk
		put(j)
	}
	put(r.Intn(half))
	if lib.Chance(r, 0.5) {
		cycle()
	}
	q := func(a string, kv ...string) string {
		t := series{app: a, tags: map[string]string{}}
		for i := 0; i+1 < len(kv); i += 2 {
			t.tags[kv[i]] = kv[i+1]
		}
		return t.render(r, false)
	}
	in.Selectors = []string{q(apps[0]), q(apps[1]), q(apps[0], "zone", "a"), q(apps[0], "zone", "b"), q(apps[1], "zone", "a"), q(apps[1], "zone", "b"),
		q(apps[0], "url", pool[0].tags["url"]), q(apps[1], "url", pool[0].tags["url"]), pool[0].render(r, false)}
	in.ValueKeys = []string{"zone", "url", "host"}
	in.DimNames = []string{"__name__:" + apps[0], "__name__:" + apps[1], "zone:a", "zone:b", "url:" + pool[0].tags["url"]}
	return Input{Store: in}
}

// dimensions whose keys are 100-300 bytes long (lengths around 127/128 and 255/256 included)
func genDimLong(r *rand.Rand) Input {
	nu := lib.Range(r, 3, 8)
	univ := make([]string, nu)
	for i := range univ {
		n := lib.Pick(r, []int{100, 126, 127, 128, 129, 200, 254, 255, 256, 257, 300})
		if lib.Chance(r, 0.3) {
			n = lib.Range(r, 100, 300)
		}
		b := []byte(fmt.Sprintf("app{url=%s,n=%d", lib.Pick(r, longVals), i))
		for len(b) < n-1 {
			b = append(b, lib.Pick(r, []byte("abc./:")))
		}
		univ[i] = string(b[:n-1]) + "}"
	}
	nd := lib.Range(r, 1, 3)
	d := &DimIn{}
	for j := 0; j < nd; j++ {
		ops := []DOp{}
		for _, i := range r.Perm(nu) {
			if lib.Chance(r, 0.6) {
				ops = append(ops, DOp{Key: univ[i]})
			}
		}
		if len(ops) == 0 {
			ops = append(ops, DOp{Key: univ[0]})
		}
		d.Ops = append(d.Ops, ops)
	}
	d.Orders = perms(nd)
	return Input{Dim: d}
}

// the write-back of the dimensions cache lands inside the Put of a series that is new to its dimensions (a fresh
// tag value), right after a restart (so the cache holds only this Put's dimensions); nothing touches those
// dimensions afterwards; restart or eviction; then the selectors on that tag
func genStoreTick(r *rand.Rand) Input {
	app := lib.Pick(r, []string{"app", "svc.api"})
	in := &StoreIn{}
	hosts := []string{"h1", "h2", "h3:9090", "h4/x.y"}
	nb := lib.Range(r, 1, 2)
	for i := 0; i < nb; i++ {
		in.Ops = append(in.Ops, SOp{Put: fmt.Sprintf("%s{env=prod,host=%s}", app, hosts[i]), Stack: fmt.Sprintf("s%d", i), Count: uint64(1 + i), Slot: i})
	}
	in.Ops = append(in.Ops, SOp{Put: "other{env=prod}", Stack: "so", Count: 7, Slot: 3})
	in.Ops = append(in.Ops, SOp{IsRestart: true})
	nh := hosts[nb]
	in.Ops = append(in.Ops, SOp{Put: fmt.Sprintf("%s{env=prod,host=%s}", app, nh), Stack: "snew", Count: 30, Slot: 5, Tick: true})
	if lib.Chance(r, 0.5) {
		in.Ops = append(in.Ops, SOp{IsRestart: true})
	} else {
		in.Ops = append(in.Ops, SOp{IsEvict: true})
	}
	in.Selectors = []string{app, app + "{env=prod}", fmt.Sprintf("%s{host=%s}", app, nh), fmt.Sprintf("%s{env=prod,host=%s}", app, nh),
		fmt.Sprintf("%s{host=%s,env=prod}", app, nh), fmt.Sprintf("%s{host=h1}", app), "other", "other{env=prod}"}
	in.ValueKeys = []string{"host", "env"}
	in.DimNames = []string{"__name__:" + app, "env:prod", "host:" + nh}
	return Input{Store: in}
}

func gen(r *rand.Rand, idx int, tier string) Input {
	switch {
	case idx%40 == 8:
		return genStoreTick(r)
	case idx%100 == 50:
		return genConc(r)
	case idx%40 == 4:
		return genStoreLong(r)
	case idx%40 == 6:
		return genDimLong(r)
	case idx%400 == 12:
		return genStoreHuge(r)
	case idx%20 == 0:
		return genStoreBig(r)
	case idx%4 == 0:
		return genStore(r)
	case idx%8 == 1:
		return genDimSkewed(r)
	}
	return genDim(r)
}

func main() {
	logrus.SetLevel(logrus.PanicLevel)
	lib.Main(lib.Harness[Input]{Prop: "C07", Quick: 1000, Thorough: 8000, Gen: gen, Enum: enum, Run: run})
}
