//go:build verif

// c14: reloading a segment (Bytes -> FromBytes) changes nothing observable.
// Dump only: build a segment by writes and retention cuts, save, load into a second Segment,
// apply the same operations to both, dump all callbacks, timelines, getters, trees and bytes.
package main

import (
	"bytes"
	"fmt"
	"math/rand"
	"time"
	"unicode/utf8"

	"github.com/pyroscope-io/pyroscope/pkg/storage/segment"
	"verifharness/lib"
	"verifharness/lib/segu"
)

// Metadata strings are byte slices (base64 in the input JSON): they may hold invalid UTF-8, which a
// JSON string could not carry faithfully into a replay.
type Meta struct {
	Spy   []byte `json:"spy"`
	Rate  uint32 `json:"rate"`
	Units []byte `json:"units"`
	Agg   []byte `json:"agg"`
}

type Op struct {
	Kind string     `json:"k"` // put | get | del | tl | meta | setmeta | cser
	W    segu.Write `json:"w,omitempty"`
	Q    segu.Query `json:"q,omitempty"`
	Thr  int64      `json:"thr,omitempty"`
	Z    int        `json:"z,omitempty"`  // location of the threshold time value (see segu.T)
	M    *Meta      `json:"m,omitempty"`  // setmeta
	K    int        `json:"kw,omitempty"` // cser: the Write call of Serialize at which the concurrent Put is started
}

// Build may contain setmeta ops (Storage.Put calls SetMetadata before every Segment.Put); Meta is the
// last SetMetadata before the save.
type Input struct {
	Build []Op `json:"build"`
	Meta  Meta `json:"meta"`
	Ops   []Op `json:"ops"`
}

// oneFieldChanged returns m with exactly one of the four fields replaced by a different value.
func oneFieldChanged(r *rand.Rand, m Meta, field, class int) Meta {
	n := m
	differ := func(old []byte) []byte {
		for i := 0; i < 20; i++ {
			if v := pickName(r, class); string(v) != string(old) {
				return v
			}
		}
		return append(append([]byte{}, old...), 'x')
	}
	switch field {
	case 0:
		n.Spy = differ(m.Spy)
	case 1:
		n.Rate = m.Rate + uint32(1+r.Intn(1000))
	case 2:
		n.Units = differ(m.Units)
	default:
		n.Agg = differ(m.Agg)
	}
	return n
}

var names = []string{"", "gospy", "ebpfspy", "samples", "objects", "bytes", "sum", "average", "sp\"y", "ünïts", "a b", "x\\y"}

// valid but exotic: characters encoding/json escapes, NUL, line separators, non-BMP, a genuine U+FFFD
var exotic = []string{"<>&\"\\", "a\u2028b\u2029", "a\x00b", "\U0001F600spy", "\ufffd", "\x7f\t\n", "é\u0301ü", "\b\f\r\x1f\x01/", "\\u0041\\n", "\U0010FFFF\uFFFF\u07ff\u0800"}

// invalid UTF-8 (spy name and units arrive as URL query parameters: a client can send these)
var invalid = []string{"go\xffspy", "un\xfeits", "\xc3", "\xe2\x82", "a\xed\xa0\x80b", "\xf4\x90\x80\x80", "\xc0\xaf", "ok\x80", "\xf0\x9f\x98"}

func pickName(r *rand.Rand, class int) []byte {
	switch class {
	case 1:
		return []byte(lib.Pick(r, exotic))
	case 2:
		return []byte(lib.Pick(r, invalid))
	}
	return []byte(lib.Pick(r, names))
}

func randThr(r *rand.Rand, w segu.Window) int64 {
	x := w.Lo + r.Int63n(w.Size+1)
	switch r.Intn(4) {
	case 0:
		x -= ((x % 10) + 10) % 10
	case 1:
		x -= ((x % 100) + 100) % 100
	}
	u := segu.SlotUnix(x)
	if lib.Chance(r, 0.3) {
		u += int64(r.Intn(10))
	}
	return u
}

func randQuery(r *rand.Rand, w segu.Window) segu.Query {
	a := w.Lo - 5 + r.Int63n(w.Size+10)
	b := a + 1 + r.Int63n(w.Size+5)
	if lib.Chance(r, 0.3) {
		a -= ((a % 10) + 10) % 10
		b += 10 - ((b%10)+10)%10
	}
	if lib.Chance(r, 0.25) { // exactly one bucket wide, on the grid
		g := segu.Pow10(r.Intn(3))
		a -= ((a % g) + g) % g
		b = a + g
	}
	return segu.Query{St: segu.SlotUnix(a), Et: segu.SlotUnix(b), Zs: segu.RandZone(r), Ze: segu.RandZone(r)}
}

func gen(r *rand.Rand, idx int, tier string) Input {
	var in Input
	var size int64
	switch r.Intn(5) {
	case 0:
		size = int64(lib.Range(r, 12, 40))
	case 1:
		size = int64(lib.Range(r, 41, 150))
	default:
		size = int64(lib.Range(r, 151, 1200))
	}
	level := 1 + r.Intn(3)
	w := segu.RandWindow(r, size, level)
	nb := lib.Range(r, 1, 8)
	cuts := 0
	if lib.Chance(r, 0.7) {
		cuts = lib.Range(r, 1, 2)
	}
	for i := 0; i < nb; i++ {
		in.Build = append(in.Build, Op{Kind: "put", W: segu.RandWrite(r, w, size)})
		if cuts > 0 && i >= 1 && lib.Chance(r, 0.5) {
			in.Build = append(in.Build, Op{Kind: "del", Thr: randThr(r, w), Z: segu.RandZone(r)})
			cuts--
		}
	}
	// always end the build phase with a write so that the saved segment is non-empty
	in.Build = append(in.Build, Op{Kind: "put", W: segu.RandWrite(r, w, 30)})
	// metadata streams: plain (70%), valid-but-exotic control stream (20%), invalid UTF-8 (10%, known finding)
	class := 0
	if x := r.Intn(10); x >= 9 {
		class = 2
	} else if x >= 7 {
		class = 1
	}
	pc := func() int { // in the exotic/invalid streams at least one field is of that class
		if class != 0 && lib.Chance(r, 0.6) {
			return class
		}
		return 0
	}
	in.Meta = Meta{Spy: pickName(r, pc()), Rate: uint32(r.Int63n(1 << 32)), Units: pickName(r, pc()), Agg: pickName(r, pc())}
	if class != 0 {
		switch r.Intn(3) {
		case 0:
			in.Meta.Spy = pickName(r, class)
		case 1:
			in.Meta.Units = pickName(r, class)
		default:
			in.Meta.Agg = pickName(r, class)
		}
	}
	if lib.Chance(r, 0.5) {
		in.Meta.Rate = uint32(lib.Pick(r, []int{0, 1, 100, 1000}))
	}
	// long metadata (4% of the cases): the length-prefixed JSON block must survive when it is longer than the
	// 4096-byte bufio buffer Deserialize wraps around its input (lengths around 2 KB, 4 KB, 8 KB, up to ~10 KB,
	// in one field or spread over several), with small and large trees alike
	if lib.Chance(r, 0.04) {
		long := func(n int) []byte {
			b := make([]byte, 0, n+8)
			for len(b) < n {
				switch r.Intn(40) {
				case 0:
					b = append(b, '"')
				case 1:
					b = append(b, []byte("é")...)
				case 2:
					b = append(b, '<')
				default:
					b = append(b, byte('a'+r.Intn(26)))
				}
			}
			return b
		}
		n := lib.Pick(r, []int{2000, 3900, 4000, 4030, 4060, 4090, 4096, 4100, 4200, 5000, 8100, 8192, 8300, 10000})
		switch r.Intn(5) {
		case 0:
			in.Meta.Spy = long(n)
		case 1:
			in.Meta.Units = long(n)
		case 2:
			in.Meta.Agg = long(n)
		case 3: // the demo's shape: long spy name and long units
			in.Meta.Spy, in.Meta.Units = long(n*2/3), long(n/3)
		default:
			in.Meta.Spy, in.Meta.Units, in.Meta.Agg = long(n/3), long(n/3), long(n/3)
		}
	}
	// several SetMetadata calls before the save, each changing exactly one field of the previous call
	// (all four fields in turn, random order), interleaved with the writes as Storage.Put does
	{
		order := r.Perm(4)
		nm := lib.Range(r, 1, 4)
		seq := []Meta{in.Meta}
		for i := 0; i < nm; i++ {
			seq = append(seq, oneFieldChanged(r, seq[len(seq)-1], order[i%4], class))
		}
		in.Meta = seq[len(seq)-1] // the last one is what is saved
		var nb []Op
		k := 0
		for _, op := range in.Build {
			if op.Kind == "put" && k < len(seq)-1 && lib.Chance(r, 0.7) {
				m := seq[k]
				nb = append(nb, Op{Kind: "setmeta", M: &m})
				k++
			}
			nb = append(nb, op)
		}
		for ; k < len(seq)-1; k++ { // the rest back to back right before the save
			m := seq[k]
			nb = append(nb, Op{Kind: "setmeta", M: &m})
		}
		in.Build = nb
	}
	no := lib.Range(r, 3, 10)
	for i := 0; i < no; i++ {
		switch r.Intn(8) {
		case 0, 1, 2:
			// later writes may also fall outside the window (tree grows after reload)
			ww := w
			if lib.Chance(r, 0.2) {
				ww.Lo += int64(r.Intn(3000)) - 1500
			}
			in.Ops = append(in.Ops, Op{Kind: "put", W: segu.RandWrite(r, ww, size)})
		case 3, 4:
			in.Ops = append(in.Ops, Op{Kind: "get", Q: randQuery(r, w)})
		case 5:
			in.Ops = append(in.Ops, Op{Kind: "del", Thr: randThr(r, w), Z: segu.RandZone(r)})
		case 6:
			q := randQuery(r, w)
			if lib.Chance(r, 0.4) { // long ranges: coarser timeline buckets
				q.Et = q.St + int64(lib.Pick(r, []int{10240, 20000, 102400, 300000, 2000000}))
			}
			in.Ops = append(in.Ops, Op{Kind: "tl", Q: q})
		default:
			in.Ops = append(in.Ops, Op{Kind: "meta"})
		}
		if lib.Chance(r, 0.08) { // save the original while a write arrives part-way through the stream
			in.Ops = append(in.Ops, Op{Kind: "cser", W: segu.RandWrite(r, w, size), K: lib.Range(r, 3, 60)})
		}
		if lib.Chance(r, 0.15) { // SetMetadata on both copies after the reload, one field changed, then look
			m := oneFieldChanged(r, in.Meta, r.Intn(4), class)
			in.Ops = append(in.Ops, Op{Kind: "setmeta", M: &m}, Op{Kind: "meta"})
		}
	}
	return in
}

func coqW(w segu.Write, cbs []segu.PutCB) string {
	nst, net := segment.VerifNormalize(segu.T(w.St, w.Zs), segu.T(w.Et, w.Ze))
	return "(OW " + lib.Z(w.St) + " " + lib.Z(w.Et) + " " + lib.N(w.Samples) + " " + lib.Z(nst.Unix()) + " " + lib.Z(net.Unix()) + " " + segu.CoqPutCBs(cbs) + ")"
}

func coqQ(q segu.Query, g []segu.GetCB) string {
	return "(OQ " + lib.Z(q.St) + " " + lib.Z(q.Et) + " " + segu.CoqGetCBs(g) + ")"
}

func del(s *segment.Segment, thr int64, z int) (string, bool) {
	var items []string
	gone := s.DeleteDataBefore(segu.T(thr, z), func(depth int, t time.Time) {
		items = append(items, lib.Pair(lib.Nat(depth), lib.Z(t.Unix())))
	})
	return lib.List(items), gone
}

// hookWriter collects what Serialize writes and calls fire() once, before its k-th Write.
type hookWriter struct {
	buf   bytes.Buffer
	n, k  int
	fired bool
	fire  func()
}

func (h *hookWriter) Write(p []byte) (int, error) {
	h.n++
	if h.n == h.k && !h.fired {
		h.fired = true
		h.fire()
	}
	return h.buf.Write(p)
}

func coqMetaIn(m Meta) string {
	return "(" + lib.Bytes(m.Spy) + ", " + lib.N(uint64(m.Rate)) + ", " + lib.Bytes(m.Units) + ", " + lib.Bytes(m.Agg) + ")"
}

func coqMeta(s *segment.Segment) string {
	return "(" + lib.Bytes([]byte(s.SpyName())) + ", " + lib.N(uint64(s.SampleRate())) + ", " + lib.Bytes([]byte(s.Units())) + ", " + lib.Bytes([]byte(s.AggregationType())) + ")"
}

func coqTL(s *segment.Segment, q segu.Query) string {
	tl := segment.GenerateTimeline(segu.T(q.St, q.Zs), segu.T(q.Et, q.Ze))
	tl.PopulateTimeline(s)
	items := make([]string, len(tl.Samples))
	for i, v := range tl.Samples {
		items[i] = lib.N(v)
	}
	return "(" + lib.Z(tl.StartTime) + ", " + lib.List(items) + ", " + lib.Z(tl.DurationDeltaNormalized) + ")"
}

func run(in Input) (res lib.Result) {
	defer func() {
		if r := recover(); r != nil {
			res = lib.Result{Crash: fmt.Sprintf("panic: %v", r)}
		}
	}()
	s0 := segment.New()
	var build []string
	ncuts, nset := 0, 0
	for _, op := range in.Build {
		switch op.Kind {
		case "put":
			build = append(build, "BPut "+coqW(op.W, segu.Put(s0, op.W)))
		case "del":
			cbs, gone := del(s0, op.Thr, op.Z)
			build = append(build, "BDel "+lib.Z(op.Thr)+" "+cbs+" "+lib.Bool(gone))
			ncuts++
		case "setmeta":
			s0.SetMetadata(string(op.M.Spy), op.M.Rate, string(op.M.Units), string(op.M.Agg))
			build = append(build, "BSetMeta "+coqMetaIn(*op.M))
			nset++
		}
	}
	s0.SetMetadata(string(in.Meta.Spy), in.Meta.Rate, string(in.Meta.Units), string(in.Meta.Agg))
	dump0 := s0.VerifDump()
	b0, err := s0.Bytes()
	if err != nil {
		return lib.Result{Crash: "Bytes: " + err.Error()}
	}
	s1, err := segment.FromBytes(b0)
	loaded := err == nil
	if !loaded {
		s1 = segment.New()
	}
	dump1 := s1.VerifDump()
	meta1 := coqMeta(s1)
	rb, _ := s1.Bytes()

	var ops []string
	kinds := map[string]int{}
	for _, op := range in.Ops {
		kinds[op.Kind]++
		switch op.Kind {
		case "put":
			ops = append(ops, "DPut "+coqW(op.W, segu.Put(s0, op.W))+" "+coqW(op.W, segu.Put(s1, op.W)))
		case "get":
			ops = append(ops, "DGet "+coqQ(op.Q, segu.Get(s0, op.Q))+" "+coqQ(op.Q, segu.Get(s1, op.Q)))
		case "del":
			c0, g0 := del(s0, op.Thr, op.Z)
			c1, g1 := del(s1, op.Thr, op.Z)
			ops = append(ops, "DDel "+lib.Z(op.Thr)+" "+c0+" "+c1+" "+lib.Bool(g0)+" "+lib.Bool(g1))
		case "tl":
			ops = append(ops, "DTimeline "+lib.Z(op.Q.St)+" "+lib.Z(op.Q.Et)+" "+coqTL(s0, op.Q)+" "+coqTL(s1, op.Q))
		case "meta":
			ops = append(ops, "DMeta "+coqMeta(s0)+" "+coqMeta(s1))
		case "setmeta":
			s0.SetMetadata(string(op.M.Spy), op.M.Rate, string(op.M.Units), string(op.M.Agg))
			s1.SetMetadata(string(op.M.Spy), op.M.Rate, string(op.M.Units), string(op.M.Agg))
			ops = append(ops, "DSetMeta "+coqMetaIn(*op.M))
		case "cser":
			// Serialize the original into a writer that, at its K-th Write, lets another goroutine Put into the
			// same segment and gives it 20 ms (with the lock held by Serialize the Put simply waits); the saved
			// bytes must be the state before the Put or after it, never a mixture.  The copy gets a plain Put.
			before := s0.VerifDump()
			var cbs0 []segu.PutCB
			done := make(chan struct{})
			hw := &hookWriter{k: op.K, fire: func() {
				go func() { cbs0 = segu.Put(s0, op.W); close(done) }()
				select {
				case <-done:
				case <-time.After(20 * time.Millisecond):
				}
			}}
			_ = s0.Serialize(hw)
			if !hw.fired {
				hw.fired = true
				hw.fire()
			}
			<-done
			after := s0.VerifDump()
			dec := "None"
			okLoad := false
			if sd, err := segment.FromBytes(hw.buf.Bytes()); err == nil {
				okLoad = true
				dec = segu.CoqTree(sd.VerifDump())
			}
			ops = append(ops, "DConcSer "+coqW(op.W, cbs0)+" "+coqW(op.W, segu.Put(s1, op.W))+" "+segu.CoqTree(before)+" "+segu.CoqTree(after)+
				" "+lib.Bool(okLoad)+" "+dec+" "+lib.Bytes(hw.buf.Bytes()))
		}
	}
	e0, e1 := s0.VerifDump(), s1.VerifDump()
	eb0, _ := s0.Bytes()
	eb1, _ := s1.Bytes()
	metaIn := "(" + lib.Bytes(in.Meta.Spy) + ", " + lib.N(uint64(in.Meta.Rate)) + ", " + lib.Bytes(in.Meta.Units) + ", " + lib.Bytes(in.Meta.Agg) + ")"
	metaClass := "valid-plain"
	for _, b := range [][]byte{in.Meta.Spy, in.Meta.Units, in.Meta.Agg} {
		if !utf8.Valid(b) {
			metaClass = "invalid-utf8"
			break
		}
		for _, c := range string(b) {
			if c < 0x20 || c > 0x7e || c == '<' || c == '>' || c == '&' || c == '"' || c == '\\' {
				metaClass = "valid-exotic"
			}
		}
	}
	coq := "{| d_build := " + lib.List(build) + "; d_meta := " + metaIn +
		"; d_tree0 := " + segu.CoqTree(dump0) + "; d_bytes := " + lib.Bytes(b0) + "; d_loaded := " + lib.Bool(loaded) +
		"; d_tree1 := " + segu.CoqTree(dump1) + "; d_meta1 := " + meta1 + "; d_rebytes := " + lib.Bytes(rb) +
		"; d_ops := " + lib.List(ops) + "; d_end0 := " + segu.CoqTree(e0) + "; d_end1 := " + segu.CoqTree(e1) +
		"; d_endbytes0 := " + lib.Bytes(eb0) + "; d_endbytes1 := " + lib.Bytes(eb1) + " |}"
	nodes, levels, _ := segu.TreeStats(dump0)
	return lib.Result{
		Coq:        coq,
		NonTrivial: levels >= 3 && ncuts >= 1 && len(in.Ops) >= 3,
		Feat: map[string]interface{}{"levels": levels, "nodes": nodes, "cuts": ncuts, "ops": len(in.Ops), "op_kinds": kinds, "bytes": len(b0), "meta_class": metaClass, "setmeta_before_save": nset + 1,
			"meta_len": len(in.Meta.Spy) + len(in.Meta.Units) + len(in.Meta.Agg)},
		Obs: map[string]interface{}{"bytes": len(b0), "nodes": nodes, "levels": levels},
	}
}

func main() {
	lib.Main(lib.Harness[Input]{Prop: "C14", Quick: 400, Thorough: 3000, Gen: gen, Run: run})
}
