//go:build verif

// c17: time expressions (attime), durations (pkg/util/duration vs time.ParseDuration), sizes (bytesize),
// and the glue around them (/render from/until, cli.PopulateFlagSet). Dump only, no oracle.
package main

import (
	"encoding/hex"
	"encoding/json"
	"flag"
	"fmt"
	"io"
	"math"
	"math/big"
	"math/rand"
	"net/http"
	"net/http/httptest"
	"net/url"
	"os"
	"reflect"
	"strconv"
	"strings"
	"sync"
	"time"

	"github.com/peterbourgon/ff/v3"
	"github.com/peterbourgon/ff/v3/ffyaml"
	"github.com/sirupsen/logrus"

	"github.com/pyroscope-io/pyroscope/pkg/cli"
	"github.com/pyroscope-io/pyroscope/pkg/config"
	"github.com/pyroscope-io/pyroscope/pkg/server"
	"github.com/pyroscope-io/pyroscope/pkg/storage"
	"github.com/pyroscope-io/pyroscope/pkg/storage/tree"
	"github.com/pyroscope-io/pyroscope/pkg/util/attime"
	"github.com/pyroscope-io/pyroscope/pkg/util/bytesize"
	"github.com/pyroscope-io/pyroscope/pkg/util/duration"
	"verifharness/lib"
)

// ---------- input format ----------

// Bs is a byte string: JSON string when printable ASCII, "hex:.." otherwise.
type Bs []byte

func (b Bs) MarshalJSON() ([]byte, error) {
	printable := true
	for _, c := range b {
		if c < 32 || c > 126 {
			printable = false
		}
	}
	if printable && !strings.HasPrefix(string(b), "hex:") {
		return json.Marshal(string(b))
	}
	return json.Marshal("hex:" + hex.EncodeToString(b))
}

func (b *Bs) UnmarshalJSON(d []byte) error {
	var s string
	if err := json.Unmarshal(d, &s); err != nil {
		return err
	}
	if strings.HasPrefix(s, "hex:") {
		x, err := hex.DecodeString(s[4:])
		if err != nil {
			return err
		}
		*b = x
		return nil
	}
	*b = []byte(s)
	return nil
}

type Term struct {
	Num  Bs  `json:"num"`
	Frac *Bs `json:"frac,omitempty"`
	Unit Bs  `json:"unit"`
}

// Expr is the structured expression a string was rendered from.
type Expr struct {
	X      string `json:"x"` // at: digits | rel ; dur: terms ; size: num | reject
	Digits Bs     `json:"digits,omitempty"`
	Ref    Bs     `json:"ref,omitempty"`
	Sign   int    `json:"sign,omitempty"` // 0 | '+' | '-'
	Terms  []Term `json:"terms,omitempty"`
	WS     Bs     `json:"ws,omitempty"`
}

type Input struct {
	Kind  string `json:"kind"` // at | dur | size | print | render | cli
	S     Bs     `json:"s,omitempty"`
	E     *Expr  `json:"e,omitempty"`
	B     int64  `json:"b,omitempty"`
	From  Bs     `json:"from,omitempty"`
	Until Bs     `json:"until,omitempty"`
	EF    *Expr  `json:"ef,omitempty"`
	EU    *Expr  `json:"eu,omitempty"`
	How   int    `json:"how,omitempty"` // cli: 0 default tag, 1 flag, 2 env, 3 config file
	Name  string `json:"name,omitempty"` // ingest: the fresh series the upload goes to
	Off   int64  `json:"off,omitempty"`  // ingest: where the generator expects a relative argument to land (now + Off s); only used to choose a probe
	IsDur bool   `json:"isdur,omitempty"`
}

// ---------- Coq printers ----------

func cb(b []byte) string { return lib.Bytes(b) }

func zbig(b *big.Int) string {
	if b.Sign() < 0 {
		return "(" + b.String() + ")%Z"
	}
	return b.String() + "%Z"
}

func nsOf(t time.Time) string {
	b := new(big.Int).Mul(big.NewInt(t.Unix()), big.NewInt(1000000000))
	b.Add(b, big.NewInt(int64(t.Nanosecond())))
	return zbig(b)
}

func optZ(ok bool, v int64) string {
	if !ok {
		return "None"
	}
	return lib.Some(lib.Z(v))
}

func coqAt(e *Expr) string {
	if e == nil {
		return "AXNone"
	}
	switch e.X {
	case "digits":
		return "(AXDigits " + cb(e.Digits) + ")"
	case "rel":
		ts := make([]string, len(e.Terms))
		for i, t := range e.Terms {
			ts[i] = lib.Pair(cb(t.Num), cb(t.Unit))
		}
		return "(AXRel " + cb(e.Ref) + " " + strconv.Itoa(e.Sign) + " " + lib.List(ts) + ")"
	}
	return "AXNone"
}

func coqDur(e *Expr) string {
	if e == nil || e.X != "terms" {
		return "DXNone"
	}
	ts := make([]string, len(e.Terms))
	for i, t := range e.Terms {
		fr := "None"
		if t.Frac != nil {
			fr = lib.Some(cb(*t.Frac))
		}
		ts[i] = "(" + cb(t.Num) + ", " + fr + ", " + cb(t.Unit) + ")"
	}
	return "(DXTerms " + strconv.Itoa(e.Sign) + " " + lib.List(ts) + ")"
}

func coqSize(e *Expr) string {
	if e == nil {
		return "SXNone"
	}
	switch e.X {
	case "reject":
		return "SXReject"
	case "num":
		t := e.Terms[0]
		fr := "None"
		if t.Frac != nil {
			fr = lib.Some(cb(*t.Frac))
		}
		return "(SXNum " + cb(t.Num) + " " + fr + " " + cb(e.WS) + " " + cb(t.Unit) + ")"
	}
	return "SXNone"
}

// ---------- rendering of structured expressions ----------

func renderRel(e *Expr) []byte {
	var b []byte
	b = append(b, e.Ref...)
	b = append(b, byte(e.Sign))
	for _, t := range e.Terms {
		b = append(b, t.Num...)
		b = append(b, t.Unit...)
	}
	return b
}

func renderDur(e *Expr) []byte {
	var b []byte
	if e.Sign != 0 {
		b = append(b, byte(e.Sign))
	}
	for _, t := range e.Terms {
		b = append(b, t.Num...)
		if t.Frac != nil {
			b = append(b, '.')
			b = append(b, *t.Frac...)
		}
		b = append(b, t.Unit...)
	}
	return b
}

func renderSize(e *Expr) []byte {
	t := e.Terms[0]
	var b []byte
	b = append(b, t.Num...)
	if t.Frac != nil {
		b = append(b, '.')
		b = append(b, *t.Frac...)
	}
	b = append(b, e.WS...)
	b = append(b, t.Unit...)
	return b
}

// insert separators (which attime ignores) at random places, and white space around
func sprinkle(r *rand.Rand, s []byte) []byte {
	var out []byte
	if lib.Chance(r, 0.3) {
		out = append(out, lib.Pick(r, []string{" ", "\t", "  ", "\n", " ", " "})...)
	}
	for _, c := range s {
		if lib.Chance(r, 0.12) {
			out = append(out, lib.Pick(r, []byte{'_', ',', ' '}))
		}
		out = append(out, c)
	}
	if lib.Chance(r, 0.3) {
		out = append(out, lib.Pick(r, []string{" ", "\t", "\r\n", "　", "_", ","})...)
	}
	return out
}

// ---------- generators ----------

var docUnits = []string{"s", "sec", "secs", "second", "seconds", "min", "mins", "minute", "minutes", "h", "hour", "hours",
	"d", "day", "days", "w", "week", "weeks", "mon", "month", "months", "y", "year", "years"}
var otherUnits = []string{"m", "M", "ms", "hrs", "H", "S", "x", "Min", "Mon", "mo", "yr", "wk", "us", "µs"}

func digitsOf(r *rand.Rand) []byte {
	switch r.Intn(10) {
	case 0:
		return []byte("0")
	case 1:
		return []byte(fmt.Sprintf("0%d", r.Intn(100)))
	case 2:
		return []byte(strconv.Itoa(r.Intn(100000)))
	default:
		return []byte(strconv.Itoa(r.Intn(100)))
	}
}

func genRel(r *rand.Rand, doc bool) *Expr {
	e := &Expr{X: "rel", Ref: Bs(lib.Pick(r, []string{"now", "now", ""})), Sign: int(lib.Pick(r, []byte{'+', '-', '-'}))}
	n := lib.Range(r, 1, 4)
	for i := 0; i < n; i++ {
		u := lib.Pick(r, docUnits)
		if !doc && lib.Chance(r, 0.5) {
			u = lib.Pick(r, otherUnits)
		}
		num := digitsOf(r)
		if strings.HasPrefix(u, "y") || strings.HasPrefix(u, "mo") || strings.HasPrefix(u, "M") {
			num = []byte(strconv.Itoa(r.Intn(50)))
		}
		e.Terms = append(e.Terms, Term{Num: num, Unit: Bs(u)})
	}
	return e
}

func dateDigits(r *rand.Rand) []byte {
	y := lib.Pick(r, []int{0, 1, 1899, 1900, 1901, 1969, 1970, 2000, 2021, 2023, 2024, 2100, 2400, 9999})
	m := lib.Pick(r, []int{0, 1, 2, 2, 2, 3, 4, 6, 9, 11, 12, 13, 19, 99})
	d := lib.Pick(r, []int{0, 1, 15, 28, 29, 30, 31, 32, 99})
	return []byte(fmt.Sprintf("%04d%02d%02d", y, m, d))
}

func genDigits(r *rand.Rand) []byte {
	switch r.Intn(12) {
	case 0, 1, 2, 3:
		return dateDigits(r)
	case 4: // random 8 digits
		return []byte(fmt.Sprintf("%08d", r.Intn(100000000)))
	case 5: // 7 or 9 digits that look like dates
		d := dateDigits(r)
		if lib.Chance(r, 0.5) {
			return d[1:]
		}
		return append(d, byte('0'+r.Intn(10)))
	case 6: // plausible unix timestamps
		return []byte(strconv.FormatInt(864403200+r.Int63n(1000000000), 10))
	case 7: // around the int64 boundary
		return []byte(lib.Pick(r, []string{"9223372036854775806", "9223372036854775807", "9223372036854775808", "9223372036854775809",
			"18446744073709551615", "18446744073709551616", "99999999999999999999", "000000000000000000001", "9223372036", "9223372037"}))
	case 8:
		return []byte(strconv.Itoa(r.Intn(1000)))
	case 9:
		n := lib.Range(r, 1, 24)
		b := make([]byte, n)
		for i := range b {
			b[i] = byte('0' + r.Intn(10))
		}
		return b
	case 10:
		return []byte("0000" + strconv.Itoa(r.Intn(10000)))
	default:
		return []byte(strconv.FormatInt(r.Int63n(4000000000), 10))
	}
}

var junkAlphabet = []string{"0", "1", "5", "9", "+", "-", "-", "h", "m", "s", "d", "w", "y", "M", "o", "n", "i", "now", " ", "_", ",", "\t", "\n",
	".", "e", "x", "\xff", "\xc2\xa0", "\xe2\x80\x83", "\xc2", "\xe2\x84\xaa", "\xc4\xb0", "k", "K", "b", "B", "i", "µ", "μ", "u", "G", "T", "P", "/", "%", "\x00"}

func junk(r *rand.Rand, maxLen int) []byte {
	n := lib.Range(r, 0, maxLen)
	var b []byte
	for i := 0; i < n; i++ {
		b = append(b, lib.Pick(r, junkAlphabet)...)
	}
	return b
}

func mutate(r *rand.Rand, s []byte) []byte {
	b := append([]byte{}, s...)
	for k := lib.Range(r, 1, 3); k > 0; k-- {
		switch r.Intn(4) {
		case 0: // insert
			p := r.Intn(len(b) + 1)
			ins := []byte(lib.Pick(r, junkAlphabet))
			b = append(b[:p], append(ins, b[p:]...)...)
		case 1: // delete
			if len(b) > 0 {
				p := r.Intn(len(b))
				b = append(b[:p], b[p+1:]...)
			}
		case 2: // duplicate a piece
			if len(b) > 0 {
				p := r.Intn(len(b))
				b = append(b[:p], append([]byte{b[p]}, b[p:]...)...)
			}
		default: // replace
			if len(b) > 0 {
				b[r.Intn(len(b))] = lib.Pick(r, junkAlphabet)[0]
			}
		}
	}
	return b
}

func genAt(r *rand.Rand) Input {
	switch r.Intn(20) {
	case 0, 1, 2, 3, 4, 5, 6: // documented relative expression
		e := genRel(r, true)
		return Input{Kind: "at", S: sprinkle(r, renderRel(e)), E: e}
	case 7, 8: // relative expression with other unit spellings
		e := genRel(r, false)
		return Input{Kind: "at", S: sprinkle(r, renderRel(e)), E: e}
	case 9, 10, 11, 12, 13, 14: // digit strings
		d := genDigits(r)
		s := d
		if lib.Chance(r, 0.3) {
			s = sprinkle(r, d)
		}
		return Input{Kind: "at", S: s, E: &Expr{X: "digits", Digits: d}}
	case 15, 16: // mutated valid expressions (inner signs, missing numbers, ...)
		return Input{Kind: "at", S: mutate(r, renderRel(genRel(r, false)))}
	default:
		return Input{Kind: "at", S: junk(r, 12)}
	}
}

var stdUnits = []string{"ns", "us", "µs", "μs", "ms", "s", "m", "h"}
var extraUnits = []string{"d", "M", "y"}
var durBoundary = []string{
	"9223372036854775807ns", "9223372036854775808ns", "9223372036854775809ns", "-9223372036854775808ns", "-9223372036854775807ns1ns",
	"-9223372036854775807ns2ns", "9223372036854775806ns1ns", "9223372036854775806ns2ns",
	"2562047h47m16.854775807s", "2562047h47m16.854775808s", "-2562047h47m16.854775808s", "-2562047h47m16.854775809s",
	"2562047h48m", "2562048h", "9223372036854775.807ms", "9223372036854775.808ms", "-9223372036854775.808ms",
	"9223372036s", "9223372037s", "-9223372036.854775808s", "153722867m", "153722868m",
	"0.9223372036854775808h", "0.9223372036854775807h", "0.9223372036854775808ns", "1.9223372036854775808s",
	"0.92233720368547758079m", "0.18446744073709551616h", "0.99999999999999999999h", "0.000000000000000000001h",
	"106751d", "106752d", "3558M", "3559M", "292y", "293y", "106751d23h47m16.854775807s", "106751d23h47m16.854775808s",
	"-106751d23h47m16.854775808s", "0", "+0", "-0", "00", "0s", ".5s", "5.s", ".s", "-.s", "1", "s", "1h1", "1h.", "1h-1m", "+-1s", "--1s",
	"1 h", "1H", "1hh", "1d1d", "1.5d", "0.5M", "1.25y", "30d12h", "1y2M3d4h5m6s7ms8us9ns", "1µs", "1μs", "1\xb5s", "1e3s", "0x10s", "1_000s",
}

func fracDigits(r *rand.Rand) []byte {
	switch r.Intn(8) {
	case 0:
		return []byte{}
	case 1: // long: beyond the point where leadingFraction stops accumulating
		n := lib.Range(r, 17, 26)
		b := make([]byte, n)
		for i := range b {
			b[i] = byte('0' + r.Intn(10))
		}
		return b
	case 2:
		return []byte(lib.Pick(r, []string{"9223372036854775807", "9223372036854775808", "9223372036854775809", "922337203685477580", "5", "50", "05", "999999999", "000000001"}))
	default:
		n := lib.Range(r, 1, 9)
		b := make([]byte, n)
		for i := range b {
			b[i] = byte('0' + r.Intn(10))
		}
		return b
	}
}

func genDurTerms(r *rand.Rand) *Expr {
	e := &Expr{X: "terms", Sign: lib.Pick(r, []int{0, 0, '+', '-', '-'})}
	n := lib.Range(r, 1, 4)
	extra := lib.Chance(r, 0.45)
	for i := 0; i < n; i++ {
		u := lib.Pick(r, stdUnits)
		if extra && lib.Chance(r, 0.6) {
			u = lib.Pick(r, extraUnits)
		}
		t := Term{Unit: Bs(u)}
		switch r.Intn(10) {
		case 0:
			t.Num = []byte{}
			f := Bs(fracDigits(r))
			if len(f) == 0 {
				f = Bs("5")
			}
			t.Frac = &f
		case 1: // large: near the unit's overflow point
			t.Num = []byte(strconv.FormatInt(r.Int63n(math.MaxInt64), 10))
		case 2:
			t.Num = []byte("0" + strconv.Itoa(r.Intn(50)))
		default:
			t.Num = []byte(strconv.Itoa(r.Intn(3000)))
		}
		if t.Frac == nil && lib.Chance(r, 0.35) {
			f := Bs(fracDigits(r))
			t.Frac = &f
		}
		e.Terms = append(e.Terms, t)
	}
	return e
}

func genDur(r *rand.Rand) Input {
	switch r.Intn(10) {
	case 0, 1, 2, 3, 4, 5:
		e := genDurTerms(r)
		return Input{Kind: "dur", S: renderDur(e), E: e}
	case 6:
		return Input{Kind: "dur", S: []byte(lib.Pick(r, durBoundary))}
	case 7, 8:
		base := renderDur(genDurTerms(r))
		if lib.Chance(r, 0.4) {
			base = []byte(lib.Pick(r, durBoundary))
		}
		return Input{Kind: "dur", S: mutate(r, base)}
	default:
		return Input{Kind: "dur", S: junk(r, 10)}
	}
}

var sizeUnits = []string{"", "b", "kb", "mb", "gb", "tb", "pb", "kib", "mib", "gib", "tib", "pib"}

func randCase(r *rand.Rand, s string) string {
	b := []byte(s)
	for i := range b {
		if lib.Chance(r, 0.5) && b[i] >= 'a' && b[i] <= 'z' {
			b[i] -= 32
		}
	}
	return string(b)
}

var sizeReject = []string{"-5KB", "-1", "-0.5mb", "", " ", "KB", "mb", "1.2.3MB", "1..2", ".", ". kb", "1e3", "0x10", "5 K B", "5 k\nb", "５", "1kbb", "1k", "1 bytes",
	"1 m", "1_000", "1,5kb", "+1kb", "1kb1", "1 2kb", "kb1", "1.5.kb", "NaN", "Inf", "1 kB/s"}

// whole numbers written with a fraction: "10.00 KB", "1020.", "0.0": integer part ending in one or more zeros
func genSizeWhole(r *rand.Rand) Input {
	ip := lib.Pick(r, []string{"0", "10", "20", "100", "1020", "1000", "500", "10240", "70", "00", "1200300"})
	if lib.Chance(r, 0.2) {
		ip = strconv.Itoa(r.Intn(100)) + strings.Repeat("0", lib.Range(r, 1, 4))
	}
	f := Bs(strings.Repeat("0", lib.Pick(r, []int{0, 0, 1, 2, 2, 3, 6})))
	t := Term{Num: []byte(ip), Frac: &f, Unit: Bs(randCase(r, lib.Pick(r, sizeUnits)))}
	e := &Expr{X: "num", Terms: []Term{t}, WS: Bs(lib.Pick(r, []string{"", "", " ", "  ", "\t"}))}
	return Input{Kind: "size", S: renderSize(e), E: e}
}

func genSize(r *rand.Rand) Input {
	if r.Intn(8) == 0 {
		return genSizeWhole(r)
	}
	switch r.Intn(10) {
	case 0, 1, 2, 3, 4, 5:
		t := Term{Unit: Bs(randCase(r, lib.Pick(r, sizeUnits)))}
		switch r.Intn(8) {
		case 0: // near the overflow boundary of the unit
			t.Num = []byte(lib.Pick(r, []string{"9223372036854775807", "9223372036854775808", "18446744073709551615", "18446744073709551616",
				"9007199254740991", "9007199254740992", "9007199254740993", "8191", "8192", "8193", "8388607", "8388608", "9223", "9224", "9223372", "9223373",
				"00000000000000000000001"}))
		case 1:
			t.Num = []byte(strconv.FormatInt(r.Int63n(math.MaxInt64), 10))
		case 2:
			t.Num = []byte{}
		default:
			t.Num = []byte(strconv.Itoa(r.Intn(20000)))
		}
		if len(t.Num) == 0 || lib.Chance(r, 0.4) {
			f := Bs(fracDigits(r))
			if len(t.Num) == 0 && len(f) == 0 {
				f = Bs("5")
			}
			t.Frac = &f
		}
		e := &Expr{X: "num", Terms: []Term{t}, WS: Bs(lib.Pick(r, []string{"", "", " ", "  ", "\t", " \t\n", "\f\r"}))}
		s := renderSize(e)
		if lib.Chance(r, 0.25) {
			s = append([]byte(lib.Pick(r, []string{" ", "\t", "\n ", " "})), s...)
		}
		if lib.Chance(r, 0.25) {
			s = append(s, lib.Pick(r, []string{" ", "\t", " \n", " "})...)
		}
		return Input{Kind: "size", S: s, E: e}
	case 6:
		return Input{Kind: "size", S: []byte(lib.Pick(r, sizeReject)), E: &Expr{X: "reject"}}
	case 7, 8:
		t := Term{Num: []byte(strconv.Itoa(r.Intn(2000))), Unit: Bs(randCase(r, lib.Pick(r, sizeUnits)))}
		e := &Expr{X: "num", Terms: []Term{t}, WS: Bs("")}
		return Input{Kind: "size", S: mutate(r, renderSize(e))}
	default:
		return Input{Kind: "size", S: junk(r, 8)}
	}
}

// the last 0.005 PB below 2^63 print as "8192.00 PB", which does not parse back (known finding bytesize-print-top)
const printTop = int64(9223366407355241984) // smallest size printing as 8192.00 PB

func genPrint(r *rand.Rand) Input {
	var b int64
	switch r.Intn(13) {
	case 0:
		b = int64(r.Intn(2100))
	case 1: // powers of 1024 +- a little
		k := lib.Range(r, 1, 6)
		b = int64(1)<<(10*uint(k)) + int64(lib.Range(r, -3, 3))
	case 2: // around a rounding boundary of the second decimal
		k := lib.Range(r, 1, 5)
		u := int64(1) << (10 * uint(k))
		b = u*int64(lib.Range(r, 1, 1023)) + u/200*int64(lib.Range(r, 0, 200)) + int64(lib.Range(r, -2, 2))
	case 3: // beyond 2^53: float64(b) rounds
		b = int64(1)<<53 + r.Int63n(1<<54)
	case 4:
		b = printTop - r.Int63n(1<<40)
	case 5:
		b = -r.Int63n(5000)
	case 6: // 1023.99x of a unit: prints as 1024.00 of the same unit
		k := lib.Range(r, 1, 5)
		u := int64(1) << (10 * uint(k))
		b = u*1024 - 1 - r.Int63n(u/100+1)
	case 7, 8: // exact multiples of a unit whose printed integer part ends in 0: "10.00 KB", "100.00 GB", "1000.00 KB"
		k := lib.Range(r, 1, 5)
		m := int64(lib.Pick(r, []int{10, 20, 30, 50, 100, 200, 500, 1000, 1020, 70, 110}))
		b = m << (10 * uint(k))
	default: // log-uniform
		b = r.Int63n(int64(1) << uint(lib.Range(r, 10, 62)))
	}
	if b >= printTop {
		b = printTop - 1 - b%1000
	}
	return Input{Kind: "print", B: b}
}

// the known-finding stream
func genPrintTop(r *rand.Rand) Input {
	return Input{Kind: "print", B: printTop + r.Int63n(int64(math.MaxInt64)-printTop+1)}
}

const renderT0 = 1600000000 // data is stored at [renderT0, renderT0+10) and around now-10min

func genRender(r *rand.Rand) Input {
	abs := func() (*Expr, []byte) {
		var d []byte
		switch r.Intn(4) {
		case 0:
			d = []byte(lib.Pick(r, []string{"20200101", "20200913", "20200914", "20210101", "20201231", "20200230", "19991231", "20300101"}))
		default:
			d = []byte(strconv.FormatInt(renderT0+int64(lib.Range(r, -5000000, 5000000)), 10))
		}
		return &Expr{X: "digits", Digits: d}, d
	}
	rel := func(minMinutes, maxMinutes int) (*Expr, []byte) {
		m := lib.Range(r, minMinutes, maxMinutes)
		e := &Expr{X: "rel", Ref: Bs(lib.Pick(r, []string{"now", ""})), Sign: '-'}
		if m >= 120 && lib.Chance(r, 0.5) {
			e.Terms = []Term{{Num: []byte(strconv.Itoa(m / 60)), Unit: Bs(lib.Pick(r, []string{"h", "hours", "hour"}))},
				{Num: []byte(strconv.Itoa(m % 60)), Unit: Bs(lib.Pick(r, []string{"min", "minutes", "mins"}))}}
		} else {
			e.Terms = []Term{{Num: []byte(strconv.Itoa(m)), Unit: Bs(lib.Pick(r, []string{"min", "minutes"}))}}
		}
		return e, renderRel(e)
	}
	in := Input{Kind: "render"}
	switch r.Intn(6) {
	case 0, 1: // both absolute
		in.EF, in.From = abs()
		in.EU, in.Until = abs()
	case 2: // relative from, until empty (= now)
		in.EF, in.From = rel(20, 3000)
		in.Until = []byte{}
		in.EU = nil
	case 3: // both relative, any order
		in.EF, in.From = rel(1, 3000)
		in.EU, in.Until = rel(1, 3000)
	case 4: // absolute from, relative until
		in.EF, in.From = abs()
		in.EU, in.Until = rel(0, 100)
	default: // equal arguments
		in.EF, in.From = abs()
		in.EU, in.Until = in.EF, in.From
	}
	if lib.Chance(r, 0.2) {
		in.From = sprinkle(r, in.From)
	}
	return in
}

func asciiOnly(b []byte) bool {
	for _, c := range b {
		if c < 32 || c > 126 {
			return false
		}
	}
	return true
}

func genCli(r *rand.Rand) Input {
	in := Input{Kind: "cli", How: r.Intn(4), IsDur: lib.Chance(r, 0.5)}
	for tries := 0; tries < 50; tries++ {
		var s []byte
		if in.IsDur {
			s = genDur(r).S
		} else {
			s = genSize(r).S
		}
		if asciiOnly(s) && len(s) > 0 {
			in.S = s
			return in
		}
	}
	in.S = []byte("1h")
	in.IsDur = true
	return in
}

// /ingest: from = until = one argument (a single 10 s slot); the data is then looked for with storage.Get
func genIngest(r *rand.Rand) Input {
	in := Input{Kind: "ingest", Name: fmt.Sprintf("c17i%08x%04x", r.Uint32(), r.Intn(65536))}
	switch r.Intn(8) {
	case 0, 1, 2: // plausible dates inside the supported epoch block (1997-05-24 .. 2029-01-28)
		t := time.Date(1997, 5, 25, 0, 0, 0, 0, time.UTC).AddDate(0, 0, r.Intn(11560))
		d := []byte(t.Format("20060102"))
		in.EF, in.From = &Expr{X: "digits", Digits: d}, d
	case 3: // implausible 8-digit strings: Unix seconds
		d := []byte(lib.Pick(r, []string{"20201301", "20210230", "20200132", "20200001", "20200100", "19000101", "19001231", "20230229", "99999999", "00000000", "12345678"}))
		in.EF, in.From = &Expr{X: "digits", Digits: d}, d
	case 4, 5: // 10-digit timestamps inside the block, 7- and 9-digit strings that look like dates
		d := []byte(strconv.FormatInt(864403200+r.Int63n(1000000000), 10))
		if lib.Chance(r, 0.25) {
			d = []byte(lib.Pick(r, []string{"2020010", "202001011", "020200101", "1997052"}))
		}
		in.EF, in.From = &Expr{X: "digits", Digits: d}, d
	default: // relative expressions
		units := []struct {
			s   string
			sec int64
		}{{"s", 1}, {"sec", 1}, {"seconds", 1}, {"min", 60}, {"minutes", 60}, {"h", 3600}, {"hours", 3600}, {"d", 86400}, {"day", 86400}}
		e := &Expr{X: "rel", Ref: Bs(lib.Pick(r, []string{"now", ""})), Sign: '-'}
		n := lib.Range(r, 1, 3)
		for i := 0; i < n; i++ {
			u := lib.Pick(r, units)
			k := int64(lib.Range(r, 0, 40))
			if u.sec == 86400 {
				k = int64(lib.Range(r, 0, 3))
			}
			e.Terms = append(e.Terms, Term{Num: []byte(strconv.FormatInt(k, 10)), Unit: Bs(u.s)})
			in.Off -= k * u.sec
		}
		in.EF, in.From = e, renderRel(e)
	}
	return in
}

func gen(r *rand.Rand, idx int, tier string) Input {
	if idx%20 == 18 && idx%40 == 38 {
		return genIngest(r)
	}
	switch idx % 20 {
	case 0, 1, 2, 3, 4, 5:
		return genAt(r)
	case 6, 7, 8, 9, 10:
		return genDur(r)
	case 11, 12, 13, 14:
		return genSize(r)
	case 15, 16:
		return genPrint(r)
	case 17:
		if idx%100 == 17 {
			return genPrintTop(r)
		}
		return genPrint(r)
	case 18:
		return genRender(r)
	default:
		return genCli(r)
	}
}

// exhaustive 8-digit strings around plausible / implausible dates
func enum(tier string) []Input {
	years := []int{1900, 1901, 2024, 2100}
	months := []int{0, 1, 2, 4, 12, 13}
	days := []int{0, 1, 28, 29, 30, 31, 32}
	if tier == "thorough" {
		years = []int{0, 1899, 1900, 1901, 1970, 2000, 2021, 2024, 2100, 2400, 9999}
		months = nil
		for m := 0; m <= 13; m++ {
			months = append(months, m)
		}
		days = nil
		for d := 0; d <= 32; d++ {
			days = append(days, d)
		}
	}
	var out []Input
	for _, y := range years {
		for _, m := range months {
			for _, d := range days {
				s := []byte(fmt.Sprintf("%04d%02d%02d", y, m, d))
				out = append(out, Input{Kind: "at", S: s, E: &Expr{X: "digits", Digits: s}})
			}
		}
	}
	return out
}

// ---------- running the implementation ----------

func runAt(in Input) lib.Result {
	var res time.Time
	ok := true
	var crash string
	t0 := time.Now()
	func() {
		defer func() {
			if r := recover(); r != nil {
				ok = false
				crash = fmt.Sprint(r)
			}
		}()
		res = attime.Parse(string(in.S))
	}()
	t1 := time.Now()
	rs := "None"
	if ok {
		rs = lib.Some(nsOf(res))
	}
	coq := "(CAt " + cb(in.S) + " " + nsOf(t0) + " " + nsOf(t1) + " " + rs + " " + coqAt(in.E) + ")"
	prod := "junk"
	nt := false
	if in.E != nil {
		prod = in.E.X
		nt = (in.E.X == "rel" && len(in.E.Terms) >= 2) || (in.E.X == "digits" && len(in.E.Digits) >= 7 && len(in.E.Digits) <= 9)
	}
	feat := map[string]interface{}{"kind": "at", "production": "at/" + prod}
	if in.E != nil && in.E.X == "rel" {
		feat["terms"] = len(in.E.Terms)
	}
	if in.E != nil && in.E.X == "digits" {
		feat["digit_len"] = len(in.E.Digits)
	}
	return lib.Result{Coq: coq, NonTrivial: nt, Feat: feat, Crash: crash,
		Obs: map[string]interface{}{"unix": res.Unix(), "nsec": res.Nanosecond()}}
}

func runDur(in Input) lib.Result {
	s := string(in.S)
	var a, b time.Duration
	var e1, e2 error
	var crash string
	func() {
		defer func() {
			if r := recover(); r != nil {
				crash = fmt.Sprint(r)
			}
		}()
		a, e1 = time.ParseDuration(s)
		b, e2 = duration.ParseDuration(s)
	}()
	coq := "(CDur " + cb(in.S) + " " + optZ(e1 == nil, int64(a)) + " " + optZ(e2 == nil, int64(b)) + " " + coqDur(in.E) + ")"
	prod := "junk"
	nt := false
	frac := false
	if in.E != nil {
		prod = in.E.X
		for _, t := range in.E.Terms {
			if t.Frac != nil {
				frac = true
			}
		}
		nt = len(in.E.Terms) >= 2 || frac
	}
	acc := "reject"
	if e2 == nil {
		acc = "accept"
	}
	return lib.Result{Coq: coq, NonTrivial: nt, Crash: crash,
		Feat: map[string]interface{}{"kind": "dur", "production": "dur/" + prod, "dur_accept": acc, "dur_fraction": frac},
		Obs:  map[string]interface{}{"std": int64(a), "std_ok": e1 == nil, "pyro": int64(b), "pyro_ok": e2 == nil}}
}

func runSize(in Input) lib.Result {
	var v bytesize.ByteSize
	var err error
	var crash string
	func() {
		defer func() {
			if r := recover(); r != nil {
				crash = fmt.Sprint(r)
			}
		}()
		v, err = bytesize.Parse(string(in.S))
	}()
	coq := "(CSize " + cb(in.S) + " " + optZ(err == nil, int64(v)) + " " + coqSize(in.E) + ")"
	prod := "junk"
	nt := false
	if in.E != nil {
		prod = in.E.X
		if in.E.X == "num" {
			u := in.E.Terms[0].Unit
			nt = in.E.Terms[0].Frac != nil || strings.ToLower(string(u)) != string(u)
		}
	}
	acc := "reject"
	if err == nil {
		acc = "accept"
	}
	return lib.Result{Coq: coq, NonTrivial: nt, Crash: crash,
		Feat: map[string]interface{}{"kind": "size", "production": "size/" + prod, "size_accept": acc},
		Obs:  map[string]interface{}{"value": int64(v), "ok": err == nil}}
}

func runPrint(in Input) lib.Result {
	var p string
	var v bytesize.ByteSize
	var err error
	var crash string
	func() {
		defer func() {
			if r := recover(); r != nil {
				crash = fmt.Sprint(r)
			}
		}()
		p = bytesize.ByteSize(in.B).String()
		v, err = bytesize.Parse(p)
	}()
	coq := "(CPrint " + lib.Z(in.B) + " " + cb([]byte(p)) + " " + optZ(err == nil, int64(v)) + ")"
	return lib.Result{Coq: coq, NonTrivial: in.B >= 1024, Crash: crash,
		Feat: map[string]interface{}{"kind": "print", "production": "print", "print_log2": big.NewInt(in.B).BitLen()},
		Obs:  map[string]interface{}{"printed": p, "reparsed": int64(v), "ok": err == nil}}
}

var (
	srvOnce sync.Once
	srvMux  http.Handler
	srvDir  string
	srvStor *storage.Storage
	srvErr  error
)

func setupServer() {
	srvDir, srvErr = os.MkdirTemp("/tmp", "parse-harness-c17-")
	if srvErr != nil {
		return
	}
	cfg := &config.Server{StoragePath: srvDir, APIBindAddr: ":0", CacheEvictThreshold: 0.99, CacheEvictVolume: 0.10,
		MaxNodesSerialization: 2048, MaxNodesRender: 2048, BadgerLogLevel: "error"}
	srvStor, srvErr = storage.New(cfg)
	if srvErr != nil {
		return
	}
	ctrl, err := server.New(cfg, srvStor)
	if err != nil {
		srvErr = err
		return
	}
	srvMux = ctrl.VerifMux()
	key, _ := storage.ParseKey("c17.app")
	put := func(from time.Time) {
		t := tree.New()
		t.Insert([]byte("a;b"), 3)
		srvErr = srvStor.Put(&storage.PutInput{StartTime: from, EndTime: from.Add(10 * time.Second), Key: key, Val: t,
			SpyName: "x", SampleRate: 100, Units: "samples", AggregationType: "sum"})
	}
	put(time.Unix(renderT0, 0))
	if srvErr == nil {
		put(time.Now().Add(-10 * time.Minute))
	}
}

func cleanupServer() {
	if srvStor != nil {
		srvStor.Close()
	}
	if srvDir != "" {
		os.RemoveAll(srvDir)
	}
}

func runRender(in Input) lib.Result {
	srvOnce.Do(setupServer)
	if srvErr != nil {
		return lib.Result{Crash: "harness: cannot set up the server: " + srvErr.Error()}
	}
	q := url.Values{}
	q.Set("from", string(in.From))
	q.Set("until", string(in.Until))
	q.Set("name", "c17.app")
	q.Set("format", "json")
	req := httptest.NewRequest("GET", "/render?"+q.Encode(), nil)
	rec := httptest.NewRecorder()
	status := 0
	var crash string
	t0 := time.Now()
	done := make(chan struct{})
	go func() {
		defer close(done)
		defer func() {
			if r := recover(); r != nil {
				crash = fmt.Sprint(r)
			}
		}()
		srvMux.ServeHTTP(rec, req)
		status = rec.Code
	}()
	select {
	case <-done:
	case <-time.After(20 * time.Second):
		return lib.Result{Crash: "render hung for 20 s"}
	}
	t1 := time.Now()
	tl := "None"
	if status == 200 {
		var body struct {
			Timeline *struct {
				StartTime int64    `json:"startTime"`
				Samples   []uint64 `json:"samples"`
				Delta     int64    `json:"durationDelta"`
			} `json:"timeline"`
		}
		if err := json.Unmarshal(rec.Body.Bytes(), &body); err == nil && body.Timeline != nil {
			tl = lib.Some("(" + lib.Z(body.Timeline.StartTime) + ", " + lib.Z(int64(len(body.Timeline.Samples))) + ", " + lib.Z(body.Timeline.Delta) + ")")
		}
	}
	coq := "(CRender " + cb(in.From) + " " + cb(in.Until) + " " + coqAt(in.EF) + " " + coqAt(in.EU) + " " + nsOf(t0) + " " + nsOf(t1) +
		" " + lib.Z(int64(status)) + " " + tl + ")"
	return lib.Result{Coq: coq, NonTrivial: true, Crash: crash,
		Feat: map[string]interface{}{"kind": "render", "production": "render", "render_status": status, "render_timeline": tl != "None"},
		Obs:  map[string]interface{}{"status": status}}
}

func runIngest(in Input) lib.Result {
	srvOnce.Do(setupServer)
	if srvErr != nil {
		return lib.Result{Crash: "harness: cannot set up the server: " + srvErr.Error()}
	}
	q := url.Values{}
	q.Set("from", string(in.From))
	q.Set("until", string(in.From))
	q.Set("name", in.Name)
	req := httptest.NewRequest("POST", "/ingest?"+q.Encode(), strings.NewReader("a;b 1\n"))
	rec := httptest.NewRecorder()
	status := 0
	var crash string
	t0 := time.Now()
	done := make(chan struct{})
	go func() {
		defer close(done)
		defer func() {
			if r := recover(); r != nil {
				crash = fmt.Sprint(r)
			}
		}()
		srvMux.ServeHTTP(rec, req)
		status = rec.Code
	}()
	select {
	case <-done:
	case <-time.After(20 * time.Second):
		return lib.Result{Crash: "ingest hung for 20 s"}
	}
	t1 := time.Now()
	// where to look: the Unix-seconds reading, the calendar-date reading, around now + Off, and the whole range
	type win struct{ lo, hi int64 }
	var wins []win
	fl := func(t int64) int64 { return t / 10 * 10 }
	if in.EF != nil && in.EF.X == "digits" {
		if v, err := strconv.ParseInt(string(in.EF.Digits), 10, 64); err == nil && v >= 0 && v < 4000000000 {
			wins = append(wins, win{fl(v), fl(v) + 10})
		}
		if len(in.EF.Digits) == 8 {
			if d, err := time.Parse("20060102", string(in.EF.Digits)); err == nil && d.Unix() >= 0 {
				wins = append(wins, win{d.Unix(), d.Unix() + 10})
			}
		}
	} else {
		wins = append(wins, win{fl(t0.Unix() + in.Off), fl(t1.Unix()+in.Off) + 10})
	}
	wins = append(wins, win{0, 4000000000})
	key, _ := storage.ParseKey(in.Name)
	probes := make([]string, len(wins))
	anyFound := false
	for i, w := range wins {
		found := false
		func() {
			defer func() {
				if r := recover(); r != nil {
					crash = fmt.Sprintf("storage.Get panicked: %v", r)
				}
			}()
			g, err := srvStor.Get(&storage.GetInput{StartTime: time.Unix(w.lo, 0), EndTime: time.Unix(w.hi, 0), Key: key})
			found = err == nil && g != nil && g.Tree != nil && g.Tree.Samples() > 0
		}()
		anyFound = anyFound || found
		probes[i] = "(" + lib.Z(w.lo) + ", " + lib.Z(w.hi) + ", " + lib.Bool(found) + ")"
	}
	coq := "(CIngest " + cb(in.From) + " " + coqAt(in.EF) + " " + nsOf(t0) + " " + nsOf(t1) + " " + lib.Z(int64(status)) + " " + lib.List(probes) + ")"
	prod := "junk"
	if in.EF != nil {
		prod = in.EF.X
	}
	return lib.Result{Coq: coq, NonTrivial: true, Crash: crash,
		Feat: map[string]interface{}{"kind": "ingest", "production": "ingest/" + prod, "ingest_status": status, "ingest_found": anyFound},
		Obs:  map[string]interface{}{"status": status, "probes": probes}}
}

var cliMu sync.Mutex

func runCli(in Input) lib.Result {
	cliMu.Lock()
	defer cliMu.Unlock()
	var typ reflect.Type
	if in.IsDur {
		typ = reflect.TypeOf(time.Second)
	} else {
		typ = reflect.TypeOf(bytesize.Byte)
	}
	tag := ""
	if in.How == 0 {
		tag = `def:` + strconv.Quote(string(in.S))
	}
	st := reflect.StructOf([]reflect.StructField{
		{Name: "Config", Type: reflect.TypeOf(""), Tag: `def:""`},
		{Name: "VerifField", Type: typ, Tag: reflect.StructTag(tag)},
	})
	obj := reflect.New(st)
	ok := true
	var crash string
	func() {
		defer func() {
			if r := recover(); r != nil {
				if s, isStr := r.(string); isStr && s == "logrus-fatal" {
					ok = false
					return
				}
				crash = fmt.Sprint(r)
				ok = false
			}
		}()
		fs := flag.NewFlagSet("verif", flag.ContinueOnError)
		fs.SetOutput(io.Discard)
		cli.PopulateFlagSet(obj.Interface(), fs)
		var args []string
		opts := []ff.Option{}
		switch in.How {
		case 1:
			args = []string{"-verif-field", string(in.S)}
		case 2:
			os.Setenv("VERIFC17_VERIF_FIELD", string(in.S))
			defer os.Unsetenv("VERIFC17_VERIF_FIELD")
			opts = append(opts, ff.WithEnvVarPrefix("VERIFC17"))
		case 3:
			f, err := os.CreateTemp("/tmp", "parse-harness-c17-*.yml")
			if err != nil {
				panic(err)
			}
			defer os.Remove(f.Name())
			fmt.Fprintf(f, "---\nverif-field: %s\n", strconv.Quote(string(in.S)))
			f.Close()
			args = []string{"-config", f.Name()}
			opts = append(opts, ff.WithConfigFileParser(ffyaml.Parser), ff.WithConfigFileFlag("config"))
		}
		if err := ff.Parse(fs, args, opts...); err != nil {
			ok = false
		}
	}()
	var v int64
	fv := obj.Elem().Field(1)
	v = fv.Int()
	coq := "(CCli " + strconv.Itoa(in.How) + " " + lib.Bool(in.IsDur) + " " + cb(in.S) + " " + lib.Bool(ok) + " " + lib.Z(v) + ")"
	return lib.Result{Coq: coq, NonTrivial: true, Crash: crash,
		Feat: map[string]interface{}{"kind": "cli", "production": fmt.Sprintf("cli/%d/dur=%v", in.How, in.IsDur), "cli_ok": ok},
		Obs:  map[string]interface{}{"ok": ok, "value": v}}
}

func run(in Input) lib.Result {
	switch in.Kind {
	case "at":
		return runAt(in)
	case "dur":
		return runDur(in)
	case "size":
		return runSize(in)
	case "print":
		return runPrint(in)
	case "render":
		return runRender(in)
	case "cli":
		return runCli(in)
	case "ingest":
		return runIngest(in)
	}
	return lib.Result{Crash: "harness: unknown kind " + in.Kind}
}

func main() {
	logrus.SetLevel(logrus.PanicLevel)
	logrus.SetOutput(io.Discard)
	logrus.StandardLogger().ExitFunc = func(int) { panic("logrus-fatal") }
	storage.VerifDisablePeriodicTasks()
	defer cleanupServer()
	lib.Main(lib.Harness[Input]{Prop: "C17", Quick: 3000, Thorough: 40000, Gen: gen, Enum: enum, Run: run})
}
