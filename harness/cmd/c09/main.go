//go:build verif

// c09: merge is addition (tree.Merge, tree.Clone, merge.MergeTriesConcurrently).
package main

import (
	"bytes"
	"fmt"
	"strings"
	"math/big"
	"math/rand"
	"runtime"

	"github.com/pyroscope-io/pyroscope/pkg/storage/dict"
	"github.com/pyroscope-io/pyroscope/pkg/storage/tree"
	"github.com/pyroscope-io/pyroscope/pkg/structs/merge"
	"verifharness/lib"
	"verifharness/lib/treeu"
)

type Input struct {
	Trees   [][]treeu.Stack `json:"trees"`
	Workers int             `json:"workers"`
	Procs   int             `json:"procs"`
	M       uint64          `json:"m"`
	D       uint64          `json:"d"`
}

func gen(r *rand.Rand, idx int, tier string) Input {
	var in Input
	nt := lib.Range(r, 1, 8)
	if lib.Chance(r, 0.2) {
		nt = lib.Range(r, 9, 40)
	}
	for i := 0; i < nt; i++ {
		ns := lib.Range(r, 0, 6)
		in.Trees = append(in.Trees, treeu.RandStacks(r, ns, 4, 50))
	}
	if r.Intn(4) == 0 {
		// deep call chains in which inner frames carry their own counts too (every prefix of a stack of depth up to 40
		// may be a stack): decoders and merges that keep per-depth state see depths 8, 16, 32
		for i := range in.Trees {
			if i > 2 && r.Intn(2) == 0 {
				continue
			}
			d := lib.Range(r, 7, 40)
			var key []byte
			var ss []treeu.Stack
			for j := 0; j < d; j++ {
				if j > 0 {
					key = append(key, ';')
				}
				key = append(key, byte('a'+r.Intn(3)))
				if j >= 5 && r.Intn(3) != 0 {
					ss = append(ss, treeu.Stack{Key: append([]byte{}, key...), V: uint64(1 + r.Intn(20))})
				}
				if r.Intn(4) == 0 { // a side branch, so that the frame has more than one child
					ss = append(ss, treeu.Stack{Key: append(append([]byte{}, key...), []byte(";x")...), V: uint64(1 + r.Intn(5))})
				}
			}
			ss = append(ss, treeu.Stack{Key: append([]byte{}, key...), V: uint64(1 + r.Intn(1000))})
			in.Trees[i] = append(in.Trees[i], ss...)
		}
	}
	if idx%25 == 7 {
		// big families: frames with 130-400 children shared between the trees (a merge then has hundreds of node pairs
		// pending at once) and long frame names (the encodings exceed the decoders' 4 KiB read buffer several times)
		in.Trees = nil
		nt := lib.Range(r, 2, 3)
		fan := lib.Range(r, 130, 220)
		suffix := "_" + strings.Repeat(string(rune('k'+r.Intn(5))), lib.Range(r, 8, 40))
		for i := 0; i < nt; i++ {
			var ss []treeu.Stack
			for c := 0; c < fan; c++ {
				if r.Intn(4) == 0 && i > 0 {
					continue // not every tree has every child
				}
				name := fmt.Sprintf("root;f%03d%s", c, suffix)
				if c%2 == 1 { // names that branch at many positions: their dictionary keys are long and share long prefixes
					var bits []byte
					for k := 0; k < 12; k++ {
						bits = append(bits, "xy"[(c>>uint(k%7)+k/7)&1], '/')
					}
					name = fmt.Sprintf("root;pkg/%s%03d", bits, c%7)
				}
				if r.Intn(3) == 0 {
					ss = append(ss, treeu.Stack{Key: []byte(name), V: uint64(1 + r.Intn(9))})
				}
				for g := r.Intn(2); g >= 0; g-- {
					ss = append(ss, treeu.Stack{Key: []byte(fmt.Sprintf("%s;g%d", name, g)), V: uint64(1 + r.Intn(50))})
				}
			}
			r.Shuffle(len(ss), func(a, b int) { ss[a], ss[b] = ss[b], ss[a] })
			in.Trees = append(in.Trees, ss)
		}
	}
	in.Workers = lib.Pick(r, []int{1, 2, 3, 4, 8, 16, 32})
	in.Procs = lib.Pick(r, []int{1, 2, 4, 16})
	if r.Intn(6) == 0 {
		// products v*m in [2^62, 2^64): a single-stack tree with a count around 2^41..2^50 and a multiplier that
		// brings the root's product just below 2^64 (m >= 2 after big.Rat normalisation, d not dividing it)
		v := uint64(1)<<uint(41+r.Intn(10)) + uint64(r.Int63n(1<<20))
		in.Trees = [][]treeu.Stack{{{Key: []byte("a;b"), V: v}, {Key: []byte("a;c"), V: uint64(1 + r.Intn(1000))}, {Key: []byte("d"), V: uint64(r.Intn(7))}}}
		total := v + 1010
		m := (^uint64(0))/total - uint64(r.Intn(3))
		if m%2 == 0 {
			m--
		}
		in.M = m
		in.D = lib.Pick(r, []uint64{3, 7, 10, 1000003, (1 << 20) + 7, m - 2})
		in.Workers = 1
		in.Procs = 1
		return in
	}
	switch r.Intn(5) {
	case 0:
		in.M, in.D = 1, 1
	case 1:
		in.M, in.D = 0, uint64(lib.Range(r, 1, 9))
	case 2:
		in.M, in.D = uint64(lib.Range(r, 1, 9)), uint64(lib.Range(r, 1, 9))
	case 3: // product close to 2^64: totals are < 2^20 here (<= 40*6*50*...), so m < 2^43 keeps it below
		in.M, in.D = uint64(r.Int63n(1<<42)), uint64(r.Int63n(1<<42))+1
	default:
		in.M, in.D = uint64(lib.Range(r, 1, 1000)), uint64(lib.Range(r, 1, 1000))
	}
	return in
}

func run(in Input) lib.Result {
	prev := runtime.GOMAXPROCS(in.Procs)
	defer runtime.GOMAXPROCS(prev)

	built := make([]*tree.Tree, len(in.Trees))
	builtDump := make([]string, len(in.Trees))
	for i, ss := range in.Trees {
		built[i] = treeu.Build(ss)
		builtDump[i] = treeu.Coq(built[i].VerifDump())
	}
	// scaling first (on the untouched first tree), dump source before and after
	before := treeu.Coq(built[0].VerifDump())
	cl := built[0].Clone(big.NewRat(0, 1).SetFrac(new(big.Int).SetUint64(in.M), new(big.Int).SetUint64(in.D)))
	after := treeu.Coq(built[0].VerifDump())
	// big.Rat normalises m/d; the ratio actually used:
	rr := new(big.Rat).SetFrac(new(big.Int).SetUint64(in.M), new(big.Int).SetUint64(in.D))
	mUsed, dUsed := rr.Num().Uint64(), rr.Denom().Uint64()

	// serial merge on fresh copies
	ser := make([]merge.Merger, len(in.Trees))
	for i, ss := range in.Trees {
		ser[i] = treeu.Build(ss)
	}
	serial := merge.MergeTriesSerially(1, ser...).(*tree.Tree)

	// the sources other than the destination must stay untouched by a merge
	srcUntouched := true
	for i := 1; i < len(ser); i++ {
		if treeu.Coq(ser[i].(*tree.Tree).VerifDump()) != builtDump[i] {
			srcUntouched = false
		}
	}

	// concurrent merge on fresh copies
	con := make([]merge.Merger, len(in.Trees))
	for i, ss := range in.Trees {
		con[i] = treeu.Build(ss)
	}
	conc := merge.MergeTriesConcurrently(in.Workers, con...).(*tree.Tree)

	// decoding: the merged tree through both encodings (cap far above its size, so nothing is pruned) and back
	decStale := "None"
	decode := func(t *tree.Tree) (string, string) {
		const big = 1 << 20
		nd, dd := "None", "None"
		var b1 bytes.Buffer
		if err := t.SerializeNoDict(big, &b1); err == nil {
			if t2, err := tree.DeserializeNoDict(bytes.NewReader(b1.Bytes())); err == nil {
				nd = "(Some " + treeu.Coq(t2.VerifDump()) + ")"
			}
		}
		d := dict.New()
		var b2 bytes.Buffer
		if err := t.Serialize(d, big, &b2); err == nil {
			if t2, err := tree.Deserialize(d, bytes.NewReader(b2.Bytes())); err == nil {
				dd = "(Some " + treeu.Coq(t2.VerifDump()) + ")"
			}
		}
		// the same bytes read with a dictionary that knows none of the names (a stale snapshot): every frame gets a
		// placeholder name derived from its key, the shape and all values must survive
		if b2.Len() > 0 {
			if t3, err := tree.Deserialize(dict.New(), bytes.NewReader(b2.Bytes())); err == nil {
				decStale = "(Some " + treeu.Coq(t3.VerifDump()) + ")"
			}
		}
		return nd, dd
	}
	decNoDict, decDict := decode(conc)

	stacks := make([]string, len(in.Trees))
	total := 0
	for i, ss := range in.Trees {
		stacks[i] = treeu.CoqStacks(ss)
		total += len(ss)
	}
	coq := "{| c_stacks := " + lib.List(stacks) +
		"; c_built := " + lib.List(builtDump) +
		"; c_serial := " + treeu.Coq(serial.VerifDump()) +
		"; c_conc := " + treeu.Coq(conc.VerifDump()) +
		"; c_workers := " + lib.Nat(in.Workers) +
		"; c_m := " + lib.N(mUsed) + "; c_d := " + lib.N(dUsed) +
		"; c_clone := " + treeu.Coq(cl.VerifDump()) +
		"; c_dec_nodict := " + decNoDict + "; c_dec_dict := " + decDict + "; c_dec_stale := " + decStale +
		"; c_src_untouched := " + lib.Bool(srcUntouched && before == after) + " |}"
	return lib.Result{
		Coq:        coq,
		NonTrivial: len(in.Trees) >= 3 && in.Workers != 1 && total >= 4,
		Feat: map[string]interface{}{"trees": len(in.Trees), "workers": in.Workers, "procs": in.Procs,
			"stacks": total, "ratio_class": ratioClass(in.M, in.D)},
		Obs: map[string]interface{}{"merged_samples": conc.Samples()},
	}
}

func ratioClass(m, d uint64) string {
	switch {
	case m == 0:
		return "zero"
	case m == d:
		return "one"
	case m > 1<<32 || d > 1<<32:
		return "huge"
	case m < d:
		return "lt1"
	default:
		return "gt1"
	}
}

func main() {
	lib.Main(lib.Harness[Input]{Prop: "C09", Quick: 400, Thorough: 6000, Gen: gen, Run: run})
}
