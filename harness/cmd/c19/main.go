//go:build verif

// c19: agent session — every reported sample is uploaded exactly once, in ordered windows.
// Runs the real agent.ProfileSession with a registered fake spy (spy.RegisterSpy; implements spy.Resettable) and a
// recording upstream.Upstream, and dumps one linearised log of everything both saw. No oracle here.
package main

import (
	"bytes"
	"fmt"
	"math/big"
	"math/rand"
	"runtime"
	"strconv"
	"sync"
	"time"

	"github.com/pyroscope-io/pyroscope/pkg/agent"
	"github.com/pyroscope-io/pyroscope/pkg/agent/spy"
	"github.com/pyroscope-io/pyroscope/pkg/agent/upstream"
	"github.com/pyroscope-io/pyroscope/pkg/structs/transporttrie"
	"verifharness/lib"
)

type Input struct {
	RateHz       int     `json:"rate_hz"`     // 100..1000
	IntervalMs   int     `json:"interval_ms"` // 20..50
	Intervals    float64 `json:"intervals"`   // session length in upload intervals
	StopMode     string  `json:"stop_mode"`   // random | boundary | gate
	StopOffsetUs int     `json:"stop_offset_us"`
	PType        string  `json:"ptype"`
	Procs        int     `json:"procs"`
	SampleSeed   int64   `json:"sample_seed"`
	// gate (deterministic schedule through the public spy interface): during the Snapshot call of the GateTick-th due
	// tick, after GateAfter samples of that call, Stop() is called on another goroutine and awaited
	GateTick  int    `json:"gate_tick"`
	GateAfter int    `json:"gate_after"`
	App       string `json:"app"`
	// the spy reports every stack through ONE buffer that it overwrites in place between callbacks (as pyspy / rbspy do)
	ReuseBuffer bool `json:"reuse_buffer"`
	// every IdleEvery-th upload interval the spy reports nothing at all (an idle target), 0 = never
	IdleEvery int `json:"idle_every"`
	// the gospy branch (one spy and one trie per profile type), driven through agent.VerifNewSessionWithSpies
	GoSpyTypes []string `json:"gospy_types"`
}

const (
	eDue = iota
	eSnap
	eSB
	eSA
	eJob
	eStopReq
	eStopRet
	eSpyStop
)

type entry struct {
	kind  int
	spy   int
	id    int
	stack string
	v     uint64
	ok    bool // the callback carried a usable sample (err == nil); empty stacks are ok=true with stack ""
	job   int
	t     time.Time
}

type job struct {
	name, spy, units, agg string
	rate                  uint32
	start, end            time.Time
	data                  [][2]string // stack, count: read inside Upload
	late                  [][2]string // the same trie read again at the end of the session (as a slow uploader would)
	trie                  *transporttrie.Trie
	ptr                   *upstream.UploadJob // the uploader's view later on: what a queued job says when it is finally sent
	lateStart, lateEnd    time.Time
	lateName              string
	shared                bool // the very same *Trie or *UploadJob was handed over with an earlier job
	byStop                bool
}

type runState struct {
	buf       [64]byte
	bareSep   bool
	mu        sync.Mutex
	log       []entry
	jobs      []job
	r         *rand.Rand
	in        Input
	nextID    int
	dueTicks  int
	stopGID   int64
	sess      *agent.ProfileSession
	gateFired bool
	cumul     bool
}

var cur *runState

func gid() int64 {
	b := make([]byte, 64)
	b = b[:runtime.Stack(b, false)]
	b = bytes.TrimPrefix(b, []byte("goroutine "))
	i := bytes.IndexByte(b, ' ')
	n, _ := strconv.ParseInt(string(b[:i]), 10, 64)
	return n
}

func (h *runState) add(e entry) {
	h.mu.Lock()
	e.t = time.Now()
	h.log = append(h.log, e)
	h.mu.Unlock()
}

// ---- fake spy ----
type fakeSpy struct {
	h     *runState
	slot  int  // which profile type it feeds (gospy branch); 0 otherwise
	cumul bool // reports from a small alphabet, the same stack often twice in one reading
}

func (s *fakeSpy) Stop() error {
	if s.slot == 0 {
		s.h.add(entry{kind: eSpyStop})
	}
	return nil
}
func (s *fakeSpy) Reset() {
	if s.slot != 0 {
		return // the tick's decision is logged once, by the first spy
	}
	s.h.mu.Lock()
	s.h.dueTicks++
	s.h.mu.Unlock()
	s.h.add(entry{kind: eDue})
}
func (s *fakeSpy) Snapshot(cb func([]byte, uint64, error)) {
	h := s.h
	if s.slot == 0 {
		h.add(entry{kind: eSnap})
	}
	n := h.r.Intn(4)
	if h.r.Intn(8) == 0 {
		n = 6
	}
	if ie := int64(h.in.IdleEvery); ie > 0 {
		iv := int64(time.Duration(h.in.IntervalMs) * time.Millisecond)
		if (time.Now().UnixNano()/iv)%ie == 0 {
			n = 0 // an idle interval
		}
	}
	h.mu.Lock()
	gateHere := s.slot == 0 && h.in.StopMode == "gate" && !h.gateFired && h.dueTicks == h.in.GateTick && h.dueTicks > 0 &&
		len(h.log) >= 2 && h.log[len(h.log)-2].kind == eDue
	h.mu.Unlock()
	if gateHere && n < h.in.GateAfter+1 {
		n = h.in.GateAfter + 1
	}
	prevStack := ""
	for i := 0; i < n; i++ {
		if gateHere && i == h.in.GateAfter {
			h.gateFired = true
			done := make(chan struct{})
			go func() { h.stop(); close(done) }()
			<-done
		}
		h.mu.Lock()
		id := h.nextID
		h.nextID++
		h.mu.Unlock()
		stack := fmt.Sprintf("s%d", id)
		switch h.r.Intn(12) { // frame separators in every position: they are part of the stack's identity
		case 0:
			stack = fmt.Sprintf("main;s%d;", id) // trailing separator
		case 1:
			stack = fmt.Sprintf("s%d;", id)
		case 2:
			stack = fmt.Sprintf("main;;s%d", id) // an empty frame
		case 3:
			stack = fmt.Sprintf(";s%d", id)
		case 4:
			if !h.bareSep { // the stack ";" alone, once per session
				h.bareSep = true
				stack = ";"
			}
		case 5:
			stack = fmt.Sprintf("main;s%d", id) // the same stack as case 0 of another sample up to the separator
		}
		if s.cumul {
			stack = fmt.Sprintf("c%d", h.r.Intn(4))
			if i > 0 && h.r.Intn(2) == 0 {
				stack = prevStack // pprof-style: one callback per sample, the same stack several times in one reading
			}
		}
		prevStack = stack
		v := uint64(h.r.Intn(3) + 1)
		var err error
		switch h.r.Intn(20) {
		case 0:
			stack = "" // dropped by the session
		case 1:
			err = fmt.Errorf("spy error")
		case 2:
			v = 0
		}
		h.add(entry{kind: eSB, spy: s.slot, id: id, stack: stack, v: v, ok: err == nil})
		if h.in.ReuseBuffer {
			n := copy(h.buf[:], stack) // the previous stack's bytes are overwritten in place
			cb(h.buf[:n], v, err)
		} else {
			cb([]byte(stack), v, err)
		}
		h.add(entry{kind: eSA, id: id})
	}
}

// ---- recording upstream ----
type recUpstream struct{ h *runState }

func (u *recUpstream) Stop() {}
func (u *recUpstream) Upload(j *upstream.UploadJob) {
	h := u.h
	jb := job{name: j.Name, spy: j.SpyName, units: j.Units, agg: j.AggregationType, rate: j.SampleRate, start: j.StartTime, end: j.EndTime}
	if j.Trie != nil {
		j.Trie.Iterate(func(name []byte, val uint64) {
			jb.data = append(jb.data, [2]string{string(name), strconv.FormatUint(val, 10)})
		})
	}
	g := gid()
	h.mu.Lock()
	jb.trie = j.Trie
	jb.ptr = j
	for _, o := range h.jobs {
		if (o.trie != nil && o.trie == j.Trie) || o.ptr == j {
			jb.shared = true
		}
	}
	jb.byStop = g == h.stopGID
	h.jobs = append(h.jobs, jb)
	n := len(h.jobs) - 1
	h.log = append(h.log, entry{kind: eJob, job: n, t: time.Now()})
	h.mu.Unlock()
}

func (h *runState) stop() {
	h.mu.Lock()
	h.stopGID = gid()
	h.mu.Unlock()
	h.add(entry{kind: eStopReq})
	h.sess.Stop()
	h.add(entry{kind: eStopRet})
}

func init() {
	spy.RegisterSpy("verifspy", func(pid int) (spy.Spy, error) { return &fakeSpy{h: cur, cumul: cur.cumul}, nil })
}

// nanoseconds since Go's zero time as a Coq Z term
var yearOneOffset = big.NewInt(62135596800)

func zns(t time.Time) string {
	x := new(big.Int).Add(big.NewInt(t.Unix()), yearOneOffset)
	x.Mul(x, big.NewInt(1000000000))
	x.Add(x, big.NewInt(int64(t.Nanosecond())))
	return x.String() + "%Z"
}

func ptypeCoq(p string) string {
	switch p {
	case "cpu":
		return "PCpu"
	case "inuse_objects":
		return "PInuseObjects"
	case "alloc_objects":
		return "PAllocObjects"
	case "inuse_space":
		return "PInuseSpace"
	case "alloc_space":
		return "PAllocSpace"
	}
	return "(POther " + lib.Bytes([]byte(p)) + ")"
}

func run(in Input) lib.Result {
	if in.Procs > 0 {
		prev := runtime.GOMAXPROCS(in.Procs)
		defer runtime.GOMAXPROCS(prev)
	}
	if in.App == "" {
		in.App = "app"
	}
	h := &runState{r: rand.New(rand.NewSource(in.SampleSeed)), in: in, stopGID: -1}
	h.cumul = spy.ProfileType(in.PType).IsCumulative()
	cur = h
	interval := time.Duration(in.IntervalMs) * time.Millisecond
	ptypes := []string{in.PType}
	spyName := "verifspy"
	var startLo, startHi time.Time
	if len(in.GoSpyTypes) > 0 {
		ptypes = in.GoSpyTypes
		spyName = "gospy"
		pts := make([]spy.ProfileType, len(ptypes))
		spies := make([]spy.Spy, len(ptypes))
		for i, p := range ptypes {
			pts[i] = spy.ProfileType(p)
			spies[i] = &fakeSpy{h: h, slot: i, cumul: pts[i].IsCumulative()}
		}
		startLo = time.Now()
		h.sess = agent.VerifNewSessionWithSpies(&agent.SessionConfig{
			Upstream: &recUpstream{h: h}, AppName: in.App, ProfilingTypes: pts,
			SampleRate: uint32(in.RateHz), UploadRate: interval, Pid: 0,
		}, &agent.NoopLogger{}, spies)
		startHi = time.Now()
	} else {
		h.sess = agent.NewSession(&agent.SessionConfig{
			Upstream: &recUpstream{h: h}, AppName: in.App, ProfilingTypes: []spy.ProfileType{spy.ProfileType(in.PType)},
			SpyName: "verifspy", SampleRate: uint32(in.RateHz), UploadRate: interval, Pid: 0,
		}, &agent.NoopLogger{})
		startLo = time.Now()
		if err := h.sess.Start(); err != nil {
			return lib.Result{Crash: "Start: " + err.Error()}
		}
		startHi = time.Now()
	}

	total := time.Duration(float64(interval) * in.Intervals)
	switch in.StopMode {
	case "boundary":
		// aim at an interval boundary (boundaries are multiples of the interval counted from year 1) +- offset
		target := startHi.Add(total).Truncate(interval).Add(interval).Add(time.Duration(in.StopOffsetUs) * time.Microsecond)
		// no busy-waiting: a spinning goroutine delays the runtime's timers and would make the overdue tick coincide with Stop
		time.Sleep(time.Until(target))
		h.stop()
	case "gate":
		deadline := time.Now().Add(total + 6*interval)
		for time.Now().Before(deadline) {
			h.mu.Lock()
			f := h.gateFired
			h.mu.Unlock()
			if f {
				break
			}
			time.Sleep(time.Millisecond)
		}
		h.mu.Lock()
		f := h.gateFired
		h.mu.Unlock()
		if !f {
			h.stop()
		}
	default:
		time.Sleep(total)
		h.stop()
	}
	// the sampling goroutine notices stopCh and stops the spies; ticks may still run until then
	waitEnd := time.Now().Add(2 * time.Second)
	for time.Now().Before(waitEnd) {
		h.mu.Lock()
		ended := false
		for _, e := range h.log {
			if e.kind == eSpyStop {
				ended = true
			}
		}
		h.mu.Unlock()
		if ended {
			break
		}
		time.Sleep(200 * time.Microsecond)
	}
	time.Sleep(time.Millisecond)

	h.mu.Lock()
	log := append([]entry{}, h.log...)
	jobs := append([]job{}, h.jobs...)
	h.mu.Unlock()
	// the late read: what an uploader that serialises a queued job only now would send
	for i := range jobs {
		p := jobs[i].ptr
		jobs[i].lateStart, jobs[i].lateEnd, jobs[i].lateName = p.StartTime, p.EndTime, p.Name
		if p.Trie != nil {
			p.Trie.Iterate(func(name []byte, val uint64) {
				jobs[i].late = append(jobs[i].late, [2]string{string(name), strconv.FormatUint(val, 10)})
			})
		}
	}

	// ---- dump ----
	var stopLo, stopHi time.Time
	logTerms := make([]string, 0, len(log))
	var snaps []time.Time
	nSamples, postStop, ended := 0, 0, false
	stopSeen := false
	for _, e := range log {
		switch e.kind {
		case eDue:
			logTerms = append(logTerms, "LDue")
		case eSnap:
			logTerms = append(logTerms, "LSnap")
			snaps = append(snaps, e.t)
		case eSB:
			logTerms = append(logTerms, fmt.Sprintf("LSB %d %s %s %d %s", e.id, lib.Nat(e.spy), lib.Bytes([]byte(e.stack)), e.v, lib.Bool(e.ok)))
			nSamples++
			if stopSeen {
				postStop++
			}
		case eSA:
			logTerms = append(logTerms, fmt.Sprintf("LSA %d", e.id))
		case eJob:
			logTerms = append(logTerms, "LJob "+lib.Nat(e.job))
		case eStopReq:
			logTerms = append(logTerms, "LStopReq")
			stopLo = e.t
			stopSeen = true
		case eStopRet:
			logTerms = append(logTerms, "LStopRet")
			stopHi = e.t
		case eSpyStop:
			logTerms = append(logTerms, "LSpyStop")
			ended = true
		}
	}
	// largest gap between consecutive clock observations of the sampling loop (Start, Snapshot entries, Stop request)
	pts := []time.Time{startHi}
	for _, t := range snaps {
		if stopLo.IsZero() || t.Before(stopLo) {
			pts = append(pts, t)
		}
	}
	if !stopLo.IsZero() {
		pts = append(pts, stopLo)
	}
	var maxGap time.Duration
	for i := 1; i < len(pts); i++ {
		if g := pts[i].Sub(pts[i-1]); g > maxGap {
			maxGap = g
		}
	}
	// debugging aid for the evidence: the last log entries with their time relative to the Stop request (microseconds)
	tail := []string{}
	names := []string{"Due", "Snap", "SB", "SA", "Job", "StopReq", "StopRet", "SpyStop"}
	for i, e := range log {
		if i >= len(log)-14 && !stopLo.IsZero() {
			tail = append(tail, fmt.Sprintf("%s@%d", names[e.kind], e.t.Sub(stopLo).Microseconds()))
		}
	}
	jobTerms := make([]string, len(jobs))
	afterStopJobs := 0
	seenStopJob := false
	for i, j := range jobs {
		data := make([]string, len(j.data))
		for k, d := range j.data {
			data[k] = lib.Pair(lib.Bytes([]byte(d[0])), d[1])
		}
		late := make([]string, len(j.late))
		for k, d := range j.late {
			late[k] = lib.Pair(lib.Bytes([]byte(d[0])), d[1])
		}
		jobTerms[i] = fmt.Sprintf("{| oj_name := %s; oj_start := %s; oj_end := %s; oj_spy := %s; oj_rate := %d; oj_units := %s; oj_agg := %s; oj_data := %s; oj_late := %s; oj_late_name := %s; oj_late_start := %s; oj_late_end := %s; oj_shared := %s; oj_by_stop := %s |}",
			lib.Bytes([]byte(j.name)), zns(j.start), zns(j.end), lib.Bytes([]byte(j.spy)), j.rate, lib.Bytes([]byte(j.units)),
			lib.Bytes([]byte(j.agg)), lib.List(data), lib.List(late), lib.Bytes([]byte(j.lateName)), zns(j.lateStart), zns(j.lateEnd),
			lib.Bool(j.shared), lib.Bool(j.byStop))
		if seenStopJob {
			afterStopJobs++
		}
		if j.byStop {
			seenStopJob = true
		}
	}
	ptTerms := make([]string, len(ptypes))
	for i, p := range ptypes {
		ptTerms[i] = ptypeCoq(p)
	}
	coq := "{| q_app := " + lib.Bytes([]byte(in.App)) + "; q_spy := " + lib.Bytes([]byte(spyName)) + "; q_rate := " + lib.N(uint64(in.RateHz)) +
		"; q_interval := " + lib.Z(int64(interval)) + "; q_gospy := " + lib.Bool(len(in.GoSpyTypes) > 0) + "; q_ptypes := " + lib.List(ptTerms) +
		"; q_log := " + lib.List(logTerms) +
		"; q_jobs := " + lib.List(jobTerms) + "; q_start_lo := " + zns(startLo) + "; q_start_hi := " + zns(startHi) +
		"; q_stop_lo := " + zns(stopLo) + "; q_stop_hi := " + zns(stopHi) + "; q_maxgap := " + lib.Z(int64(maxGap)) +
		"; q_ended := " + lib.Bool(ended) + " |}"

	// features: how close stop / boundaries came to a sample (in ticks)
	tick := time.Second / time.Duration(in.RateHz)
	phase := stopLo.Sub(stopLo.Truncate(interval))
	nearBoundary := phase < tick || interval-phase < tick
	gapClass := "<=I/3"
	if 3*maxGap > interval {
		gapClass = ">I/3 (length check waived)"
	}
	return lib.Result{
		Coq:        coq,
		NonTrivial: nearBoundary || postStop > 0 || afterStopJobs > 0 || in.StopMode == "gate",
		Feat: map[string]interface{}{"rate_hz": in.RateHz, "interval_ms": in.IntervalMs, "ptype": in.PType, "stop_mode": in.StopMode,
			"stop_within_one_tick_of_boundary": nearBoundary, "samples_after_stop_request": postStop > 0, "jobs_after_stop_job": afterStopJobs,
			"jobs": len(jobs), "gap": gapClass, "procs": in.Procs, "goroutine_ended": ended, "reuse_buffer": in.ReuseBuffer, "idle_every": in.IdleEvery, "gospy_types": len(in.GoSpyTypes)},
		Obs: map[string]interface{}{"samples": nSamples, "jobs": len(jobs), "post_stop_samples": postStop, "jobs_after_stop_job": afterStopJobs,
			"max_gap_us": int64(maxGap / time.Microsecond), "stop_phase_us": int64(phase / time.Microsecond), "log_tail_us": tail},
	}
}

func gen(r *rand.Rand, idx int, tier string) Input {
	in := Input{
		RateHz:     lib.Pick(r, []int{100, 200, 250, 500, 1000, 1000}),
		IntervalMs: lib.Pick(r, []int{20, 25, 30, 40, 50}),
		Intervals:  3 + 7*r.Float64(),
		PType:      lib.Pick(r, []string{"cpu", "cpu", "cpu", "inuse_objects", "inuse_space", "alloc_objects", "alloc_space", "wall"}),
		Procs:      lib.Pick(r, []int{1, 2, 4, 16}),
		SampleSeed: r.Int63(),
		App:        lib.Pick(r, []string{"app", "my.app{env=prod}", "a b"}),
	}
	switch r.Intn(10) {
	case 0, 1, 2, 3:
		in.StopMode = "boundary"
		in.StopOffsetUs = lib.Pick(r, []int{-300, -100, -30, -5, 0, 0, 5, 30, 100, 300, 1000})
	default:
		in.StopMode = "random"
	}
	in.ReuseBuffer = lib.Chance(r, 0.5)
	in.IdleEvery = lib.Pick(r, []int{0, 0, 2, 3})
	if idx%4 == 3 { // the gospy branch: 2-4 profile types, at least one cumulative
		all := []string{"cpu", "inuse_objects", "alloc_objects", "inuse_space", "alloc_space"}
		r.Shuffle(len(all), func(i, j int) { all[i], all[j] = all[j], all[i] })
		in.GoSpyTypes = all[:lib.Range(r, 2, 4)]
		hasCum := false
		for _, p := range in.GoSpyTypes {
			if p == "alloc_objects" || p == "alloc_space" {
				hasCum = true
			}
		}
		if !hasCum {
			in.GoSpyTypes[0] = lib.Pick(r, []string{"alloc_objects", "alloc_space"})
		}
		in.ReuseBuffer = false
	}
	if tier != "thorough" && in.Intervals > 6 {
		in.Intervals = 3 + 3*r.Float64()
	}
	return in
}

func main() {
	lib.Main(lib.Harness[Input]{Prop: "C19", Quick: 160, Thorough: 2400, Gen: gen, Run: run})
}
