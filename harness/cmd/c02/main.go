//go:build verif

// c02: cache transparency and graceful restart at storage level.
// Every history is run twice on the real pkg/storage: on storage W ("with") including the maintenance steps
// (VerifEvict of one cache by a fraction, Close+New, VerifWriteBack) and on storage P ("plain") without them.
// After every step a fixed set of queries is answered by both and dumped.  No oracle here: Corr/CorrC02.v decides.
package main

import (
	"encoding/json"
	"fmt"
	"math/rand"
	"os"
	"sort"
	"strings"
	"time"

	"github.com/pyroscope-io/pyroscope/pkg/config"
	"github.com/pyroscope-io/pyroscope/pkg/storage"
	"github.com/pyroscope-io/pyroscope/pkg/storage/dimension"
	"github.com/sirupsen/logrus"
	"verifharness/lib"
	"verifharness/lib/treeu"
)

type Step struct {
	Kind   string        `json:"kind"` // put | delete | evict | restart | writeback | wb1 (write-back of ONE cache: Cache)
	Name   string        `json:"name,omitempty"`
	From   int64         `json:"from,omitempty"`
	Until  int64         `json:"until,omitempty"`
	Stacks []treeu.Stack `json:"stacks,omitempty"`
	Cache  string        `json:"cache,omitempty"`
	Num    int           `json:"num,omitempty"`
	Den    int           `json:"den,omitempty"`
	Quiet  bool          `json:"quiet,omitempty"` // no queries after this step (queries reload evicted objects)
	Agg    string        `json:"agg,omitempty"`   // aggregation type of a put ("" = sum)
	Tick   int           `json:"tick,omitempty"`  // put only: the trees cache's write-back runs while the Tick-th tree of this Put is being read back from disk
}

type Query struct {
	Name  string `json:"name"`
	From  int64  `json:"from"`
	Until int64  `json:"until"`
}

// Names in inputs are generic ("app0{t=a}"); at run time every application name and tag value gets a suffix that
// is unique per case, so that cases sharing the two storage directories do not see each other's data.
type Input struct {
	Stream   string `json:"stream"`             // plain | delone | cap | writeback
	MaxNodes int    `json:"max_nodes,omitempty"` // MaxNodesSerialization for this case (0: 2048)
	Steps   []Step  `json:"steps"`
	Queries []Query `json:"queries"`
}

const unixOffset = 62135596800 // seconds between year 1 (the segment tree's origin) and the Unix epoch

func init() {
	logrus.SetLevel(logrus.PanicLevel)
	storage.VerifDisablePeriodicTasks()
}

type store struct {
	s   *storage.Storage
	cfg *config.Server

	// write-back tick (only used on the storage with maintenance): armed by a put step, fired from the trees cache's
	// FromBytes, i.e. between the cache reads and the cache writes of one Storage.Put
	tickAt, tickSeen   int
	tickFired          bool
	tickLen, tickSaved int
	recording          string // name of the cache whose serializations are being recorded ("" = none)
	saved              map[string]bool
}

func open(dir string) *store {
	if err := os.MkdirAll(dir, 0o755); err != nil {
		panic(err)
	}
	cfg := &config.Server{
		StoragePath: dir, APIBindAddr: ":0", CacheEvictThreshold: 0.99, CacheEvictVolume: 0.10,
		MaxNodesSerialization: 2048, MaxNodesRender: 8192, BadgerLogLevel: "error",
	}
	st := &store{cfg: cfg}
	st.reopen()
	return st
}

func (st *store) reopen() {
	if st.s != nil {
		st.s.Close()
	}
	s, err := storage.New(st.cfg)
	if err != nil {
		panic(err)
	}
	s.VerifWrapCaches(func(cacheName, key string) {
		if st.recording != "" && cacheName == st.recording {
			st.saved[key] = true
		}
	})
	tc := s.VerifCache("trees")
	orig := tc.FromBytes
	tc.FromBytes = func(k string, v []byte) (interface{}, error) {
		if st.tickAt > 0 {
			st.tickSeen++
			if st.tickSeen == st.tickAt {
				st.tickAt = 0
				// what the periodic write-back task does to the trees cache, at this very moment
				st.tickLen = tc.Len()
				st.saved, st.recording = map[string]bool{}, "trees"
				tc.WriteBack()
				tc.VerifBarrier()
				st.recording = ""
				st.tickSaved, st.tickFired = len(st.saved), true
			}
		}
		return orig(k, v)
	}
	st.s = s
}

var (
	baseDir string
	withS   *store
	plainS  *store
	caseSeq int
)

// rename gives application names and tag values the per-case suffix: app0{t=a,u=b} -> app0.7{t=a.7,u=b.7}
func rename(name string, seq int) string {
	suf := fmt.Sprintf(".%d", seq)
	i := strings.Index(name, "{")
	if i < 0 {
		return name + suf
	}
	app := name[:i]
	inner := strings.TrimSuffix(name[i+1:], "}")
	parts := []string{}
	if inner != "" {
		for _, kv := range strings.Split(inner, ",") {
			parts = append(parts, kv+suf)
		}
	}
	return app + suf + "{" + strings.Join(parts, ",") + "}"
}

type getDump struct {
	Nil       bool
	Tree      string
	TLStart   int64
	TLDelta   int64
	TLSamples []uint64
	Spy       string
	Rate      uint32
	Units     string
}

func (st *store) get(q Query, seq int) (d getDump, errs string) {
	defer func() {
		if r := recover(); r != nil {
			errs = fmt.Sprintf("PANIC: %v", r)
		}
	}()
	key, err := storage.ParseKey(rename(q.Name, seq))
	if err != nil {
		return d, err.Error()
	}
	out, err := st.s.Get(&storage.GetInput{StartTime: time.Unix(q.From, 0), EndTime: time.Unix(q.Until, 0), Key: key})
	if err != nil {
		return d, err.Error()
	}
	if out == nil {
		return getDump{Nil: true}, ""
	}
	d = getDump{Tree: treeu.Coq(out.Tree.VerifDump()), Spy: out.SpyName, Rate: out.SampleRate, Units: out.Units}
	if out.Timeline != nil {
		b, _ := json.Marshal(out.Timeline)
		var tl struct {
			StartTime     int64    `json:"startTime"`
			Samples       []uint64 `json:"samples"`
			DurationDelta int64    `json:"durationDelta"`
		}
		json.Unmarshal(b, &tl)
		d.TLStart, d.TLDelta, d.TLSamples = tl.StartTime, tl.DurationDelta, tl.Samples
	}
	return d, ""
}

func coqGet(g getDump, errs string) string {
	if errs != "" || g.Nil {
		return "None"
	}
	items := make([]string, len(g.TLSamples))
	for i, x := range g.TLSamples {
		items[i] = lib.N(x)
	}
	return "(Some {| g_tree := " + g.Tree + "; g_tl_start := " + lib.Z(g.TLStart) + "; g_tl_delta := " + lib.Z(g.TLDelta) +
		"; g_tl_samples := " + lib.List(items) + "; g_spy := " + lib.Bytes([]byte(g.Spy)) + "; g_rate := " + lib.N(uint64(g.Rate)) +
		"; g_units := " + lib.Bytes([]byte(g.Units)) + " |})"
}

func (st *store) apply(s Step, seq int) (errs string) {
	defer func() {
		if r := recover(); r != nil {
			errs = fmt.Sprintf("PANIC: %v", r)
		}
	}()
	switch s.Kind {
	case "put":
		key, err := storage.ParseKey(rename(s.Name, seq))
		if err != nil {
			return err.Error()
		}
		agg := s.Agg
		if agg == "" {
			agg = "sum"
		}
		if err := st.s.Put(&storage.PutInput{StartTime: time.Unix(s.From, 0), EndTime: time.Unix(s.Until, 0), Key: key,
			Val: treeu.Build(s.Stacks), SpyName: "spy", SampleRate: 100, Units: "samples", AggregationType: agg}); err != nil {
			return err.Error()
		}
	case "delete":
		key, err := storage.ParseKey(rename(s.Name, seq))
		if err != nil {
			return err.Error()
		}
		if err := st.s.Delete(&storage.DeleteInput{Key: key}); err != nil {
			return err.Error()
		}
	case "evict":
		st.s.VerifEvict(s.Cache, frac(s))
	case "restart":
		st.reopen()
	case "writeback":
		st.s.VerifWriteBack()
	case "wb1":
		// what the periodic write-back task does to one cache; how many entries it held and how many of them the
		// write-back goroutine really serialized is observed
		c := st.s.VerifCache(s.Cache)
		if c == nil {
			return "no such cache"
		}
		st.tickLen = c.Len()
		st.saved, st.recording = map[string]bool{}, s.Cache
		c.WriteBack()
		c.VerifBarrier()
		st.recording = ""
		st.tickSaved, st.tickFired = len(st.saved), true
	}
	return ""
}

func frac(s Step) float64 {
	d := s.Den
	if d != 1 && d != 2 && d != 4 {
		d = 1
	}
	n := s.Num
	if n < 0 {
		n = 0
	}
	if n > d { // never more than everything: lfu.evict would spin forever
		n = d
	}
	return float64(n) / float64(d)
}

func kindCoq(k string) string {
	switch k {
	case "put":
		return "KPut"
	case "delete":
		return "KDelete"
	case "evict":
		return "KEvict"
	case "restart":
		return "KRestart"
	case "wb1":
		return "KWb1"
	}
	return "KWriteBack"
}

func isMaint(k string) bool { return k == "evict" || k == "restart" || k == "writeback" || k == "wb1" }

func cacheTotal(s *storage.Storage) int {
	t := 0
	for _, v := range s.CacheStats() {
		if n, ok := v.(uint64); ok {
			t += int(n)
		}
	}
	return t
}

func run(in Input) (res lib.Result) {
	if withS == nil {
		d, err := os.MkdirTemp("/tmp", "cache-harness-st-")
		if err != nil {
			panic(err)
		}
		baseDir = d
		withS = open(baseDir + "/with")
		plainS = open(baseDir + "/plain")
	}
	caseSeq++
	seq := caseSeq
	// start every case with empty caches on the storage under test, so that a case does not depend on its predecessors
	for _, c := range []string{"dimensions", "segments", "dicts", "trees"} {
		withS.s.VerifEvict(c, 1)
	}
	// the node budget of the tree serializer for this case (read from the shared config at every save)
	mn := in.MaxNodes
	if mn <= 0 {
		mn = 2048
	}
	withS.cfg.MaxNodesSerialization = mn
	plainS.cfg.MaxNodesSerialization = mn

	var steps []string
	counts := map[string]int{}
	caches := map[string]int{}
	fracs := map[string]int{}
	reloaded := 0
	putSeen, nontrivial := false, false
	tagDims := map[string]bool{}

	for _, s := range in.Steps {
		counts[s.Kind]++
		withS.tickAt, withS.tickSeen, withS.tickFired = 0, 0, false
		if s.Kind == "put" && s.Tick > 0 {
			withS.tickAt = s.Tick
		}
		errW := withS.apply(s, seq)
		withS.tickAt = 0
		tickLen, tickSaved := 0, 0
		if withS.tickFired {
			tickLen, tickSaved = withS.tickLen, withS.tickSaved
			counts["tick"]++
		}
		errP := ""
		if !isMaint(s.Kind) {
			errP = plainS.apply(s, seq)
		}
		switch s.Kind {
		case "put":
			putSeen = true
			k, _ := storage.ParseKey(rename(s.Name, seq))
			norm := k.Normalized()
			app := k.AppName()
			tagDims["__name__:"+app] = true
			inner := norm[len(app)+1 : len(norm)-1]
			if inner != "" {
				for _, kv := range strings.Split(inner, ",") {
					i := strings.Index(kv, "=")
					tagDims[kv[:i]+":"+kv[i+1:]] = true
				}
			}
		case "evict":
			caches[s.Cache]++
			fracs[fmt.Sprintf("%d/%d", s.Num, s.Den)]++
			if putSeen && s.Num > 0 {
				nontrivial = true
			}
		case "restart":
			if putSeen {
				nontrivial = true
			}
		}
		before := cacheTotal(withS.s)
		nq := len(in.Queries)
		if s.Quiet {
			nq = 0
		}
		answers := make([]string, nq)
		for i, q := range in.Queries[:nq] {
			gw, ew := withS.get(q, seq)
			gp, ep := plainS.get(q, seq)
			answers[i] = lib.Pair(coqGet(gw, ew), coqGet(gp, ep))
		}
		if isMaint(s.Kind) {
			if d := cacheTotal(withS.s) - before; d > 0 {
				reloaded += d
			}
		}
		slots := int64(0)
		if s.Kind == "put" {
			slots = (s.Until - s.From + 9) / 10
		}
		steps = append(steps, "{| so_kind := "+kindCoq(s.Kind)+"; so_slots := "+lib.N(uint64(slots))+
			"; so_ticked := "+lib.Bool(withS.tickFired)+"; so_tick_len := "+lib.N(uint64(tickLen))+"; so_tick_saved := "+lib.N(uint64(tickSaved))+
			"; so_err_with := "+lib.Bool(errW != "")+
			"; so_err_plain := "+lib.Bool(errP != "")+"; so_answers := "+lib.List(answers)+" |}")
	}

	// the dimensions this history created, as the storage under test holds them now: codec round trip
	var dims []string
	names := []string{}
	for n := range tagDims {
		names = append(names, n)
	}
	sort.Strings(names)
	for _, n := range names {
		v, err := withS.s.VerifCache("dimensions").Get(n)
		if err != nil || v == nil {
			continue
		}
		d := v.(*dimension.Dimension)
		b, err := d.Bytes()
		if err != nil {
			continue
		}
		d2, err := dimension.FromBytes(b)
		if err != nil {
			continue
		}
		ks := func(d *dimension.Dimension) string {
			keys := d.VerifKeys()
			items := make([]string, len(keys))
			for i, k := range keys {
				items[i] = lib.Bytes(k)
			}
			return lib.List(items)
		}
		dims = append(dims, "("+lib.Bytes(b)+", "+ks(d)+", "+ks(d2)+")")
	}

	res.Coq = "{| c_steps := " + lib.List(steps) + "; c_dims := " + lib.List(dims) + " |}"
	res.NonTrivial = nontrivial
	res.Feat = map[string]interface{}{"stream": in.Stream, "steps": len(in.Steps), "queries": len(in.Queries), "max_nodes": mn,
		"n_put": counts["put"], "n_delete": counts["delete"], "n_evict": counts["evict"], "n_restart": counts["restart"],
		"n_writeback": counts["writeback"], "n_tick": counts["tick"], "objects_reloaded": reloaded}
	for c, n := range caches {
		res.Feat["evict_"+c] = n
	}
	for f, n := range fracs {
		res.Feat["frac_"+f] = n
	}
	return res
}

// ---------------------------------------------------------------------------------------------
// generator

// boundary: a Unix time on the year-1 grid of w seconds inside [864403200, 1864403200)
func boundary(r *rand.Rand, w int64) int64 {
	lo := (int64(864403200) + unixOffset + 20000000) / w
	hi := (int64(1864403200) + unixOffset - 20000000) / w
	return (lo+r.Int63n(hi-lo))*w - unixOffset
}

var frames = []string{"a", "b", "c", "main", "x y", "z", "other", ""}

func profile(r *rand.Rand, stepIdx int) []treeu.Stack {
	switch r.Intn(5) {
	case 0: // single chain
		d := lib.Range(r, 1, 4)
		parts := []string{}
		for j := 0; j < d; j++ {
			parts = append(parts, lib.Pick(r, frames[:5]))
		}
		return []treeu.Stack{{Key: []byte(strings.Join(parts, ";")), V: uint64(lib.Range(r, 1, 9))}}
	case 1: // ties between node totals
		v := uint64(lib.Range(r, 1, 5))
		n := lib.Range(r, 2, 5)
		res := []treeu.Stack{}
		for i := 0; i < n; i++ {
			d := lib.Range(r, 1, 3)
			parts := []string{}
			for j := 0; j < d; j++ {
				parts = append(parts, lib.Pick(r, frames[:4]))
			}
			res = append(res, treeu.Stack{Key: []byte(strings.Join(parts, ";")), V: v})
		}
		return res
	case 2: // growing symbol set: frame names that did not exist at earlier steps
		n := lib.Range(r, 1, 4)
		res := []treeu.Stack{}
		for i := 0; i < n; i++ {
			parts := []string{lib.Pick(r, frames[:4]), fmt.Sprintf("f%d_%d", stepIdx, i)}
			if lib.Chance(r, 0.5) {
				parts = append(parts, fmt.Sprintf("f%d", stepIdx))
			}
			res = append(res, treeu.Stack{Key: []byte(strings.Join(parts, ";")), V: uint64(lib.Range(r, 0, 7))})
		}
		return res
	default:
		n := lib.Range(r, 1, 6)
		res := []treeu.Stack{}
		for i := 0; i < n; i++ {
			d := lib.Range(r, 1, 4)
			parts := []string{}
			for j := 0; j < d; j++ {
				parts = append(parts, lib.Pick(r, frames))
			}
			res = append(res, treeu.Stack{Key: []byte(strings.Join(parts, ";")), V: uint64(lib.Range(r, 0, 9))})
		}
		return res
	}
}

var cacheNames = []string{"dimensions", "segments", "dicts", "trees"}
var evictFracs = [][2]int{{1, 4}, {1, 2}, {1, 1}, {1, 1}}

// ---- stream "delone": one application, several series; ONE of them is deleted after the trees of the others have
// gone to disk (eviction or restart), so the survivors' trees must be decodable against the shared dictionary ----
func genDelOne(r *rand.Rand) Input {
	in := Input{Stream: "delone"}
	cands := []string{"app0{t=a}", "app0{t=b}", "app0{t=a,u=b}", "app0{u=a}", "app0{}", "app0{t=c,u=a}"}
	r.Shuffle(len(cands), func(i, j int) { cands[i], cands[j] = cands[j], cands[i] })
	all := cands[:lib.Range(r, 2, 3)]
	b := boundary(r, lib.Pick(r, []int64{100, 1000}))
	put := func(i int) {
		span := int64(lib.Range(r, 1, 4))
		from := b + 10*int64(lib.Range(r, -9, 9))
		in.Steps = append(in.Steps, Step{Kind: "put", Name: lib.Pick(r, all), From: from, Until: from + 10*span, Stacks: profile(r, i)})
	}
	maint := func(quiet bool) {
		switch r.Intn(3) {
		case 0:
			in.Steps = append(in.Steps, Step{Kind: "restart", Quiet: quiet})
		case 1:
			in.Steps = append(in.Steps, Step{Kind: "evict", Cache: "trees", Num: 1, Den: 1, Quiet: quiet})
		default:
			in.Steps = append(in.Steps, Step{Kind: "evict", Cache: "trees", Num: 1, Den: 1, Quiet: quiet})
			if lib.Chance(r, 0.5) {
				in.Steps = append(in.Steps, Step{Kind: "evict", Cache: "dicts", Num: 1, Den: 1, Quiet: quiet})
			}
		}
	}
	// every series gets data
	for i, nm := range all {
		span := int64(lib.Range(r, 1, 4))
		from := b + 10*int64(lib.Range(r, -9, 9))
		in.Steps = append(in.Steps, Step{Kind: "put", Name: nm, From: from, Until: from + 10*span, Stacks: profile(r, i)})
	}
	for i := 0; i < lib.Range(r, 0, 2); i++ {
		put(10 + i)
	}
	maint(lib.Chance(r, 0.8)) // mostly without queries in between: the trees stay on disk only while the delete runs
	victim := lib.Pick(r, all)
	if victim == "app0{}" { // a selector without tags would match every series
		victim = all[0]
		if victim == "app0{}" {
			victim = all[1]
		}
	}
	in.Steps = append(in.Steps, Step{Kind: "delete", Name: victim})
	if lib.Chance(r, 0.5) {
		maint(false)
	}
	for i := 0; i < lib.Range(r, 0, 2); i++ {
		put(20 + i)
	}
	if lib.Chance(r, 0.5) {
		maint(false)
	}
	for _, nm := range all {
		in.Queries = append(in.Queries, Query{Name: nm, From: b - 100, Until: b + 200})
	}
	in.Queries = append(in.Queries, Query{Name: "app0{}", From: b - 100, Until: b + 200})
	in.Queries = append(in.Queries, Query{Name: "app0{}", From: b, Until: b + 100})
	return in
}

// ---- stream "cap": a small node budget (MaxNodesSerialization 8/16/32); all profiles of the case are drawn from one
// stack universe whose tree has EXACTLY that many nodes (root included), with chains whose totals tie with the
// smallest total, so stored trees reach the budget but never exceed it (above it eviction prunes by design) ----
func genCap(r *rand.Rand) Input {
	n := lib.Pick(r, []int{8, 8, 16, 16, 32})
	in := Input{Stream: "cap", MaxNodes: n}
	// random tree with n nodes: node i > 0 hangs below a random earlier node; names unique among siblings
	parent := make([]int, n)
	name := make([]string, n)
	path := make([]string, n)
	kids := make([]int, n)
	for i := 1; i < n; i++ {
		p := r.Intn(i)
		if lib.Chance(r, 0.5) { // prefer extending the newest node: chains
			p = i - 1
		}
		parent[i] = p
		name[i] = fmt.Sprintf("%s%d", lib.Pick(r, []string{"a", "b", "c", "main"}), kids[p])
		kids[p]++
		if p == 0 {
			path[i] = name[i]
		} else {
			path[i] = path[p] + ";" + name[i]
		}
	}
	var leaves, inner []int
	for i := 1; i < n; i++ {
		if kids[i] == 0 {
			leaves = append(leaves, i)
		} else {
			inner = append(inner, i)
		}
	}
	prof := func() []treeu.Stack {
		v := uint64(lib.Range(r, 1, 3))
		tie := lib.Chance(r, 0.7)
		var res []treeu.Stack
		for _, l := range leaves {
			if lib.Chance(r, 0.85) {
				c := v
				if !tie {
					c = uint64(lib.Range(r, 1, 5))
				}
				res = append(res, treeu.Stack{Key: []byte(path[l]), V: c})
			}
		}
		for _, i := range inner {
			if lib.Chance(r, 0.15) {
				res = append(res, treeu.Stack{Key: []byte(path[i]), V: uint64(lib.Range(r, 0, 3))})
			}
		}
		if len(res) == 0 {
			res = append(res, treeu.Stack{Key: []byte(path[leaves[0]]), V: v})
		}
		return res
	}
	all := []string{"app0{}"}
	if lib.Chance(r, 0.5) {
		all = append(all, "app0{t=a}")
	}
	b := boundary(r, lib.Pick(r, []int64{100, 1000}))
	nsteps := lib.Range(r, 3, 8)
	puts := 0
	for i := 0; i < nsteps; i++ {
		x := r.Intn(100)
		switch {
		case x < 50 || puts == 0:
			span := int64(1)
			if lib.Chance(r, 0.3) {
				span = int64(lib.Range(r, 2, 5))
			}
			from := b + 10*int64(lib.Range(r, -5, 5))
			in.Steps = append(in.Steps, Step{Kind: "put", Name: lib.Pick(r, all), From: from, Until: from + 10*span, Stacks: prof()})
			puts++
		case x < 80:
			f := lib.Pick(r, evictFracs)
			in.Steps = append(in.Steps, Step{Kind: "evict", Cache: lib.Pick(r, []string{"trees", "trees", "dicts", "segments"}), Num: f[0], Den: f[1]})
		default:
			in.Steps = append(in.Steps, Step{Kind: "restart"})
		}
	}
	in.Steps = append(in.Steps, Step{Kind: "restart"})
	for _, nm := range all {
		in.Queries = append(in.Queries, Query{Name: nm, From: b - 100, Until: b + 200})
	}
	in.Queries = append(in.Queries, Query{Name: "app0{}", From: b, Until: b + 100})
	in.Queries = append(in.Queries, Query{Name: "app0{}", From: b - 50, Until: b + 50})
	return in
}

// ---- stream "avg": an 'average' series (the per-node write counters are the divisor of its answers); single-slot
// writes near a boundary, a write far away in time that grows the segment tree (leaving inner nodes that are not
// present but have counted writes), a reload of the segment at that point, then writes into other children of those
// nodes, and aligned queries answered from them ----
func genAvg(r *rand.Rand) Input {
	in := Input{Stream: "avg"}
	b := boundary(r, 10000)
	name := lib.Pick(r, []string{"app0{}", "app0{t=a}"})
	used := map[int64]bool{}
	put := func(from int64, i int) {
		if used[from] {
			return
		}
		used[from] = true
		v := uint64(lib.Pick(r, []int{10, 30, 100, 7}))
		st := []treeu.Stack{{Key: []byte("a;b"), V: v}}
		if lib.Chance(r, 0.4) {
			st = append(st, treeu.Stack{Key: []byte(fmt.Sprintf("a;c%d", i)), V: uint64(lib.Range(r, 1, 9))})
		}
		in.Steps = append(in.Steps, Step{Kind: "put", Name: name, From: from, Until: from + 10, Stacks: st, Agg: "average"})
	}
	maint := func() {
		switch r.Intn(4) {
		case 0:
			in.Steps = append(in.Steps, Step{Kind: "restart", Quiet: lib.Chance(r, 0.5)})
		case 1:
			in.Steps = append(in.Steps, Step{Kind: "evict", Cache: "segments", Num: 1, Den: 2, Quiet: lib.Chance(r, 0.5)})
		default:
			in.Steps = append(in.Steps, Step{Kind: "evict", Cache: "segments", Num: 1, Den: 1, Quiet: lib.Chance(r, 0.5)})
		}
	}
	near := func() int64 { // a slot in the first 100 s or in another 100 s child of the first 1000 s
		if lib.Chance(r, 0.7) {
			return b + 10*int64(r.Intn(10))
		}
		return b + 100*int64(r.Intn(10)) + 10*int64(r.Intn(10))
	}
	for i := 0; i < lib.Range(r, 1, 2); i++ {
		put(near(), i)
	}
	far := lib.Pick(r, []int64{1000, 1000, 5000, 10000, 100000})
	put(b+far+10*int64(r.Intn(10)), 5)
	maint()
	for i := 0; i < lib.Range(r, 1, 3); i++ {
		put(near(), 10+i)
		if lib.Chance(r, 0.3) {
			maint()
		}
	}
	if lib.Chance(r, 0.5) {
		put(b+far+100+10*int64(r.Intn(10)), 20)
	}
	if lib.Chance(r, 0.5) {
		maint()
	}
	for _, q := range [][2]int64{{0, 100}, {0, 1000}, {0, 10000}, {-100, 200}, {far, far + 1000}, {0, far + 1000}} {
		in.Queries = append(in.Queries, Query{Name: name, From: b + q[0], Until: b + q[1]})
	}
	return in
}

// ---- stream "aligned": uploads of exactly 100 s / 200 s on the 100 s grid into a segment whose root is already above
// that bucket (the bucket node matches the upload and gets no children), a reload of the segment, then single-slot
// uploads and sub-range queries INSIDE the bucket ----
func genAligned(r *rand.Rand) Input {
	in := Input{Stream: "aligned"}
	b := boundary(r, 1000)
	name := lib.Pick(r, []string{"app0{}", "app0{t=a}"})
	st := func(i int) []treeu.Stack {
		res := []treeu.Stack{{Key: []byte("a;b"), V: uint64(100 * lib.Range(r, 1, 5))}}
		if lib.Chance(r, 0.5) {
			res = append(res, treeu.Stack{Key: []byte(fmt.Sprintf("a;c%d", i)), V: uint64(100 * lib.Range(r, 1, 3))})
		}
		return res
	}
	// something elsewhere first, so that the root of the segment tree is above the 100 s level
	far := lib.Pick(r, []int64{300, 500, 1000, 2000})
	in.Steps = append(in.Steps, Step{Kind: "put", Name: name, From: b + far, Until: b + far + 10, Stacks: st(0)})
	off := 100 * int64(r.Intn(3))
	span := lib.Pick(r, []int64{100, 100, 200})
	in.Steps = append(in.Steps, Step{Kind: "put", Name: name, From: b + off, Until: b + off + span, Stacks: st(1)})
	maint := func() {
		switch r.Intn(3) {
		case 0:
			in.Steps = append(in.Steps, Step{Kind: "restart", Quiet: lib.Chance(r, 0.5)})
		case 1:
			in.Steps = append(in.Steps, Step{Kind: "evict", Cache: "segments", Num: 1, Den: 1, Quiet: lib.Chance(r, 0.5)})
		default:
			in.Steps = append(in.Steps, Step{Kind: "evict", Cache: lib.Pick(r, cacheNames), Num: 1, Den: 1})
			in.Steps = append(in.Steps, Step{Kind: "evict", Cache: "segments", Num: 1, Den: 1, Quiet: true})
		}
	}
	maint()
	for i := 0; i < lib.Range(r, 0, 2); i++ {
		f := b + off + 10*int64(r.Intn(int(span/10)))
		in.Steps = append(in.Steps, Step{Kind: "put", Name: name, From: f, Until: f + 10, Stacks: st(2 + i)})
		if lib.Chance(r, 0.4) {
			maint()
		}
	}
	for _, q := range [][2]int64{{off + 20, off + 50}, {off, off + 100}, {off + 50, off + 150}, {-100, 300}, {off, off + span}, {0, far + 100}} {
		in.Queries = append(in.Queries, Query{Name: name, From: b + q[0], Until: b + q[1]})
	}
	return in
}

// ---- stream "wbtick": the periodic write-back of the trees cache fires INSIDE a Put, while a tree is being read back
// from disk (between the cache reads and the cache writes of that Put).  Single-slot uploads into neighbouring slots,
// the trees evicted (so that the next upload, which makes a higher-level bucket present, reads its children back from
// disk), that upload with the tick and without queries afterwards (a query would touch the trees again), then
// eviction or Close+New, then the queries ----
func genWbTick(r *rand.Rand) Input {
	in := Input{Stream: "wbtick"}
	b := boundary(r, lib.Pick(r, []int64{100, 1000}))
	name := lib.Pick(r, []string{"app0{}", "app0{t=a}"})
	st := func(i int) []treeu.Stack {
		res := []treeu.Stack{{Key: []byte("a;b"), V: uint64(lib.Range(r, 1, 20))}}
		if lib.Chance(r, 0.5) {
			res = append(res, treeu.Stack{Key: []byte(fmt.Sprintf("a;c%d", i)), V: uint64(lib.Range(r, 1, 9))})
		}
		return res
	}
	slots := r.Perm(10)
	n0 := lib.Range(r, 1, 2)
	for i := 0; i < n0; i++ {
		f := b + 10*int64(slots[i])
		in.Steps = append(in.Steps, Step{Kind: "put", Name: name, From: f, Until: f + 10, Stacks: st(i)})
	}
	switch r.Intn(3) {
	case 0:
		in.Steps = append(in.Steps, Step{Kind: "restart", Quiet: true})
	default:
		in.Steps = append(in.Steps, Step{Kind: "evict", Cache: "trees", Num: 1, Den: 1, Quiet: true})
	}
	nt := lib.Range(r, 1, 2)
	for i := 0; i < nt; i++ {
		f := b + 10*int64(slots[n0+i])
		if lib.Chance(r, 0.25) { // a write far away instead: grows the segment tree above the existing buckets
			f = b + lib.Pick(r, []int64{100, 300, 1000}) + 10*int64(r.Intn(10))
		}
		in.Steps = append(in.Steps, Step{Kind: "put", Name: name, From: f, Until: f + 10, Stacks: st(5 + i),
			Tick: lib.Pick(r, []int{1, 1, 1, 2}), Quiet: true})
	}
	switch r.Intn(3) {
	case 0:
		in.Steps = append(in.Steps, Step{Kind: "evict", Cache: "trees", Num: 1, Den: 1})
	default:
		in.Steps = append(in.Steps, Step{Kind: "restart"})
	}
	if lib.Chance(r, 0.4) {
		f := b + 10*int64(slots[n0+nt])
		in.Steps = append(in.Steps, Step{Kind: "put", Name: name, From: f, Until: f + 10, Stacks: st(9)})
		in.Steps = append(in.Steps, Step{Kind: "restart"})
	}
	for _, q := range [][2]int64{{0, 100}, {0, 1000}, {-100, 200}, {0, 50}} {
		in.Queries = append(in.Queries, Query{Name: name, From: b + q[0], Until: b + q[1]})
	}
	return in
}

// ---- stream "bulk": 45-120 series of one application under one label, with keys of ~80 bytes (the dimension of the
// application name serializes to several KiB), the dimensions evicted or the storage restarted, selector queries ----
func genBulk(r *rand.Rand) Input {
	in := Input{Stream: "bulk"}
	n := lib.Pick(r, []int{45, 52, 70, 100, 120})
	b := boundary(r, 100)
	pad := strings.Repeat("x", lib.Pick(r, []int{40, 60, 60}))
	name := func(i int) string { return fmt.Sprintf("app0{t=v%03d%s}", i, pad) }
	for i := 0; i < n; i++ {
		f := b + 10*int64(i%10)
		in.Steps = append(in.Steps, Step{Kind: "put", Name: name(i), From: f, Until: f + 10, Quiet: true,
			Stacks: []treeu.Stack{{Key: []byte(fmt.Sprintf("a;s%d", i%7)), V: uint64(1 + i%5)}}})
	}
	switch r.Intn(3) {
	case 0:
		in.Steps = append(in.Steps, Step{Kind: "restart"})
	case 1:
		in.Steps = append(in.Steps, Step{Kind: "evict", Cache: "dimensions", Num: 1, Den: 1})
	default:
		in.Steps = append(in.Steps, Step{Kind: "evict", Cache: "dimensions", Num: 1, Den: 2})
		in.Steps = append(in.Steps, Step{Kind: "evict", Cache: "dimensions", Num: 1, Den: 1})
	}
	if lib.Chance(r, 0.5) {
		i := r.Intn(n)
		in.Steps = append(in.Steps, Step{Kind: "delete", Name: name(i)})
		in.Steps = append(in.Steps, Step{Kind: "restart"})
	}
	in.Queries = append(in.Queries, Query{Name: "app0{}", From: b - 100, Until: b + 200})
	for _, i := range []int{0, n / 2, n - 1} {
		in.Queries = append(in.Queries, Query{Name: name(i), From: b - 100, Until: b + 200})
	}
	return in
}

// ---- stream "reingest": an object is written back while it stays cached (write-back of one cache, observed), the
// application is deleted, the very same upload is ingested again (byte-identical objects under the same keys), then
// that cache is evicted or the storage closed before anything else changes, then restart and queries ----
// variant: an application with several series; restart; the whole application is deleted (its dimensions become
// empty, i.e. equal to what New would build); restart; ONE of the series is ingested again; app-wide query
func genEmptied(r *rand.Rand) Input {
	in := Input{Stream: "reingest"}
	b := boundary(r, lib.Pick(r, []int64{100, 1000}))
	names := []string{"app0{t=a}", "app0{t=b}", "app0{t=c}"}[:lib.Range(r, 2, 3)]
	ups := []Step{}
	for i, nm := range names {
		f := b + 10*int64(r.Intn(10))
		ups = append(ups, Step{Kind: "put", Name: nm, From: f, Until: f + 10,
			Stacks: []treeu.Stack{{Key: []byte("a;b"), V: uint64(3 + i)}}})
	}
	in.Steps = append(in.Steps, ups...)
	maint := func() {
		if lib.Chance(r, 0.5) {
			in.Steps = append(in.Steps, Step{Kind: "restart"})
		} else {
			in.Steps = append(in.Steps, Step{Kind: "evict", Cache: "dimensions", Num: 1, Den: 1})
			in.Steps = append(in.Steps, Step{Kind: "evict", Cache: "segments", Num: 1, Den: 1})
		}
	}
	maint()
	in.Steps = append(in.Steps, Step{Kind: "delete", Name: "app0{}"})
	maint()
	in.Steps = append(in.Steps, ups[r.Intn(len(ups)-1)]) // a series that sorts before a deleted one
	if lib.Chance(r, 0.5) {
		maint()
	}
	in.Queries = append(in.Queries, Query{Name: "app0{}", From: b - 100, Until: b + 200})
	in.Queries = append(in.Queries, Query{Name: names[0], From: b - 100, Until: b + 200})
	in.Queries = append(in.Queries, Query{Name: names[len(names)-1], From: b - 100, Until: b + 200})
	return in
}

func genReingest(r *rand.Rand) Input {
	if lib.Chance(r, 0.5) {
		return genEmptied(r)
	}
	in := Input{Stream: "reingest"}
	b := boundary(r, lib.Pick(r, []int64{100, 1000}))
	name := "app0{}"
	f := b + 10*int64(r.Intn(10))
	up := Step{Kind: "put", Name: name, From: f, Until: f + 10,
		Stacks: []treeu.Stack{{Key: []byte("a;b"), V: uint64(lib.Range(r, 1, 20))}, {Key: []byte("a;c"), V: uint64(lib.Range(r, 1, 9))}}}
	in.Steps = append(in.Steps, up)
	caches := []string{"trees", "segments", "dimensions", "dicts"}
	r.Shuffle(len(caches), func(i, j int) { caches[i], caches[j] = caches[j], caches[i] })
	nwb := lib.Range(r, 1, 3)
	for _, c := range caches[:nwb] {
		in.Steps = append(in.Steps, Step{Kind: "wb1", Cache: c})
	}
	in.Steps = append(in.Steps, Step{Kind: "delete", Name: name})
	in.Steps = append(in.Steps, up)
	if lib.Chance(r, 0.5) {
		in.Steps = append(in.Steps, Step{Kind: "evict", Cache: caches[0], Num: 1, Den: 1, Quiet: true})
	}
	in.Steps = append(in.Steps, Step{Kind: "restart"})
	if lib.Chance(r, 0.3) {
		f2 := b + 10*int64(r.Intn(10))
		in.Steps = append(in.Steps, Step{Kind: "put", Name: name, From: f2, Until: f2 + 10, Stacks: up.Stacks})
		in.Steps = append(in.Steps, Step{Kind: "restart"})
	}
	for _, q := range [][2]int64{{0, 100}, {-100, 200}} {
		in.Queries = append(in.Queries, Query{Name: name, From: b + q[0], Until: b + q[1]})
	}
	return in
}

func gen(r *rand.Rand, idx int, tier string) Input {
	switch idx % 22 {
	case 10:
		return genBulk(r)
	case 21, 13:
		return genReingest(r)
	}
	switch idx % 9 {
	case 8:
		return genWbTick(r)
	case 7:
		return genAligned(r)
	case 3:
		return genDelOne(r)
	case 4:
		return genCap(r)
	case 6:
		return genAvg(r)
	}
	in := Input{Stream: "plain"}
	if idx%9 == 5 {
		in.Stream = "writeback"
	}
	// series: 1-3 apps, 1-3 series each
	type series struct{ name string }
	var all []string
	napps := lib.Range(r, 1, 3)
	tagVals := []string{"a", "b", "c"}
	for a := 0; a < napps; a++ {
		app := fmt.Sprintf("app%d", a)
		ns := lib.Range(r, 1, 3)
		seen := map[string]bool{}
		for len(seen) < ns {
			var nm string
			switch r.Intn(4) {
			case 0:
				nm = app + "{}"
			case 1:
				nm = app + "{t=" + lib.Pick(r, tagVals) + "}"
			default:
				nm = app + "{t=" + lib.Pick(r, tagVals) + ",u=" + lib.Pick(r, tagVals[:2]) + "}"
			}
			if !seen[nm] {
				seen[nm] = true
				all = append(all, nm)
			}
		}
	}
	// times: clustered around a 100 s or 1000 s boundary of the segment grid
	w := int64(100)
	if lib.Chance(r, 0.4) {
		w = 1000
	}
	b := boundary(r, w)
	lo, hi := b-100, b+200
	nsteps := lib.Range(r, 3, 9)
	puts := 0
	for i := 0; i < nsteps; i++ {
		x := r.Intn(100)
		switch {
		case x < 45 || puts == 0:
			span := int64(lib.Range(r, 1, 9))
			from := b + 10*int64(lib.Range(r, -9, 9))
			in.Steps = append(in.Steps, Step{Kind: "put", Name: lib.Pick(r, all), From: from, Until: from + 10*span, Stacks: profile(r, i)})
			puts++
		case x < 55:
			s := lib.Pick(r, all)
			app := s[:strings.Index(s, "{")]
			if lib.Chance(r, 0.5) || !strings.Contains(s, "t=") {
				in.Steps = append(in.Steps, Step{Kind: "delete", Name: app + "{}"})
			} else {
				t := s[strings.Index(s, "t=") : strings.Index(s, "t=")+3]
				in.Steps = append(in.Steps, Step{Kind: "delete", Name: app + "{" + t + "}"})
			}
		case x < 82:
			f := lib.Pick(r, evictFracs)
			in.Steps = append(in.Steps, Step{Kind: "evict", Cache: lib.Pick(r, cacheNames), Num: f[0], Den: f[1], Quiet: lib.Chance(r, 0.3)})
		case x < 92 || in.Stream != "writeback":
			in.Steps = append(in.Steps, Step{Kind: "restart", Quiet: lib.Chance(r, 0.3)})
		default:
			in.Steps = append(in.Steps, Step{Kind: "writeback"})
		}
	}
	if in.Stream == "writeback" {
		// keep the known finding alive: a write-back right before an eviction or a Close
		in.Steps = append(in.Steps, Step{Kind: "writeback"})
		if lib.Chance(r, 0.5) {
			in.Steps = append(in.Steps, Step{Kind: "restart"})
		} else {
			in.Steps = append(in.Steps, Step{Kind: "evict", Cache: lib.Pick(r, cacheNames), Num: 1, Den: 1})
		}
	} else if lib.Chance(r, 0.5) {
		in.Steps = append(in.Steps, Step{Kind: "restart"})
	}
	// queries: per application the whole app, one series, one tag selector; whole window and an aligned sub-window
	qs := map[string]bool{}
	for _, s := range all {
		app := s[:strings.Index(s, "{")]
		qs[app+"{}"] = true
	}
	for i := 0; i < 3 && i < len(all); i++ {
		qs[lib.Pick(r, all)] = true
	}
	qs["app0{t="+lib.Pick(r, tagVals)+"}"] = true
	names := []string{}
	for q := range qs {
		names = append(names, q)
	}
	sort.Strings(names)
	if len(names) > 5 {
		names = names[:5]
	}
	for _, n := range names {
		in.Queries = append(in.Queries, Query{Name: n, From: lo, Until: hi})
	}
	in.Queries = append(in.Queries, Query{Name: names[0], From: b, Until: b + 100})
	in.Queries = append(in.Queries, Query{Name: names[len(names)-1], From: b - 50, Until: b + 50})
	return in
}

func main() {
	defer func() {
		if withS != nil {
			withS.s.Close()
			plainS.s.Close()
		}
		if baseDir != "" {
			os.RemoveAll(baseDir)
		}
	}()
	lib.Main(lib.Harness[Input]{Prop: "C02", Quick: 140, Thorough: 4800, Gen: gen, Run: run})
}
