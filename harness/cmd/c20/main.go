//go:build verif

// c20: uploads never block (remote.Remote against a scripted in-process server; direct.Direct over a real storage).
// The harness generates a burst, runs the implementation and dumps what it observed. No oracle here.
package main

import (
	"fmt"
	"io"
	"log"
	"math/rand"
	"net"
	"net/http"
	"net/http/httptest"
	"os"
	"runtime"
	"sort"
	"strings"
	"sync"
	"sync/atomic"
	"time"

	"github.com/sirupsen/logrus"

	"github.com/pyroscope-io/pyroscope/pkg/agent/upstream"
	"github.com/pyroscope-io/pyroscope/pkg/agent/upstream/direct"
	"github.com/pyroscope-io/pyroscope/pkg/agent/upstream/remote"
	"github.com/pyroscope-io/pyroscope/pkg/config"
	"github.com/pyroscope-io/pyroscope/pkg/storage"
	"github.com/pyroscope-io/pyroscope/pkg/storage/tree"
	"github.com/pyroscope-io/pyroscope/pkg/structs/transporttrie"
	"verifharness/lib"
)

type Input struct {
	Mode      string   `json:"mode"`    // remote | direct
	Threads   int      `json:"threads"` // UpstreamThreads (remote)
	Burst     int      `json:"burst"`
	Script    []string `json:"script"` // behaviour of the server per request, cycled: ok 500 hang slow close panic stall cutbody slowbody
	Refuse    bool     `json:"refuse"` // address of a closed listener
	Token     string   `json:"token"`
	Path      string   `json:"path"`       // path of the upstream address
	TimeoutMs int      `json:"timeout_ms"` // UpstreamRequestTimeout, 0 = none
	Paced     bool     `json:"paced"`      // upload min(threads,burst) jobs first, see them all in flight (hang), then the rest
	PanicAt   []int    `json:"panic_at"`   // jobs whose Trie is nil
	AfterStop int      `json:"after_stop"` // Upload calls made after Stop (latency only)
	Procs     int      `json:"procs"`
	JobSeed   int64    `json:"job_seed"`
	PreCreate bool     `json:"pre_create"` // direct: the series is ingested into once before the uploader starts
	// concurrent producers (several sessions share one upstream): per round a fresh Remote whose workers all hang, the queue
	// filled to capacity minus Slack, then Producers goroutines released together (spin barrier), one Upload each
	UserInfo  string `json:"user_info"` // userinfo of the upstream address (http://USERINFO@host...), only with a token configured
	Producers int `json:"producers"`
	Rounds    int `json:"rounds"`
	Slack     int `json:"slack"`
}

// ---------- recording logger (agent.Logger) ----------
type recLogger struct {
	full, errs, panics int64
}

func (l *recLogger) Infof(string, ...interface{})  {}
func (l *recLogger) Debugf(string, ...interface{}) {}
func (l *recLogger) Errorf(f string, a ...interface{}) {
	switch {
	case strings.Contains(f, "queue is full"):
		atomic.AddInt64(&l.full, 1)
	case strings.HasPrefix(f, "upload profile"):
		atomic.AddInt64(&l.errs, 1)
	case strings.HasPrefix(f, "recover stack"):
		atomic.AddInt64(&l.panics, 1)
	}
}

// ---------- logrus hook (direct.Direct logs through the global logrus logger) ----------
type logrusRec struct {
	full, errs, panics int64
}

func (h *logrusRec) Levels() []logrus.Level { return logrus.AllLevels }
func (h *logrusRec) Fire(e *logrus.Entry) error {
	switch {
	case strings.Contains(e.Message, "queue is full"):
		atomic.AddInt64(&h.full, 1)
	case strings.HasPrefix(e.Message, "panic recovered"):
		atomic.AddInt64(&h.panics, 1)
	case e.Level <= logrus.ErrorLevel:
		atomic.AddInt64(&h.errs, 1)
	}
	return nil
}

var lrec = &logrusRec{}

func init() {
	logrus.SetOutput(io.Discard)
	logrus.AddHook(lrec)
}

// ---------- jobs ----------
var spies = []string{"gospy", "rbspy", "pyspy", "ebpfspy", "a b&c=d"}
var unitsL = []string{"samples", "objects", "bytes", ""}
var aggL = []string{"sum", "average", "x y"}

type jobDesc struct {
	name  string
	from  int64
	until int64
	spy   string
	rate  uint32
	units string
	agg   string
	tag   string // what identifies the delivery
	nilT  bool
	body  []byte
	job   *upstream.UploadJob
}

func mkJobs(in Input) []*jobDesc {
	r := rand.New(rand.NewSource(in.JobSeed))
	nilAt := map[int]bool{}
	for _, i := range in.PanicAt {
		nilAt[i] = true
	}
	jobs := make([]*jobDesc, in.Burst)
	for i := 0; i < in.Burst; i++ {
		d := &jobDesc{}
		if in.Mode == "direct" {
			d.name = "directapp.cpu{}"
			d.tag = fmt.Sprintf("s%d", i)
			d.from = 1600000000 + int64(r.Intn(1000))*10
			d.until = d.from + 10
		} else {
			switch r.Intn(4) {
			case 0:
				d.name = fmt.Sprintf("app%d.cpu", i)
			case 1:
				d.name = fmt.Sprintf("a %d{t=v&x=%%41+b}", i)
			case 2:
				d.name = fmt.Sprintf("a/%d?#;,.cpu{k=\"q\"}", i)
			default:
				d.name = fmt.Sprintf("j%d", i)
			}
			d.tag = d.name
			switch r.Intn(5) {
			case 0:
				d.from = -int64(r.Intn(100000))
			case 1:
				d.from = 0
			default:
				d.from = int64(r.Intn(2000000000))
			}
			d.until = d.from + int64(r.Intn(20))
		}
		d.spy = lib.Pick(r, spies)
		switch r.Intn(3) {
		case 0:
			d.rate = 100
		case 1:
			d.rate = uint32(r.Intn(1000))
		default:
			d.rate = 1<<31 + uint32(r.Intn(1<<30))
		}
		d.units = lib.Pick(r, unitsL)
		d.agg = lib.Pick(r, aggL)
		if in.Mode == "direct" {
			d.spy, d.units, d.agg = "gospy", "samples", "sum"
		}
		d.nilT = nilAt[i]
		var t *transporttrie.Trie
		if !d.nilT {
			t = transporttrie.New()
			if in.Mode == "direct" {
				t.Insert([]byte(d.tag), 1, true)
			} else {
				ns := lib.Range(r, 0, 2)
				for s := 0; s < ns; s++ {
					t.Insert([]byte(fmt.Sprintf("f%d", r.Intn(3))), uint64(r.Intn(300)+1), true)
				}
			}
			d.body = t.Bytes()
		}
		d.job = &upstream.UploadJob{
			Name: d.name, StartTime: time.Unix(d.from, int64(r.Intn(1e9))), EndTime: time.Unix(d.until, int64(r.Intn(1e9))),
			SpyName: d.spy, SampleRate: d.rate, Units: d.units, AggregationType: d.agg, Trie: t,
		}
		jobs[i] = d
	}
	return jobs
}

func coqJob(i int, d *jobDesc) string {
	trie := "None"
	if !d.nilT {
		trie = lib.Some(lib.Bytes(d.body))
	}
	return fmt.Sprintf("{| j_id := %d; j_name := %s; j_from := %s; j_until := %s; j_spy := %s; j_rate := %d; j_units := %s; j_agg := %s; j_trie := %s |}",
		i, lib.Bytes([]byte(d.name)), lib.Z(d.from), lib.Z(d.until), lib.Bytes([]byte(d.spy)), d.rate,
		lib.Bytes([]byte(d.units)), lib.Bytes([]byte(d.agg)), trie)
}

// ---------- scripted server ----------
type recReq struct {
	path, name, from, until, spy, rate, units, agg, ctype string
	auth                                                  *string
	body                                                  []byte
}

type server struct {
	mu       sync.Mutex
	reqs     []recReq
	bad      int64
	inflight int64
	idx      int64
	script   []string
	release  chan struct{}
}

func (s *server) handle(w http.ResponseWriter, r *http.Request) {
	body, _ := io.ReadAll(r.Body)
	q := r.URL.Query()
	rr := recReq{path: r.URL.Path, name: q.Get("name"), from: q.Get("from"), until: q.Get("until"), spy: q.Get("spyName"),
		rate: q.Get("sampleRate"), units: q.Get("units"), agg: q.Get("aggregationType"), ctype: r.Header.Get("Content-Type"), body: body}
	if a, ok := r.Header["Authorization"]; ok {
		v := strings.Join(a, ",")
		rr.auth = &v
	}
	s.mu.Lock()
	s.reqs = append(s.reqs, rr)
	s.mu.Unlock()
	i := atomic.AddInt64(&s.idx, 1) - 1
	beh := s.script[int(i)%len(s.script)]
	switch beh {
	case "ok":
		w.WriteHeader(200)
		w.Write([]byte("ok"))
	case "500":
		atomic.AddInt64(&s.bad, 1)
		w.WriteHeader(500)
		w.Write([]byte("no"))
	case "hang": // until released; then a normal answer
		atomic.AddInt64(&s.inflight, 1)
		<-s.release
		w.WriteHeader(200)
	case "stall": // until the client gives up (client timeout configured)
		atomic.AddInt64(&s.bad, 1)
		atomic.AddInt64(&s.inflight, 1)
		select {
		case <-r.Context().Done():
		case <-time.After(5 * time.Second):
		}
	case "slow":
		w.WriteHeader(200)
		for k := 0; k < 3; k++ {
			w.Write([]byte("chunk"))
			if f, ok := w.(http.Flusher); ok {
				f.Flush()
			}
			time.Sleep(2 * time.Millisecond)
		}
	case "cutbody": // 200 and headers, then the connection dies in the middle of the body
		atomic.AddInt64(&s.bad, 1)
		w.Header().Set("Content-Length", "100")
		w.WriteHeader(200)
		w.Write([]byte("0123456789"))
		if f, ok := w.(http.Flusher); ok {
			f.Flush()
		}
		// returning with fewer bytes written than declared makes net/http abort the connection
	case "slowbody": // 200 and headers in time, the body only after the client's timeout has expired
		atomic.AddInt64(&s.bad, 1)
		w.Header().Set("Content-Length", "5")
		w.WriteHeader(200)
		if f, ok := w.(http.Flusher); ok {
			f.Flush()
		}
		select {
		case <-r.Context().Done():
		case <-time.After(2 * time.Second):
		}
		w.Write([]byte("late!"))
	case "close":
		atomic.AddInt64(&s.bad, 1)
		if hj, ok := w.(http.Hijacker); ok {
			c, _, err := hj.Hijack()
			if err == nil {
				c.Close()
			}
		}
	case "panic":
		atomic.AddInt64(&s.bad, 1)
		panic(http.ErrAbortHandler)
	}
}

func waitUntil(deadline time.Duration, cond func() bool) bool {
	end := time.Now().Add(deadline)
	for {
		if cond() {
			return true
		}
		if time.Now().After(end) {
			return cond()
		}
		time.Sleep(200 * time.Microsecond)
	}
}

// burst calls up() for jobs[lo:hi] in a separate goroutine and watches it: if the calls have not all returned after
// [limit], the age of the call in progress is taken as its latency (it is blocked) and the run goes on without it.
type bursting struct {
	mu       sync.Mutex
	maxLat   time.Duration
	curStart time.Time
	inCall   bool
}

func (b *bursting) call(f func()) {
	b.mu.Lock()
	b.curStart, b.inCall = time.Now(), true
	b.mu.Unlock()
	f()
	b.mu.Lock()
	if dt := time.Since(b.curStart); dt > b.maxLat {
		b.maxLat = dt
	}
	b.inCall = false
	b.mu.Unlock()
}

// run executes f (a sequence of b.call) under the watchdog; false = some call is still blocked after limit
func (b *bursting) run(limit time.Duration, f func()) bool {
	done := make(chan struct{})
	go func() { f(); close(done) }()
	select {
	case <-done:
		return true
	case <-time.After(limit):
		b.mu.Lock()
		if b.inCall {
			if dt := time.Since(b.curStart); dt > b.maxLat {
				b.maxLat = dt
			}
		}
		b.mu.Unlock()
		return false
	}
}

func (b *bursting) max() time.Duration {
	b.mu.Lock()
	defer b.mu.Unlock()
	return b.maxLat
}

func optBytes(s *string) string {
	if s == nil {
		return "None"
	}
	return lib.Some(lib.Bytes([]byte(*s)))
}

// withUserInfo turns http://host:port into http://userinfo@host:port
func withUserInfo(addr, ui string) string {
	if ui == "" {
		return addr
	}
	return strings.Replace(addr, "://", "://"+ui+"@", 1)
}

func runRemote(in Input, jobs []*jobDesc) (res lib.Result) {
	srv := &server{script: in.Script, release: make(chan struct{})}
	var addr string
	var ts *httptest.Server
	if in.Refuse {
		l, err := net.Listen("tcp", "127.0.0.1:0")
		if err != nil {
			return lib.Result{Crash: "harness: listen: " + err.Error()}
		}
		addr = "http://" + l.Addr().String()
		l.Close()
	} else {
		ts = httptest.NewUnstartedServer(http.HandlerFunc(srv.handle))
		ts.Config.ErrorLog = logDiscard
		ts.Start()
		addr = ts.URL
	}
	released := false
	release := func() {
		if !released {
			released = true
			close(srv.release)
		}
	}
	defer func() {
		release()
		if ts != nil {
			ts.CloseClientConnections()
			ts.Close()
		}
	}()

	lg := &recLogger{}
	rem, err := remote.New(remote.RemoteConfig{
		AuthToken: in.Token, UpstreamThreads: in.Threads, UpstreamAddress: withUserInfo(addr, in.UserInfo) + in.Path,
		UpstreamRequestTimeout: time.Duration(in.TimeoutMs) * time.Millisecond,
	}, lg)
	if err != nil {
		return lib.Result{Crash: "remote.New: " + err.Error()}
	}

	bu := &bursting{}
	up := func(d *jobDesc) { bu.call(func() { rem.Upload(d.job) }) }
	hold := 0
	if in.Paced {
		hold = in.Threads
		if hold > len(jobs) {
			hold = len(jobs)
		}
		bu.run(3*time.Second, func() {
			for i := 0; i < hold; i++ {
				up(jobs[i])
			}
		})
		// every one of the first [hold] jobs is now hanging inside the server, one per worker
		if !waitUntil(5*time.Second, func() bool { return atomic.LoadInt64(&srv.inflight) >= int64(hold) }) {
			return lib.Result{Crash: fmt.Sprintf("paced run: only %d of %d requests arrived within 5 s", atomic.LoadInt64(&srv.inflight), hold)}
		}
	}
	blocked := !bu.run(3*time.Second, func() {
		for i := hold; i < len(jobs); i++ {
			up(jobs[i])
		}
	})
	release()

	attempts := func() int64 {
		p := atomic.LoadInt64(&lg.panics)
		if in.Refuse {
			return atomic.LoadInt64(&lg.errs) + p
		}
		srv.mu.Lock()
		n := int64(len(srv.reqs))
		srv.mu.Unlock()
		return n + p
	}
	drained := waitUntil(8*time.Second, func() bool {
		return attempts()+atomic.LoadInt64(&lg.full) >= int64(len(jobs))
	})
	// let the workers finish logging the outcome of their last attempts
	expectErr := func() bool {
		if in.Refuse {
			return true
		}
		return atomic.LoadInt64(&lg.errs) >= atomic.LoadInt64(&srv.bad)
	}
	waitUntil(3*time.Second, expectErr)
	time.Sleep(2 * time.Millisecond)

	full, errs, panics := atomic.LoadInt64(&lg.full), atomic.LoadInt64(&lg.errs), atomic.LoadInt64(&lg.panics)
	srv.mu.Lock()
	reqs := append([]recReq{}, srv.reqs...)
	srv.mu.Unlock()
	bad := atomic.LoadInt64(&srv.bad)

	if !blocked {
		rem.Stop()
		bu.run(3*time.Second, func() {
			for i := 0; i < in.AfterStop; i++ {
				up(jobs[i%len(jobs)])
			}
		})
	}
	maxLat := bu.max()

	delivered := map[string]int{}
	reqTerms := make([]string, len(reqs))
	for i, q := range reqs {
		delivered[q.name]++
		reqTerms[i] = fmt.Sprintf("{| o_path := %s; o_name := %s; o_from := %s; o_until := %s; o_spy := %s; o_rate := %s; o_units := %s; o_agg := %s; o_ctype := %s; o_auth := %s; o_body := %s |}",
			lib.Bytes([]byte(q.path)), lib.Bytes([]byte(q.name)), lib.Bytes([]byte(q.from)), lib.Bytes([]byte(q.until)), lib.Bytes([]byte(q.spy)),
			lib.Bytes([]byte(q.rate)), lib.Bytes([]byte(q.units)), lib.Bytes([]byte(q.agg)), lib.Bytes([]byte(q.ctype)), optBytes(q.auth), lib.Bytes(q.body))
	}
	return finish(in, jobs, hold, maxLat, reqTerms, delivered, bad, full, errs, panics, drained)
}

var logDiscard = log.New(io.Discard, "", 0)

func runProducers(in Input) lib.Result {
	k := in.Threads
	perRound := k + (100 - in.Slack) + in.Producers
	in.Burst = perRound * in.Rounds
	jobs := mkJobs(in)
	var maxLat time.Duration
	var latMu sync.Mutex
	note := func(d time.Duration) {
		latMu.Lock()
		if d > maxLat {
			maxLat = d
		}
		latMu.Unlock()
	}
	var reqTerms []string
	delivered := map[string]int{}
	var full, errs, panics, bad int64
	drained := true
	for rd := 0; rd < in.Rounds; rd++ {
		js := jobs[rd*perRound : (rd+1)*perRound]
		srv := &server{script: []string{"hang"}, release: make(chan struct{})}
		ts := httptest.NewUnstartedServer(http.HandlerFunc(srv.handle))
		ts.Config.ErrorLog = logDiscard
		ts.Start()
		lg := &recLogger{}
		rem, err := remote.New(remote.RemoteConfig{AuthToken: in.Token, UpstreamThreads: k, UpstreamAddress: withUserInfo(ts.URL, in.UserInfo) + in.Path}, lg)
		if err != nil {
			ts.Close()
			return lib.Result{Crash: "remote.New: " + err.Error()}
		}
		// every worker hangs on one job
		for i := 0; i < k; i++ {
			t0 := time.Now()
			rem.Upload(js[i].job)
			note(time.Since(t0))
		}
		if !waitUntil(5*time.Second, func() bool { return atomic.LoadInt64(&srv.inflight) >= int64(k) }) {
			close(srv.release)
			ts.Close()
			return lib.Result{Crash: "producers run: the workers did not all reach the server within 5 s"}
		}
		// the queue is filled to capacity minus slack by one caller
		for i := k; i < k+100-in.Slack; i++ {
			t0 := time.Now()
			rem.Upload(js[i].job)
			note(time.Since(t0))
		}
		// the producers are released together
		var ready, goFlag int32
		var wg sync.WaitGroup
		returned := make([]int32, in.Producers)
		starts := make([]time.Time, in.Producers)
		for p := 0; p < in.Producers; p++ {
			wg.Add(1)
			go func(p int) {
				defer wg.Done()
				j := js[k+100-in.Slack+p].job
				atomic.AddInt32(&ready, 1)
				for atomic.LoadInt32(&goFlag) == 0 {
				}
				t0 := time.Now()
				starts[p] = t0
				rem.Upload(j)
				note(time.Since(t0))
				atomic.StoreInt32(&returned[p], 1)
			}(p)
		}
		for atomic.LoadInt32(&ready) < int32(in.Producers) {
			runtime.Gosched()
		}
		atomic.StoreInt32(&goFlag, 1)
		done := make(chan struct{})
		go func() { wg.Wait(); close(done) }()
		select {
		case <-done:
		case <-time.After(1500 * time.Millisecond):
			// a producer is still inside Upload: it is blocked; its age is its latency
			for p := 0; p < in.Producers; p++ {
				if atomic.LoadInt32(&returned[p]) == 0 {
					note(1500 * time.Millisecond)
				}
			}
		}
		close(srv.release)
		ok := waitUntil(8*time.Second, func() bool {
			srv.mu.Lock()
			n := int64(len(srv.reqs))
			srv.mu.Unlock()
			return n+atomic.LoadInt64(&lg.panics)+atomic.LoadInt64(&lg.full) >= int64(perRound)
		})
		<-done
		if !ok {
			drained = false
		}
		time.Sleep(time.Millisecond)
		rem.Stop()
		srv.mu.Lock()
		for _, q := range srv.reqs {
			delivered[q.name]++
			reqTerms = append(reqTerms, fmt.Sprintf("{| o_path := %s; o_name := %s; o_from := %s; o_until := %s; o_spy := %s; o_rate := %s; o_units := %s; o_agg := %s; o_ctype := %s; o_auth := %s; o_body := %s |}",
				lib.Bytes([]byte(q.path)), lib.Bytes([]byte(q.name)), lib.Bytes([]byte(q.from)), lib.Bytes([]byte(q.until)), lib.Bytes([]byte(q.spy)),
				lib.Bytes([]byte(q.rate)), lib.Bytes([]byte(q.units)), lib.Bytes([]byte(q.agg)), lib.Bytes([]byte(q.ctype)), optBytes(q.auth), lib.Bytes(q.body)))
		}
		srv.mu.Unlock()
		full += atomic.LoadInt64(&lg.full)
		errs += atomic.LoadInt64(&lg.errs)
		panics += atomic.LoadInt64(&lg.panics)
		bad += atomic.LoadInt64(&srv.bad)
		ts.CloseClientConnections()
		ts.Close()
	}
	return finish(in, jobs, 0, maxLat, reqTerms, delivered, bad, full, errs, panics, drained)
}

func runDirect(in Input, jobs []*jobDesc) (res lib.Result) {
	dir, err := os.MkdirTemp("", "agentb-c20-")
	if err != nil {
		return lib.Result{Crash: "harness: mkdtemp: " + err.Error()}
	}
	defer os.RemoveAll(dir)
	storage.VerifDisablePeriodicTasks()
	st, err := storage.New(&config.Server{StoragePath: dir, CacheEvictThreshold: 0.99, CacheEvictVolume: 0.1,
		MaxNodesSerialization: 2048, MaxNodesRender: 2048, BadgerLogLevel: "error"})
	if err != nil {
		return lib.Result{Crash: "storage.New: " + err.Error()}
	}
	defer st.Close()

	// In half of the runs the series exists before the uploader starts; in the other half the harness's renders overlap
	// the FIRST ingest of the series (the pattern that lost acknowledged ingests before /repo 39795c3, see C08).
	key, _ := storage.ParseKey("directapp.cpu{}")
	if in.PreCreate {
		t := tree.New()
		t.Insert([]byte("pre"), 1)
		if err := st.Put(&storage.PutInput{StartTime: time.Unix(1500000100, 0), EndTime: time.Unix(1500000110, 0), Key: key, Val: t,
			SpyName: "gospy", SampleRate: 100, Units: "samples", AggregationType: "sum"}); err != nil {
			return lib.Result{Crash: "harness: pre-Put: " + err.Error()}
		}
	}
	// gate: every Put into a new 10 s slot creates that slot's tree through the tree cache's exported New field;
	// the wrapper tells the harness that the (only) worker is inside storage.Put and holds it there.
	entered := make(chan struct{}, 1)
	releaseGate := make(chan struct{})
	trees := st.VerifCache("trees")
	origNew := trees.New
	var gated int32
	trees.New = func(k string) interface{} {
		if in.Paced && atomic.CompareAndSwapInt32(&gated, 0, 1) {
			entered <- struct{}{}
			<-releaseGate
		}
		return origNew(k)
	}

	full0, errs0, panics0 := atomic.LoadInt64(&lrec.full), atomic.LoadInt64(&lrec.errs), atomic.LoadInt64(&lrec.panics)
	d := direct.New(st)
	d.Start()

	bu := &bursting{}
	up := func(j *jobDesc) { bu.call(func() { d.Upload(j.job) }) }
	hold := 0
	gateOpen := false
	openGate := func() {
		if !gateOpen {
			gateOpen = true
			close(releaseGate)
		}
	}
	defer openGate()
	if in.Paced && len(jobs) > 0 {
		hold = 1
		bu.run(3*time.Second, func() { up(jobs[0]) })
		select {
		case <-entered:
		case <-time.After(5 * time.Second):
			return lib.Result{Crash: "paced direct run: the worker did not reach storage.Put within 5 s"}
		}
	}
	blocked := !bu.run(3*time.Second, func() {
		for i := hold; i < len(jobs); i++ {
			up(jobs[i])
		}
	})
	openGate()

	count := func() (map[string]int, int64) {
		out, err := st.Get(&storage.GetInput{StartTime: time.Unix(1500000000, 0), EndTime: time.Unix(1700000000, 0), Key: key})
		m := map[string]int{}
		var n int64
		if err != nil || out == nil || out.Tree == nil {
			return m, 0
		}
		flatten(out.Tree.VerifDump(), nil, func(stack string, v uint64) {
			if stack == "pre" {
				return
			}
			m[stack] += int(v)
			n += int64(v)
		})
		return m, n
	}
	var delivered map[string]int
	drained := waitUntil(8*time.Second, func() bool {
		var n int64
		delivered, n = count()
		return n+(atomic.LoadInt64(&lrec.panics)-panics0)+(atomic.LoadInt64(&lrec.full)-full0) >= int64(len(jobs))
	})
	time.Sleep(2 * time.Millisecond)
	delivered, _ = count()
	full, errs, panics := atomic.LoadInt64(&lrec.full)-full0, atomic.LoadInt64(&lrec.errs)-errs0, atomic.LoadInt64(&lrec.panics)-panics0

	if !blocked {
		d.Stop()
		bu.run(3*time.Second, func() {
			for i := 0; i < in.AfterStop; i++ {
				up(jobs[i%len(jobs)])
			}
		})
	}
	maxLat := bu.max()
	return finish(in, jobs, hold, maxLat, nil, delivered, 0, full, errs, panics, drained)
}

func flatten(n *tree.VerifNode, prefix []string, cb func(stack string, v uint64)) {
	p := prefix
	if len(n.Name) > 0 {
		p = append(append([]string{}, prefix...), string(n.Name))
	}
	if n.Self > 0 {
		cb(strings.Join(p, ";"), n.Self)
	}
	for _, c := range n.Children {
		flatten(c, p, cb)
	}
}

func finish(in Input, jobs []*jobDesc, hold int, maxLat time.Duration, reqTerms []string, delivered map[string]int,
	bad, full, errs, panics int64, drained bool) lib.Result {
	jobTerms := make([]string, len(jobs))
	tagTerms := make([]string, len(jobs))
	for i, d := range jobs {
		jobTerms[i] = coqJob(i, d)
		tagTerms[i] = lib.Bytes([]byte(d.tag))
	}
	keys := make([]string, 0, len(delivered))
	for k := range delivered {
		keys = append(keys, k)
	}
	sort.Strings(keys)
	delTerms := make([]string, len(keys))
	ndel := 0
	for i, k := range keys {
		delTerms[i] = lib.Pair(lib.Bytes([]byte(k)), lib.N(uint64(delivered[k])))
		ndel += delivered[k]
	}
	mode := "MRemote"
	threads := in.Threads
	if in.Mode == "direct" {
		mode = "MDirect"
		threads = 1
	}
	coq := "{| k_mode := " + mode + "; k_threads := " + lib.Nat(threads) + "; k_token := " + lib.Bytes([]byte(in.Token)) +
		"; k_path := " + lib.Bytes([]byte(in.Path)) + "; k_jobs := " + lib.List(jobTerms) + "; k_tags := " + lib.List(tagTerms) +
		"; k_hold := " + lib.Nat(hold) + "; k_refuse := " + lib.Bool(in.Refuse) +
		"; k_max_latency_us := " + lib.N(uint64(maxLat/time.Microsecond)) + "; k_reqs := " + lib.List(reqTerms) +
		"; k_delivered := " + lib.List(delTerms) + "; k_bad_responses := " + lib.N(uint64(bad)) +
		"; k_full_logs := " + lib.N(uint64(full)) + "; k_err_logs := " + lib.N(uint64(errs)) + "; k_panic_logs := " + lib.N(uint64(panics)) +
		"; k_drained := " + lib.Bool(drained) + " |}"
	allOK := true
	for _, s := range in.Script {
		if s != "ok" {
			allOK = false
		}
	}
	latClass := "<1ms"
	switch {
	case maxLat >= 50*time.Millisecond:
		latClass = ">=50ms"
	case maxLat >= 10*time.Millisecond:
		latClass = "10-50ms"
	case maxLat >= time.Millisecond:
		latClass = "1-10ms"
	}
	burstClass := "1-100"
	switch {
	case in.Burst > 300:
		burstClass = "301-400"
	case in.Burst > 200:
		burstClass = "201-300"
	case in.Burst > 100:
		burstClass = "101-200"
	}
	return lib.Result{
		Coq:        coq,
		NonTrivial: in.Burst > 100 || !allOK || in.Refuse,
		Feat: map[string]interface{}{"mode": in.Mode, "threads": threads, "burst": burstClass, "script": strings.Join(in.Script, ","),
			"refuse": in.Refuse, "paced": in.Paced, "drops": dropClass(full), "panics_injected": len(in.PanicAt), "token": in.Token != "", "user_info": in.UserInfo != "",
			"latency": latClass, "timeout_ms": in.TimeoutMs, "after_stop": in.AfterStop, "producers": in.Producers},
		Obs: map[string]interface{}{"max_latency_us": int64(maxLat / time.Microsecond), "delivered": ndel, "full_logs": full,
			"err_logs": errs, "panic_logs": panics, "drained": drained, "bad_responses": bad},
	}
}

func dropClass(n int64) string {
	switch {
	case n == 0:
		return "0"
	case n < 10:
		return "1-9"
	case n < 100:
		return "10-99"
	default:
		return ">=100"
	}
}

func run(in Input) lib.Result {
	if in.Procs > 0 {
		prev := runtime.GOMAXPROCS(in.Procs)
		defer runtime.GOMAXPROCS(prev)
	}
	if in.Burst < 1 {
		in.Burst = 1
	}
	if in.Threads < 1 {
		in.Threads = 1
	}
	if len(in.Script) == 0 {
		in.Script = []string{"ok"}
	}
	if in.Producers > 0 && in.Mode != "direct" {
		if in.Rounds < 1 {
			in.Rounds = 1
		}
		in.Script = []string{"hang"}
		return runProducers(in)
	}
	jobs := mkJobs(in)
	if in.Mode == "direct" {
		return runDirect(in, jobs)
	}
	return runRemote(in, jobs)
}

func gen(r *rand.Rand, idx int, tier string) Input {
	in := Input{Mode: "remote", Threads: lib.Range(r, 1, 8), Procs: lib.Pick(r, []int{1, 2, 4, 16}), JobSeed: r.Int63()}
	switch r.Intn(6) {
	case 0:
		in.Burst = lib.Range(r, 1, 20)
	case 1:
		in.Burst = lib.Range(r, 90, 110)
	case 2:
		in.Burst = 100 + in.Threads + lib.Range(r, -2, 2)
	case 3:
		in.Burst = lib.Range(r, 1, 400)
	default:
		in.Burst = lib.Range(r, 1, 150)
	}
	in.Token = lib.Pick(r, []string{"", "", "tok", "psx-abc DEF/+=", "B"})
	in.Path = lib.Pick(r, []string{"", "", "/", "/base", "/a/b"})
	if lib.Chance(r, 0.2) {
		in.AfterStop = lib.Pick(r, []int{3, 120})
	}
	if in.Token != "" && lib.Chance(r, 0.4) {
		in.UserInfo = lib.Pick(r, []string{"agent-7", "user:pass", "a%40b:p%3Aw"})
	}
	if idx%10 == 3 { // several producers call Upload at the same moment, the queue being (almost) full
		in.Producers = lib.Range(r, 2, 16)
		in.Rounds = 3
		in.Slack = lib.Pick(r, []int{0, 1, 1, 1, 2, 3})
		in.Threads = lib.Range(r, 1, 4)
		in.Procs = lib.Pick(r, []int{4, 16})
		in.PanicAt, in.AfterStop, in.Paced = nil, 0, false
		in.Script = []string{"hang"}
		return in
	}
	if idx%5 == 4 { // direct.Direct over a real storage (slower: badger)
		in.Mode = "direct"
		in.Threads = 1
		in.Token, in.Path = "", ""
		in.Paced = lib.Chance(r, 0.6)
		in.PreCreate = lib.Chance(r, 0.5)
		if lib.Chance(r, 0.5) {
			in.Burst = lib.Range(r, 95, 140)
		} else {
			in.Burst = lib.Range(r, 1, 150)
		}
	} else {
		switch r.Intn(8) {
		case 0: // healthy server
			in.Script = []string{"ok"}
		case 1, 2: // every request hangs; paced: each worker provably holds one job before the burst
			in.Script = []string{"hang"}
			in.Paced = true
		case 3: // hangs, plain burst
			in.Script = []string{"hang"}
		case 4: // connection refused
			in.Refuse = true
			in.Script = []string{"ok"}
		case 5: // failing server
			in.Script = lib.Pick(r, [][]string{{"500"}, {"close"}, {"panic"}, {"500", "ok"}, {"close", "ok", "500"}, {"cutbody"}, {"ok", "cutbody"}})
		case 6: // client-side timeout against a stalling server (few stalls: each costs the timeout)
			in.Script = []string{"stall", "ok", "ok", "slowbody", "500", "ok", "ok", "ok", "ok", "ok", "ok", "ok"}
			// generous timeout: on a loaded machine a healthy exchange must never hit it (each stall / slow body costs it once)
			in.TimeoutMs = lib.Range(r, 150, 250)
			in.Procs = lib.Pick(r, []int{4, 16})
			if in.Burst > 36 {
				in.Burst = lib.Range(r, 1, 36)
			}
		default: // mixed
			n := lib.Range(r, 2, 6)
			for i := 0; i < n; i++ {
				in.Script = append(in.Script, lib.Pick(r, []string{"ok", "ok", "500", "slow", "close", "panic", "cutbody"}))
			}
		}
	}
	// nil tries: a panic inside the attempt; sometimes as many as there are workers, early in the burst
	if lib.Chance(r, 0.5) {
		np := lib.Pick(r, []int{1, 1, 2, in.Threads, in.Threads + 1})
		lo := 0
		if in.Paced {
			lo = in.Threads // the held jobs must really hang
			if in.Mode == "direct" {
				lo = 1
			}
		}
		for i := 0; i < np; i++ {
			if in.Burst > lo {
				in.PanicAt = append(in.PanicAt, lib.Range(r, lo, in.Burst-1))
			}
		}
		sort.Ints(in.PanicAt)
		// distinct
		out := in.PanicAt[:0]
		for i, v := range in.PanicAt {
			if i == 0 || v != in.PanicAt[i-1] {
				out = append(out, v)
			}
		}
		in.PanicAt = out
	}
	return in
}

func main() {
	lib.Main(lib.Harness[Input]{Prop: "C20", Quick: 180, Thorough: 2400, Gen: gen, Run: run})
}
