//go:build verif

// c04: profile codec (tree.Bytes/FromBytes with a dictionary, SerializeNoDict/DeserializeNoDict). Dump only.
package main

import (
	"bytes"
	"fmt"
	"math/big"
	"math/rand"
	"sort"
	"strings"

	"github.com/pyroscope-io/pyroscope/pkg/storage/dict"
	"github.com/pyroscope-io/pyroscope/pkg/storage/tree"
	"verifharness/lib"
	"verifharness/lib/treeu"
)

type Input struct {
	Tree   *treeu.JNode  `json:"tree,omitempty"`   // built with tree.VerifBuild
	Stacks []treeu.Stack `json:"stacks,omitempty"` // or built with Tree.Insert
	Cap    int           `json:"cap"`
	Pre    [][]byte      `json:"pre,omitempty"` // names already in the second dictionary
	Mode   string        `json:"mode,omitempty"`
	Bad    *BadSpec      `json:"bad,omitempty"` // corrupt the SerializeNoDict output and decode it (model only)
	// scale an Insert-built tree with Tree.Clone(m/d) first (what storage does with a multi-slot upload):
	// every value is floored independently, so totals may exceed self + children
	CloneM uint64 `json:"clone_m,omitempty"`
	CloneD uint64 `json:"clone_d,omitempty"`
	// Hold: other trees that are encoded with Tree.Bytes AFTER this tree's bytes were obtained and BEFORE they are
	// decoded (the storage's save goroutines call Bytes for one tree after another and keep the slices)
	Hold [][]treeu.Stack `json:"hold,omitempty"`
	// Merged: the tree is ACCUMULATED the way storage does it: built from Stacks with Insert, then every entry of
	// Merged is built with Insert and merged into it with Tree.Merge (same or overlapping stack sets)
	Merged [][]treeu.Stack `json:"merged,omitempty"`
	// Seq: further encodings performed one after another on ONE second tree object built from the same input
	// (nothing is inserted or merged in between), each with its own cap
	Seq []SeqStep `json:"seq,omitempty"`
	// Big: a generated tree of tens of thousands of nodes (replaces Tree/Stacks), encoded under a cap above its size
	Big *BigSpec `json:"big,omitempty"`
}

type SeqStep struct {
	Kind int `json:"kind"` // 0 Bytes/FromBytes (fresh dictionary), 1 SerializeNoDict/DeserializeNoDict, 2 FlamebearerStruct, 3 minValue
	Cap  int `json:"cap"`
}

// BigSpec: the root has Chains children "c0000", "c0001", ...; each is the top of a chain of Depth frames that all
// have self 0 except the two leaves at its bottom, so every frame of a chain has the same total (ties), and the
// totals do not increase from one chain to the next (ZeroChains chains at the end have total 0).
type BigSpec struct {
	Chains     int `json:"chains"`
	Depth      int `json:"depth"`
	ZeroChains int `json:"zero_chains"`
	Ones       int `json:"ones"` // so many chains (before the zero ones) have the leaf values 1 and 0
	// Deep: further root children "d0", "d1", ... each the top of ONE chain of that many frames (self 0, one leaf with
	// self 5 at the bottom): stacks of 1000-2000 frames
	Deep []int `json:"deep,omitempty"`
}

func buildBig(b *BigSpec) *tree.VerifNode {
	root := &tree.VerifNode{Name: []byte{}}
	for c := 0; c < b.Chains; c++ {
		var l1, l2 uint64 = 2, 1
		switch {
		case c >= b.Chains-b.ZeroChains:
			l1, l2 = 0, 0
		case c >= b.Chains-b.ZeroChains-b.Ones:
			l1, l2 = 1, 0
		case c%3 == 0:
			l1, l2 = 2, 2
		}
		tot := l1 + l2
		top := &tree.VerifNode{Name: []byte(fmt.Sprintf("c%04d", c)), Total: tot}
		cur := top
		for d := 1; d < b.Depth-1; d++ {
			n := &tree.VerifNode{Name: []byte("f"), Total: tot}
			cur.Children = []*tree.VerifNode{n}
			cur = n
		}
		cur.Children = []*tree.VerifNode{{Name: []byte("x"), Self: l1, Total: l1}, {Name: []byte("y"), Self: l2, Total: l2}}
		root.Children = append(root.Children, top)
		root.Total += tot
	}
	for i, depth := range b.Deep {
		top := &tree.VerifNode{Name: []byte(fmt.Sprintf("d%d", i)), Total: 5}
		cur := top
		for d := 1; d < depth-1; d++ {
			n := &tree.VerifNode{Name: []byte("g"), Total: 5}
			cur.Children = []*tree.VerifNode{n}
			cur = n
		}
		cur.Children = []*tree.VerifNode{{Name: []byte("leaf"), Self: 5, Total: 5}}
		root.Children = append(root.Children, top)
		root.Total += 5
	}
	return root
}

var holdSink int

func encodeOthers(in Input) {
	for _, ss := range in.Hold {
		b, err := treeu.Build(ss).Bytes(dict.New(), 1024)
		if err == nil {
			holdSink += len(b)
		}
	}
}

// BadSpec describes one corruption of the self-contained stream. Only used with trees whose stream consists of
// bytes < 0x80 and with values < 0x80, so that no misaligned read can yield a large child count (the decoder
// walks the remaining input once per announced child: a huge count is finding D13's business, not this check's).
type BadSpec struct {
	Kind string `json:"kind"` // trunc | set | ins | hugelen
	Pos  int    `json:"pos"`
	Val  uint64 `json:"val"`
}

func corrupt(b []byte, s *BadSpec) []byte {
	out := append([]byte{}, b...)
	pos := 0
	if len(out) > 0 {
		pos = s.Pos % len(out)
	}
	switch s.Kind {
	case "trunc":
		return out[:pos]
	case "set":
		if len(out) > 0 {
			out[pos] = byte(s.Val & 0x7f)
		}
		return out
	case "ins":
		return append(append(append([]byte{}, out[:pos]...), byte(s.Val&0x7f)), out[pos:]...)
	default: // hugelen: replace the root's name length (position 0 is always a name length) by a big varint
		var v []byte
		x := s.Val
		for x >= 0x80 {
			v = append(v, byte(x)|0x80)
			x >>= 7
		}
		v = append(v, byte(x))
		if len(out) > 0 {
			out = out[1:]
		}
		return append(v, out...)
	}
}

func build(in Input) *tree.Tree {
	if in.Big != nil {
		return tree.VerifBuild(buildBig(in.Big))
	}
	if in.Tree != nil {
		return tree.VerifBuild(treeu.FromJ(in.Tree))
	}
	t := treeu.Build(in.Stacks)
	for _, ss := range in.Merged {
		t.Merge(treeu.Build(ss))
	}
	if in.CloneD != 0 {
		t = t.Clone(new(big.Rat).SetFrac(new(big.Int).SetUint64(in.CloneM), new(big.Int).SetUint64(in.CloneD)))
	}
	return t
}

// totals class of the dumped tree (a feature for the evidence, not a check)
func totalsClass(n *tree.VerifNode) string {
	cls := "exact"
	var rec func(n *tree.VerifNode)
	rec = func(n *tree.VerifNode) {
		sum := n.Self
		for _, c := range n.Children {
			sum += c.Total
			rec(c)
		}
		if n.Total < sum {
			cls = "nonsub"
		} else if n.Total > sum && cls == "exact" {
			cls = "sub-inexact"
		}
	}
	rec(n)
	return cls
}

// coqRLE prints a dumped tree like treeu.Coq, except that a run of k >= 4 frames with identical name, self and total,
// each the only child of the previous one, is printed as (t_rep k name self total <what is below the run>).
func coqRLE(n *tree.VerifNode) string {
	var sb strings.Builder
	var rec, plain func(n *tree.VerifNode)
	rec = func(n *tree.VerifNode) {
		// j leading frames whose only child repeats their name, self and total
		j, cur := 0, n
		for len(cur.Children) == 1 && bytes.Equal(cur.Children[0].Name, n.Name) && cur.Children[0].Self == n.Self && cur.Children[0].Total == n.Total {
			cur = cur.Children[0]
			j++
		}
		if j >= 3 {
			sb.WriteString("(t_rep " + lib.Nat(j) + " " + lib.Bytes(n.Name) + " " + lib.N(n.Self) + " " + lib.N(n.Total) + " ")
			plain(cur)
			sb.WriteString(")")
			return
		}
		plain(n)
	}
	plain = func(n *tree.VerifNode) {
		sb.WriteString("(TNode " + lib.Bytes(n.Name) + " " + lib.N(n.Self) + " " + lib.N(n.Total) + " [")
		for i, c := range n.Children {
			if i > 0 {
				sb.WriteString("; ")
			}
			rec(c)
		}
		sb.WriteString("])")
	}
	rec(n)
	return sb.String()
}

var bigMode bool

func coqTree(n *tree.VerifNode) string {
	if bigMode {
		return coqRLE(n)
	}
	return treeu.Coq(n)
}

func optTree(f func() (*tree.Tree, error)) (res string) {
	defer func() {
		if r := recover(); r != nil {
			res = "None"
		}
	}()
	t, err := f()
	if err != nil || t == nil {
		return "None"
	}
	return lib.Some(coqTree(t.VerifDump()))
}

func collectTotals(n *tree.VerifNode, acc *[]uint64, zeros *int) {
	*acc = append(*acc, n.Total)
	if n.Total == 0 {
		*zeros++
	}
	for _, c := range n.Children {
		collectTotals(c, acc, zeros)
	}
}

func run(in Input) lib.Result {
	if in.Cap < 1 {
		in.Cap = 1
	}
	bigMode = in.Big != nil
	t := build(in)
	orig := t.VerifDump()
	before := coqTree(orig)
	n := treeu.Size(orig)
	minv := t.VerifMinValue(in.Cap)

	fresh := optTree(func() (*tree.Tree, error) {
		d := dict.New()
		b, err := t.Bytes(d, in.Cap)
		if err != nil {
			return nil, err
		}
		encodeOthers(in)
		return tree.FromBytes(d, b)
	})
	pre := optTree(func() (*tree.Tree, error) {
		d := dict.New()
		for _, p := range in.Pre {
			d.Put(dict.Value(p))
		}
		b, err := t.Bytes(d, in.Cap)
		if err != nil {
			return nil, err
		}
		encodeOthers(in)
		return tree.FromBytes(d, b)
	})
	nodict := optTree(func() (*tree.Tree, error) {
		var buf bytes.Buffer
		if err := t.SerializeNoDict(in.Cap, &buf); err != nil {
			return nil, err
		}
		return tree.DeserializeNoDict(bytes.NewReader(buf.Bytes()))
	})
	bad := "None"
	if in.Bad != nil {
		var buf bytes.Buffer
		if err := t.SerializeNoDict(in.Cap, &buf); err == nil {
			bb := corrupt(buf.Bytes(), in.Bad)
			res := optTree(func() (*tree.Tree, error) { return tree.DeserializeNoDict(bytes.NewReader(bb)) })
			bad = lib.Some(lib.Pair(lib.Bytes(bb), res))
		}
	}
	after := coqTree(t.VerifDump())
	// sequence of encodings on one second tree object
	var seq []string
	if len(in.Seq) > 0 {
		t2 := build(in)
		for _, st := range in.Seq {
			cp := st.Cap
			if cp < 1 {
				cp = 1
			}
			dec, mv := "None", uint64(0)
			switch st.Kind {
			case 0:
				dec = optTree(func() (*tree.Tree, error) {
					d := dict.New()
					b, err := t2.Bytes(d, cp)
					if err != nil {
						return nil, err
					}
					return tree.FromBytes(d, b)
				})
			case 1:
				dec = optTree(func() (*tree.Tree, error) {
					var buf bytes.Buffer
					if err := t2.SerializeNoDict(cp, &buf); err != nil {
						return nil, err
					}
					return tree.DeserializeNoDict(bytes.NewReader(buf.Bytes()))
				})
			case 2:
				t2.FlamebearerStruct(cp)
			default:
				mv = t2.VerifMinValue(cp)
			}
			seq = append(seq, "{| q_kind := "+lib.Nat(st.Kind)+"; q_cap := "+lib.Nat(cp)+"; q_dec := "+dec+"; q_minval := "+lib.N(mv)+" |}")
		}
	}

	var totals []uint64
	zeros := 0
	collectTotals(orig, &totals, &zeros)
	sort.Slice(totals, func(i, j int) bool { return totals[i] < totals[j] })
	ties := 0
	for i := 1; i < len(totals); i++ {
		if totals[i] == totals[i-1] {
			ties++
		}
	}
	rel := "below"
	switch {
	case in.Cap == n-1:
		rel = "cap=n-1"
	case in.Cap == n:
		rel = "cap=n"
	case in.Cap == n+1:
		rel = "cap=n+1"
	case in.Cap < n:
		rel = "above"
	}
	coq := "{| c_orig := " + before + "; c_cap := " + lib.Nat(in.Cap) + "; c_pre := " + lib.BytesList(in.Pre) +
		"; c_minval := " + lib.N(minv) + "; c_dec_fresh := " + fresh + "; c_dec_pre := " + pre +
		"; c_dec_nodict := " + nodict + "; c_src_untouched := " + lib.Bool(before == after) + "; c_seq := " + lib.List(seq) + "; c_big := " + lib.Bool(in.Big != nil) +
		"; c_bad := " + bad + " |}"
	mode := in.Mode
	if mode == "" {
		mode = "wf"
	}
	return lib.Result{
		Coq:        coq,
		NonTrivial: ties > 0 || (in.Cap >= n-1 && in.Cap <= n+1),
		Feat: map[string]interface{}{"nodes_class": sizeClass(n), "cap_vs_nodes": rel, "ties_class": sizeClass(ties),
			"zero_total_nodes_class": sizeClass(zeros), "mode": mode, "built_by": builtBy(in), "pre_dict": len(in.Pre) > 0,
			"threshold_zero": minv == 0, "malformed_stream": badKind(in), "totals": totalsClass(orig), "cloned": in.CloneD != 0, "held_across_other_encodes": len(in.Hold), "sequence_steps": len(in.Seq), "sequence_shape": seqShape(in.Seq, n), "big_tree": in.Big != nil, "merges": len(in.Merged)},
		Obs: map[string]interface{}{"nodes": n, "minval": minv},
	}
}

func badKind(in Input) string {
	if in.Bad == nil {
		return "none"
	}
	return in.Bad.Kind
}

func builtBy(in Input) string {
	if len(in.Merged) > 0 {
		return "Insert+Merge"
	}
	if in.Tree != nil {
		return "VerifBuild"
	}
	return "Insert"
}

func sizeClass(n int) string {
	switch {
	case n == 0:
		return "0"
	case n == 1:
		return "1"
	case n <= 3:
		return "2-3"
	case n <= 10:
		return "4-10"
	case n <= 50:
		return "11-50"
	default:
		return ">50"
	}
}

// ---------- generation ----------

var names = [][]byte{[]byte("a"), []byte("b"), []byte("c"), []byte("ab"), []byte("abc"), []byte(""), []byte("main"),
	{0xff, 0x00}, {0x00}, []byte("a b"), []byte("other"), []byte("z"), []byte("a;b"), {0x80, 0x81}}

func longName(r *rand.Rand) []byte {
	n := lib.Pick(r, []int{127, 128, 129, 200})
	b := bytes.Repeat([]byte{'q'}, n)
	b[n-1] = byte('a' + r.Intn(3))
	return b
}

// random exact, well-formed tree with n nodes
func genTree(r *rand.Rand, n int, mode string) *treeu.JNode {
	nodes := make([]*treeu.JNode, n)
	rootName := []byte{}
	if r.Intn(8) == 0 && mode != "wf7" {
		rootName = lib.Pick(r, names)
	}
	nodes[0] = &treeu.JNode{Name: rootName}
	chain := r.Float64() // how chain-like
	selfMode := r.Intn(5)
	for i := 1; i < n; i++ {
		p := i - 1
		if r.Float64() > chain {
			p = r.Intn(i)
		}
		if mode == "star" && i < n-3 { // one node with >= 128 children (two-byte child count)
			p = 0
		}
		// pick a name not yet used among the siblings (unless duplicates are wanted)
		var nm []byte
		for try := 0; try < 40; try++ {
			if mode == "big" { // unique names of 4..14 bytes: the stream exceeds the decoder's 4 KiB buffer
				nm = []byte(fmt.Sprintf("f%d_%s", i, strings.Repeat("x", r.Intn(9))))
			} else if mode == "wf7" {
				nm = lib.Pick(r, [][]byte{[]byte("a"), []byte("b"), []byte("c"), []byte("ab"), []byte("abc"), []byte(""), []byte("main"), {0x01, 0x02}, []byte("z")})
			} else if r.Intn(40) == 0 {
				nm = longName(r)
			} else if r.Intn(6) == 0 {
				nm = []byte{byte(r.Intn(256)), byte(r.Intn(4))}
			} else {
				nm = lib.Pick(r, names)
			}
			dup := false
			for _, c := range nodes[p].Children {
				if bytes.Equal(c.Name, nm) {
					dup = true
				}
			}
			if !dup || (mode == "dup" && r.Intn(2) == 0) {
				break
			}
			if try == 39 {
				nm = append([]byte("n"), byte(i>>8), byte(i))
			}
		}
		c := &treeu.JNode{Name: append([]byte{}, nm...)}
		nodes[i] = c
		nodes[p].Children = append(nodes[p].Children, c)
	}
	for _, nd := range nodes {
		switch selfMode {
		case 0: // mostly zero: chains whose totals tie
			if r.Intn(4) == 0 {
				nd.Self = uint64(lib.Range(r, 1, 3))
			}
		case 1: // all equal
			nd.Self = 1
		case 2: // leaves only
			if len(nd.Children) == 0 {
				nd.Self = uint64(lib.Pick(r, []int{0, 1, 1, 2, 5}))
			}
		case 3:
			nd.Self = uint64(r.Intn(4))
		default:
			nd.Self = uint64(lib.Pick(r, []int{0, 1, 7, 127, 128, 300, 1 << 20}))
		}
		if mode == "wf7" && nd.Self > 127 {
			nd.Self = 127
		}
	}
	var fix func(nd *treeu.JNode) uint64
	fix = func(nd *treeu.JNode) uint64 {
		if mode != "unsorted" {
			sort.SliceStable(nd.Children, func(i, j int) bool { return bytes.Compare(nd.Children[i].Name, nd.Children[j].Name) < 0 })
		}
		tot := nd.Self
		for _, c := range nd.Children {
			tot += fix(c)
		}
		nd.Total = tot
		if mode == "nonsub" && r.Intn(3) == 0 { // inconsistent (total may be below the sum): model only
			nd.Total = uint64(lib.Range(r, 0, int(tot)+3))
			return tot
		}
		if mode == "subinexact" && r.Intn(3) == 0 { // total exceeds self + children, as after Clone's flooring
			nd.Total = tot + uint64(lib.Pick(r, []int{1, 1, 1, 2, 3}))
		}
		return nd.Total
	}
	fix(nodes[0])
	return nodes[0]
}

func pickCap(r *rand.Rand, n int) int {
	c := lib.Pick(r, []int{1, 2, 3, n - 1, n, n + 1, 1024, lib.Range(r, 1, n+2), n - 2, n / 2, n + 2, 2*n + 1})
	if c < 1 {
		c = 1
	}
	return c
}

func genPre(r *rand.Rand) [][]byte {
	var pre [][]byte
	for i := lib.Range(r, 1, 6); i > 0; i-- {
		switch r.Intn(4) {
		case 0:
			pre = append(pre, append(append([]byte{}, lib.Pick(r, names)...), lib.Pick(r, names)...))
		case 1:
			pre = append(pre, []byte("ma"))
		case 2:
			pre = append(pre, []byte("abcd"))
		default:
			pre = append(pre, lib.Pick(r, names))
		}
	}
	return pre
}

func seqShape(seq []SeqStep, n int) string {
	tightFirst, looseFirst, flame := false, false, false
	seenTight, seenLoose := false, false
	for _, st := range seq {
		if st.Kind == 2 || st.Kind == 3 {
			flame = true
		}
		if st.Cap < n {
			if seenLoose {
				looseFirst = true
			}
			seenTight = true
		} else {
			if seenTight {
				tightFirst = true
			}
			seenLoose = true
		}
	}
	res := ""
	if tightFirst {
		res += "tight->loose "
	}
	if looseFirst {
		res += "loose->tight "
	}
	if flame {
		res += "flame/minval-between"
	}
	if res == "" {
		res = "none"
	}
	return res
}

func genSeq(r *rand.Rand, n int) []SeqStep {
	if r.Intn(2) == 0 {
		return nil
	}
	tight := lib.Pick(r, []int{1, 2, 3, n / 2, n - 1, n - 2})
	loose := lib.Pick(r, []int{n, n + 1, n + 2, 1024, 2*n + 1})
	if tight < 1 {
		tight = 1
	}
	enc := func(c int) SeqStep { return SeqStep{Kind: r.Intn(2), Cap: c} }
	mid := func(c int) SeqStep { return SeqStep{Kind: 2 + r.Intn(2), Cap: c} }
	switch r.Intn(6) {
	case 0:
		return []SeqStep{enc(tight), enc(loose)}
	case 1:
		return []SeqStep{enc(loose), enc(tight), enc(loose)}
	case 2:
		return []SeqStep{mid(tight), enc(loose)}
	case 3:
		return []SeqStep{enc(loose), mid(tight), enc(loose), enc(tight)}
	case 4:
		return []SeqStep{enc(tight), mid(lib.Pick(r, []int{tight, loose, n})), enc(loose)}
	default:
		return []SeqStep{enc(lib.Range(r, 1, n+2)), enc(lib.Range(r, 1, n+2)), enc(lib.Range(r, 1, n+2))}
	}
}

// a tree accumulated through 2-5 merges of the same / overlapping stack sets, caps just above the real size
func genMerged(r *rand.Rand) Input {
	var in Input
	in.Mode = "merged"
	in.Pre = genPre(r)
	base := treeu.RandStacks(r, lib.Range(r, 1, 8), 5, 6)
	in.Stacks = base
	for i := lib.Range(r, 2, 5); i > 0; i-- {
		var ss []treeu.Stack
		switch r.Intn(3) {
		case 0: // the same stacks again
			ss = append(ss, base...)
		case 1: // a subset plus something new
			for _, s := range base {
				if r.Intn(2) == 0 {
					ss = append(ss, s)
				}
			}
			ss = append(ss, treeu.RandStacks(r, lib.Range(r, 0, 2), 5, 6)...)
		default: // overlapping by shared prefixes only
			ss = treeu.RandStacks(r, lib.Range(r, 1, 5), 5, 6)
		}
		in.Merged = append(in.Merged, ss)
	}
	n := treeu.Size(build(in).VerifDump())
	in.Cap = lib.Pick(r, []int{n, n + 1, n + 1, n + 2, n + 3, 1024})
	return in
}

func genBigInput(r *rand.Rand) Input {
	depth := 250
	chains := lib.Range(r, 265, 355) // 66.5k .. 89k nodes
	b := &BigSpec{Chains: chains, Depth: depth, ZeroChains: lib.Range(r, 0, 3), Ones: lib.Range(r, 60, 140)}
	b.Deep = lib.Pick(r, [][]int{{1030}, {1024, 2000}, {1100, 1025}, {1000, 1026}})
	n := chains*(depth+1) + 1
	for _, d := range b.Deep {
		n += d
	}
	return Input{Big: b, Cap: lib.Pick(r, []int{n + 1, n + 7, 100000, 131072}), Mode: "big", Pre: [][]byte{[]byte("c00"), []byte("fx")}}
}

func genHold(r *rand.Rand) [][]treeu.Stack {
	if r.Intn(10) >= 6 {
		return nil
	}
	// one smaller and one larger tree, in either order
	small := treeu.RandStacks(r, lib.Range(r, 0, 2), 2, 5)
	large := treeu.RandStacks(r, lib.Range(r, 15, 60), 6, 1000)
	switch r.Intn(3) {
	case 0:
		return [][]treeu.Stack{small}
	case 1:
		return [][]treeu.Stack{large, small}
	default:
		return [][]treeu.Stack{small, large}
	}
}

func gen(r *rand.Rand, idx int, tier string) Input {
	if idx == 7 || (tier == "thorough" && idx%2000 == 7) {
		return genBigInput(r)
	}
	in := gen0(r, idx, tier)
	if idx%8 == 3 {
		in = genMerged(r)
	}
	in.Hold = genHold(r)
	if in.Bad == nil {
		in.Seq = genSeq(r, treeu.Size(build(in).VerifDump()))
	}
	return in
}

func gen0(r *rand.Rand, idx int, tier string) Input {
	var in Input
	in.Pre = genPre(r)
	x := r.Intn(20)
	switch {
	case x < 4: // built by Insert
		ns := lib.Range(r, 0, 12)
		in.Stacks = treeu.RandStacks(r, ns, 5, 6)
		if r.Intn(2) == 0 { // floor-scaled copy, ratios that do not divide the counts
			in.CloneM, in.CloneD = lib.Pick(r, [][2]uint64{{7, 8}, {1, 2}, {1, 3}, {2, 3}, {3, 10}, {9, 10}, {1, 8}, {5, 7}, {1, 1}, {3, 2}})[0], 0
			md := lib.Pick(r, [][2]uint64{{7, 8}, {1, 2}, {1, 3}, {2, 3}, {3, 10}, {9, 10}, {1, 8}, {5, 7}, {1, 1}, {3, 2}})
			in.CloneM, in.CloneD = md[0], md[1]
			in.Mode = "cloned"
		}
		t := build(in)
		in.Cap = pickCap(r, treeu.Size(t.VerifDump()))
		return in
	case x < 15:
		in.Mode = "wf"
	case x < 17: // 7-bit stream + one corruption
		in.Mode = "wf7"
		n := lib.Range(r, 1, 14)
		in.Tree = genTree(r, n, "wf7")
		in.Cap = pickCap(r, n)
		kind := lib.Pick(r, []string{"trunc", "trunc", "set", "set", "ins", "hugelen"})
		in.Bad = &BadSpec{Kind: kind, Pos: r.Intn(1 << 16), Val: uint64(r.Intn(128))}
		if kind == "set" && r.Intn(2) == 0 {
			in.Bad.Val = uint64(r.Intn(4))
		}
		if kind == "hugelen" {
			in.Bad.Val = lib.Pick(r, []uint64{1<<64 - 1, 1 << 63, 1<<63 - 1, 1 << 62, 200, 127, 1, 0, 1 << 32})
		}
		return in
	case x == 17:
		in.Mode = "dup"
	case x == 18:
		in.Mode = lib.Pick(r, []string{"nonsub", "subinexact", "subinexact"})
	default:
		in.Mode = "unsorted"
	}
	n := lib.Range(r, 1, 12)
	switch r.Intn(10) {
	case 0, 1, 2:
		n = lib.Range(r, 13, 40)
	case 3:
		n = lib.Range(r, 41, 200)
	}
	if in.Mode == "wf" && r.Intn(70) == 0 { // encoded stream well above 4096 bytes (bufio boundary inside names/keys)
		n = lib.Range(r, 500, 1200)
		in.Tree = genTree(r, n, "big")
		in.Cap = lib.Pick(r, []int{n + 1, n + 1, 2048, n - 1, n / 2})
		in.Pre = nil
		return in
	}
	if in.Mode == "wf" && r.Intn(25) == 0 {
		n = lib.Range(r, 133, 180)
		in.Tree = genTree(r, n, "star")
		in.Cap = pickCap(r, n)
		return in
	}
	in.Tree = genTree(r, n, in.Mode)
	in.Cap = pickCap(r, n)
	return in
}

// exhaustive: every ordered tree shape with <= 5 nodes x self in {0,1,2} (<= 6 nodes x self in {0,1}) x cap <= nodes+1
func shapes(n int) []*treeu.JNode { // all ordered forests... returns all trees with n nodes
	if n == 1 {
		return []*treeu.JNode{{Name: []byte{}}}
	}
	var res []*treeu.JNode
	for _, f := range forests(n - 1) {
		res = append(res, &treeu.JNode{Name: []byte{}, Children: f})
	}
	return res
}

func forests(n int) [][]*treeu.JNode { // ordered forests with n nodes in total
	if n == 0 {
		return [][]*treeu.JNode{nil}
	}
	var res [][]*treeu.JNode
	for k := 1; k <= n; k++ {
		for _, first := range shapes(k) {
			for _, rest := range forests(n - k) {
				res = append(res, append([]*treeu.JNode{first}, rest...))
			}
		}
	}
	return res
}

func cloneJ(n *treeu.JNode) *treeu.JNode {
	r := &treeu.JNode{Name: n.Name, Self: n.Self, Total: n.Total}
	for _, c := range n.Children {
		r.Children = append(r.Children, cloneJ(c))
	}
	return r
}

func label(n *treeu.JNode, selfs []int, pos *int) uint64 {
	n.Self = uint64(selfs[*pos])
	*pos++
	tot := n.Self
	for i, c := range n.Children {
		c.Name = []byte{byte('a' + i)}
		tot += label(c, selfs, pos)
	}
	n.Total = tot
	return tot
}

func enum(tier string) []Input {
	var res []Input
	k := 0
	for n := 1; n <= 6; n++ {
		vals := 3
		if n == 6 {
			vals = 2
		}
		combos := 1
		for i := 0; i < n; i++ {
			combos *= vals
		}
		for _, sh := range shapes(n) {
			for cmb := 0; cmb < combos; cmb++ {
				selfs := make([]int, n)
				x := cmb
				for i := range selfs {
					selfs[i] = x % vals
					x /= vals
				}
				for cp := 1; cp <= n+1; cp++ {
					k++
					if tier != "thorough" && k%149 != 0 {
						continue
					}
					t := cloneJ(sh)
					pos := 0
					label(t, selfs, &pos)
					res = append(res, Input{Tree: t, Cap: cp, Mode: "wf"})
				}
			}
		}
	}
	return res
}

func main() {
	lib.Main(lib.Harness[Input]{Prop: "C04", Quick: 2000, Thorough: 16000, Gen: gen, Enum: enum, Run: run})
}
