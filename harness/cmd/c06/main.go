//go:build verif

// c06: every wire format stores the same profile; uploader metadata; defaults.
// One real storage and one real server handler per harness process; fresh application names per case.
// Dump only; the oracle is Corr/CorrC06.v.
package main

import (
	"bytes"
	"fmt"
	"io"
	"math/rand"
	"net/http"
	"net/http/httptest"
	"net/url"
	"os"
	"sort"
	"strconv"
	"strings"
	"sync"
	"time"

	"github.com/sirupsen/logrus"

	"github.com/pyroscope-io/pyroscope/pkg/agent"
	"github.com/pyroscope-io/pyroscope/pkg/agent/upstream"
	"github.com/pyroscope-io/pyroscope/pkg/agent/upstream/direct"
	"github.com/pyroscope-io/pyroscope/pkg/agent/upstream/remote"
	"github.com/pyroscope-io/pyroscope/pkg/config"
	"github.com/pyroscope-io/pyroscope/pkg/convert"
	"github.com/pyroscope-io/pyroscope/pkg/server"
	"github.com/pyroscope-io/pyroscope/pkg/storage"
	"github.com/pyroscope-io/pyroscope/pkg/storage/dimension"
	"github.com/pyroscope-io/pyroscope/pkg/storage/segment"
	"github.com/pyroscope-io/pyroscope/pkg/storage/tree"
	"github.com/pyroscope-io/pyroscope/pkg/structs/transporttrie"
	"verifharness/lib"
	"verifharness/lib/treeu"
	"verifharness/lib/trieu"
)

type Meta struct {
	Spy   string `json:"spy"`
	Rate  uint32 `json:"rate"`
	Units string `json:"units"`
	Agg   string `json:"agg"`
}

type BurstJob struct {
	Suffix string `json:"suffix"` // appended to the application name (URL-significant characters, tags)
	Slot   int    `json:"slot"`
	Meta   Meta   `json:"meta"`
	Stack  []byte `json:"stack"`
	V      uint64 `json:"v"`
}
type BurstIn struct {
	Threads int        `json:"threads"`
	Jobs    []BurstJob `json:"jobs"`
}

type Input struct {
	MS      []treeu.Stack `json:"ms"`
	Meta    *Meta         `json:"meta,omitempty"` // nil: the client omits the four parameters
	Formats []string      `json:"formats"`        // groups, lines, trie, tree
	Upload  []string      `json:"upload"`         // remote, direct
	Tags    string        `json:"tags"`           // "" or "{k=v,...}" (older corpus files)
	// StartTime / EndTime of the upload jobs as nanosecond offsets from the start of the 10 s slot (both 0: the whole slot)
	JobStart int64        `json:"job_start_ns,omitempty"`
	JobEnd   int64        `json:"job_end_ns,omitempty"`
	AppX    string        `json:"appx,omitempty"` // suffix of the application name: characters that are significant in URLs
	TagKV   [][2]string   `json:"tagkv,omitempty"` // structured tags (used instead of Tags when present)
	Slot    int           `json:"slot"`           // which 10 s window
	UseCT   bool          `json:"use_ct"`         // select trie/tree by Content-Type instead of format=
	Seq     []Meta        `json:"seq,omitempty"`     // successive uploads of the profile to one series, each with this metadata
	CT      string        `json:"ct,omitempty"`      // Content-Type of the text-format and format=-selected requests ("" = text/plain)
	Burst   *BurstIn      `json:"burst,omitempty"` // distinct jobs handed to one remote uploader with several upload threads
	RawQuery []byte       `json:"rawq,omitempty"` // arbitrary raw query string for url.ParseQuery (raw class)
	Raw     []byte        `json:"raw,omitempty"`  // arbitrary body for the two text parsers only
	Class   string        `json:"class"`
}

// ---------------------------------------------------------------------------------------------
// environment: one storage, one handler, one HTTP test server

type env struct {
	dir     string
	st      *storage.Storage
	handler http.Handler
	ts      *httptest.Server
	rem     *remote.Remote
	dir2    *direct.Direct
	mu      sync.Mutex
	burstOn bool
	burstDone int // requests of the running burst that the real handler has answered
	burst   []burstReq
	lastQ   url.Values
	lastRaw string
	lastCT  string
	counter int
}

type burstReq struct {
	q    url.Values
	body []byte
}

// rvLogger: Debugf is called by uploadProfile between writing the request's query and building the request; the
// uploader threads of a burst meet here (released when T of them have arrived, or after a short timeout), so that
// their uploads really overlap.  Only the public agent.Logger interface is used.
type rvLogger struct {
	mu sync.Mutex
	n  int
	T  int
	ch chan struct{}
}

func (l *rvLogger) Infof(string, ...interface{})  {}
func (l *rvLogger) Errorf(string, ...interface{}) {}
func (l *rvLogger) Debugf(string, ...interface{}) {
	l.mu.Lock()
	l.n++
	if l.n%l.T == 0 {
		close(l.ch)
		l.ch = make(chan struct{})
		l.mu.Unlock()
		return
	}
	ch := l.ch
	l.mu.Unlock()
	select {
	case <-ch:
	case <-time.After(30 * time.Millisecond):
	}
}

var E *env

func setup() *env {
	logrus.SetOutput(io.Discard)
	logrus.SetLevel(logrus.PanicLevel)
	dir, err := os.MkdirTemp("/tmp", "trie-harness-*")
	if err != nil {
		panic(err)
	}
	storage.VerifDisablePeriodicTasks()
	cfg := &config.Server{
		StoragePath: dir, APIBindAddr: ":4040", BadgerLogLevel: "error",
		CacheEvictThreshold: 0.02, CacheEvictVolume: 0.10,
		MaxNodesSerialization: 2048, MaxNodesRender: 2048,
	}
	st, err := storage.New(cfg)
	if err != nil {
		panic(err)
	}
	ctrl, err := server.New(cfg, st)
	if err != nil {
		panic(err)
	}
	e := &env{dir: dir, st: st}
	mux := ctrl.VerifMux()
	e.handler = http.HandlerFunc(func(w http.ResponseWriter, r *http.Request) {
		e.mu.Lock()
		if e.burstOn {
			b, _ := io.ReadAll(r.Body)
			r.Body = io.NopCloser(bytes.NewReader(b))
			e.burst = append(e.burst, burstReq{q: r.URL.Query(), body: b})
		}
		e.lastQ = r.URL.Query()
		e.lastRaw = r.URL.RawQuery
		e.lastCT = r.Header.Get("Content-Type")
		burst := e.burstOn
		e.mu.Unlock()
		mux.ServeHTTP(w, r)
		if burst { // the request has been answered: whatever it stores is stored
			e.mu.Lock()
			e.burstDone++
			e.mu.Unlock()
		}
	})
	e.ts = httptest.NewServer(e.handler)
	e.rem, err = remote.New(remote.RemoteConfig{UpstreamAddress: e.ts.URL, UpstreamThreads: 1,
		UpstreamRequestTimeout: 10 * time.Second, ManualStart: true}, &agent.NoopLogger{})
	if err != nil {
		panic(err)
	}
	e.dir2 = direct.New(st)
	e.dir2.Start()
	return e
}

// storedKeys lists the segment keys the storage's index holds for applications whose name contains base.
func (e *env) storedKeys(base string) string {
	var apps []string
	e.st.GetValues("__name__", func(v string) bool {
		if strings.Contains(v, base) {
			apps = append(apps, v)
		}
		return true
	})
	sort.Strings(apps)
	items := []string{}
	for _, app := range apps {
		res, err := e.st.VerifCache("dimensions").Get("__name__:" + app)
		if err != nil || res == nil {
			continue
		}
		for _, k := range res.(*dimension.Dimension).VerifKeys() {
			items = append(items, lib.Bytes([]byte(k)))
		}
	}
	return lib.List(items)
}

func coqRunes(s string) string {
	items := []string{}
	for _, r := range s {
		items = append(items, fmt.Sprintf("%d", r))
	}
	return lib.List(items)
}

// waitDirect waits until the asynchronous direct upload of application app has been stored, without reading
// the series concurrently (a concurrent storage.Get could race with the Put — that is C08's subject, not C06's):
// the label is written inside Put under the put mutex; a dummy Put afterwards returns only when that Put is over.
func (e *env) waitDirect(app string, st, et time.Time) {
	deadline := time.Now().Add(10 * time.Second)
	for time.Now().Before(deadline) {
		found := false
		e.st.GetValues("__name__", func(v string) bool {
			if v == app {
				found = true
				return false
			}
			return true
		})
		if found {
			break
		}
		time.Sleep(time.Millisecond)
	}
	sk, _ := storage.ParseKey("c06.sync")
	t := tree.New()
	t.Insert([]byte("sync"), 1)
	e.st.Put(&storage.PutInput{StartTime: st, EndTime: et, Key: sk, Val: t, SpyName: "sync", SampleRate: 100, Units: "samples", AggregationType: "sum"})
}

// runBurst hands all jobs to one remote uploader with several upload threads and records what the server received.
func (e *env) runBurst(base string, b *BurstIn) (string, string, []string) {
	lg := &rvLogger{T: b.Threads, ch: make(chan struct{})}
	rem, err := remote.New(remote.RemoteConfig{UpstreamAddress: e.ts.URL, UpstreamThreads: b.Threads,
		UpstreamRequestTimeout: 10 * time.Second}, lg)
	if err != nil {
		panic(err)
	}
	e.mu.Lock()
	e.burst, e.burstOn, e.burstDone = nil, true, 0
	e.mu.Unlock()
	items := make([]string, len(b.Jobs))
	var names []string
	for i, bj := range b.Jobs {
		st := time.Date(2021, 1, 2, 0, 0, 0, 0, time.UTC).Add(time.Duration(bj.Slot) * 10 * time.Second)
		et := st.Add(10 * time.Second)
		name := fmt.Sprintf("%s.burst%d%s", base, i, bj.Suffix)
		names = append(names, coqRunes(name))
		t := transporttrie.New()
		t.Insert(append([]byte{}, bj.Stack...), bj.V, true)
		rem.Upload(&upstream.UploadJob{Name: name, StartTime: st, EndTime: et, SpyName: bj.Meta.Spy, SampleRate: bj.Meta.Rate,
			Units: bj.Meta.Units, AggregationType: bj.Meta.Agg, Trie: t})
		items[i] = "({| j_name := " + lib.Bytes([]byte(name)) + "; j_start := " + lib.N(uint64(st.Unix())) + "; j_end := " + lib.N(uint64(et.Unix())) +
			"; j_spy := " + lib.Bytes([]byte(bj.Meta.Spy)) + "; j_rate := " + lib.N(uint64(bj.Meta.Rate)) + "; j_units := " + lib.Bytes([]byte(bj.Meta.Units)) +
			"; j_aggregation := " + lib.Bytes([]byte(bj.Meta.Agg)) + " |}, " + lib.Pair(lib.Bytes(bj.Stack), lib.N(bj.V)) + ")"
	}
	deadline := time.Now().Add(60 * time.Second)
	for time.Now().Before(deadline) {
		e.mu.Lock()
		n := e.burstDone // answered, not merely received: the stored keys are read right after this loop
		e.mu.Unlock()
		if n >= len(b.Jobs) {
			break
		}
		time.Sleep(time.Millisecond)
	}
	time.Sleep(5 * time.Millisecond)
	rem.Stop()
	e.mu.Lock()
	got := e.burst
	e.burst, e.burstOn = nil, false
	e.mu.Unlock()
	gotItems := make([]string, len(got))
	for i, g := range got {
		kvs := "[]"
		if t, err := transporttrie.Deserialize(bytes.NewReader(g.body)); err == nil && t != nil {
			kvs = trieu.CoqKVs(trieu.Iter(t))
		}
		gotItems[i] = lib.Pair(coqQuery(g.q), kvs)
	}
	return lib.List(items), lib.List(gotItems), names
}

func (e *env) close() {
	e.ts.Close()
	e.dir2.Stop()
	e.st.Close()
	os.RemoveAll(e.dir)
}

// ---------------------------------------------------------------------------------------------
// generator

var spies = []string{"gospy", "rbspy", "ebpfspy", "my spy", "py=spy&x", "c++spy", "spy%20x#1", "spy;a/b?c", "шпион"}
var unitsL = []string{"samples", "objects", "bytes", "lock_nanoseconds", "lock+nanoseconds", "a&b=c%", "é/s"}

// characters that are significant in URLs but legal in application names and tag values
var appSuffixes = []string{"", "", ".c++", ".r&d", ".100%", ".a=b", ".what?", ".#1", ".x;y", ".a/b", ".two words", ".é", ".a+b&c%3D#?;/ d"}
var tagVals = []string{"prod", "c++", "r&d", "100%", "a=b", "why?", "#7", "x;y", "a/b", "us west", "zürich", "+&%=?#;/ é", "%2B"}
var tagKeys = []string{"env", "lang", "team", "k+1", "a&b", "q?", "p/q", "ключ"}

func burstThreads(b *BurstIn) int {
	if b == nil {
		return 0
	}
	return b.Threads
}

func tagsIrregular(kv [][2]string) bool {
	seen := map[string]bool{}
	for _, p := range kv {
		k := strings.TrimSpace(p[0])
		if seen[k] || k != p[0] || strings.TrimSpace(p[1]) != p[1] || k == "" || strings.TrimSpace(p[1]) == "" {
			return true
		}
		seen[k] = true
	}
	return false
}

func tagsString(kv [][2]string) string {
	if len(kv) == 0 {
		return ""
	}
	parts := make([]string, len(kv))
	for i, p := range kv {
		parts[i] = p[0] + "=" + p[1]
	}
	return "{" + strings.Join(parts, ",") + "}"
}
var aggs = []string{"sum", "average"}
var rates = []uint32{1, 100, 250, 1000, 4294967295}

func textOK(k []byte) bool {
	if len(k) == 0 || bytes.IndexByte(k, '\n') >= 0 || k[len(k)-1] == '\r' {
		return false
	}
	return true
}

func gen(r *rand.Rand, idx int, tier string) Input {
	var in Input
	in.Slot = r.Intn(1000)
	if lib.Chance(r, 0.12) {
		in.Class = "raw"
		in.Raw = randRaw(r)
		in.RawQuery = randQuery(r)
		if lib.Chance(r, 0.35) {
			// a collapsed-text line whose length sits on a buffer boundary (4096-byte readers), followed by another line;
			// the multiset the client means goes along
			L := lib.Pick(r, []int{4095, 4096, 4097, 8191, 8192, 8193, 12288})
			var stack []byte
			for len(stack) < L-2 {
				n := L - 2 - len(stack)
				if n > 700 {
					n = 700
				}
				if len(stack) > 0 {
					stack = append(stack, ';')
					n--
				}
				stack = append(stack, bytes.Repeat([]byte{byte('a' + len(stack)%3)}, n)...)
			}
			var b []byte
			pre := lib.Chance(r, 0.5)
			if pre {
				b = append(b, "pre;x 1\n"...)
				in.MS = append(in.MS, treeu.Stack{Key: []byte("pre;x"), V: 1})
			}
			b = append(append(b, stack...), " 7\n"...)
			in.MS = append(in.MS, treeu.Stack{Key: stack, V: 7})
			b = append(b, "after;y 2\nlast 3\n"...)
			in.MS = append(in.MS, treeu.Stack{Key: []byte("after;y"), V: 2}, treeu.Stack{Key: []byte("last"), V: 3})
			in.Raw = b
			in.Class = "raw-longline"
		}
		return in
	}
	n := lib.Range(r, 1, 7)
	nframes := lib.Pick(r, []int{4, 8, 12, 20})
	depth := lib.Pick(r, []int{1, 2, 3, 4})
	small := lib.Chance(r, 0.6)
	binary := lib.Chance(r, 0.12)
	for i := 0; i < n; i++ {
		k := trieu.RandKey(r, depth, nframes)
		if len(in.MS) > 0 && lib.Chance(r, 0.3) { // one stack a prefix of / diverging from another, or a repeat
			if lib.Chance(r, 0.4) {
				k = append([]byte{}, lib.Pick(r, in.MS).Key...)
			} else {
				k = trieu.Mutate(r, lib.Pick(r, in.MS).Key)
			}
		}
		if binary && lib.Chance(r, 0.5) {
			switch r.Intn(3) {
			case 0:
				k = append(k, '\n', 'x')
			case 1:
				k = append(k, '\r')
			default:
				k = append([]byte{0, 10, 13}, k...)
			}
		}
		if len(k) == 0 {
			k = []byte("e")
		}
		var v uint64
		switch {
		case small:
			v = uint64(lib.Range(r, 1, 12))
		case lib.Chance(r, 0.3):
			v = uint64(r.Int63n(1<<40)) + 1
		default:
			v = uint64(lib.Range(r, 1, 100000))
		}
		in.MS = append(in.MS, treeu.Stack{Key: k, V: v})
	}
	wide := !binary && lib.Chance(r, 0.1)
	if wide {
		// a trie node with 17..40 children; stacks through its smallest and largest lead byte come again afterwards
		in.MS = in.MS[:0]
		keys, lo, hi := trieu.WideKeys(r, lib.Pick(r, [][]byte{{}, []byte("main;")}), lib.Range(r, 17, 40), true)
		val := func() uint64 {
			if small {
				return uint64(lib.Range(r, 1, 6))
			}
			return uint64(lib.Range(r, 1, 100000))
		}
		for _, k := range keys {
			in.MS = append(in.MS, treeu.Stack{Key: k, V: val()})
		}
		for _, k := range [][]byte{lo, append(append([]byte{}, lo...), 'z'), hi, lo, append(append([]byte{}, hi...), ';', 'g'), hi} {
			in.MS = append(in.MS, treeu.Stack{Key: k, V: val()})
		}
	}
	ok := true
	for _, s := range in.MS {
		if !textOK(s.Key) {
			ok = false
		}
	}
	in.Class = "text"
	if wide {
		in.Class = "wide"
	}
	in.Formats = []string{"trie", "tree"}
	if ok {
		in.Formats = append(in.Formats, "groups")
		if small {
			in.Formats = append(in.Formats, "lines")
		}
	} else if !wide {
		in.Class = "binary"
	}
	if !small {
		in.Class += "-bigcounts"
	}
	if lib.Chance(r, 0.75) {
		in.Meta = &Meta{Spy: lib.Pick(r, spies), Rate: lib.Pick(r, rates), Units: lib.Pick(r, unitsL), Agg: lib.Pick(r, aggs)}
		if lib.Chance(r, 0.35) {
			in.Upload = append(in.Upload, "remote")
		}
		if lib.Chance(r, 0.2) {
			in.Upload = append(in.Upload, "direct")
		}
	}
	// job times as a session produces them: start = time of the last reset (any nanosecond), end usually on a boundary
	const sec = int64(time.Second)
	switch r.Intn(5) {
	case 0: // whole slot
	case 1: // last second of the slot, sub-second part >= 500 ms
		in.JobStart = 9*sec + sec/2 + r.Int63n(sec/2)
	case 2: // x.5 .. x.999 of any second
		in.JobStart = int64(r.Intn(10))*sec + sec/2 + r.Int63n(sec/2)
	case 3: // last second, sub-second part < 500 ms
		in.JobStart = 9*sec + r.Int63n(sec/2)
	default:
		in.JobStart = r.Int63n(10 * sec)
	}
	switch r.Intn(4) {
	case 0, 1: // end on the slot boundary
		in.JobEnd = 10 * sec
	case 2: // inside the slot, after the start
		in.JobEnd = in.JobStart + 1 + r.Int63n(10*sec-in.JobStart)
	default: // same second as the start, or x.999999999
		in.JobEnd = in.JobStart + 1
		if lib.Chance(r, 0.5) {
			in.JobEnd = 10*sec - 1
		}
	}
	if in.JobEnd <= in.JobStart {
		in.JobEnd = 10 * sec
	}
	in.AppX = lib.Pick(r, appSuffixes)
	if lib.Chance(r, 0.5) {
		n := lib.Range(r, 1, 3)
		used := map[string]bool{}
		dup := lib.Chance(r, 0.3)  // the same tag twice: the last value wins
		pad := lib.Chance(r, 0.3)  // white space around keys, values and the application name
		n += lib.Range(r, 0, 2)
		sp := func(x string) string {
			if pad && lib.Chance(r, 0.6) {
				return lib.Pick(r, []string{" ", "  ", "\t"}) + x + lib.Pick(r, []string{" ", "", "  "})
			}
			return x
		}
		for i := 0; i < n; i++ { // picked in random (not sorted) order
			k := lib.Pick(r, tagKeys)
			if used[k] && !dup {
				continue
			}
			used[k] = true
			v := lib.Pick(r, tagVals)
			empty := false
			if lib.Chance(r, 0.15) { // a tag with an EMPTY value ("env="), or with an empty key ("=x")
				if lib.Chance(r, 0.7) {
					v = ""
				} else {
					k = ""
				}
				empty = true
			}
			in.TagKV = append(in.TagKV, [2]string{sp(k), sp(v)})
			if empty && lib.Chance(r, 0.8) { // ... followed by another, ordinary tag
				in.TagKV = append(in.TagKV, [2]string{lib.Pick(r, []string{"host", "zone", "az"}), lib.Pick(r, []string{"h1", "eu-1", "b"})})
			}
		}
		if pad && lib.Chance(r, 0.5) {
			in.AppX += lib.Pick(r, []string{" ", "  "})
		}
	}
	in.UseCT = lib.Chance(r, 0.3)
	if lib.Chance(r, 0.4) { // what generic HTTP clients send (curl -d, forms, browsers)
		in.CT = lib.Pick(r, []string{"application/x-www-form-urlencoded", "multipart/form-data; boundary=xyz", "application/octet-stream",
			"text/plain; charset=utf-8", "application/json", "binary/octet-stream"})
	}
	if idx%10 == 2 && ok && in.Meta != nil {
		// uploads to an existing series: each differs from the one before in exactly one metadata field
		m := *in.Meta
		in.Seq = append(in.Seq, m)
		for i := lib.Range(r, 1, 3); i > 0; i-- {
			switch r.Intn(5) {
			case 0:
				m.Spy = lib.Pick(r, spies)
			case 1:
				m.Rate = lib.Pick(r, rates)
			case 2:
				m.Units = lib.Pick(r, unitsL)
			default: // sum <-> average
				if m.Agg == "sum" {
					m.Agg = "average"
				} else {
					m.Agg = "sum"
				}
			}
			in.Seq = append(in.Seq, m)
		}
	}
	if idx%12 == 5 {
		b := &BurstIn{Threads: lib.Pick(r, []int{4, 4, 8})}
		n := b.Threads * lib.Range(r, 2, 4)
		for i := 0; i < n; i++ {
			j := BurstJob{Suffix: lib.Pick(r, appSuffixes), Slot: r.Intn(1000),
				Meta:  Meta{Spy: lib.Pick(r, spies), Rate: lib.Pick(r, rates), Units: lib.Pick(r, unitsL), Agg: lib.Pick(r, aggs)},
				Stack: append([]byte(fmt.Sprintf("job%d;", i)), trieu.RandKey(r, 2, 8)...), V: uint64(1000 + i)}
			if lib.Chance(r, 0.4) {
				j.Suffix += "{" + lib.Pick(r, tagKeys) + "=" + lib.Pick(r, append([]string{"", ""}, tagVals...)) + ",host=" + lib.Pick(r, []string{"h1", "h2"}) + "}"
			}
			b.Jobs = append(b.Jobs, j)
		}
		in.Burst = b
	}
	return in
}

// randQuery: raw query strings with well-formed and malformed escapes, '+', ';', empty pieces, repeated keys
func randQuery(r *rand.Rand) []byte {
	atoms := []string{"a", "name", "x%41", "%4a%4B", "%zz", "%4", "%", "a+b", "c%2Bd", "%26", "%3d", "%3B", ";", "k;v", "é", "%C3%A9", "%c3%a9",
		"", "~-_.", "%%", "%25", "100%25", "=", "%00", " ", "%20", "%G1", "%1G", "sp ace"}
	var b []byte
	n := lib.Range(r, 0, 6)
	for i := 0; i < n; i++ {
		if i > 0 {
			b = append(b, '&')
			if lib.Chance(r, 0.1) {
				b = append(b, '&')
			}
		}
		b = append(b, lib.Pick(r, atoms)...)
		switch r.Intn(4) {
		case 0: // no '='
		case 1:
			b = append(b, '=')
		default:
			b = append(b, '=')
			b = append(b, lib.Pick(r, atoms)...)
			if lib.Chance(r, 0.15) {
				b = append(b, '=')
				b = append(b, lib.Pick(r, atoms)...)
			}
		}
	}
	return b
}

func hostileQueryCoq(raw []byte) string {
	if raw == nil {
		return "None"
	}
	vals, _ := url.ParseQuery(string(raw)) // r.URL.Query() drops the error in the same way
	return lib.Some(lib.Pair(lib.Bytes(raw), coqQuery(vals)))
}

func randRaw(r *rand.Rand) []byte {
	var b []byte
	n := lib.Range(r, 0, 6)
	pieces := []string{"a;b", "main;foo bar", "x", "", " ", "a b c", "\t", "é;ü", "a;b\r", "5", "-"}
	nums := []string{"1", "0", "12", "-3", "+7", "007", "9223372036854775807", "9223372036854775808", "-9223372036854775808",
		"-9223372036854775809", "1e3", "1_000", "0x10", "", " ", "12a", "١٢", "18446744073709551615"}
	for i := 0; i < n; i++ {
		b = append(b, lib.Pick(r, pieces)...)
		if lib.Chance(r, 0.8) {
			b = append(b, ' ')
			b = append(b, lib.Pick(r, nums)...)
		}
		switch r.Intn(6) {
		case 0:
			b = append(b, '\r', '\n')
		case 1:
			if i == n-1 {
				break // last line without newline
			}
			b = append(b, '\n')
		case 2:
			b = append(b, '\n', '\n')
		case 3:
			b = append(b, '\r', '\r', '\n')
		default:
			b = append(b, '\n')
		}
	}
	return b
}

// ---------------------------------------------------------------------------------------------
// dumping

func coqStored(status int, out *storage.GetOutput, agg string) string {
	treeS := "None"
	spy, units := "", ""
	var rate uint32
	if out != nil && out.Tree != nil {
		treeS = lib.Some(coqTree(out.Tree.VerifDump()))
		spy, rate, units = out.SpyName, out.SampleRate, out.Units
	}
	return "{| st_status := " + lib.N(uint64(status)) + "; st_tree := " + treeS +
		"; st_spy := " + lib.Bytes([]byte(spy)) + "; st_rate := " + lib.N(uint64(rate)) +
		"; st_units := " + lib.Bytes([]byte(units)) + "; st_agg := " + lib.Bytes([]byte(agg)) + " |}"
}

func coqQuery(q url.Values) string {
	keys := make([]string, 0, len(q))
	for k := range q {
		keys = append(keys, k)
	}
	sort.Strings(keys)
	items := []string{}
	for _, k := range keys {
		items = append(items, lib.Pair(lib.Bytes([]byte(k)), lib.Bytes([]byte(q.Get(k)))))
	}
	return lib.List(items)
}

func (e *env) readBack(name string, st, et time.Time, status int) string {
	sk, err := storage.ParseKey(name)
	if err != nil {
		return coqStored(status, nil, "")
	}
	out, _ := e.st.Get(&storage.GetInput{StartTime: st, EndTime: et, Key: sk})
	agg := ""
	if out != nil {
		if res, err := e.st.VerifCache("segments").Get(sk.SegmentKey()); err == nil && res != nil {
			agg = res.(*segment.Segment).AggregationType()
		}
	}
	return coqStored(status, out, agg)
}

// cbytes prints a byte string as a Coq term; long runs of one byte are run-length encoded
// (Coq cannot parse list literals with tens of thousands of elements).
func cbytes(b []byte) string {
	if len(b) < 512 {
		return lib.Bytes(b)
	}
	var parts []string
	i := 0
	for i < len(b) {
		j := i
		for j < len(b) && b[j] == b[i] {
			j++
		}
		if j-i >= 64 {
			parts = append(parts, fmt.Sprintf("repeat %d (N.to_nat %d)", b[i], j-i))
			i = j
			continue
		}
		// literal chunk up to the next long run
		k := i
		for k < len(b) {
			m := k
			for m < len(b) && b[m] == b[k] {
				m++
			}
			if m-k >= 64 {
				break
			}
			k = m
		}
		parts = append(parts, lib.Bytes(b[i:k]))
		i = k
	}
	return "(" + strings.Join(parts, " ++ ") + ")%list"
}

// coqTree prints a dumped tree with run-length encoded long names.
func coqTree(n *tree.VerifNode) string {
	var sb strings.Builder
	var rec func(n *tree.VerifNode)
	rec = func(n *tree.VerifNode) {
		sb.WriteString("(TNode " + cbytes(n.Name) + " " + lib.N(n.Self) + " " + lib.N(n.Total) + " [")
		for i, c := range n.Children {
			if i > 0 {
				sb.WriteString("; ")
			}
			rec(c)
		}
		sb.WriteString("])")
	}
	rec(n)
	return sb.String()
}

func parseGroupsGo(body []byte) string {
	items := []string{}
	err := convert.ParseGroups(bytes.NewReader(body), func(name []byte, val int) {
		items = append(items, lib.Pair(cbytes(append([]byte{}, name...)), lib.Z(int64(val))))
	})
	return lib.Pair(lib.List(items), lib.Bool(err == nil))
}

func parseLinesGo(body []byte) string {
	type kv struct {
		k []byte
		v int
	}
	var l []kv
	err := convert.ParseIndividualLines(bytes.NewReader(body), func(name []byte, val int) {
		l = append(l, kv{append([]byte{}, name...), val})
	})
	sort.Slice(l, func(i, j int) bool { return bytes.Compare(l[i].k, l[j].k) < 0 })
	items := []string{}
	for _, x := range l {
		items = append(items, lib.Pair(cbytes(x.k), lib.N(uint64(x.v))))
	}
	return lib.Pair(lib.List(items), lib.Bool(err == nil))
}

func run(in Input) (res lib.Result) {
	defer func() {
		if r := recover(); r != nil {
			res = lib.Result{Crash: fmt.Sprintf("panic: %v", r)}
		}
	}()
	e := E
	none := "None"
	if in.Raw != nil || in.Class == "raw" {
		e.counter++
		base := fmt.Sprintf("c06.p%d.r%d", os.Getpid(), e.counter)
		st := time.Date(2021, 1, 1, 0, 0, 0, 0, time.UTC).Add(time.Duration(in.Slot) * 10 * time.Second)
		et := st.Add(10 * time.Second)
		send := func(name, format string) string {
			q := url.Values{}
			q.Set("name", name)
			q.Set("from", strconv.FormatInt(st.Unix(), 10))
			q.Set("until", strconv.FormatInt(et.Unix(), 10))
			if format != "" {
				q.Set("format", format)
			}
			req := httptest.NewRequest("POST", "/ingest?"+q.Encode(), bytes.NewReader(in.Raw))
			req.Header.Set("Content-Type", "text/plain")
			rec := httptest.NewRecorder()
			e.handler.ServeHTTP(rec, req)
			return lib.Some(e.readBack(name, st, et, rec.Code))
		}
		rg := send(base+".groups", "")
		rl := send(base+".lines", "lines")
		msItems := make([]string, len(in.MS))
		for i, s := range in.MS {
			msItems[i] = lib.Pair(cbytes(s.Key), lib.N(s.V))
		}
		coq := "{| c_ms := " + lib.List(msItems) + "; c_text_ok := false; c_meta := None; c_groups := None; c_lines := None; c_trie := None; c_tree := None; " +
			"c_job := None; c_job_ns := None; c_remote_slots := []; c_direct_slots := []; c_series := None; c_remote := None; c_direct := None; c_go_groups := None; c_go_lines := None; c_raw := " +
			lib.Some("("+cbytes(in.Raw)+", "+parseGroupsGo(in.Raw)+", "+parseLinesGo(in.Raw)+")") +
			"; c_seq := []; c_burst := []; c_burst_got := []; c_names := []; c_stored_keys := []; c_remote_rawq := None; c_hostile_q := " + hostileQueryCoq(in.RawQuery) + "; c_raw_groups := " + rg + "; c_raw_lines := " + rl + " |}"
		return lib.Result{Coq: coq, NonTrivial: false, Feat: map[string]interface{}{"class": "raw", "raw_len": len(in.Raw), "raw_with_intent": len(in.MS) > 0}}
	}
	e.counter++
	base := fmt.Sprintf("c06.p%d.n%d", os.Getpid(), e.counter)
	st := time.Date(2021, 1, 1, 0, 0, 0, 0, time.UTC).Add(time.Duration(in.Slot) * 10 * time.Second)
	et := st.Add(10 * time.Second)

	textok := true
	for _, s := range in.MS {
		if !textOK(s.Key) {
			textok = false
		}
	}

	bodies := map[string][]byte{}
	{ // collapsed text
		var b bytes.Buffer
		for _, s := range in.MS {
			b.Write(s.Key)
			b.WriteByte(' ')
			b.WriteString(strconv.FormatUint(s.V, 10))
			b.WriteByte('\n')
		}
		bodies["groups"] = b.Bytes()
	}
	{ // one stack per line, repeated
		var b bytes.Buffer
		for _, s := range in.MS {
			if s.V > 64 {
				continue
			}
			for i := uint64(0); i < s.V; i++ {
				b.Write(s.Key)
				b.WriteByte('\n')
			}
		}
		bodies["lines"] = b.Bytes()
	}
	mkTrie := func() *transporttrie.Trie {
		t := transporttrie.New()
		for _, s := range in.MS {
			t.Insert(append([]byte{}, s.Key...), s.V, true)
		}
		return t
	}
	bodies["trie"] = mkTrie().Bytes()
	{ // another payload produced while the first one is still waiting to be sent (queued jobs of one session)
		decoy := transporttrie.New()
		for _, s := range in.MS {
			decoy.Insert(append([]byte("decoy;"), s.Key...), s.V+1, true)
		}
		decoy.Insert([]byte("decoy;extra;stack"), 99, true)
		_ = decoy.Bytes()
		_ = transporttrie.New().Bytes()
	}
	{
		t := tree.New()
		for _, s := range in.MS {
			t.Insert(s.Key, s.V)
		}
		var b bytes.Buffer
		t.SerializeNoDict(2048, &b)
		bodies["tree"] = b.Bytes()
	}

	tags := in.Tags
	if len(in.TagKV) > 0 {
		tags = tagsString(in.TagKV)
	}
	tags = in.AppX + tags // appended to "<base>.<path>": application name suffix, then the tags
	var namesSent []string
	sentCoq := map[string]string{"groups": none, "lines": none, "trie": none, "tree": none}
	for _, f := range in.Formats {
		name := base + "." + f + tags
		namesSent = append(namesSent, coqRunes(name))
		q := url.Values{}
		q.Set("name", name)
		q.Set("from", strconv.FormatInt(st.Unix(), 10))
		q.Set("until", strconv.FormatInt(et.Unix(), 10))
		ct := "text/plain"
		if in.CT != "" {
			ct = in.CT
		}
		switch f {
		case "lines":
			q.Set("format", "lines")
		case "trie":
			if in.UseCT {
				ct = "binary/octet-stream+trie"
			} else {
				q.Set("format", "trie")
			}
		case "tree":
			if in.UseCT {
				ct = "binary/octet-stream+tree"
			} else {
				q.Set("format", "tree")
			}
		}
		if in.Meta != nil {
			q.Set("spyName", in.Meta.Spy)
			q.Set("sampleRate", strconv.FormatUint(uint64(in.Meta.Rate), 10))
			q.Set("units", in.Meta.Units)
			q.Set("aggregationType", in.Meta.Agg)
		}
		req := httptest.NewRequest("POST", "/ingest?"+q.Encode(), bytes.NewReader(bodies[f]))
		req.Header.Set("Content-Type", ct)
		rec := httptest.NewRecorder()
		e.handler.ServeHTTP(rec, req)
		body := bodies[f]
		sentCoq[f] = lib.Some("{| sn_query := " + coqQuery(q) + "; sn_rawq := " + lib.Bytes([]byte(req.URL.RawQuery)) + "; sn_ctype := " + lib.Bytes([]byte(ct)) +
			"; sn_body := " + lib.Bytes(body) + "; sn_stored := " + e.readBack(name, st, et, rec.Code) + " |}")
	}

	jst, jet := st.Add(time.Duration(in.JobStart)), st.Add(time.Duration(in.JobEnd))
	if in.JobStart == 0 && in.JobEnd == 0 {
		jet = et
	}
	jobNs := none
	remoteSlots, directSlots := "[]", "[]"
	slotDump := func(name string) string {
		sk, _ := storage.ParseKey(name)
		items := []string{}
		for _, d := range []int{-10, 0, 10} {
			a := st.Add(time.Duration(d) * time.Second)
			out, _ := e.st.Get(&storage.GetInput{StartTime: a, EndTime: a.Add(10 * time.Second), Key: sk})
			tr := none
			if out != nil && out.Tree != nil {
				tr = lib.Some(coqTree(out.Tree.VerifDump()))
			}
			items = append(items, lib.Pair(lib.N(uint64(a.Unix())), tr))
		}
		return lib.List(items)
	}
	remoteRawq := none
	jobCoq, remoteCoq, directCoq, seriesCoq := none, none, none, none
	if len(in.TagKV) > 0 || in.Tags == "" {
		items := make([]string, len(in.TagKV))
		for i, p := range in.TagKV {
			items[i] = lib.Pair(lib.Bytes([]byte(p[0])), lib.Bytes([]byte(p[1])))
		}
		seriesCoq = lib.Some(lib.Pair(lib.Bytes([]byte(base+".remote"+in.AppX)), lib.List(items)))
	}
	if in.Meta != nil && len(in.Upload) > 0 {
		mkJob := func(name string) *upstream.UploadJob {
			return &upstream.UploadJob{Name: name, StartTime: jst, EndTime: jet, SpyName: in.Meta.Spy, SampleRate: in.Meta.Rate,
				Units: in.Meta.Units, AggregationType: in.Meta.Agg, Trie: mkTrie()}
		}
		for _, u := range in.Upload {
			switch u {
			case "remote":
				name := base + ".remote" + tags
				namesSent = append(namesSent, coqRunes(name))
				j := mkJob(name)
				err := e.rem.UploadSync(j)
				status := 200
				if err != nil {
					status = 599
				}
				e.mu.Lock()
				q, ct := e.lastQ, e.lastCT
				remoteRawq = lib.Some(lib.Bytes([]byte(e.lastRaw)))
				e.mu.Unlock()
				// the name differs per upload path; the job record carries the remote one
				jobCoq = lib.Some("{| j_name := " + lib.Bytes([]byte(name)) + "; j_start := " + lib.N(uint64(jst.Unix())) +
					"; j_end := " + lib.N(uint64(jet.Unix())) + "; j_spy := " + lib.Bytes([]byte(in.Meta.Spy)) +
					"; j_rate := " + lib.N(uint64(in.Meta.Rate)) + "; j_units := " + lib.Bytes([]byte(in.Meta.Units)) +
					"; j_aggregation := " + lib.Bytes([]byte(in.Meta.Agg)) + " |}")
				jobNs = lib.Some(lib.Pair(lib.N(uint64(jst.UnixNano())), lib.N(uint64(jet.UnixNano()))))
				remoteSlots = slotDump(name)
				remoteCoq = lib.Some("(" + coqQuery(q) + ", " + lib.Bytes([]byte(ct)) + ", " + e.readBack(name, st, et, status) + ")")
			case "direct":
				name := base + ".direct" + tags
				namesSent = append(namesSent, coqRunes(name))
				e.dir2.Upload(mkJob(name))
				e.waitDirect(strings.TrimSpace(base+".direct"+in.AppX), st, et)
				if jobCoq == none {
					jobCoq = lib.Some("{| j_name := " + lib.Bytes([]byte(name)) + "; j_start := " + lib.N(uint64(jst.Unix())) +
						"; j_end := " + lib.N(uint64(jet.Unix())) + "; j_spy := " + lib.Bytes([]byte(in.Meta.Spy)) +
						"; j_rate := " + lib.N(uint64(in.Meta.Rate)) + "; j_units := " + lib.Bytes([]byte(in.Meta.Units)) +
						"; j_aggregation := " + lib.Bytes([]byte(in.Meta.Agg)) + " |}")
				}
				jobNs = lib.Some(lib.Pair(lib.N(uint64(jst.UnixNano())), lib.N(uint64(jet.UnixNano()))))
				directSlots = slotDump(name)
				directCoq = lib.Some(e.readBack(name, st, et, 200))
			}
		}
	}

	seqCoq := "[]"
	if len(in.Seq) > 0 {
		name := base + ".seq" + tags
		namesSent = append(namesSent, coqRunes(name))
		items := []string{}
		for _, m := range in.Seq {
			q := url.Values{}
			q.Set("name", name)
			q.Set("from", strconv.FormatInt(st.Unix(), 10))
			q.Set("until", strconv.FormatInt(et.Unix(), 10))
			q.Set("spyName", m.Spy)
			q.Set("sampleRate", strconv.FormatUint(uint64(m.Rate), 10))
			q.Set("units", m.Units)
			q.Set("aggregationType", m.Agg)
			req := httptest.NewRequest("POST", "/ingest?"+q.Encode(), bytes.NewReader(bodies["groups"]))
			req.Header.Set("Content-Type", "text/plain")
			rec := httptest.NewRecorder()
			e.handler.ServeHTTP(rec, req)
			items = append(items, lib.Pair("("+lib.Bytes([]byte(m.Spy))+", "+lib.N(uint64(m.Rate))+", "+lib.Bytes([]byte(m.Units))+", "+lib.Bytes([]byte(m.Agg))+")",
				e.readBack(name, st, et, rec.Code)))
		}
		seqCoq = lib.List(items)
	}
	burstCoq, burstGot := "[]", "[]"
	if in.Burst != nil && len(in.Burst.Jobs) > 0 {
		var bn []string
		burstCoq, burstGot, bn = e.runBurst(base, in.Burst)
		namesSent = append(namesSent, bn...)
	}
	metaCoq := none
	if in.Meta != nil {
		metaCoq = lib.Some("(" + lib.Bytes([]byte(in.Meta.Spy)) + ", " + lib.N(uint64(in.Meta.Rate)) + ", " +
			lib.Bytes([]byte(in.Meta.Units)) + ", " + lib.Bytes([]byte(in.Meta.Agg)) + ")")
	}
	goGroups, goLines := none, none
	has := func(f string) bool {
		for _, x := range in.Formats {
			if x == f {
				return true
			}
		}
		return false
	}
	if has("groups") {
		goGroups = lib.Some(parseGroupsGo(bodies["groups"]))
	}
	if has("lines") {
		goLines = lib.Some(parseLinesGo(bodies["lines"]))
	}
	coq := "{| c_ms := " + treeu.CoqStacks(in.MS) + "; c_text_ok := " + lib.Bool(textok) + "; c_meta := " + metaCoq +
		"; c_groups := " + sentCoq["groups"] + "; c_lines := " + sentCoq["lines"] + "; c_trie := " + sentCoq["trie"] +
		"; c_tree := " + sentCoq["tree"] + "; c_job := " + jobCoq + "; c_job_ns := " + jobNs + "; c_remote_slots := " + remoteSlots + "; c_direct_slots := " + directSlots + "; c_series := " + seriesCoq + "; c_remote := " + remoteCoq + "; c_direct := " + directCoq +
		"; c_go_groups := " + goGroups + "; c_go_lines := " + goLines + "; c_raw := None; c_seq := " + seqCoq + "; c_burst := " + burstCoq + "; c_burst_got := " + burstGot + "; c_names := " + lib.List(namesSent) + "; c_stored_keys := " + e.storedKeys(base) + "; c_remote_rawq := " + remoteRawq + "; c_hostile_q := None; c_raw_groups := None; c_raw_lines := None |}"

	// features: prefix structure
	nonBoundary, prefixOf, repeats := false, false, false
	for i, a := range in.MS {
		for j, b := range in.MS {
			if i == j {
				continue
			}
			if bytes.Equal(a.Key, b.Key) {
				repeats = true
				continue
			}
			if bytes.HasPrefix(b.Key, a.Key) {
				prefixOf = true
			}
			// longest common prefix ending inside a frame
			l := 0
			for l < len(a.Key) && l < len(b.Key) && a.Key[l] == b.Key[l] {
				l++
			}
			if l > 0 && l < len(a.Key) && l < len(b.Key) && a.Key[l-1] != ';' && a.Key[l] != ';' && b.Key[l] != ';' {
				nonBoundary = true
			}
		}
	}
	var maxV uint64
	for _, s := range in.MS {
		if s.V > maxV {
			maxV = s.V
		}
	}
	mag := "small"
	if maxV > 1<<32 {
		mag = "2^32.."
	} else if maxV > 64 {
		mag = "65..2^32"
	}
	return lib.Result{
		Coq:        coq,
		NonTrivial: nonBoundary || prefixOf,
		Feat: map[string]interface{}{"class": in.Class, "formats": strings.Join(in.Formats, ","), "upload": strings.Join(in.Upload, ","),
			"non_boundary_prefix": nonBoundary, "prefix_of_another": prefixOf, "repeats": repeats, "count_magnitude": mag,
			"meta_omitted": in.Meta == nil, "stacks": len(in.MS), "by_content_type": in.UseCT, "burst_threads": burstThreads(in.Burst), "content_type": in.CT, "meta_sequence": len(in.Seq), "tags": len(in.TagKV), "tags_duplicate_or_padded": tagsIrregular(in.TagKV), "app_suffix": in.AppX, "job_start_9th_second_ge_500ms": in.JobStart >= 9500000000, "job_end_on_boundary": in.JobEnd == 10000000000 || in.JobEnd == 0},
	}
}

func main() {
	E = setup()
	defer E.close()
	lib.Main(lib.Harness[Input]{Prop: "C06", Quick: 900, Thorough: 9600, Gen: gen, Run: run})
}
