//go:build verif

// c12: symbol dictionary keys stay valid (dict.Put / Get / Bytes / FromBytes). Dump only, no oracle.
package main

import (
	"bytes"
	"fmt"
	"math/rand"
	"os"
	"strings"
	"time"

	"github.com/pyroscope-io/pyroscope/pkg/storage"
	"github.com/pyroscope-io/pyroscope/pkg/storage/dict"
	"verifharness/lib"
	"verifharness/lib/stor"
	"verifharness/lib/treeu"
)

type Op struct {
	K  string   `json:"k"` // "put" | "reload" | "probe" | "puts" | "hold" (Bytes, keep the image) | "loadheld" (FromBytes of image I)
	I  int      `json:"i,omitempty"`
	D  []byte   `json:"d,omitempty"`
	Ns [][]byte `json:"ns,omitempty"` // "puts": a batch of names, observed as one step
}

type Input struct {
	Ops []Op `json:"ops"`
	// Reuse: every Put is issued from ONE caller-owned buffer that is overwritten in place between calls and
	// scribbled over right after Put returns (a scanner / scratch buffer); otherwise from a fresh slice
	Reuse bool `json:"reuse,omitempty"`
	// Stor: storage-level history of ONE application (replaces Ops): uploads into consecutive 10 s slots, write-back
	// ticks of the periodic task (storage.VerifWriteBack), evictions of a cache, then Close + New and a render
	Stor []StorStep `json:"stor,omitempty"`
}

type StorStep struct {
	K      string        `json:"k"` // put | wb | evict | restart (Close + New in the middle)
	Stacks []treeu.Stack `json:"stacks,omitempty"`
	Cache  string        `json:"cache,omitempty"` // evict: dicts | trees
	// put: the only names the dictionary has not seen are strict prefixes of names it has (pure node splits)
	PrefixOnly bool `json:"prefix_only,omitempty"`
}

// the caller's reused buffer (Reuse mode)
var scratch = make([]byte, 1024)

func putName(d *dict.Dict, name []byte, reuse bool) []byte {
	if !reuse || len(name) > len(scratch) {
		return append([]byte{}, d.Put(dict.Value(append([]byte{}, name...)))...)
	}
	buf := scratch[:len(name)]
	copy(buf, name)
	key := append([]byte{}, d.Put(dict.Value(buf))...)
	for i := range scratch { // the caller goes on using its buffer
		scratch[i] = 0xEE
	}
	return key
}

// ---------- dumping ----------

func coqTrie(n *dict.VerifNode) string {
	var sb strings.Builder
	var rec func(n *dict.VerifNode)
	rec = func(n *dict.VerifNode) {
		sb.WriteString("(TrNode ")
		sb.WriteString(lib.Bytes(n.Label))
		sb.WriteString(" [")
		for i, c := range n.Children {
			if i > 0 {
				sb.WriteString("; ")
			}
			rec(c)
		}
		sb.WriteString("])")
	}
	rec(n)
	return sb.String()
}

func safeGet(d *dict.Dict, k []byte) (res string) {
	defer func() {
		if r := recover(); r != nil {
			res = "GPanic"
		}
	}()
	v, ok := d.Get(dict.Key(k))
	if !ok {
		return "GMissing"
	}
	return "(GFound " + lib.Bytes(v) + ")"
}

// a put "split a node" when some node of the old dump has a different label at the same position
func splitHappened(a, b *dict.VerifNode) bool {
	if !bytes.Equal(a.Label, b.Label) {
		return true
	}
	for i := range a.Children {
		if i < len(b.Children) && splitHappened(a.Children[i], b.Children[i]) {
			return true
		}
	}
	return false
}

const storT0 = 1341253200

var storSeq int

func runStor(in Input) (res lib.Result) {
	defer func() {
		if r := recover(); r != nil {
			res = lib.Result{Crash: fmt.Sprintf("storage panicked: %v", r)}
		}
	}()
	storSeq++
	dir := fmt.Sprintf("/tmp/tree-b-c12stor-%d-%d", os.Getpid(), storSeq)
	os.RemoveAll(dir)
	st, err := stor.Open(dir, 0, 2048)
	if err != nil {
		return lib.Result{Crash: "harness: cannot open storage: " + err.Error()}
	}
	defer st.Destroy()
	key, _ := storage.ParseKey("c12.app{}")
	var all []treeu.Stack
	slot, wbs, evicts, putsAfterWB, newNamesAfterWB, restarts, prefixOnly := 0, 0, 0, 0, 0, 0, 0
	seen := map[string]bool{}
	for _, step := range in.Stor {
		switch step.K {
		case "put":
			from := int64(storT0 + 10*slot)
			slot++
			if err := st.S.Put(&storage.PutInput{StartTime: time.Unix(from, 0), EndTime: time.Unix(from+10, 0), Key: key,
				Val: treeu.Build(step.Stacks), SpyName: "spy", SampleRate: 100, Units: "samples", AggregationType: "sum"}); err != nil {
				return lib.Result{Crash: "Put failed: " + err.Error()}
			}
			all = append(all, step.Stacks...)
			if step.PrefixOnly {
				prefixOnly++
			}
			if wbs > 0 {
				putsAfterWB++
			}
			for _, s := range step.Stacks {
				for _, f := range bytes.Split(s.Key, []byte(";")) {
					if !seen[string(f)] {
						seen[string(f)] = true
						if wbs > 0 {
							newNamesAfterWB++
						}
					}
				}
			}
		case "wb":
			st.S.VerifWriteBack()
			wbs++
		case "evict":
			st.S.VerifEvict(step.Cache, 1)
			evicts++
		case "restart":
			if err := st.Reopen(); err != nil {
				return lib.Result{Crash: "Close/New failed: " + err.Error()}
			}
			restarts++
		}
	}
	render := func() string {
		out, err := st.S.Get(&storage.GetInput{StartTime: time.Unix(storT0, 0), EndTime: time.Unix(int64(storT0+10*(slot+1)), 0), Key: key})
		if err != nil || out == nil || out.Tree == nil {
			return "None"
		}
		return lib.Some(treeu.Coq(out.Tree.VerifDump()))
	}
	before := render()
	if err := st.Reopen(); err != nil {
		return lib.Result{Crash: "Close/New failed: " + err.Error()}
	}
	after := render()
	coq := "{| c_ops := []; c_obs := []; c_stor := (Some {| sr_stacks := " + treeu.CoqStacks(all) + "; sr_writeback := " + lib.Bool(wbs > 0) + "; sr_before := " + before +
		"; sr_after := " + after + " |}) |}"
	return lib.Result{
		Coq:        coq,
		NonTrivial: newNamesAfterWB > 0 || prefixOnly > 0,
		Feat: map[string]interface{}{"stream": "storage", "writeback_ticks": wbs, "evictions": evicts, "puts_after_writeback": putsAfterWB, "restarts_in_between": restarts, "prefix_only_uploads": prefixOnly,
			"new_names_after_writeback_class": bigClass(newNamesAfterWB * 100)},
	}
}

func run(in Input) lib.Result {
	if len(in.Stor) > 0 {
		return runStor(in)
	}
	d := dict.New()
	var keys [][]byte
	ops := make([]string, 0, len(in.Ops))
	obs := make([]string, 0, len(in.Ops))
	splits, reloads, probes, puts, maxLen, repeats := 0, 0, 0, 0, 0, 0
	reloadAfterSplit := false
	seen := map[string]bool{}
	crash := ""
	batched, maxSer, holds, loads := 0, 0, 0, 0
	var images [][]byte
	var heldKeys [][][]byte
	for _, op := range in.Ops {
		key := []byte{}
		var batchKeys [][]byte
		ok := true
		probe := "GMissing"
		switch op.K {
		case "put":
			before := d.VerifDump()
			name := append([]byte{}, op.D...)
			func() {
				defer func() {
					if r := recover(); r != nil {
						crash = "Put panicked"
					}
				}()
				key = putName(d, name, in.Reuse)
			}()
			keys = append(keys, key)
			if splitHappened(before, d.VerifDump()) {
				splits++
			}
			puts++
			if len(name) > maxLen {
				maxLen = len(name)
			}
			if seen[string(name)] {
				repeats++
			}
			seen[string(name)] = true
			ops = append(ops, "CPut "+lib.Bytes(name))
		case "puts":
			before := d.VerifDump()
			func() {
				defer func() {
					if r := recover(); r != nil {
						crash = "Put panicked"
					}
				}()
				for _, n := range op.Ns {
					k := putName(d, n, in.Reuse)
					keys = append(keys, k)
					batchKeys = append(batchKeys, k)
					if len(n) > maxLen {
						maxLen = len(n)
					}
					puts++
				}
			}()
			if splitHappened(before, d.VerifDump()) {
				splits++
			}
			batched += len(op.Ns)
			ops = append(ops, "CPuts "+lib.BytesList(op.Ns))
		case "hold":
			func() {
				defer func() {
					if r := recover(); r != nil {
						ok = false
					}
				}()
				b, err := d.Bytes()
				if err != nil {
					ok = false
					return
				}
				images = append(images, b) // the slice Bytes returned, kept as it is
				heldKeys = append(heldKeys, append([][]byte{}, keys...))
			}()
			holds++
			ops = append(ops, "CHold")
		case "loadheld":
			func() {
				defer func() {
					if r := recover(); r != nil {
						ok = false
					}
				}()
				if op.I >= len(images) {
					ok = false
					return
				}
				d2, err := dict.FromBytes(images[op.I])
				if err != nil {
					ok = false
					return
				}
				d = d2
			}()
			if op.I < len(heldKeys) {
				keys = append([][]byte{}, heldKeys[op.I]...)
			}
			loads++
			ops = append(ops, "CLoadHeld "+lib.Nat(op.I))
		case "reload":
			if b, err := d.Bytes(); err == nil && len(b) > maxSer {
				maxSer = len(b)
			}
			func() {
				defer func() {
					if r := recover(); r != nil {
						ok = false
					}
				}()
				b, err := d.Bytes()
				if err != nil {
					ok = false
					return
				}
				d2, err := dict.FromBytes(b)
				if err != nil {
					ok = false
					return
				}
				d = d2
			}()
			reloads++
			if splits > 0 {
				reloadAfterSplit = true
			}
			ops = append(ops, "CReload")
		default:
			probe = safeGet(d, op.D)
			probes++
			ops = append(ops, "CProbe "+lib.Bytes(op.D))
		}
		gets := make([]string, len(keys))
		for i, k := range keys {
			gets[i] = safeGet(d, k)
		}
		obs = append(obs, "{| so_key := "+lib.Bytes(key)+"; so_keys := "+lib.BytesList(batchKeys)+"; so_ok := "+lib.Bool(ok)+
			"; so_dump := "+coqTrie(d.VerifDump())+"; so_gets := "+lib.List(gets)+"; so_probe := "+probe+" |}")
	}
	coq := "{| c_ops := " + lib.List(ops) + "; c_obs := " + lib.List(obs) + "; c_stor := None |}"
	return lib.Result{
		Coq:        coq,
		NonTrivial: splits >= 1 && puts >= 2,
		Feat: map[string]interface{}{"splits": splits, "reloads": reloads, "probes": probes, "puts": puts,
			"max_name_len_class": lenClass(maxLen), "repeated_names": repeats, "reload_after_split": reloadAfterSplit,
			"caller_buffer_reused": in.Reuse, "trie_depth_class": bigDepth(depthOf(d.VerifDump())), "root_children_256": len(d.VerifDump().Children) >= 256, "images_held": holds, "held_images_loaded": loads, "batched_puts_class": bigClass(batched), "max_serialized_4k_pages": maxSer / 4096},
		Crash: crash,
	}
}

func bigDepth(n int) string {
	switch {
	case n < 16:
		return "<16"
	case n < 32:
		return "16-31"
	case n < 64:
		return "32-63"
	default:
		return ">=64"
	}
}

func depthOf(n *dict.VerifNode) int {
	d := 0
	for _, c := range n.Children {
		if x := depthOf(c); x > d {
			d = x
		}
	}
	return d + 1
}

func bigClass(n int) string {
	switch {
	case n == 0:
		return "0"
	case n < 300:
		return "<300"
	case n < 600:
		return "300-599"
	default:
		return ">=600"
	}
}

// big dictionary: 300-900 names of 5-40 bytes; a save/reload right after the serialized size crosses each multiple
// of 4096 bytes (the size of bufio's buffer), one more a few names later, and one at the end
func genBig(r *rand.Rand) Input {
	in := Input{Reuse: r.Intn(2) == 0}
	shadow := dict.New()
	n := lib.Range(r, 300, 900)
	prefixes := [][]byte{[]byte("github.com/pyroscope-io/"), []byte("runtime."), []byte("net/http.(*"), []byte("main."), {}}
	var batch [][]byte
	lastPage := 0
	extra := -1
	flush := func(reload bool) {
		if len(batch) > 0 {
			in.Ops = append(in.Ops, Op{K: "puts", Ns: batch})
			batch = nil
		}
		if reload {
			in.Ops = append(in.Ops, Op{K: "reload"})
		}
	}
	for i := 0; i < n; i++ {
		l := lib.Range(r, 5, 40)
		nm := append([]byte{}, lib.Pick(r, prefixes)...)
		for len(nm) < l {
			nm = append(nm, "abcdefghijklmnopqrstuvwxyz_0123456789"[r.Intn(37)])
		}
		nm = nm[:l]
		batch = append(batch, nm)
		shadow.Put(dict.Value(append([]byte{}, nm...)))
		b, _ := shadow.Bytes()
		if page := len(b) / 4096; page > lastPage {
			lastPage = page
			flush(true)
			extra = lib.Range(r, 1, 4)
		} else if extra == 0 {
			flush(true)
			extra = -1
		} else if extra > 0 {
			extra--
		}
	}
	flush(true)
	return in
}

// deep chain: names that are successive one- or two-byte extensions of each other (40-150 levels), inserted
// longest-first or shortest-first (or shuffled), plus branches off the chain, with save/reload in between
func genDeep(r *rand.Rand) Input {
	in := Input{Reuse: r.Intn(2) == 0}
	levels := lib.Range(r, 40, 150)
	var chain [][]byte
	cur := []byte{}
	for i := 0; i < levels; i++ {
		for j := lib.Range(r, 1, 2); j > 0; j-- {
			cur = append(cur, "abc"[r.Intn(3)])
		}
		chain = append(chain, append([]byte{}, cur...))
	}
	switch r.Intn(3) {
	case 0: // longest first: every later name splits a node
		for i, j := 0, len(chain)-1; i < j; i, j = i+1, j-1 {
			chain[i], chain[j] = chain[j], chain[i]
		}
	case 1: // shortest first: every name appends a child one level deeper
	default:
		r.Shuffle(len(chain), func(i, j int) { chain[i], chain[j] = chain[j], chain[i] })
	}
	half := len(chain) / 2
	in.Ops = append(in.Ops, Op{K: "puts", Ns: chain[:half]}, Op{K: "reload"}, Op{K: "puts", Ns: chain[half:]}, Op{K: "reload"})
	var branches [][]byte
	for i := lib.Range(r, 3, 12); i > 0; i-- {
		p := chain[r.Intn(len(chain))]
		b := append(append([]byte{}, p[:r.Intn(len(p)+1)]...), 'x', byte('0'+r.Intn(10)))
		branches = append(branches, b)
	}
	in.Ops = append(in.Ops, Op{K: "puts", Ns: branches}, Op{K: "reload"}, Op{K: "put", D: append(append([]byte{}, cur...), 'z')})
	return in
}

// storage-level stream: ingest, write-back ticks, ingest of NEW names for the same application, Close, New, render
func genStor(r *rand.Rand) Input {
	var in Input
	nameSeq := 0
	frames := []string{"main", "handleRequest", "parseBody", "readAll", "net/http.(*conn).serve", "runtime.mallocgc", "a", "ab"}
	stacks := func(fresh bool) []treeu.Stack {
		var ss []treeu.Stack
		for i := lib.Range(r, 1, 3); i > 0; i-- {
			var parts []string
			for j := lib.Range(r, 1, 4); j > 0; j-- {
				if fresh && r.Intn(2) == 0 {
					nameSeq++
					parts = append(parts, fmt.Sprintf("%s%d", lib.Pick(r, frames), nameSeq))
				} else {
					parts = append(parts, lib.Pick(r, frames))
				}
			}
			ss = append(ss, treeu.Stack{Key: []byte(strings.Join(parts, ";")), V: uint64(lib.Range(r, 1, 9))})
		}
		return ss
	}
	put := func(fresh bool) { in.Stor = append(in.Stor, StorStep{K: "put", Stacks: stacks(fresh)}) }
	wb := func(n int) {
		for ; n > 0; n-- {
			in.Stor = append(in.Stor, StorStep{K: "wb"})
		}
	}
	put(true)
	if r.Intn(2) == 0 {
		// the dictionary is clean (saved by the second write-back tick, or just reloaded), then ONE upload arrives whose
		// only unseen names are strict prefixes of names already there (longer name first: pure node splits), then
		// Close + New and a read of everything, the old trees included
		var known []string
		for _, st := range in.Stor[0].Stacks {
			known = append(known, strings.Split(string(st.Key), ";")...)
		}
		switch r.Intn(3) {
		case 0:
			wb(2)
		case 1:
			in.Stor = append(in.Stor, StorStep{K: "restart"})
		default:
			wb(lib.Range(r, 2, 3))
			in.Stor = append(in.Stor, StorStep{K: "evict", Cache: "dicts"})
		}
		var ss []treeu.Stack
		for i := lib.Range(r, 1, 2); i > 0; i-- {
			var parts []string
			for j := lib.Range(r, 1, 3); j > 0; j-- {
				k := lib.Pick(r, known)
				if len(k) > 1 && (j == 1 || r.Intn(2) == 0) {
					k = k[:lib.Range(r, 1, len(k)-1)] // strict, non-empty prefix
				}
				parts = append(parts, k)
			}
			ss = append(ss, treeu.Stack{Key: []byte(strings.Join(parts, ";")), V: uint64(lib.Range(r, 1, 9))})
		}
		in.Stor = append(in.Stor, StorStep{K: "put", Stacks: ss, PrefixOnly: true})
		return in
	}
	for i := lib.Range(r, 1, 3); i > 0; i-- {
		switch r.Intn(4) {
		case 0:
			in.Stor = append(in.Stor, StorStep{K: "evict", Cache: lib.Pick(r, []string{"dicts", "trees"})})
		default:
			wb(lib.Range(r, 1, 3))
		}
		put(true)
		if r.Intn(3) == 0 {
			put(false)
		}
	}
	return in
}

// names starting with EVERY byte value: the root ends up with 256 children; save/reload at 255 and at 256
func genAllBytes(r *rand.Rand) Input {
	in := Input{Reuse: r.Intn(2) == 0}
	perm := r.Perm(256)
	mk := func(b int) []byte {
		switch r.Intn(3) {
		case 0:
			return []byte{byte(b)}
		case 1:
			return []byte{byte(b), byte(r.Intn(256))}
		default:
			return []byte{byte(b), 'x', byte(r.Intn(3))}
		}
	}
	var first [][]byte
	for _, b := range perm[:255] {
		first = append(first, mk(b))
	}
	in.Ops = append(in.Ops, Op{K: "puts", Ns: first}, Op{K: "reload"}, Op{K: "put", D: mk(perm[255])}, Op{K: "reload"})
	var more [][]byte
	for i := lib.Range(r, 3, 10); i > 0; i-- {
		more = append(more, []byte{byte(r.Intn(256)), byte(r.Intn(256)), byte(r.Intn(4))})
	}
	in.Ops = append(in.Ops, Op{K: "puts", Ns: more}, Op{K: "reload"})
	return in
}

// one long name stored as ONE node, then its prefixes of every length in random order: every one of them splits
// the chain at another position, and the key issued first has to be followed through all the splits
func genSplitChain(r *rand.Rand) Input {
	in := Input{Reuse: r.Intn(2) == 0}
	l := lib.Range(r, 60, 120)
	long := make([]byte, l)
	for i := range long {
		long[i] = "abcdefgh"[r.Intn(8)]
	}
	in.Ops = append(in.Ops, Op{K: "put", D: long})
	lens := r.Perm(l - 1)
	var pre [][]byte
	for _, x := range lens {
		pre = append(pre, append([]byte{}, long[:x+1]...))
	}
	half := len(pre) / 2
	in.Ops = append(in.Ops, Op{K: "puts", Ns: pre[:half]}, Op{K: "reload"}, Op{K: "puts", Ns: pre[half:]}, Op{K: "reload"},
		Op{K: "put", D: append(append([]byte{}, long...), 'z')})
	return in
}

// images of earlier saves are kept while the dictionary changes and is saved again, and reloaded LATER
func genHeld(r *rand.Rand) Input {
	in := Input{Reuse: r.Intn(2) == 0}
	var names [][]byte
	put := func() {
		n := randName(r, names)
		names = append(names, n)
		in.Ops = append(in.Ops, Op{K: "put", D: n})
	}
	for i := lib.Range(r, 1, 4); i > 0; i-- {
		put()
	}
	in.Ops = append(in.Ops, Op{K: "hold"})
	nh := 1
	for round := lib.Range(r, 1, 3); round > 0; round-- {
		for i := lib.Range(r, 1, 4); i > 0; i-- {
			put()
		}
		if r.Intn(2) == 0 {
			in.Ops = append(in.Ops, Op{K: "hold"})
			nh++
		} else {
			in.Ops = append(in.Ops, Op{K: "reload"})
		}
		if r.Intn(2) == 0 {
			in.Ops = append(in.Ops, Op{K: "loadheld", I: r.Intn(nh)})
			put()
		}
	}
	in.Ops = append(in.Ops, Op{K: "loadheld", I: r.Intn(nh)})
	put()
	return in
}

func lenClass(n int) string {
	switch {
	case n == 0:
		return "0"
	case n <= 3:
		return "1-3"
	case n < 128:
		return "4-127"
	default:
		return ">=128"
	}
}

// ---------- generation ----------

func randName(r *rand.Rand, prev [][]byte) []byte {
	switch r.Intn(12) {
	case 0:
		return []byte{}
	case 1, 2, 3, 4: // short over {a,b,c}
		n := lib.Range(r, 1, 4)
		b := make([]byte, n)
		for i := range b {
			b[i] = "abc"[r.Intn(3)]
		}
		return b
	case 5, 6: // a prefix or an extension of an earlier name
		if len(prev) > 0 {
			p := prev[r.Intn(len(prev))]
			if len(p) > 0 && r.Intn(2) == 0 {
				return append([]byte{}, p[:r.Intn(len(p)+1)]...)
			}
			ext := append([]byte{}, p...)
			for i := lib.Range(r, 1, 3); i > 0; i-- {
				ext = append(ext, "abc"[r.Intn(3)])
			}
			return ext
		}
		return []byte("ab")
	case 7: // repeat
		if len(prev) > 0 {
			return append([]byte{}, prev[r.Intn(len(prev))]...)
		}
		return []byte("a")
	case 8, 9: // arbitrary bytes incl. 0x00, 0x80, 0xff
		n := lib.Range(r, 1, 5)
		b := make([]byte, n)
		for i := range b {
			b[i] = lib.Pick(r, []byte{0, 1, 0x7f, 0x80, 0xff, 'a', ';'})
		}
		return b
	case 10: // long name (multi-byte varint lengths) sharing a long prefix with other long names
		n := lib.Pick(r, []int{126, 127, 128, 129, 130, 200, 300})
		b := bytes.Repeat([]byte{'x'}, n)
		if r.Intn(2) == 0 {
			b[lib.Pick(r, []int{0, 1, 63, 125, 126, 127, n - 1})%n] = 'y'
		}
		return b
	default:
		n := lib.Range(r, 1, 8)
		b := make([]byte, n)
		for i := range b {
			b[i] = byte(r.Intn(256))
		}
		return b
	}
}

func varintBytes(v uint64) []byte {
	var out []byte
	for v >= 0x80 {
		out = append(out, byte(v)|0x80)
		v >>= 7
	}
	return append(out, byte(v))
}

// a probe key: mutation of an issued key, or hand-made malformed pairs
func randProbe(r *rand.Rand, issued [][]byte) []byte {
	base := []byte{}
	if len(issued) > 0 {
		base = append([]byte{}, issued[r.Intn(len(issued))]...)
	}
	switch r.Intn(9) {
	case 0: // truncate (may cut inside or right before the second varint)
		if len(base) > 0 {
			return base[:r.Intn(len(base))]
		}
		return base
	case 1: // dangling continuation byte as second varint
		return append(base, byte(r.Intn(3)), byte(0x80|r.Intn(128)))
	case 2: // index out of range
		return append(append(base, varintBytes(uint64(lib.Pick(r, []int{1, 2, 5, 127, 128, 300})))...), 1)
	case 3: // index >= 2^63 (signed comparison passes, index expression panics)
		return append(append(base, varintBytes(lib.Pick(r, []uint64{1 << 63, 1<<64 - 1, 1<<63 + 5}))...), 1)
	case 4: // length not on a node boundary / far too large / wrapping
		v := lib.Pick(r, []uint64{0, 1, 2, 3, 7, 1 << 62, 1<<63 - 1, 1 << 63, 1<<64 - 1})
		return append(append(base, byte(r.Intn(2))), varintBytes(v)...)
	case 5: // overlong varint (10 continuation bytes / 10th byte > 1) as second value, then more pairs
		over := bytes.Repeat([]byte{0xff}, 9)
		over = append(over, lib.Pick(r, []byte{0x02, 0x7f, 0x81, 0xff}))
		return append(append(append(base, 0), over...), 0, 1)
	case 6: // flip one byte
		if len(base) > 0 {
			base[r.Intn(len(base))] ^= byte(1 << uint(r.Intn(8)))
		}
		return base
	case 7: // first varint overlong
		return append(base, bytes.Repeat([]byte{0x80}, lib.Range(r, 1, 11))...)
	default:
		n := lib.Range(r, 0, 6)
		b := make([]byte, n)
		for i := range b {
			b[i] = lib.Pick(r, []byte{0, 1, 2, 3, 0x80, 0xff})
		}
		return append(base, b...)
	}
}

func gen(r *rand.Rand, idx int, tier string) Input {
	if idx%300 == 150 {
		return genBig(r)
	}
	if idx%150 == 75 {
		return genDeep(r)
	}
	if idx%30 == 15 {
		return genStor(r)
	}
	if idx%150 == 25 {
		return genAllBytes(r)
	}
	if idx%150 == 125 {
		return genSplitChain(r)
	}
	if idx%10 == 7 {
		return genHeld(r)
	}
	var in Input
	in.Reuse = r.Intn(2) == 0
	// probe keys need the keys the implementation issued: run a shadow dictionary while generating
	shadow := dict.New()
	var issued, names [][]byte
	put := func(n []byte) {
		in.Ops = append(in.Ops, Op{K: "put", D: n})
		names = append(names, n)
		func() {
			defer func() { recover() }()
			issued = append(issued, append([]byte{}, shadow.Put(dict.Value(n))...))
		}()
	}
	if idx%180 == 179 {
		// many children under the root (child indexes >= 128 need two varint bytes), then names below them
		n := lib.Range(r, 129, 132)
		for i := 0; i < n; i++ {
			put([]byte{byte(255 - i)})
			if i == 64 && r.Intn(2) == 0 {
				in.Ops = append(in.Ops, Op{K: "reload"})
			}
		}
		put([]byte{byte(255 - n + 1), 'a'})
		in.Ops = append(in.Ops, Op{K: "reload"})
		put([]byte{byte(255 - n + 2), 'b', 'c'})
		put([]byte{byte(255 - n + 2), 'b'})
		return in
	}
	nops := lib.Range(r, 1, 10)
	if lib.Chance(r, 0.15) {
		nops = lib.Range(r, 11, 24)
	}
	for i := 0; i < nops; i++ {
		x := r.Intn(10)
		switch {
		case x < 6:
			put(randName(r, names))
		case x < 8:
			in.Ops = append(in.Ops, Op{K: "reload"})
		default:
			in.Ops = append(in.Ops, Op{K: "probe", D: randProbe(r, issued)})
		}
	}
	return in
}

// exhaustive: every sequence of exactly 4 names (prefix sequences are checked on the way, since every
// key is re-checked after every step) of length <= 3 over {a,b} and of length <= 2 over {a,b,c}, with one
// save/reload whose position cycles with the enumeration index.
func namesUpTo(alpha string, maxLen int) [][]byte {
	res := [][]byte{{}}
	level := [][]byte{{}}
	for l := 1; l <= maxLen; l++ {
		var next [][]byte
		for _, p := range level {
			for i := 0; i < len(alpha); i++ {
				next = append(next, append(append([]byte{}, p...), alpha[i]))
			}
		}
		res = append(res, next...)
		level = next
	}
	return res
}

func enum(tier string) []Input {
	var res []Input
	k := 0
	for _, ns := range [][][]byte{namesUpTo("ab", 3), namesUpTo("abc", 2)} {
		n := len(ns)
		for i := 0; i < n*n*n*n; i++ {
			k++
			if tier != "thorough" && k%197 != 0 {
				continue
			}
			seq := []int{i % n, (i / n) % n, (i / n / n) % n, i / n / n / n}
			pos := k % 5
			var in Input
			in.Reuse = k%2 == 0
			for j, x := range seq {
				if j == pos {
					in.Ops = append(in.Ops, Op{K: "reload"})
				}
				in.Ops = append(in.Ops, Op{K: "put", D: ns[x]})
			}
			if pos == 4 {
				in.Ops = append(in.Ops, Op{K: "reload"})
			}
			res = append(res, in)
		}
	}
	return res
}

func main() {
	lib.Main(lib.Harness[Input]{Prop: "C12", Quick: 900, Thorough: 8000, Gen: gen, Enum: enum, Run: run})
}
