//go:build verif

// c15: series names and storage keys (storage.ParseKey, Key.Normalized/TreeKey/..., FromTreeTo*).
// Dump only: the oracle is Corr/CorrC15.v.
package main

import (
	"encoding/json"
	"fmt"
	"math/rand"
	"net/http"
	"net/http/httptest"
	"net/url"
	"os"
	"reflect"
	"sort"
	"strings"
	"time"
	"unicode/utf8"

	"github.com/pyroscope-io/pyroscope/pkg/config"
	"github.com/pyroscope-io/pyroscope/pkg/server"
	"github.com/pyroscope-io/pyroscope/pkg/storage"
	"github.com/pyroscope-io/pyroscope/pkg/storage/tree"
	"github.com/sirupsen/logrus"
	"verifharness/lib"
)

// Struct is a name written as parts: the text is Name{K1=V1,...,Kn=Vn}. Parts are code point lists.
type Struct struct {
	Name []int    `json:"name"`
	Tags [][2][]int `json:"tags"`
}

type Input struct {
	// the raw name: Text if Bytes is nil (corpus convenience), else Bytes (arbitrary bytes, may be invalid UTF-8)
	Text   string   `json:"text,omitempty"`
	Bytes  []int    `json:"bytes,omitempty"`
	Struct *Struct  `json:"struct,omitempty"` // if set, the raw name is its rendering
	Vars   []Struct `json:"vars,omitempty"`
	Levels []int    `json:"levels,omitempty"`
	Times  []int64  `json:"times,omitempty"`
	// also use the name through the real storage: Put, read the label index back, Get, retention pass
	Store bool `json:"store,omitempty"`
}

func renderStruct(s Struct) string {
	var sb strings.Builder
	wr := func(cs []int) {
		for _, c := range cs {
			sb.WriteRune(rune(c))
		}
	}
	wr(s.Name)
	sb.WriteString("{")
	for i, t := range s.Tags {
		if i > 0 {
			sb.WriteString(",")
		}
		wr(t[0])
		sb.WriteString("=")
		wr(t[1])
	}
	sb.WriteString("}")
	return sb.String()
}

func (in Input) raw() string {
	if in.Struct != nil {
		return renderStruct(*in.Struct)
	}
	if in.Bytes != nil {
		b := make([]byte, len(in.Bytes))
		for i, c := range in.Bytes {
			b[i] = byte(c)
		}
		return string(b)
	}
	return in.Text
}

// ---------- Coq printers ----------

func runes(s string) string {
	rs := []rune(s) // invalid bytes become U+FFFD: the decoding the model starts from (trusted)
	items := make([]string, len(rs))
	for i, r := range rs {
		items[i] = fmt.Sprintf("%d", r)
	}
	return lib.List(items)
}

func cps(cs []int) string {
	items := make([]string, len(cs))
	for i, c := range cs {
		items[i] = fmt.Sprintf("%d", c)
	}
	return lib.List(items)
}

func bstr(s string) string { return lib.Bytes([]byte(s)) }

func labelsOf(k *storage.Key) [][2]string {
	v := reflect.ValueOf(k).Elem().FieldByName("labels")
	var out [][2]string
	it := v.MapRange()
	for it.Next() {
		out = append(out, [2]string{it.Key().String(), it.Value().String()})
	}
	sort.Slice(out, func(i, j int) bool { return out[i][0] < out[j][0] })
	return out
}

func coqLabels(l [][2]string) string {
	items := make([]string, len(l))
	for i, kv := range l {
		items[i] = lib.Pair(bstr(kv[0]), bstr(kv[1]))
	}
	return lib.List(items)
}

func coqStruct(s Struct) (string, string) {
	items := make([]string, len(s.Tags))
	for i, t := range s.Tags {
		items[i] = lib.Pair(cps(t[0]), cps(t[1]))
	}
	return cps(s.Name), lib.List(items)
}

func guard(f func() string) (res *string) {
	defer func() {
		if r := recover(); r != nil {
			res = nil
		}
	}()
	s := f()
	return &s
}

func optBytes(p *string) string {
	if p == nil {
		return "None"
	}
	return lib.Some(bstr(*p))
}

const storeBase = 1600000000
const storeCount = 3

func samples(s *storage.Storage, k *storage.Key) (uint64, error) {
	out, err := s.Get(&storage.GetInput{StartTime: time.Unix(storeBase, 0), EndTime: time.Unix(storeBase+10000000, 0), Key: k})
	if err != nil {
		return 0, err
	}
	if out == nil || out.Tree == nil {
		return 0, nil
	}
	return out.Tree.Samples(), nil
}

// storeObs writes one upload under the name and reads everything back. Returns the Coq term or a crash text.
func storeObs(name string) (coq string, crash string) {
	dir, err := os.MkdirTemp("/tmp", "keys-harness-")
	if err != nil {
		return "", "mkdtemp: " + err.Error()
	}
	defer os.RemoveAll(dir)
	storage.VerifDisablePeriodicTasks()
	storage.OutOfSpaceThreshold = 0
	cfg := &config.Server{StoragePath: dir, APIBindAddr: ":4040", CacheEvictThreshold: 0.02, CacheEvictVolume: 0.10,
		MaxNodesSerialization: 2048, MaxNodesRender: 2048}
	s, err := storage.New(cfg)
	if err != nil {
		return "", "storage.New: " + err.Error()
	}
	defer s.Close()
	defer func() {
		if r := recover(); r != nil {
			coq, crash = "", fmt.Sprintf("storage panicked: %v", r)
		}
	}()
	k, _ := storage.ParseKey(name)
	t := tree.New()
	t.Insert([]byte("s"), storeCount)
	if err := s.Put(&storage.PutInput{StartTime: time.Unix(storeBase+20, 0), EndTime: time.Unix(storeBase+30, 0), Key: k, Val: t,
		SpyName: "verif", SampleRate: 100}); err != nil {
		return "", "Put: " + err.Error()
	}
	var keys []string
	s.GetKeys(func(k string) bool { keys = append(keys, k); return true })
	want := append([]string{}, keys...)
	want = append(want, "__name__")
	for _, kv := range labelsOf(k) {
		want = append(want, kv[0])
	}
	ctrl, err := server.New(cfg, s)
	if err != nil {
		return "", "server.New: " + err.Error()
	}
	mux := ctrl.VerifMux()
	seen := map[string]bool{}
	var vals, hvals []string
	strs := func(ss []string) string {
		items := make([]string, len(ss))
		for i, x := range ss {
			items[i] = bstr(x)
		}
		return lib.List(items)
	}
	for _, key := range want {
		if seen[key] {
			continue
		}
		seen[key] = true
		var vs []string
		s.GetValues(key, func(v string) bool { vs = append(vs, v); return true })
		vals = append(vals, lib.Pair(bstr(key), strs(vs)))
		rec := httptest.NewRecorder()
		mux.ServeHTTP(rec, httptest.NewRequest(http.MethodGet, "/label-values?label="+url.QueryEscape(key), nil))
		var hv []string
		if rec.Code != 200 || json.Unmarshal(rec.Body.Bytes(), &hv) != nil {
			return "", fmt.Sprintf("GET /label-values?label=%q: status %d", key, rec.Code)
		}
		hvals = append(hvals, lib.Pair(bstr(key), strs(hv)))
	}
	got, err := samples(s, k)
	if err != nil {
		return "", "Get: " + err.Error()
	}
	k2, _ := storage.ParseKey(k.Normalized())
	regot, err := samples(s, k2)
	if err != nil {
		return "", "Get (canonical): " + err.Error()
	}
	if err := s.DeleteDataBefore(time.Unix(storeBase+1000000, 0)); err != nil {
		return "", "DeleteDataBefore: " + err.Error()
	}
	left, err := samples(s, k)
	if err != nil {
		return "", "Get after retention: " + err.Error()
	}
	return fmt.Sprintf("{| so_count := %d; so_keys := %s; so_vals := %s; so_hvals := %s; so_get := %d; so_reget := %d; so_left := %d |}",
		storeCount, strs(keys), lib.List(vals), lib.List(hvals), got, regot, left), ""
}

func run(in Input) lib.Result {
	name := in.raw()
	k, err := storage.ParseKey(name)
	if err != nil || k == nil {
		return lib.Result{Crash: fmt.Sprintf("ParseKey(%q) failed: %v", name, err)}
	}
	norm := k.Normalized()
	k2, _ := storage.ParseKey(norm)
	lbl := labelsOf(k)

	levels, times := in.Levels, in.Times
	if len(levels) == 0 {
		levels = []int{0}
	}
	if len(times) == 0 {
		times = []int64{0}
	}
	var tks []string
	for _, d := range levels {
		for _, t := range times {
			tk := k.TreeKey(d, time.Unix(t, 0))
			mk := guard(func() string { return storage.FromTreeToMainKey(tk) })
			dk := guard(func() string { return storage.FromTreeToDictKey(tk) })
			tks = append(tks, fmt.Sprintf("{| tk_depth := %s; tk_unix := %s; tk_key := %s; tk_main := %s; tk_dict := %s |}",
				lib.Nat(d), lib.Z(t), bstr(tk), optBytes(mk), optBytes(dk)))
		}
	}
	st := "None"
	if in.Struct != nil {
		n, l := coqStruct(*in.Struct)
		st = lib.Some(lib.Pair(n, l))
	}
	var vars []string
	for _, v := range in.Vars {
		txt := renderStruct(v)
		kv, _ := storage.ParseKey(txt)
		n, l := coqStruct(v)
		vars = append(vars, fmt.Sprintf("{| v_name := %s; v_tags := %s; v_str := %s; v_norm := %s |}", n, l, runes(txt), bstr(kv.Normalized())))
	}
	storeC := "None"
	if in.Store {
		so, crash := storeObs(name)
		if crash != "" {
			return lib.Result{Crash: crash}
		}
		storeC = lib.Some(so)
	}
	coq := "{| c_in := " + runes(name) +
		"; c_labels := " + coqLabels(lbl) +
		"; c_norm := " + bstr(norm) +
		"; c_seg := " + bstr(k.SegmentKey()) +
		"; c_dictkey := " + bstr(k.DictKey()) +
		"; c_app := " + bstr(k.AppName()) +
		"; c_relabels := " + coqLabels(labelsOf(k2)) +
		"; c_renorm := " + bstr(k2.Normalized()) +
		"; c_reapp := " + bstr(k2.AppName()) +
		"; c_tks := " + lib.List(tks) +
		"; c_struct := " + st +
		"; c_vars := " + lib.List(vars) +
		"; c_store := " + storeC + " |}"

	// features (evidence only)
	ws := false
	for _, r := range name {
		if r == ' ' || r == '\t' || r == 0xa0 || r == 0x85 || r == 0x2003 || r == 0x3000 || r == '\n' {
			ws = true
		}
	}
	emptyVal := false
	for _, kv := range lbl {
		if kv[0] != "__name__" && kv[1] == "" {
			emptyVal = true
		}
	}
	reserved := strings.Contains(name, "__name__")
	ntags := len(lbl) - 1
	eqs := strings.Count(name, "=")
	class := "plain"
	switch {
	case !utf8.ValidString(name):
		class = "invalid-utf8"
	case reserved:
		class = "reserved-tag"
	case ws:
		class = "whitespace"
	case ntags >= 1:
		class = "tags"
	}
	return lib.Result{
		Coq:        coq,
		NonTrivial: ntags >= 2 || ws || reserved || eqs > ntags,
		Feat: map[string]interface{}{"len": len([]rune(name)), "tags": ntags, "class": class,
			"variants": len(in.Vars), "brace_in_name": strings.Contains(k.AppName(), "{"), "structured": in.Struct != nil,
			"through_storage": in.Store, "empty_app_name": k.AppName() == "", "empty_tag_value": emptyVal},
		Obs: map[string]interface{}{"name": fmt.Sprintf("%q", name), "normalized": fmt.Sprintf("%q", norm), "app": fmt.Sprintf("%q", k.AppName())},
	}
}

// ---------- generators ----------

// the small alphabet of DESIGN.md: { } = , : space tab a b _ \xff and the reserved tag as one symbol
var small = [][]int{{'{'}, {'}'}, {'='}, {','}, {':'}, {' '}, {'\t'}, {'a'}, {'b'}, {'_'}, {0xff},
	{'_', '_', 'n', 'a', 'm', 'e', '_', '_'}}

func enumOver(alpha [][]int, n int, emit func([]int)) {
	idx := make([]int, n)
	for {
		var s []int
		for _, i := range idx {
			s = append(s, alpha[i]...)
		}
		emit(s)
		j := n - 1
		for j >= 0 {
			idx[j]++
			if idx[j] < len(alpha) {
				break
			}
			idx[j] = 0
			j--
		}
		if j < 0 {
			return
		}
	}
}

var someTimes = []int64{0, -1, 1, 10, -62135596800, 1617235200, -9999999999, 1 << 40, 253402300799}

func enum(tier string) []Input {
	var out []Input
	n := 0
	add := func(stride int) func([]int) {
		return func(s []int) {
			n++
			if stride > 1 && n%stride != 0 {
				return
			}
			b := append([]int{}, s...)
			if b == nil {
				b = []int{}
			}
			out = append(out, Input{Bytes: b, Levels: []int{n % 13}, Times: []int64{someTimes[n%len(someTimes)]}})
		}
	}
	out = append(out, Input{Bytes: []int{}, Levels: []int{0, 10}, Times: []int64{0, -1}})
	if tier == "thorough" {
		// exhaustive: length <= 4 over all 12 symbols, 5 over 8, 6 over 6, 7 and 8 over 5 symbols (7, 8 strided);
		// one case costs ~20 ms of coqc (parsing the dump), which bounds the scope at ~150k strings
		for l := 1; l <= 4; l++ {
			enumOver(small, l, add(1))
		}
		// { } = , space a _ __name__
		a8 := [][]int{small[0], small[1], small[2], small[3], small[5], small[7], small[9], small[11]}
		enumOver(a8, 5, add(1))
		a6 := [][]int{small[0], small[1], small[2], small[3], small[7], small[11]}
		enumOver(a6, 6, add(1))
		a5 := [][]int{small[0], small[1], small[2], small[3], small[7]}
		enumOver(a5, 7, add(3))
		enumOver(a5, 8, add(17))
	} else {
		for l := 1; l <= 3; l++ {
			enumOver(small, l, add(1))
		}
		enumOver(small, 4, add(61))
		enumOver(small, 5, add(509))
		a7 := [][]int{small[0], small[1], small[2], small[3], small[5], small[7], small[11]}
		enumOver(a7, 6, add(401))
	}
	return out
}

var spaces = []int{' ', '\t', '\n', '\v', '\f', '\r', 0x85, 0xa0, 0x1680, 0x2000, 0x2003, 0x200a, 0x2028, 0x2029, 0x202f, 0x205f, 0x3000}
var letters = []int{'a', 'b', 'c', '_', 'z', 'A', '0', '.', '/', '-', 0xe9, 0x7ff, 0x800, 0xfffd, 0xffff, 0x10000, 0x10ffff, 0x200b /* zero width space: not White_Space */, 0x180e}
var punct = []int{'{', '}', '=', ',', ':'}

func word(r *rand.Rand, lo, hi int, extra []int, forbid string) []int {
	n := lib.Range(r, lo, hi)
	w := []int{}
	for i := 0; i < n; i++ {
		var c int
		switch {
		case lib.Chance(r, 0.7):
			c = lib.Pick(r, letters[:6])
		case lib.Chance(r, 0.4):
			c = lib.Pick(r, letters)
		case lib.Chance(r, 0.5) && len(extra) > 0:
			c = lib.Pick(r, extra)
		default:
			c = lib.Pick(r, spaces) // inner white space stays
		}
		if c < 128 && strings.ContainsRune(forbid, rune(c)) {
			c = 'x'
		}
		w = append(w, c)
	}
	return w
}

func pad(r *rand.Rand, w []int, p float64) []int {
	out := []int{}
	for lib.Chance(r, p) {
		out = append(out, lib.Pick(r, spaces))
	}
	out = append(out, w...)
	for lib.Chance(r, p) {
		out = append(out, lib.Pick(r, spaces))
	}
	return out
}

var reservedKey = []int{'_', '_', 'n', 'a', 'm', 'e', '_', '_'}

func genStruct(r *rand.Rand) Struct {
	var s Struct
	// name: anything but '{'
	s.Name = word(r, 0, 6, []int{'}', '=', ',', ':'}, "{")
	nt := lib.Pick(r, []int{0, 1, 2, 2, 3, 3, 4, 5})
	for i := 0; i < nt; i++ {
		var k []int
		switch {
		case lib.Chance(r, 0.12):
			k = append([]int{}, reservedKey...)
		case lib.Chance(r, 0.1) && i > 0: // duplicate key (outside the theorem's hypotheses)
			k = append([]int{}, s.Tags[r.Intn(i)][0]...)
		default:
			k = word(r, 0, 3, []int{'{', ',', ':'}, "=}")
		}
		v := word(r, 0, 4, []int{'{', '=', ':'}, ",}")
		if lib.Chance(r, 0.08) {
			v = append(v, '{') // D15 shape when the key is the reserved one
			v = append(v, 'y')
		}
		s.Tags = append(s.Tags, [2][]int{k, v})
	}
	if s.Tags == nil {
		s.Tags = [][2][]int{}
	}
	return s
}

func variantOf(r *rand.Rand, s Struct) Struct {
	v := Struct{Name: pad(r, s.Name, 0.4), Tags: make([][2][]int, len(s.Tags))}
	perm := r.Perm(len(s.Tags))
	for i, j := range perm {
		v.Tags[i] = [2][]int{pad(r, s.Tags[j][0], 0.35), pad(r, s.Tags[j][1], 0.35)}
	}
	if lib.Chance(r, 0.05) && len(v.Tags) > 0 { // not a variant: changes a value
		v.Tags[0][1] = append(append([]int{}, v.Tags[0][1]...), 'q')
	}
	return v
}

func randLevelsTimes(r *rand.Rand) ([]int, []int64) {
	lv := []int{r.Intn(9), lib.Pick(r, []int{0, 8, 9, 10, 11, 12, 99})}
	ts := []int64{lib.Pick(r, someTimes), r.Int63n(1<<34) - (1 << 33), -r.Int63n(1 << 36)}
	return lv, ts
}

// names with empty parts, used through the real storage
var emptyish = []string{"", " ", "\t ", "{host=a}", " {host=a}", "{}", " { } ", "x{__name__=}", "x{__name__= }", "app{x=}", "app{x= ,y=}",
	"app{=}", "app{=v}", "{=}", "{a=,b=}", "app{x=,x=1}", "app{x=1,x=}", "{__name__=}", "a{b}", "a{b=c}d"}

func genStore(r *rand.Rand) Input {
	in := Input{Store: true, Levels: []int{0}, Times: []int64{0}}
	switch k := r.Intn(10); {
	case k < 5:
		in.Text = lib.Pick(r, emptyish)
	case k < 8:
		s := genStruct(r)
		if lib.Chance(r, 0.4) {
			s.Name = []int{}
		}
		if lib.Chance(r, 0.4) && len(s.Tags) > 0 {
			s.Tags[r.Intn(len(s.Tags))][1] = pad(r, []int{}, 0.3)
		}
		in.Struct = &s
	default:
		n := lib.Range(r, 0, 8)
		bs := []int{}
		for i := 0; i < n; i++ {
			bs = append(bs, lib.Pick(r, small)...)
		}
		in.Bytes = bs
	}
	return in
}

func gen(r *rand.Rand, idx int, tier string) Input {
	if idx%10 == 9 {
		return genStore(r)
	}
	lv, ts := randLevelsTimes(r)
	switch k := r.Intn(10); {
	case k < 5: // structured with order/white-space variants
		s := genStruct(r)
		if lib.Chance(r, 0.5) {
			s.Name = pad(r, s.Name, 0.3)
			for i := range s.Tags {
				s.Tags[i] = [2][]int{pad(r, s.Tags[i][0], 0.2), pad(r, s.Tags[i][1], 0.2)}
			}
		}
		in := Input{Struct: &s, Levels: lv, Times: ts}
		nv := lib.Range(r, 1, 4)
		for i := 0; i < nv; i++ {
			in.Vars = append(in.Vars, variantOf(r, s))
		}
		if lib.Chance(r, 0.3) {
			in.Levels = []int{0, 1, 2, 3, 4, 5, 6, 7, 8}
		}
		return in
	case k < 7: // a rendered structure damaged by random edits (raw)
		s := genStruct(r)
		b := []byte(renderStruct(s))
		ne := lib.Range(r, 1, 3)
		for i := 0; i < ne; i++ {
			pos := r.Intn(len(b) + 1)
			switch r.Intn(3) {
			case 0:
				if pos < len(b) {
					b = append(b[:pos], b[pos+1:]...)
				}
			case 1:
				c := byte(lib.Pick(r, punct))
				if lib.Chance(r, 0.2) {
					c = byte(lib.Pick(r, []int{0xff, 0x80, 0xc3, ' '}))
				}
				b = append(b[:pos], append([]byte{c}, b[pos:]...)...)
			default:
				if pos < len(b) {
					b[pos] = byte(lib.Pick(r, punct))
				}
			}
		}
		bs := make([]int, len(b))
		for i, c := range b {
			bs[i] = int(c)
		}
		return Input{Bytes: bs, Levels: lv, Times: ts}
	default: // random longer strings over the small alphabet
		n := lib.Range(r, 7, 24)
		bs := []int{}
		for i := 0; i < n; i++ {
			bs = append(bs, lib.Pick(r, small)...)
		}
		return Input{Bytes: bs, Levels: lv, Times: ts}
	}
}

func main() {
	logrus.SetLevel(logrus.PanicLevel)
	lib.Main(lib.Harness[Input]{Prop: "C15", Quick: 1200, Thorough: 12000, Gen: gen, Enum: enum, Run: run})
}
