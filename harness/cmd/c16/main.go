//go:build verif

// c16: /ingest is all-or-nothing, bad requests harm nothing. Real storage + real handler (VerifMux) in-process;
// after every request all watched (series, window) pairs of the case are re-queried with storage.Get. Dump only.
package main

import (
	"bytes"
	"encoding/hex"
	"encoding/json"
	"fmt"
	"io"
	"math"
	"math/rand"
	"net/http"
	"net/http/httptest"
	"net/url"
	"os"
	"runtime"
	"strconv"
	"strings"
	"sync"
	"time"

	"github.com/sirupsen/logrus"

	"github.com/pyroscope-io/pyroscope/pkg/config"
	"github.com/pyroscope-io/pyroscope/pkg/server"
	"github.com/pyroscope-io/pyroscope/pkg/storage"
	"github.com/pyroscope-io/pyroscope/pkg/storage/tree"
	"github.com/pyroscope-io/pyroscope/pkg/structs/transporttrie"
	"github.com/pyroscope-io/pyroscope/pkg/util/bytesize"
	"verifharness/lib"
)

// ---------- input format ----------

type Bs []byte

func (b Bs) MarshalJSON() ([]byte, error) {
	printable := true
	for _, c := range b {
		if c < 32 || c > 126 {
			printable = false
		}
	}
	if printable && !strings.HasPrefix(string(b), "hex:") {
		return json.Marshal(string(b))
	}
	return json.Marshal("hex:" + hex.EncodeToString(b))
}

func (b *Bs) UnmarshalJSON(d []byte) error {
	var s string
	if err := json.Unmarshal(d, &s); err != nil {
		return err
	}
	if strings.HasPrefix(s, "hex:") {
		x, err := hex.DecodeString(s[4:])
		if err != nil {
			return err
		}
		*b = x
		return nil
	}
	*b = []byte(s)
	return nil
}

type Rec struct {
	K string `json:"k"`
	V uint64 `json:"v"`
}

// TArg: a from/until argument with the meaning the generator intends (checked against the attime model in Coq
// through the status code only; used by the harness to choose the window it re-queries).
type TArg struct {
	Has bool  `json:"has"`
	S   Bs    `json:"s,omitempty"`
	Abs int64 `json:"abs,omitempty"` // unix seconds when Rel is false
	Rel bool  `json:"rel,omitempty"` // now + Off seconds
	Off int64 `json:"off,omitempty"`
}

type Step struct {
	Render  bool        `json:"render,omitempty"` // GET /render instead of POST /ingest
	Name    Bs          `json:"name"`
	From    TArg        `json:"from"`
	Until   TArg        `json:"until"`
	Format  *string     `json:"format,omitempty"`
	CType   string      `json:"ctype,omitempty"`
	Extra   [][2]string `json:"extra,omitempty"`
	Body    Bs          `json:"body"`
	Recs    []Rec       `json:"recs,omitempty"`
	HasRecs bool        `json:"hasrecs,omitempty"`
	NoSpace bool        `json:"nospace,omitempty"`
	RetThr  *int64      `json:"retthr,omitempty"`
	Single  bool        `json:"single,omitempty"`
	Mut     string      `json:"mut,omitempty"` // label of the mutation (evidence only)
}

type Input struct {
	Steps []Step `json:"steps"`
}

// ---------- bodies ----------

func renderBody(format string, recs []Rec) []byte {
	switch format {
	case "trie":
		t := transporttrie.New()
		for _, r := range recs {
			t.Insert([]byte(r.K), r.V, true)
		}
		return t.Bytes()
	case "tree":
		t := tree.New()
		for _, r := range recs {
			t.Insert([]byte(r.K), r.V)
		}
		var b bytes.Buffer
		t.SerializeNoDict(1<<20, &b)
		return b.Bytes()
	case "lines":
		var b bytes.Buffer
		for _, r := range recs {
			for i := uint64(0); i < r.V; i++ {
				b.WriteString(r.K)
				b.WriteByte('\n')
			}
		}
		return b.Bytes()
	default:
		var b bytes.Buffer
		for _, r := range recs {
			b.WriteString(r.K)
			b.WriteByte(' ')
			b.WriteString(strconv.FormatUint(r.V, 10))
			b.WriteByte('\n')
		}
		return b.Bytes()
	}
}

var frames = []string{"a", "b", "c", "main", "f1", "x.y", "g"}

func randRecs(r *rand.Rand, format string) []Rec {
	n := lib.Range(r, 1, 5)
	var out []Rec
	for i := 0; i < n; i++ {
		d := lib.Range(r, 1, 4)
		parts := make([]string, d)
		for j := range parts {
			parts[j] = lib.Pick(r, frames)
		}
		v := uint64(lib.Range(r, 1, 50))
		if format == "lines" {
			v = uint64(lib.Range(r, 1, 4))
		}
		out = append(out, Rec{K: strings.Join(parts, ";"), V: v})
	}
	return out
}

// bigRecs: a few hundred stacks over long frame names: binary bodies of 5-20 KiB, i.e. several fills of the decoders'
// 4 KiB bufio buffer
func bigRecs(r *rand.Rand) []Rec {
	n := lib.Range(r, 110, 260)
	seen := map[string]bool{}
	var out []Rec
	for len(out) < n {
		k := fmt.Sprintf("mod%02d.EntryPoint_long_name;pkg%02d.Handler_with_a_long_name_%02d;leaf%03d.function_body_%02d",
			r.Intn(10), r.Intn(12), r.Intn(12), r.Intn(400), r.Intn(12))
		if seen[k] {
			continue
		}
		seen[k] = true
		out = append(out, Rec{K: k, V: uint64(lib.Range(r, 1, 90))})
	}
	return out
}

func genBigCase(r *rand.Rand) Input {
	c := newCtx(r)
	var in Input
	if lib.Chance(r, 0.5) { // something small in the same series and slot first
		first := genValid(r, c)
		first.Name, first.From, first.Until, first.Single = Bs(c.names[0]), abs(c.base), abs(c.base+10), true
		in.Steps = append(in.Steps, first)
	}
	f := lib.Pick(r, []string{"tree", "trie"})
	s := Step{Name: Bs(c.names[0]), From: abs(c.base), Until: abs(c.base + 10), Format: sptr(f), Single: true, Mut: "bigbody"}
	s.Recs, s.HasRecs = bigRecs(r), true
	s.Body = renderBody(f, s.Recs)
	in.Steps = append(in.Steps, s)
	return in
}

// ---------- generators ----------

const tLo = 864403200
const tHi = 1700000000 // below "now" so that retention thresholds can be placed on both sides

func sptr(s string) *string { return &s }

type caseCtx struct {
	names []string
	base  int64
}

func newCtx(r *rand.Rand) *caseCtx {
	tok := fmt.Sprintf("p%08x", r.Uint32())
	names := []string{tok, tok + "c{env=prod}", tok + "b"} // distinct application names: a Get never matches two of them
	if lib.Chance(r, 0.15) {
		names = append(names, "")
	}
	base := (tLo + r.Int63n(tHi-tLo-100000)) / 10 * 10
	return &caseCtx{names: names, base: base}
}

func abs(t int64) TArg { return TArg{Has: true, S: Bs(strconv.FormatInt(t, 10)), Abs: t} }

func genValid(r *rand.Rand, c *caseCtx) Step {
	format := lib.Pick(r, []string{"groups", "groups", "lines", "trie", "trie", "tree", "tree"})
	s := Step{Name: Bs(lib.Pick(r, c.names)), Single: true}
	// the parser is selected by the ladder of ingestParamsFromRequest: tree if format=tree or Content-Type ...+tree, else trie
	// if format=trie or Content-Type ...+trie, else lines if format=lines, else groups: the Content-Type is honoured whatever
	// the format parameter says.  Requests carry the parameter, the header, or BOTH (matching, non-matching, unknown, empty),
	// always such that the ladder selects the parser of the body's encoding.
	textCT := []string{"text/plain", "application/x-www-form-urlencoded", "application/octet-stream", "binary/octet-stream", "binary/octet-stream+lines", "junk/type"}
	unknown := []string{"folded", "pprof", "collapsed", "TRIE", "tire", "json"}
	switch format {
	case "groups":
		switch r.Intn(4) {
		case 0:
			s.Format = sptr(lib.Pick(r, append([]string{"groups", ""}, unknown...)))
		case 1:
			s.Format = sptr(lib.Pick(r, append([]string{"groups", ""}, unknown...)))
			s.CType = lib.Pick(r, textCT)
		case 2:
			s.CType = lib.Pick(r, textCT)
		}
	case "lines":
		s.Format = sptr("lines")
		if lib.Chance(r, 0.5) {
			s.CType = lib.Pick(r, textCT)
		}
	case "tree":
		switch r.Intn(5) {
		case 0:
			s.Format = sptr("tree")
		case 1:
			s.CType = "binary/octet-stream+tree"
		case 2: // both, matching
			s.Format, s.CType = sptr("tree"), "binary/octet-stream+tree"
		case 3: // header with a non-matching, unknown or empty parameter: the header wins (tree is tested first)
			s.CType = "binary/octet-stream+tree"
			s.Format = sptr(lib.Pick(r, append([]string{"", "lines", "groups", "trie"}, unknown...)))
		default: // parameter with a non-matching header: format=tree wins over everything
			s.Format = sptr("tree")
			s.CType = lib.Pick(r, append([]string{"binary/octet-stream+trie"}, textCT...))
		}
	case "trie":
		switch r.Intn(5) {
		case 0:
			s.Format = sptr("trie")
		case 1:
			s.CType = "binary/octet-stream+trie"
		case 2:
			s.Format, s.CType = sptr("trie"), "binary/octet-stream+trie"
		case 3: // header with a non-matching text, unknown or empty parameter: the header wins
			s.CType = "binary/octet-stream+trie"
			s.Format = sptr(lib.Pick(r, append([]string{"", "lines", "groups"}, unknown...)))
		default: // parameter with a non-binary header
			s.Format = sptr("trie")
			s.CType = lib.Pick(r, textCT)
		}
	}
	s.Recs = randRecs(r, format)
	s.HasRecs = true
	s.Body = renderBody(format, s.Recs)
	slot := c.base + int64(lib.Range(r, 0, 12))*10
	switch r.Intn(6) {
	case 0: // aligned 10 s window
		s.From, s.Until = abs(slot), abs(slot+10)
	case 1: // inside one slot
		s.From, s.Until = abs(slot+int64(lib.Range(r, 0, 4))), abs(slot+int64(lib.Range(r, 5, 9)))
	case 2: // equal
		t := slot + int64(lib.Range(r, 0, 9))
		s.From, s.Until = abs(t), abs(t)
	case 3: // reversed: clamped to the slot of from (D8)
		t := slot + int64(lib.Range(r, 0, 9))
		s.From, s.Until = abs(t), abs(t-int64(lib.Range(r, 1, 500)))
	case 4: // several slots: only "visible and harmless" is checked
		s.From, s.Until = abs(slot), abs(slot+int64(lib.Range(r, 11, 120)))
		s.Single = false
	default:
		s.From, s.Until = abs(slot+int64(lib.Range(r, 0, 9))), abs(slot+10)
	}
	if lib.Chance(r, 0.3) {
		s.Extra = append(s.Extra, [2]string{"spyName", lib.Pick(r, []string{"gospy", "rbspy", ""})})
	}
	if lib.Chance(r, 0.3) {
		s.Extra = append(s.Extra, [2]string{"sampleRate", lib.Pick(r, []string{"100", "50", "0", "-1", "junk", "4294967296", "99999999999999999999"})})
	}
	if lib.Chance(r, 0.2) {
		s.Extra = append(s.Extra, [2]string{"units", lib.Pick(r, []string{"samples", "objects", ""})})
	}
	if lib.Chance(r, 0.2) {
		s.Extra = append(s.Extra, [2]string{"aggregationType", lib.Pick(r, []string{"sum", "", "junk"})})
	}
	return s
}

func formatOf(s Step) string {
	if (s.Format != nil && *s.Format == "tree") || s.CType == "binary/octet-stream+tree" {
		return "tree"
	}
	if (s.Format != nil && *s.Format == "trie") || s.CType == "binary/octet-stream+trie" {
		return "trie"
	}
	if s.Format != nil && *s.Format == "lines" {
		return "lines"
	}
	return "groups"
}

func uvarint(v uint64) []byte {
	var b []byte
	for v >= 0x80 {
		b = append(b, byte(v)|0x80)
		v >>= 7
	}
	return append(b, byte(v))
}

func genBad(r *rand.Rand, c *caseCtx) Step {
	s := genValid(r, c)
	f := formatOf(s)
	binary := f == "trie" || f == "tree"
	switch r.Intn(19) {
	case 0: // truncation
		if len(s.Body) > 0 {
			s.Body = s.Body[:r.Intn(len(s.Body))]
		}
		s.HasRecs, s.Recs, s.Mut = false, nil, "truncate"
	case 1: // bit flip
		if len(s.Body) > 0 {
			b := append([]byte{}, s.Body...)
			b[r.Intn(len(b))] ^= 1 << uint(r.Intn(8))
			s.Body = b
		}
		s.HasRecs, s.Recs, s.Mut = false, nil, "bitflip"
	case 2: // over-long line (D7), both text formats; bufio.Scanner holds at most 65536 bytes including the newline
		tf := lib.Pick(r, []string{"groups", "lines"})
		s.CType = ""
		if tf == "lines" {
			s.Format = sptr("lines")
		} else {
			s.Format = nil
		}
		if binary || f != tf {
			s.Recs = randRecs(r, tf)
		}
		lineLen := lib.Pick(r, []int{65535, 65536, 65537, 65536 + lib.Range(r, 2, 40), 70000}) // 65535 is the longest accepted line
		long := Rec{V: 7}
		if tf == "lines" {
			long.V = uint64(lib.Range(r, 1, 2))
			long.K = strings.Repeat("x", lineLen)
		} else {
			long.K = strings.Repeat("x", lineLen-2) // "<key> 7"
		}
		p := r.Intn(len(s.Recs) + 1)
		recs := append([]Rec{}, s.Recs[:p]...)
		recs = append(recs, long)
		recs = append(recs, s.Recs[p:]...)
		s.Recs, s.HasRecs = recs, true
		s.Body = renderBody(tf, recs)
		s.Mut = "longline"
		if lineLen <= 65535 {
			s.Mut = "maxline"
		}
	case 3: // negative / unparsable counts
		s.Body = append(append([]byte{}, s.Body...), lib.Pick(r, []string{"a;b -5\n", "a;b x\n", "a;b 1e3\n", "a;b 99999999999999999999\n", "a;b \n", "a;b 5 \n", " 5\n", "nospace\n"})...)
		s.HasRecs, s.Recs, s.Mut = false, nil, "badcount"
	case 4: // empty body
		s.Body = []byte{}
		s.HasRecs, s.Recs, s.Mut = false, nil, "emptybody"
	case 5: // hostile lengths and counts in a binary body (D13)
		s.Format, s.CType = sptr(lib.Pick(r, []string{"trie", "tree"})), ""
		var b []byte
		switch r.Intn(5) {
		case 0: // name length 2^62
			b = []byte{0xff, 0xff, 0xff, 0xff, 0xff, 0xff, 0xff, 0xff, 0x3f, 0x01}
		case 1: // root announces 2^62 children
			b = append([]byte{0x00, 0x00}, 0xff, 0xff, 0xff, 0xff, 0xff, 0xff, 0xff, 0xff, 0x3f)
		case 2: // a few real children, then a huge count
			b = append([]byte{0x00, 0x00, 0x02, 0x01, 'a', 0x03}, uvarint(uint64(1)<<uint(lib.Range(r, 20, 63)))...)
			b = append(b, 0x01, 'b', 0x01, 0x00)
		case 3: // count slightly larger than what follows
			b = []byte{0x00, 0x00, 0x03, 0x01, 'a', 0x01, 0x00, 0x01, 'b', 0x02, 0x00}
		default: // over-long varint
			b = bytes.Repeat([]byte{0xff}, 11)
		}
		s.Body = b
		s.HasRecs, s.Recs, s.Mut = false, nil, "hostile"
	case 6: // unknown format: the body goes to the groups parser
		s.Format, s.CType = sptr(lib.Pick(r, []string{"pprof", "TRIE", "json", "tree "})), ""
		s.HasRecs, s.Recs, s.Mut = false, nil, "unknownformat"
	case 7: // wrong format for the body
		s.Format, s.CType = sptr(lib.Pick(r, []string{"trie", "tree", "lines"})), ""
		if binary {
			s.Format = sptr("lines")
		}
		if lib.Chance(r, 0.4) { // parameter and header that disagree with each other and, through the ladder, with the body
			s.Format, s.CType = sptr(lib.Pick(r, []string{"trie", "lines", "folded"})), "binary/octet-stream+tree"
			if f == "tree" {
				s.Format, s.CType = sptr(lib.Pick(r, []string{"lines", "folded", ""})), "binary/octet-stream+trie"
			}
		}
		s.HasRecs, s.Recs, s.Mut = false, nil, "wrongformat"
	case 8: // junk / negative from: means now
		s.From = TArg{Has: true, S: Bs(lib.Pick(r, []string{"junk", "-5", "abc123", "1.5", "0x10", "--"})), Rel: true}
		s.Until = TArg{Has: lib.Chance(r, 0.5), S: Bs(lib.Pick(r, []string{"junk", "now", "-0"})), Rel: true}
		s.Single = false
		s.Mut = "junktime"
	case 9: // from and until absent: both now
		s.From, s.Until, s.Single = TArg{Rel: true}, TArg{Rel: true}, false
		s.Mut = "notime"
	case 10: // empty name
		s.Name = Bs("")
		s.Mut = "emptyname"
	case 11: // out of space
		s.NoSpace = true
		s.Mut = "nospace"
	case 12: // retention threshold after from: refused
		thr := s.From.Abs + int64(lib.Range(r, 1000, 100000))
		s.RetThr = &thr
		s.Mut = "retention-refuse"
	case 13: // retention threshold before from: accepted
		thr := s.From.Abs - int64(lib.Range(r, 1000, 100000))
		s.RetThr = &thr
		s.Mut = "retention-pass"
	case 14: // relative from in the past, until junk (= now): several slots
		off := -int64(lib.Range(r, 1, 5)) * 60
		s.From = TArg{Has: true, S: Bs(fmt.Sprintf("now%dmin", off/60)), Rel: true, Off: off}
		s.Until = TArg{Rel: true}
		s.Single = false
		s.Mut = "relative"
	case 15: // name with odd characters
		s.Name = Bs(c.names[0] + fmt.Sprintf("x%04x", r.Intn(65536)) + lib.Pick(r, []string{"{", "{a=", "}", "{a=b,a=c}", " ", "{=}", "\xff"}))
		s.Mut = "oddname"
	case 16, 17: // exactly one bound omitted (it defaults to the server's now), the other one on either side of the clock or junk
		now := time.Now().Unix()
		switch r.Intn(5) {
		case 0: // until in the past, no from: from = now, window clamped to the slot of now
			s.From, s.Until, s.Single = TArg{Rel: true}, abs(c.base+int64(lib.Range(r, 0, 100))), true
			s.Mut = "onebound-until-past"
		case 1: // from in the future, no until: until = now < from, window clamped to the slot of from
			t := (now+int64(lib.Range(r, 1000, 5000000)))/10*10 + int64(lib.Range(r, 0, 9))
			s.From, s.Until, s.Single = abs(t), TArg{Rel: true}, true
			s.Mut = "onebound-from-future"
		case 2: // until junk (= now) or in the near future, no from: a window starting in the slot of now
			s.From, s.Single = TArg{Rel: true}, false
			s.Until = lib.Pick(r, []TArg{{Has: true, S: Bs("junk"), Rel: true}, abs(now + int64(lib.Range(r, 20, 60)))})
			s.Mut = "onebound-until-later"
		case 3: // from junk (= now), until omitted
			s.From, s.Until, s.Single = TArg{Has: true, S: Bs(lib.Pick(r, []string{"junk", "-3", "now"})), Rel: true}, TArg{Rel: true}, false
			s.Mut = "onebound-from-junk"
		default: // from a little in the past, no until: a window of a few slots ending now
			off := -int64(lib.Range(r, 15, 90))
			s.From, s.Until, s.Single = TArg{Has: true, S: Bs(fmt.Sprintf("now%ds", off)), Rel: true, Off: off}, TArg{Rel: true}, false
			s.Mut = "onebound-from-past"
		}
	default: // trailing garbage after a valid binary body / text body without final newline
		if binary {
			s.Body = append(append([]byte{}, s.Body...), 0x01, 'z', 0x05, 0x00)
		} else if len(s.Body) > 0 {
			s.Body = s.Body[:len(s.Body)-1]
		}
		s.Mut = "trailing"
		if binary {
			s.Mut = "trailing-binary"
		}
	}
	return s
}

func genRender(r *rand.Rand, c *caseCtx) Step {
	s := Step{Render: true, Name: Bs(lib.Pick(r, c.names)), Mut: "render"}
	targ := func() TArg {
		switch r.Intn(9) {
		case 0:
			return TArg{}
		case 1:
			return TArg{Has: true, S: Bs(lib.Pick(r, []string{"junk", "now", "-5", "now-1h", "now-1h30min", "+1d", "", "1.5", "-9999999999999999999y"})), Rel: true}
		case 2:
			return TArg{Has: true, S: Bs(lib.Pick(r, []string{"0", "1", "99999999999999999999", "9223372036854775807", "20210230", "20210228", "00000000", "253402300800"})), Rel: true}
		default:
			return abs(c.base + int64(lib.Range(r, -200, 400)))
		}
	}
	s.From, s.Until = targ(), targ()
	if lib.Chance(r, 0.7) {
		s.Format = sptr(lib.Pick(r, []string{"json", "json", "json", "svg", "", "JSON"}))
	}
	if lib.Chance(r, 0.4) {
		s.Extra = append(s.Extra, [2]string{"max-nodes", lib.Pick(r, []string{"0", "1", "-1", "junk", "99999999999999999999", "2"})})
	}
	switch s.Mut {
	case "nospace", "retention-refuse", "truncate", "longline", "emptybody", "hostile":
		// a request that is (probably) refused carries metadata and tag values no accepted request of the case uses
		var extra [][2]string
		for _, kv := range s.Extra {
			if kv[0] != "spyName" && kv[0] != "sampleRate" && kv[0] != "units" {
				extra = append(extra, kv)
			}
		}
		s.Extra = append(extra, [2]string{"spyName", fmt.Sprintf("refusedspy%d", r.Intn(1000))}, [2]string{"sampleRate", "77"}, [2]string{"units", "refusedunits"})
		if lib.Chance(r, 0.5) && len(s.Name) > 0 {
			s.Name = Bs(c.names[0] + fmt.Sprintf("{zone=z%06x}", r.Intn(1<<24)))
		} else if lib.Chance(r, 0.6) {
			s.Name = Bs(c.names[0])
		}
	}
	return s
}

func gen(r *rand.Rand, idx int, tier string) Input {
	if idx%50 == 7 {
		return genBigCase(r)
	}
	c := newCtx(r)
	var in Input
	in.Steps = append(in.Steps, genValid(r, c))
	n := lib.Range(r, 3, 7)
	for i := 0; i < n; i++ {
		if lib.Chance(r, 0.15) {
			in.Steps = append(in.Steps, genRender(r, c))
		} else if lib.Chance(r, 0.6) {
			in.Steps = append(in.Steps, genBad(r, c))
		} else {
			in.Steps = append(in.Steps, genValid(r, c))
		}
	}
	return in
}

// truncation of a valid binary body at every byte, between two valid ingests of the same series and slot
func enum(tier string) []Input {
	r := rand.New(rand.NewSource(16))
	var out []Input
	nb := 1
	if tier == "thorough" {
		nb = 6
	}
	for _, f := range []string{"trie", "tree", "groups", "lines"} {
		for k := 0; k < nb; k++ {
			c := newCtx(r)
			recs := randRecs(r, f)
			body := renderBody(f, recs)
			for cut := 0; cut < len(body); cut++ {
				if (f == "groups" || f == "lines") && tier != "thorough" && cut%3 != 0 {
					continue
				}
				first := genValid(r, c)
				first.Name, first.From, first.Until, first.Single = Bs(c.names[0]), abs(c.base), abs(c.base+10), true
				mid := Step{Name: Bs(c.names[0]), From: abs(c.base), Until: abs(c.base + 10), Format: sptr(f), Body: body[:cut], Single: true, Mut: "truncate-enum"}
				last := first
				last.Recs = randRecs(r, "groups")
				last.Format, last.CType = nil, ""
				last.Body = renderBody("groups", last.Recs)
				out = append(out, Input{Steps: []Step{first, mid, last}})
			}
		}
	}
	return out
}

// ---------- the system under test ----------

var (
	srvOnce sync.Once
	srvMux  http.Handler
	srvDir  string
	srvStor *storage.Storage
	srvCfg  *config.Server
	srvErr  error
	wedged  bool // a request hung: the handler goroutine may still hold locks
)

func setupServer() {
	srvDir, srvErr = os.MkdirTemp("/tmp", "parse-harness-c16-")
	if srvErr != nil {
		return
	}
	srvCfg = &config.Server{StoragePath: srvDir, APIBindAddr: ":0", CacheEvictThreshold: 0.99, CacheEvictVolume: 0.10,
		MaxNodesSerialization: 2048, MaxNodesRender: 2048, BadgerLogLevel: "error"}
	srvStor, srvErr = storage.New(srvCfg)
	if srvErr != nil {
		return
	}
	ctrl, err := server.New(srvCfg, srvStor)
	if err != nil {
		srvErr = err
		return
	}
	srvMux = ctrl.VerifMux()
	storage.OutOfSpaceThreshold = 0
}

func cleanupServer() {
	if srvStor != nil && !wedged {
		srvStor.Close()
	}
	if srvDir != "" {
		os.RemoveAll(srvDir)
	}
}

type watch struct {
	name   []byte
	lo, hi int64
}

func floor10(t int64) int64 {
	q := t / 10
	if t%10 < 0 {
		q--
	}
	return q * 10
}

// dumpAll: storage.Get of every watch: the tree and the metadata (spy name, sample rate, units) it reports
func dumpAll(ws []watch) ([]string, []string, string) {
	out := make([]string, len(ws))
	meta := make([]string, len(ws))
	crash := ""
	for i, w := range ws {
		func() {
			out[i], meta[i] = "None", "None"
			defer func() {
				if r := recover(); r != nil {
					crash = fmt.Sprintf("storage.Get panicked: %v", r)
				}
			}()
			key, err := storage.ParseKey(string(w.name))
			if err != nil {
				return
			}
			g, err := srvStor.Get(&storage.GetInput{StartTime: time.Unix(w.lo, 0), EndTime: time.Unix(w.hi, 0), Key: key})
			if err != nil || g == nil || g.Tree == nil {
				return
			}
			out[i] = lib.Some(coqTree(g.Tree.VerifDump()))
			meta[i] = lib.Some("(" + lib.Bytes([]byte(g.SpyName)) + ", " + lib.N(uint64(g.SampleRate)) + ", " + lib.Bytes([]byte(g.Units)) + ")")
		}()
	}
	return out, meta, crash
}

// probesOf: the (label key, value) pairs a series name stands for, read off Key.Normalized()
func probesOf(name []byte) [][2]string {
	key, err := storage.ParseKey(string(name))
	if err != nil {
		return nil
	}
	out := [][2]string{{"__name__", key.AppName()}}
	n := key.Normalized()
	if i := strings.Index(n, "{"); i >= 0 && strings.HasSuffix(n, "}") {
		for _, kv := range strings.Split(n[i+1:len(n)-1], ",") {
			if j := strings.Index(kv, "="); j > 0 {
				out = append(out, [2]string{kv[:j], kv[j+1:]})
			}
		}
	}
	return out
}

// dumpLabels: is each probe listed by the label listings (Storage.GetKeys / GetValues, what /labels and /label-values serve)?
func dumpLabels(probes [][2]string) string {
	keys := map[string]bool{}
	srvStor.GetKeys(func(k string) bool { keys[k] = true; return true })
	items := make([]string, len(probes))
	for i, p := range probes {
		found := false
		if keys[p[0]] {
			srvStor.GetValues(p[0], func(v string) bool {
				if v == p[1] {
					found = true
					return false
				}
				return true
			})
		}
		items[i] = lib.Bool(found)
	}
	return lib.List(items)
}

// coqTree prints a dumped tree as a Coq term of type tnode; names go through coqBody (a stored stack may be 64 KiB long)
func coqTree(n *tree.VerifNode) string {
	var sb strings.Builder
	var rec func(n *tree.VerifNode)
	rec = func(n *tree.VerifNode) {
		sb.WriteString("(TNode ")
		sb.WriteString(coqBody(n.Name))
		sb.WriteString(" ")
		sb.WriteString(lib.N(n.Self))
		sb.WriteString(" ")
		sb.WriteString(lib.N(n.Total))
		sb.WriteString(" [")
		for i, c := range n.Children {
			if i > 0 {
				sb.WriteString("; ")
			}
			rec(c)
		}
		sb.WriteString("])")
	}
	rec(n)
	return sb.String()
}

// coqBody prints a body as a Coq term of type bytes; runs of >= 64 equal bytes are run-length encoded (brep c n)
func coqBody(b []byte) string {
	var parts []string
	i := 0
	lit := []byte{}
	flush := func() { // long literals are cut into pieces: coqc's parser recurses on list literals
		for len(lit) > 0 {
			n := len(lit)
			if n > 1500 {
				n = 1500
			}
			parts = append(parts, lib.Bytes(lit[:n]))
			lit = lit[n:]
		}
		lit = []byte{}
	}
	for i < len(b) {
		j := i
		for j < len(b) && b[j] == b[i] {
			j++
		}
		if j-i >= 64 {
			flush()
			parts = append(parts, fmt.Sprintf("(brep %d %d)", b[i], j-i))
		} else {
			lit = append(lit, b[i:j]...)
		}
		i = j
	}
	flush()
	if len(parts) == 0 {
		return "[]"
	}
	out := parts[len(parts)-1]
	for k := len(parts) - 2; k >= 0; k-- {
		out = "(app " + parts[k] + " " + out + ")"
	}
	return out
}

func pairList(q [][2]string) string {
	items := make([]string, len(q))
	for i, kv := range q {
		items[i] = lib.Pair(lib.Bytes([]byte(kv[0])), lib.Bytes([]byte(kv[1])))
	}
	return lib.List(items)
}

func run(in Input) lib.Result {
	srvOnce.Do(setupServer)
	if srvErr != nil {
		return lib.Result{Crash: "harness: cannot set up storage/server: " + srvErr.Error()}
	}
	if wedged {
		// the case that hung has been reported; the storage may be locked by its goroutine, nothing more can be observed here
		return lib.Result{Feat: map[string]interface{}{"skipped_after_hang": true}}
	}
	caseStart := time.Now().Unix()
	ws := make([]watch, len(in.Steps))
	for i, s := range in.Steps {
		if s.From.Has && !s.From.Rel {
			lo := floor10(s.From.Abs)
			hi := lo + 10
			if !s.Single && s.Until.Has && !s.Until.Rel && floor10(s.Until.Abs)+10 > hi {
				hi = floor10(s.Until.Abs) + 10 // several slots: the whole range the put may touch
			}
			ws[i] = watch{s.Name, lo, hi}
		} else {
			off := int64(0)
			if s.From.Has {
				off = s.From.Off
			}
			lo := floor10(caseStart + off)
			hi := lo + 600
			if floor10(caseStart)+600 > hi {
				hi = floor10(caseStart) + 600 // a window reaching from the past to now
			}
			if !s.Single && s.Until.Has && !s.Until.Rel && floor10(s.Until.Abs)+10 > hi {
				hi = floor10(s.Until.Abs) + 10
			}
			ws[i] = watch{s.Name, lo, hi}
		}
	}
	// every series of the case is also watched over the whole supported range: nothing may appear anywhere else
	seenName := map[string]bool{}
	for _, s := range in.Steps {
		if !seenName[string(s.Name)] {
			seenName[string(s.Name)] = true
			ws = append(ws, watch{s.Name, tLo, 1864403200})
		}
	}
	var probes [][2]string
	seenProbe := map[[2]string]bool{}
	for _, s := range in.Steps {
		for _, p := range probesOf(s.Name) {
			if !seenProbe[p] {
				seenProbe[p] = true
				probes = append(probes, p)
			}
		}
	}
	var steps []string
	statuses := []int{}
	muts := []string{}
	crash := ""
	accepted, rejectedAfterAccepted := 0, 0
	var prevAfter, prevMeta []string
	prevLabels := "[]"
	for i, s := range in.Steps {
		var q [][2]string
		q = append(q, [2]string{"name", string(s.Name)})
		if s.From.Has {
			q = append(q, [2]string{"from", string(s.From.S)})
		}
		if s.Until.Has {
			q = append(q, [2]string{"until", string(s.Until.S)})
		}
		if s.Format != nil {
			q = append(q, [2]string{"format", *s.Format})
		}
		q = append(q, s.Extra...)
		vals := url.Values{}
		for _, kv := range q {
			if _, dup := vals[kv[0]]; !dup {
				vals.Set(kv[0], kv[1])
			}
		}
		// refusals
		if s.NoSpace {
			storage.OutOfSpaceThreshold = bytesize.ByteSize(math.MaxInt64)
		}
		if s.RetThr != nil {
			srvCfg.Retention = time.Since(time.Unix(*s.RetThr, 0))
		}
		// answers before the first request; later the answers after the previous request are the answers before
		var before, metaBefore []string
		labelsBefore := "[]"
		c1 := ""
		if i == 0 {
			before, metaBefore, c1 = dumpAll(ws)
			labelsBefore = dumpLabels(probes)
		}
		req := httptest.NewRequest("POST", "/ingest?"+vals.Encode(), bytes.NewReader(s.Body))
		if s.Render {
			req = httptest.NewRequest("GET", "/render?"+vals.Encode(), nil)
		}
		if s.CType != "" {
			req.Header.Set("Content-Type", s.CType)
		}
		rec := httptest.NewRecorder()
		status := 0
		done := make(chan string, 1)
		t0 := time.Now()
		go func() {
			msg := ""
			defer func() {
				if r := recover(); r != nil {
					msg = fmt.Sprintf("handler panicked: %v", r)
				}
				done <- msg
			}()
			srvMux.ServeHTTP(rec, req)
		}()
		select {
		case msg := <-done:
			if msg == "" {
				status = rec.Code
			} else {
				status = 0
				crash = msg
			}
		case <-time.After(10 * time.Second):
			status = -1
			wedged = true
			crash = "no answer within 10 s"
		}
		t1 := time.Now()
		storage.OutOfSpaceThreshold = 0
		srvCfg.Retention = 0
		after, metaAfter, labelsAfter := prevAfter, prevMeta, prevLabels
		c2 := ""
		if !wedged {
			after, metaAfter, c2 = dumpAll(ws)
			labelsAfter = dumpLabels(probes)
		}
		prevAfter, prevMeta, prevLabels = after, metaAfter, labelsAfter
		if c1 != "" {
			crash = c1
		}
		if c2 != "" {
			crash = c2
		}
		recs := "None"
		if s.HasRecs {
			items := make([]string, len(s.Recs))
			for j, rc := range s.Recs {
				items[j] = lib.Pair(coqBody([]byte(rc.K)), lib.N(rc.V))
			}
			recs = lib.Some(lib.List(items))
		}
		thr := "None"
		if s.RetThr != nil {
			thr = lib.Some(lib.Z(*s.RetThr))
		}
		nsOf := func(t time.Time) string { return lib.Z(t.UnixNano()) }
		steps = append(steps, "{| s_render := "+lib.Bool(s.Render)+"; s_query := "+pairList(q)+"; s_ctype := "+lib.Bytes([]byte(s.CType))+"; s_body := "+coqBody(s.Body)+
			"; s_records := "+recs+"; s_space_ok := "+lib.Bool(!s.NoSpace)+"; s_ret_thr := "+thr+
			"; s_t0 := "+nsOf(t0)+"; s_t1 := "+nsOf(t1)+"; s_status := "+lib.Z(int64(status))+
			"; s_self := "+lib.Nat(i)+"; s_single_slot := "+lib.Bool(s.Single)+
			"; s_before := "+lib.List(before)+"; s_after := "+lib.List(after)+
			"; s_meta_before := "+lib.List(metaBefore)+"; s_meta_after := "+lib.List(metaAfter)+
			"; s_labels_before := "+labelsBefore+"; s_labels_after := "+labelsAfter+" |}")
		statuses = append(statuses, status)
		m := s.Mut
		if m == "" {
			m = "valid"
		}
		muts = append(muts, m+"/"+formatOf(s)+"->"+strconv.Itoa(status))
		if s.Render {
			// not an ingest
		} else if status == 200 {
			accepted++
		} else if accepted > 0 {
			rejectedAfterAccepted++
		}
		if wedged {
			break
		}
	}
	wl := make([]string, len(ws))
	for i, w := range ws {
		wl[i] = "(" + lib.Bytes(w.name) + ", " + lib.Z(w.lo) + ", " + lib.Z(w.hi) + ")"
	}
	coq := "{| c_watches := " + lib.List(wl) + "; c_steps := " + lib.List(steps) + " |}"
	feat := map[string]interface{}{"steps": len(in.Steps)}
	for _, m := range muts {
		if k := strings.Index(m, "->"); k > 0 {
			feat["req:"+m[:k]] = m[k+2:]
		}
	}
	hist := map[string]int{}
	for _, st := range statuses {
		hist[strconv.Itoa(st)]++
	}
	feat["status_hist"] = fmt.Sprint(hist)
	return lib.Result{Coq: coq, NonTrivial: rejectedAfterAccepted > 0, Feat: feat, Crash: crash,
		Obs: map[string]interface{}{"statuses": statuses, "mutations": muts}}
}

func watchdog() {
	var ms runtime.MemStats
	for {
		time.Sleep(200 * time.Millisecond)
		runtime.ReadMemStats(&ms)
		if ms.HeapAlloc > 6<<30 {
			fmt.Fprintln(os.Stderr, "c16 harness: heap above 6 GiB while serving a request: aborting")
			os.Exit(3)
		}
	}
}

func main() {
	logrus.SetLevel(logrus.PanicLevel)
	logrus.SetOutput(io.Discard)
	storage.VerifDisablePeriodicTasks()
	go watchdog()
	defer cleanupServer()
	lib.Main(lib.Harness[Input]{Prop: "C16", Quick: 420, Thorough: 5000, Gen: gen, Enum: enum, Run: run})
}
