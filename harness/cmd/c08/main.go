//go:build verif

// c08: concurrent ingest / render / maintenance on a real storage (built with -race).
// N writers (each owning a series, all sharing one), M readers, periodic tasks at 5 ms. Every ingest into the shared
// series carries one unique stack (count 1) and three common stacks c;p c;q c;r (count 1 each) in its own 10 s slot, so a read's result
// tells exactly which ingests it contains. The harness only runs and dumps; the oracle is CorrC08.check_case.
// Any race report (exit status 66), panic or hang makes the process fail.
package main

import (
	"bytes"
	"encoding/json"
	"fmt"
	"io"
	"math/rand"
	"os"
	"runtime"
	"sort"
	"strings"
	"sync"
	"sync/atomic"
	"time"

	"github.com/sirupsen/logrus"

	"github.com/pyroscope-io/pyroscope/pkg/config"
	"github.com/pyroscope-io/pyroscope/pkg/storage"
	"github.com/pyroscope-io/pyroscope/pkg/storage/dict"
	"github.com/pyroscope-io/pyroscope/pkg/storage/dimension"
	"github.com/pyroscope-io/pyroscope/pkg/storage/tree"
	"verifharness/lib"
)

type Input struct {
	Stream    string `json:"stream"`  // main | evict | delete | gate-miss-dimensions | gate-miss-segments
	Writers   int    `json:"writers"` // 1..8
	Readers   int    `json:"readers"` // 1..8
	PerWriter int    `json:"per_writer"`
	Labels    bool   `json:"labels"`      // the shared series has a second label (renders go through Intersection)
	ColdStart bool   `json:"cold_start"`  // readers start before the first ingest of the shared series
	SameSlot  bool   `json:"same_slot"`   // all ingests of the shared series fall into one 10 s slot (one tree)
	Procs     int    `json:"procs"`
	Seed      int64  `json:"seed"`
	// config.Retention = 24 h; all ingests are two hours old, and in the middle of its ingests writer 0 sends one profile
	// that is two days old: it must be refused, store nothing, and nobody may be blocked by it
	Retention bool `json:"retention"`
}

const maxReads = 40

const defaultBaseTime = 1600000000

// multiple of 1000; slots are baseTime + 10*k. With a retention period configured it is set to two hours ago.
var baseTime int64 = defaultBaseTime

type ingestRec struct {
	w, j       int
	slot       int
	span       int // number of 10 s slots the upload covers (0 is dumped as 1)
	start, end int64 // monotonic ns since the run began
}

type readRec struct {
	start, end int64
	uniq       []string // unique stacks seen with their counts "w_j=count"
	common     uint64
	other      uint64
	timeline   []uint64
	nilOut     bool
}

func flatten(n *tree.VerifNode, prefix []string, cb func(stack string, v uint64)) {
	p := prefix
	if len(n.Name) > 0 {
		p = append(append([]string{}, prefix...), string(n.Name))
	}
	if n.Self > 0 {
		cb(strings.Join(p, ";"), n.Self)
	}
	for _, c := range n.Children {
		flatten(c, p, cb)
	}
}

var intervalsSet bool

func newStorage(in Input) (*storage.Storage, string, error) {
	dir, err := os.MkdirTemp("", "agentb-c08-")
	if err != nil {
		return nil, "", err
	}
	// periodic tasks every 5 ms (eviction, write-back); retention and GC stay rare
	storage.VerifSetIntervals(5*time.Millisecond, 5*time.Millisecond, 0, 0)
	thr := 0.99 // evictionTask runs but never evicts
	if in.Stream == "evict" {
		thr = 0 // evicts 30% of every cache every 5 ms
	}
	cfg := &config.Server{StoragePath: dir, CacheEvictThreshold: thr, CacheEvictVolume: 0.3,
		MaxNodesSerialization: 2048, MaxNodesRender: 2048, BadgerLogLevel: "error"}
	if in.Retention {
		cfg.Retention = 24 * time.Hour
	}
	st, err := storage.New(cfg)
	return st, dir, err
}

func sharedName(in Input) string {
	if in.Labels {
		return "shared{foo=bar}"
	}
	return "shared{}"
}

func readShared(st *storage.Storage, key *storage.Key, t0 time.Time, nslots int) readRec {
	return readRange(st, key, t0, 0, nslots)
}

func readRange(st *storage.Storage, key *storage.Key, t0 time.Time, fromSlot, toSlot int) readRec {
	var rr readRec
	rr.start = int64(time.Since(t0))
	out, err := st.Get(&storage.GetInput{StartTime: time.Unix(baseTime+int64(fromSlot)*10, 0), EndTime: time.Unix(baseTime+int64(toSlot)*10, 0), Key: key})
	rr.end = int64(time.Since(t0))
	if err != nil || out == nil || out.Tree == nil {
		rr.nilOut = true
		return rr
	}
	flatten(out.Tree.VerifDump(), nil, func(stack string, v uint64) {
		switch {
		case strings.HasPrefix(stack, "c;"):
			rr.common += v
		case strings.HasPrefix(stack, "u"):
			rr.uniq = append(rr.uniq, fmt.Sprintf("%s=%d", stack[1:], v))
		default:
			rr.other += v
		}
	})
	if out.Timeline != nil {
		rr.timeline = append([]uint64{}, out.Timeline.Samples...)
	}
	return rr
}

// one unique stack and three common stacks under one frame: the frame "c" has three children (a slice with spare
// capacity) and the unique stacks sort after it, so serializers walk through the shape that the work-list idiom
// `append(node.ChildrenNodes, nodes...)` writes into
func ingestProfile(w, j int) map[string]uint64 {
	return map[string]uint64{fmt.Sprintf("u%d_%d", w, j): 1, "c;p": 1, "c;q": 1, "c;r": 1}
}

func put(st *storage.Storage, key *storage.Key, slot int, stacks map[string]uint64) error {
	return putSpan(st, key, slot, 1, stacks)
}

// an upload covering span slots; every count is multiplied by span so that each slot's share is the given count
func putSpan(st *storage.Storage, key *storage.Key, slot, span int, stacks map[string]uint64) error {
	t := tree.New()
	for s, v := range stacks {
		t.Insert([]byte(s), v*uint64(span))
	}
	from := baseTime + int64(slot)*10
	return st.Put(&storage.PutInput{StartTime: time.Unix(from, 0), EndTime: time.Unix(from+int64(span)*10, 0), Key: key, Val: t,
		SpyName: "gospy", SampleRate: 100, Units: "samples", AggregationType: "sum"})
}

func watchdog(what string, d time.Duration) (cancel func()) {
	done := make(chan struct{})
	go func() {
		select {
		case <-done:
		case <-time.After(d):
			buf := make([]byte, 1<<20)
			buf = buf[:runtime.Stack(buf, true)]
			fmt.Fprintf(os.Stderr, "C08 HANG (deadlock?) in %s: no completion after %v\n", what, d)
			for _, g := range strings.Split(string(buf), "\n\n") {
				if strings.Contains(g, "sync.(*RWMutex)") || strings.Contains(g, "sync.(*Mutex)") {
					lines := strings.Split(g, "\n")
					fmt.Fprintln(os.Stderr, lines[0])
					for _, l := range lines {
						if strings.HasPrefix(l, "sync.(") || strings.HasPrefix(l, "github.com/pyroscope-io/pyroscope/pkg/storage") {
							fmt.Fprintln(os.Stderr, "   "+strings.SplitN(l, "(0x", 2)[0])
						}
					}
				}
			}
			os.Exit(3)
		}
	}()
	return func() { close(done) }
}

func coqIDs(xs []string) string { // "w_j=count" -> (w, j, count)
	items := make([]string, 0, len(xs))
	sort.Strings(xs)
	for _, x := range xs {
		var w, j int
		var c uint64
		if _, err := fmt.Sscanf(x, "%d_%d=%d", &w, &j, &c); err == nil {
			items = append(items, fmt.Sprintf("(%s, %s, %d)", lib.Nat(w), lib.Nat(j), c))
		} else {
			items = append(items, fmt.Sprintf("(%s, %s, %d)", lib.Nat(999), lib.Nat(999), 1))
		}
	}
	return lib.List(items)
}

func coqIngest(g ingestRec) string {
	span := g.span
	if span < 1 {
		span = 1
	}
	return fmt.Sprintf("{| ig_w := %s; ig_j := %s; ig_slot := %s; ig_span := %d; ig_start := %s; ig_end := %s |}",
		lib.Nat(g.w), lib.Nat(g.j), lib.Nat(g.slot), span, lib.Z(g.start), lib.Z(g.end))
}

func coqRead(r readRec) string {
	tl := make([]string, len(r.timeline))
	for i, v := range r.timeline {
		tl[i] = lib.N(v)
	}
	return fmt.Sprintf("{| rd_start := %s; rd_end := %s; rd_uniq := %s; rd_common := %d; rd_other := %d; rd_timeline := %s; rd_nil := %s |}",
		lib.Z(r.start), lib.Z(r.end), coqIDs(r.uniq), r.common, r.other, lib.List(tl), lib.Bool(r.nilOut))
}

func runConcurrent(in Input) lib.Result {
	st, dir, err := newStorage(in)
	if err != nil {
		return lib.Result{Crash: "storage.New: " + err.Error()}
	}
	defer os.RemoveAll(dir)
	limit := 40 * time.Second
	if in.Stream == "delete" || in.Retention {
		limit = 12 * time.Second
	}
	cancel := watchdog(fmt.Sprintf("stream %s (writers %d, readers %d)", in.Stream, in.Writers, in.Readers), limit)
	defer cancel()

	r := rand.New(rand.NewSource(in.Seed))
	shared, _ := storage.ParseKey(sharedName(in))
	nIng := in.Writers * in.PerWriter
	nslots := nIng + 2
	// slot of ingest (w, j): all different (one tree per ingest at depth 0, aggregated above), or all equal
	var slotOf func(w, j int) int
	slotOf = func(w, j int) int {
		if in.SameSlot {
			return 1
		}
		return 1 + w*in.PerWriter + j
	}
	// stream "straddle": every upload covers 2-3 slots across the 100 s boundary at slot 20; renders cover
	// [boundary-20 s, boundary+100 s): two 10 s buckets and the aggregated 100 s bucket (made present by two earlier uploads)
	const bs = 20
	straddle := in.Stream == "straddle"
	rdFrom, rdTo := 0, nslots
	spanOf := func(w, j int) int { return 1 }
	if straddle {
		in.ColdStart = true
		rdFrom, rdTo = bs-2, bs+10
		for _, sl := range []int{bs + 3, bs + 5} {
			if err := put(st, shared, sl, map[string]uint64{"pre": 4}); err != nil {
				return lib.Result{Crash: "pre-Put: " + err.Error()}
			}
		}
		kinds := [][2]int{{bs - 2, 3}, {bs - 1, 2}, {bs - 1, 3}}
		slotOf = func(w, j int) int { return kinds[(w*7+j*3+int(in.Seed%3))%3][0] }
		spanOf = func(w, j int) int { return kinds[(w*7+j*3+int(in.Seed%3))%3][1] }
	}
	if in.Labels && !in.ColdStart && !straddle && in.Stream != "delete" {
		// a sibling series matching the readers' selector shared{foo=bar}, with data outside the rendered range: renders
		// fan out over two series (a query that selects several series), their answers are unchanged
		sib, _ := storage.ParseKey("shared{foo=bar,sib=1}")
		if err := put(st, sib, nslots+5, map[string]uint64{"sib": 4}); err != nil {
			return lib.Result{Crash: "sibling pre-Put: " + err.Error()}
		}
	}
	if !in.ColdStart {
		// the shared series exists before anyone reads it
		if err := put(st, shared, 0, map[string]uint64{"pre": 4}); err != nil {
			return lib.Result{Crash: "pre-Put: " + err.Error()}
		}
	}

	t0 := time.Now()
	var wg sync.WaitGroup
	ingests := make([][]ingestRec, in.Writers)
	var writersDone int32
	var putErr atomic.Value
	reads := make([][]readRec, in.Readers)
	var deleted int64
	refusedOK := true

	for w := 0; w < in.Writers; w++ {
		wg.Add(1)
		go func(w int) {
			defer wg.Done()
			own, _ := storage.ParseKey(fmt.Sprintf("own{w=%d}", w))
			rw := rand.New(rand.NewSource(in.Seed + int64(w)*7919))
			for j := 0; j < in.PerWriter; j++ {
				if err := put(st, own, j, map[string]uint64{"own": 1}); err != nil {
					putErr.Store(err.Error())
				}
				if in.Retention && w == 0 && j == in.PerWriter/2 {
					// older than the retention period: Put must refuse it (and return)
					old := tree.New()
					old.Insert([]byte("uold"), 1)
					from := time.Now().Add(-48 * time.Hour).Truncate(10 * time.Second)
					err := st.Put(&storage.PutInput{StartTime: from, EndTime: from.Add(10 * time.Second), Key: shared, Val: old,
						SpyName: "gospy", SampleRate: 100, Units: "samples", AggregationType: "sum"})
					if err == nil {
						refusedOK = false
					}
				}
				rec := ingestRec{w: w, j: j, slot: slotOf(w, j), span: spanOf(w, j)}
				rec.start = int64(time.Since(t0))
				err := putSpan(st, shared, rec.slot, rec.span, ingestProfile(w, j))
				rec.end = int64(time.Since(t0))
				if err != nil {
					putErr.Store(err.Error())
				}
				ingests[w] = append(ingests[w], rec)
				if in.Stream == "delete" {
					// keep the renders / ingests / deletes running against each other for about 1.5 s
					time.Sleep(1500 * time.Millisecond / time.Duration(in.PerWriter))
				} else if rw.Intn(3) == 0 {
					time.Sleep(time.Duration(rw.Intn(300)) * time.Microsecond)
				}
			}
		}(w)
	}
	var rwg sync.WaitGroup
	for q := 0; q < in.Readers; q++ {
		rwg.Add(1)
		go func(q int) {
			defer rwg.Done()
			rq := rand.New(rand.NewSource(in.Seed + int64(q)*104729 + 1))
			for atomic.LoadInt32(&writersDone) == 0 {
				rd := readRange(st, shared, t0, rdFrom, rdTo)
				if len(reads[q]) < maxReads {
					reads[q] = append(reads[q], rd)
				} else if in.Stream != "delete" {
					break
				}
				if in.Stream != "delete" && rq.Intn(2) == 0 {
					time.Sleep(time.Duration(rq.Intn(200)) * time.Microsecond)
				}
			}
		}(q)
	}
	var dwg sync.WaitGroup
	if in.Stream == "delete" {
		for x := 0; x < 6; x++ { // more renders through Intersection (two dimensions, map order)
			dwg.Add(1)
			go func() {
				defer dwg.Done()
				for atomic.LoadInt32(&writersDone) == 0 {
					st.Get(&storage.GetInput{StartTime: time.Unix(baseTime, 0), EndTime: time.Unix(baseTime+1000, 0), Key: shared})
				}
			}()
		}
		// series that share both dimensions with the shared series are created and deleted all the time
		dwg.Add(1)
		go func() {
			defer dwg.Done()
			for i := 0; atomic.LoadInt32(&writersDone) == 0; i++ {
				k, _ := storage.ParseKey(fmt.Sprintf("shared{foo=bar,tmp=%d}", i%4))
				st.Delete(&storage.DeleteInput{Key: k})
				atomic.AddInt64(&deleted, 1)
			}
		}()
		dwg.Add(1)
		go func() {
			defer dwg.Done()
			for i := 0; atomic.LoadInt32(&writersDone) == 0; i++ {
				k, _ := storage.ParseKey(fmt.Sprintf("shared{foo=bar,tmp=%d}", (i+2)%4))
				put(st, k, i%50, map[string]uint64{"tmp": 1})
			}
		}()
	}
	_ = r
	wg.Wait()
	atomic.StoreInt32(&writersDone, 1)
	rwg.Wait()
	dwg.Wait()

	// quiescent: all ingests have returned
	final := readRange(st, shared, t0, rdFrom, rdTo)
	ownTotals := make([]string, in.Writers)
	for w := 0; w < in.Writers; w++ {
		own, _ := storage.ParseKey(fmt.Sprintf("own{w=%d}", w))
		out, _ := st.Get(&storage.GetInput{StartTime: time.Unix(baseTime, 0), EndTime: time.Unix(baseTime+int64(in.PerWriter+1)*10, 0), Key: own})
		var tot uint64
		if out != nil && out.Tree != nil {
			flatten(out.Tree.VerifDump(), nil, func(s string, v uint64) { tot += v })
		}
		ownTotals[w] = lib.N(tot)
	}
	st.Close()

	// ---- dump ----
	ingTerms := []string{}
	for w := range ingests {
		for _, g := range ingests[w] {
			ingTerms = append(ingTerms, coqIngest(g))
		}
	}
	readTerms := []string{}
	overlaps, nreads := 0, 0
	for q := range reads {
		for _, rd := range reads[q] {
			readTerms = append(readTerms, coqRead(rd))
			nreads++
			for w := range ingests {
				for _, g := range ingests[w] {
					if g.start < rd.end && rd.start < g.end {
						overlaps++
					}
				}
			}
		}
	}
	perr := ""
	if v := putErr.Load(); v != nil {
		perr = v.(string)
	}
	coq := "{| k_stream := " + lib.Str(in.Stream) + "; k_writers := " + lib.Nat(in.Writers) + "; k_per_writer := " + lib.Nat(in.PerWriter) +
		"; k_same_slot := " + lib.Bool(in.SameSlot) + "; k_cold := " + lib.Bool(in.ColdStart) +
		"; k_ingests := " + lib.List(ingTerms) + "; k_reads := " + lib.List(readTerms) + "; k_final := " + coqRead(final) +
		"; k_own_totals := " + lib.List(ownTotals) + "; k_put_error := " + lib.Bool(perr != "" || !refusedOK) + " |}"
	return lib.Result{
		Coq:        coq,
		NonTrivial: overlaps > 0,
		Feat: map[string]interface{}{"stream": in.Stream, "writers": in.Writers, "readers": in.Readers, "per_writer": in.PerWriter,
			"labels": in.Labels, "cold_start": in.ColdStart, "same_slot": in.SameSlot, "procs": in.Procs, "retention": in.Retention,
			"read_overlaps_write": overlaps > 0},
		Obs: map[string]interface{}{"reads": nreads, "read_write_overlaps": overlaps, "final_common": final.common, "final_uniq": len(final.uniq),
			"put_error": perr, "deletes": deleted, "wall_ms": time.Since(t0).Milliseconds()},
	}
}

// deterministic schedule for the cache-miss race repaired by /repo 39795c3: a render of a series that does not exist yet is
// held for 50 ms between its cache miss and the creation of its object (inside the cache's exported New field) while the
// first ingest of the series runs; afterwards the ingest must be visible.
func runGateMiss(in Input) lib.Result {
	which := strings.TrimPrefix(in.Stream, "gate-miss-")
	in2 := in
	in2.Stream = "main"
	st, dir, err := newStorage(in2)
	if err != nil {
		return lib.Result{Crash: "storage.New: " + err.Error()}
	}
	defer os.RemoveAll(dir)
	cancel := watchdog("gate-miss "+which, 20*time.Second)
	defer cancel()
	shared, _ := storage.ParseKey("shared{}")
	c := st.VerifCache(which)
	orig := c.New
	var calls int32
	entered := make(chan struct{}, 4)
	second := make(chan struct{}, 4)
	c.New = func(k string) interface{} {
		switch atomic.AddInt32(&calls, 1) {
		case 1:
			entered <- struct{}{}
			if which == "segments" {
				// the writer: wait for the render to miss the same segment (only possible when misses are not
				// serialized), at most 50 ms
				select {
				case <-second:
				case <-time.After(50 * time.Millisecond):
				}
			} else {
				time.Sleep(50 * time.Millisecond)
			}
		case 2:
			if which == "segments" {
				// the render, inside its own miss of the same key while the writer is still creating its object:
				// let the writer finish and be acknowledged before this miss ends with its lfu.Set
				second <- struct{}{}
				time.Sleep(30 * time.Millisecond)
			}
		}
		return orig(k)
	}
	t0 := time.Now()
	var rec ingestRec
	if which == "segments" {
		// the writer creates the segment (first call of New, held 50 ms after it listed the series in the dimension),
		// the render misses the same segment meanwhile
		ack := make(chan struct{})
		go func() {
			rec = ingestRec{w: 0, j: 0, slot: 1, start: int64(time.Since(t0))}
			put(st, shared, 1, ingestProfile(0, 0))
			rec.end = int64(time.Since(t0))
			close(ack)
		}()
		<-entered
		rd := readShared(st, shared, t0, 3)
		<-ack
		final := readShared(st, shared, t0, 3)
		st.Close()
		return gateResult(in, rec, rd, final)
	}
	done := make(chan readRec)
	go func() { done <- readShared(st, shared, t0, 3) }()
	<-entered
	rec = ingestRec{w: 0, j: 0, slot: 1, start: int64(time.Since(t0))}
	put(st, shared, 1, ingestProfile(0, 0))
	rec.end = int64(time.Since(t0))
	rd := <-done
	final := readShared(st, shared, t0, 3)
	st.Close()
	return gateResult(in, rec, rd, final)
}

func gateResult(in Input, g ingestRec, rd, final readRec) lib.Result {
	return gateResultN(in, []ingestRec{g}, rd, final)
}

func gateResultN(in Input, gs []ingestRec, rd, final readRec) lib.Result {
	ings := make([]string, len(gs))
	for i, g := range gs {
		ings[i] = coqIngest(g)
	}
	coq := "{| k_stream := " + lib.Str(in.Stream) + "; k_writers := " + lib.Nat(1) + "; k_per_writer := " + lib.Nat(len(gs)) +
		"; k_same_slot := false; k_cold := true; k_ingests := " + lib.List(ings) + "; k_reads := " + lib.List([]string{coqRead(rd)}) +
		"; k_final := " + coqRead(final) + "; k_own_totals := []; k_put_error := false |}"
	return lib.Result{Coq: coq, NonTrivial: true,
		Feat: map[string]interface{}{"stream": in.Stream},
		Obs:  map[string]interface{}{"final_common": final.common, "final_uniq": len(final.uniq)}}
}

// dimension level: renders intersecting two dimensions in both orders, one inserting and one deleting writer, 1 s.
// With read locks of several dimensions held together (before /repo 560e1ec) this stops making progress within ~0.5 s.
func runDims(in Input) lib.Result {
	a, b := dimension.New(), dimension.New()
	for i := 0; i < 50; i++ {
		a.Insert(dimension.Key(fmt.Sprintf("k%03d", i)))
		b.Insert(dimension.Key(fmt.Sprintf("k%03d", i)))
	}
	var ops, stop int64
	var bad int64
	var wg sync.WaitGroup
	for r := 0; r < in.Readers; r++ {
		wg.Add(1)
		go func(r int) {
			defer wg.Done()
			rr := rand.New(rand.NewSource(in.Seed + int64(r)))
			for atomic.LoadInt64(&stop) == 0 {
				var ks []dimension.Key
				if rr.Intn(2) == 0 {
					ks = dimension.Intersection(a, b)
				} else {
					ks = dimension.Intersection(b, a)
				}
				n := 0
				for _, k := range ks { // the 50 permanent keys are in both dimensions at all times
					if k[0] == 'k' {
						n++
					}
				}
				if n != 50 {
					atomic.AddInt64(&bad, 1)
				}
				atomic.AddInt64(&ops, 1)
			}
		}(r)
	}
	wg.Add(2)
	go func() {
		defer wg.Done()
		for i := 0; atomic.LoadInt64(&stop) == 0; i++ {
			a.Insert(dimension.Key(fmt.Sprintf("w%03d", i%100)))
			b.Insert(dimension.Key(fmt.Sprintf("w%03d", i%100)))
			atomic.AddInt64(&ops, 1)
		}
	}()
	go func() {
		defer wg.Done()
		for i := 0; atomic.LoadInt64(&stop) == 0; i++ {
			b.Delete(dimension.Key(fmt.Sprintf("w%03d", i%100)))
			a.Delete(dimension.Key(fmt.Sprintf("w%03d", i%100)))
			atomic.AddInt64(&ops, 1)
		}
	}()
	last, still, stuck := int64(-1), 0, false
	for t := 0; t < 8 && !stuck; t++ {
		time.Sleep(125 * time.Millisecond)
		cur := atomic.LoadInt64(&ops)
		if cur == last {
			still++
			if still >= 4 { // half a second without a single operation by ten goroutines
				stuck = true
			}
			t--
		} else {
			still = 0
		}
		last = cur
	}
	atomic.StoreInt64(&stop, 1)
	if stuck {
		fmt.Fprintf(os.Stderr, "C08 HANG: dimension.Intersection / Insert / Delete made no progress for 500 ms after %d operations\n", last)
		os.Exit(3)
	}
	wg.Wait()
	coq := "{| k_stream := " + lib.Str("dims") + "; k_writers := 0%nat; k_per_writer := 0%nat; k_same_slot := false; k_cold := false; k_ingests := []; k_reads := []" +
		"; k_final := {| rd_start := 0%Z; rd_end := 0%Z; rd_uniq := []; rd_common := 0; rd_other := " + lib.N(uint64(bad)) + "; rd_timeline := []; rd_nil := false |}" +
		"; k_own_totals := []; k_put_error := false |}"
	return lib.Result{Coq: coq, NonTrivial: true, Feat: map[string]interface{}{"stream": "dims", "readers": in.Readers},
		Obs: map[string]interface{}{"ops": last, "wrong_intersections": bad}}
}

// deterministic storage-level schedule for "two goroutines serialize one cached tree at the same time": the write-back
// goroutine is delayed (by a sleep, i.e. without creating a happens-before edge) just before it serializes tree K; meanwhile
// a render touches K (the lfu clears its persisted mark) and an eviction hands K to the eviction goroutine, which
// serializes it; then the write-back goroutine serializes K too. Both hold only K's read lock.
func runGateTreeSave(in Input) lib.Result {
	storage.VerifDisablePeriodicTasks()
	dir, err := os.MkdirTemp("", "agentb-c08-")
	if err != nil {
		return lib.Result{Crash: err.Error()}
	}
	defer os.RemoveAll(dir)
	st, err := storage.New(&config.Server{StoragePath: dir, CacheEvictThreshold: 0.99, CacheEvictVolume: 0.3,
		MaxNodesSerialization: 2048, MaxNodesRender: 2048, BadgerLogLevel: "error"})
	if err != nil {
		return lib.Result{Crash: "storage.New: " + err.Error()}
	}
	cancel := watchdog("gate-tree-save", 20*time.Second)
	defer cancel()
	var treeSaves int32
	var gmu sync.Mutex
	waiting := map[string]chan struct{}{}
	st.VerifWrapCaches(func(cacheName, key string) {
		if cacheName != "trees" {
			return
		}
		atomic.AddInt32(&treeSaves, 1)
		// rendezvous: the first saver of a tree waits (at most 30 ms) for a second saver of the same tree; both are
		// released by the same close() and enter Serialize at the same moment, unordered with respect to each other
		gmu.Lock()
		ch, ok := waiting[key]
		if ok {
			delete(waiting, key)
			gmu.Unlock()
			close(ch)
			return
		}
		ch = make(chan struct{})
		waiting[key] = ch
		gmu.Unlock()
		select {
		case <-ch:
		case <-time.After(1 * time.Millisecond):
			gmu.Lock()
			delete(waiting, key)
			gmu.Unlock()
		}
	})
	shared, _ := storage.ParseKey("shared{}")
	t0 := time.Now()
	rec := ingestRec{w: 0, j: 0, slot: 1, start: int64(time.Since(t0))}
	trees := st.VerifCache("trees")
	rounds := 40
	for i := 0; i < rounds; i++ {
		put(st, shared, 1+i, ingestProfile(0, i))
		trees.WriteBack()                          // one tree goes to the write-back goroutine, which waits at the rendezvous
		for j := 0; j <= i; j++ { // touches every bucket's own tree: persisted marks cleared
			st.Get(&storage.GetInput{StartTime: time.Unix(baseTime+int64(1+j)*10, 0), EndTime: time.Unix(baseTime+int64(2+j)*10, 0), Key: shared})
		}
		trees.Evict(1.0)                           // every tree goes to the eviction goroutine, one after the other
	}
	rec.end = int64(time.Since(t0))
	time.Sleep(50 * time.Millisecond)
	final := readShared(st, shared, t0, rounds+2)
	st.Close()
	res := gateResult(in, rec, final, final)
	res.Coq = "" // evidence run only (race detector); nothing for the oracle
	res.Obs = map[string]interface{}{"tree_saves": atomic.LoadInt32(&treeSaves), "final_common": final.common, "final_uniq": len(final.uniq)}
	return res
}

// deterministic schedule "after a restart": the dimensions of the shared series are on disk but not in the lfu; a render
// is held for 50 ms inside the deserialization of a dimension (the cache's exported FromBytes field) while the first
// ingest of a NEW sibling series (sharing that dimension) runs and is acknowledged; afterwards the sibling must be visible.
func runGateRestart(in Input) lib.Result {
	storage.VerifDisablePeriodicTasks()
	dir, err := os.MkdirTemp("", "agentb-c08-")
	if err != nil {
		return lib.Result{Crash: err.Error()}
	}
	defer os.RemoveAll(dir)
	cfg := &config.Server{StoragePath: dir, CacheEvictThreshold: 0.99, CacheEvictVolume: 0.3,
		MaxNodesSerialization: 2048, MaxNodesRender: 2048, BadgerLogLevel: "error"}
	st, err := storage.New(cfg)
	if err != nil {
		return lib.Result{Crash: "storage.New: " + err.Error()}
	}
	cancel := watchdog("gate-restart", 30*time.Second)
	defer cancel()
	t0 := time.Now()
	base, _ := storage.ParseKey("shared{foo=bar}")
	sibling, _ := storage.ParseKey("shared{foo=bar,x=1}")
	g0 := ingestRec{w: 0, j: 0, slot: 1, start: int64(time.Since(t0))}
	put(st, base, 1, ingestProfile(0, 0))
	g0.end = int64(time.Since(t0))
	st.Close() // graceful: everything is flushed to Badger
	st, err = storage.New(cfg)
	if err != nil {
		return lib.Result{Crash: "storage.New after restart: " + err.Error()}
	}
	c := st.VerifCache("dimensions")
	orig := c.FromBytes
	var calls int32
	entered := make(chan struct{}, 4)
	c.FromBytes = func(k string, v []byte) (interface{}, error) {
		if atomic.AddInt32(&calls, 1) == 1 {
			entered <- struct{}{}
			time.Sleep(50 * time.Millisecond)
		}
		return orig(k, v)
	}
	done := make(chan readRec)
	go func() { done <- readShared(st, base, t0, 4) }()
	select {
	case <-entered:
	case <-time.After(5 * time.Second):
		return lib.Result{Crash: "gate-restart: the render never deserialized a dimension"}
	}
	g1 := ingestRec{w: 0, j: 1, slot: 2, start: int64(time.Since(t0))}
	put(st, sibling, 2, ingestProfile(0, 1))
	g1.end = int64(time.Since(t0))
	rd := <-done
	final := readShared(st, base, t0, 4)
	st.Close()
	return gateResultN(in, []ingestRec{g0, g1}, rd, final)
}

// deterministic schedule "a write-back tick inside one Put, between trees.Get and the merge" (the addon loop lies in
// between): two single-slot uploads into one 100 s bucket; before the second one every tree is evicted, so that the
// addon lookup of the first slot's tree reloads it through the trees cache's exported FromBytes field; at that moment the
// bucket's aggregated tree sits in the cache, freshly created and not merged into yet, and the wrapper runs one write-back
// of the trees cache and waits for it. Put then merges; afterwards everything is evicted and the bucket is rendered:
// both uploads must be there (Put's trees.Put after the merge is what clears the lfu's persisted mark).
func runGateWriteBackInPut(in Input) lib.Result {
	storage.VerifDisablePeriodicTasks()
	dir, err := os.MkdirTemp("", "agentb-c08-")
	if err != nil {
		return lib.Result{Crash: err.Error()}
	}
	defer os.RemoveAll(dir)
	st, err := storage.New(&config.Server{StoragePath: dir, CacheEvictThreshold: 0.99, CacheEvictVolume: 0.3,
		MaxNodesSerialization: 2048, MaxNodesRender: 2048, BadgerLogLevel: "error"})
	if err != nil {
		return lib.Result{Crash: "storage.New: " + err.Error()}
	}
	cancel := watchdog("gate-writeback-in-put", 30*time.Second)
	defer cancel()
	st.VerifWrapCaches(nil)
	shared, _ := storage.ParseKey("shared{}")
	t0 := time.Now()
	g0 := ingestRec{w: 0, j: 0, slot: 11, start: int64(time.Since(t0))}
	put(st, shared, 11, ingestProfile(0, 0))
	g0.end = int64(time.Since(t0))
	st.VerifEvict("trees", 1.0) // the first slot's tree is on disk only
	trees := st.VerifCache("trees")
	orig := trees.FromBytes
	var ticks int32
	trees.FromBytes = func(k string, v []byte) (interface{}, error) {
		if atomic.AddInt32(&ticks, 1) == 1 {
			trees.WriteBack()    // one write-back tick of the trees cache ...
			trees.VerifBarrier() // ... whose saves have completed
		}
		return orig(k, v)
	}
	g1 := ingestRec{w: 0, j: 1, slot: 14, start: int64(time.Since(t0))}
	put(st, shared, 14, ingestProfile(0, 1))
	g1.end = int64(time.Since(t0))
	st.VerifEvict("trees", 1.0)
	rd := readRange(st, shared, t0, 10, 20) // the aggregated 100 s bucket
	final := readRange(st, shared, t0, 10, 20)
	st.Close()
	res := gateResultN(in, []ingestRec{g0, g1}, rd, final)
	res.Obs = map[string]interface{}{"reloads_in_put": atomic.LoadInt32(&ticks), "final_common": final.common, "final_uniq": len(final.uniq)}
	return res
}

// Tree / Dict API level: several goroutines traverse ONE tree (SerializeNoDict, FlamebearerStruct) and ONE dictionary
// (Bytes) at the same time, holding only read locks. The shapes are those in which the old work-list idiom
// `append(node.children, pending...)` wrote in place: a frame with 3, 5, 6 or 7 children (capacity 4 / 8) followed by
// at most (capacity - children) pending siblings. Guarded by the race detector (/repo b9a3d3a); the outputs of the
// concurrent traversals are also compared with a sequential one.
func runTreeReaders(in Input) lib.Result {
	r := rand.New(rand.NewSource(in.Seed))
	var mismatches int64
	rounds := 0
	for _, nch := range []int{3, 5, 6, 7} {
		spare := 4 - nch
		if nch > 4 {
			spare = 8 - nch
		}
		for pend := 1; pend <= spare; pend++ {
			rounds++
			t := tree.New()
			d := dict.New()
			lead := r.Intn(3) // frames sorting before the wide one (already visited when it is reached)
			for i := 0; i < lead; i++ {
				t.Insert([]byte(fmt.Sprintf("A%d", i)), uint64(r.Intn(5)+1))
				d.Put([]byte(fmt.Sprintf("A%d", i)))
			}
			for i := 0; i < nch; i++ {
				t.Insert([]byte(fmt.Sprintf("a;x%d", i)), uint64(r.Intn(5)+1))
				d.Put([]byte(fmt.Sprintf("a%c", 'p'+i)))
			}
			for i := 0; i < pend; i++ {
				t.Insert([]byte(fmt.Sprintf("b%d", i)), uint64(r.Intn(5)+1))
				d.Put([]byte(fmt.Sprintf("%c", 'b'+i)))
			}
			var base bytes.Buffer
			t.SerializeNoDict(1024, &base)
			baseFlame, _ := json.Marshal(t.FlamebearerStruct(1024))
			baseDict, _ := d.Bytes()
			var goFlag int32
			var wg sync.WaitGroup
			for gi := 0; gi < 4+2; gi++ {
				wg.Add(1)
				go func(gi int) {
					defer wg.Done()
					for atomic.LoadInt32(&goFlag) == 0 {
					}
					for k := 0; k < 30; k++ {
						switch {
						case gi >= 4:
							b, _ := d.Bytes()
							if !bytes.Equal(b, baseDict) {
								atomic.AddInt64(&mismatches, 1)
							}
						case gi%2 == 0:
							var buf bytes.Buffer
							t.SerializeNoDict(1024, &buf)
							if !bytes.Equal(buf.Bytes(), base.Bytes()) {
								atomic.AddInt64(&mismatches, 1)
							}
						default:
							f, _ := json.Marshal(t.FlamebearerStruct(1024))
							if !bytes.Equal(f, baseFlame) {
								atomic.AddInt64(&mismatches, 1)
							}
						}
					}
				}(gi)
			}
			atomic.StoreInt32(&goFlag, 1)
			wg.Wait()
		}
	}
	coq := "{| k_stream := " + lib.Str("tree-readers") + "; k_writers := 0%nat; k_per_writer := 0%nat; k_same_slot := false; k_cold := false; k_ingests := []; k_reads := []" +
		"; k_final := {| rd_start := 0%Z; rd_end := 0%Z; rd_uniq := []; rd_common := 0; rd_other := " + lib.N(uint64(mismatches)) + "; rd_timeline := []; rd_nil := false |}" +
		"; k_own_totals := []; k_put_error := false |}"
	return lib.Result{Coq: coq, NonTrivial: true, Feat: map[string]interface{}{"stream": "tree-readers"},
		Obs: map[string]interface{}{"shapes": rounds, "mismatching_outputs": mismatches}}
}

func run(in Input) lib.Result {
	if in.Procs > 0 {
		prev := runtime.GOMAXPROCS(in.Procs)
		defer runtime.GOMAXPROCS(prev)
	}
	if in.Writers < 1 {
		in.Writers = 1
	}
	if in.Readers < 1 {
		in.Readers = 1
	}
	if in.PerWriter < 1 {
		in.PerWriter = 1
	}
	baseTime = defaultBaseTime
	if in.Retention && in.Stream == "main" {
		baseTime = (time.Now().Unix() - 7200) / 1000 * 1000
	} else {
		in.Retention = false
	}
	if strings.HasPrefix(in.Stream, "gate-miss-") {
		return runGateMiss(in)
	}
	if in.Stream == "dims" {
		return runDims(in)
	}
	if in.Stream == "tree-readers" {
		return runTreeReaders(in)
	}
	if in.Stream == "gate-writeback-in-put" {
		return runGateWriteBackInPut(in)
	}
	if in.Stream == "gate-restart-dimensions" {
		return runGateRestart(in)
	}
	if in.Stream == "gate-tree-save" {
		return runGateTreeSave(in)
	}
	if in.Stream == "delete" {
		in.Labels = true
	}
	return runConcurrent(in)
}

func gen(r *rand.Rand, idx int, tier string) Input {
	in := Input{Stream: "main", Writers: lib.Range(r, 1, 8), Readers: lib.Range(r, 1, 8), PerWriter: lib.Range(r, 2, 6),
		Labels: lib.Chance(r, 0.5), ColdStart: lib.Chance(r, 0.5), SameSlot: lib.Chance(r, 0.3),
		Procs: lib.Pick(r, []int{2, 4, 8, 16}), Seed: r.Int63()}
	if idx%14 == 7 {
		in.Stream = "tree-readers"
		return in
	}
	in.Retention = lib.Chance(r, 0.5) // only used by the main stream
	switch idx % 7 {
	case 4:
		in.Stream = "evict"
	case 5:
		in.Stream = "delete"
		in.Writers, in.Readers, in.PerWriter = lib.Range(r, 2, 4), lib.Range(r, 4, 8), lib.Range(r, 3, 6)
	case 6:
		in.Stream = "dims"
		in.Readers = lib.Range(r, 2, 8)
	case 1, 3:
		in.Stream = "straddle"
		in.Writers, in.Readers, in.PerWriter = lib.Range(r, 2, 6), lib.Range(r, 3, 8), lib.Range(r, 3, 6)
		in.SameSlot = false
	}
	return in
}

func main() {
	logrus.SetOutput(io.Discard)
	lib.Main(lib.Harness[Input]{Prop: "C08", Quick: 84, Thorough: 700, Gen: gen, Run: run})
}
