//go:build verif

package main

import (
	"fmt"
	"io"
	"os"
	"strings"
	"sync"
	"time"

	"github.com/sirupsen/logrus"

	"github.com/pyroscope-io/pyroscope/pkg/config"
	"github.com/pyroscope-io/pyroscope/pkg/storage"
	"github.com/pyroscope-io/pyroscope/pkg/storage/tree"
)

func flatten(n *tree.VerifNode, prefix []string, cb func(stack string, v uint64)) {
	p := prefix
	if len(n.Name) > 0 {
		p = append(append([]string{}, prefix...), string(n.Name))
	}
	if n.Self > 0 {
		cb(strings.Join(p, ";"), n.Self)
	}
	for _, c := range n.Children {
		flatten(c, p, cb)
	}
}

// deterministic schedule: a render of a series that does not exist yet is held between its cache miss and
// its lfu.Set (inside the cache's New callback); meanwhile one ingest into that series runs to completion and
// is acknowledged; then the render continues.  which = "segments" | "dimensions"
func demo(which string) {
	dir, _ := os.MkdirTemp("", "agentb-x-")
	defer os.RemoveAll(dir)
	st, err := storage.New(&config.Server{StoragePath: dir, CacheEvictThreshold: 0.99, CacheEvictVolume: 0.1, MaxNodesSerialization: 2048, MaxNodesRender: 2048})
	if err != nil {
		panic(err)
	}
	defer st.Close()
	key, _ := storage.ParseKey("app.cpu{}")
	get := func() string {
		out, _ := st.Get(&storage.GetInput{StartTime: time.Unix(1500000000, 0), EndTime: time.Unix(1700000000, 0), Key: key})
		got := []string{}
		if out != nil && out.Tree != nil {
			flatten(out.Tree.VerifDump(), nil, func(s string, v uint64) { got = append(got, fmt.Sprintf("%s=%d", s, v)) })
		}
		return fmt.Sprint(got)
	}
	put := func(i int) {
		t := tree.New()
		t.Insert([]byte(fmt.Sprintf("s%d", i)), 1)
		from := int64(1600000000 + i*10)
		if err := st.Put(&storage.PutInput{StartTime: time.Unix(from, 0), EndTime: time.Unix(from+10, 0), Key: key, Val: t, SpyName: "gospy", SampleRate: 100, Units: "samples", AggregationType: "sum"}); err != nil {
			panic(err)
		}
	}
	if which == "segments" {
		put(0) // the dimension exists, so the render reaches the segment lookup; use a second series for the race
		key, _ = storage.ParseKey("app.cpu{}")
	}
	c := st.VerifCache(which)
	orig := c.New
	entered, release := make(chan struct{}), make(chan struct{})
	first := true
	c.New = func(k string) interface{} {
		if first {
			first = false
			close(entered)
			<-release
		}
		return orig(k)
	}
	if which == "segments" {
		// drop the segment of the series from the cache view by using a fresh series that shares the dimension
		key, _ = storage.ParseKey("app.cpu{}")
	}
	done := make(chan string)
	go func() { done <- get() }()
	select {
	case <-entered:
	case r := <-done:
		fmt.Println(which, ": render finished without a miss:", r)
		return
	}
	go func() { time.Sleep(50 * time.Millisecond); close(release) }()
	put(1)
	fmt.Println(which, ": ingest s1 acknowledged (render was held between miss and Set for 50 ms)")
	fmt.Println(which, ": concurrent render returned", <-done)
	fmt.Println(which, ": render after everything returned:", get(), " (expected s1=1)")
}

// segment variant: the writer is held at its own segment creation (after it has listed the series in the
// dimension), the render then misses the same segment and is held before its Set; the writer finishes and is
// acknowledged; the render's Set then replaces the written segment by an empty one.
func demoSeg() {
	dir, _ := os.MkdirTemp("", "agentb-x-")
	defer os.RemoveAll(dir)
	st, err := storage.New(&config.Server{StoragePath: dir, CacheEvictThreshold: 0.99, CacheEvictVolume: 0.1, MaxNodesSerialization: 2048, MaxNodesRender: 2048})
	if err != nil {
		panic(err)
	}
	defer st.Close()
	key, _ := storage.ParseKey("app.cpu{}")
	get := func() string {
		out, _ := st.Get(&storage.GetInput{StartTime: time.Unix(1500000000, 0), EndTime: time.Unix(1700000000, 0), Key: key})
		got := []string{}
		if out != nil && out.Tree != nil {
			flatten(out.Tree.VerifDump(), nil, func(s string, v uint64) { got = append(got, fmt.Sprintf("%s=%d", s, v)) })
		}
		return fmt.Sprint(got)
	}
	c := st.VerifCache("segments")
	orig := c.New
	var mu sync.Mutex
	calls := 0
	entered := []chan struct{}{make(chan struct{}), make(chan struct{})}
	release := []chan struct{}{make(chan struct{}), make(chan struct{})}
	c.New = func(k string) interface{} {
		mu.Lock()
		i := calls
		calls++
		mu.Unlock()
		if i < 2 {
			close(entered[i])
			<-release[i]
		}
		return orig(k)
	}
	ack := make(chan struct{})
	go func() {
		t := tree.New()
		t.Insert([]byte("s1"), 1)
		if err := st.Put(&storage.PutInput{StartTime: time.Unix(1600000000, 0), EndTime: time.Unix(1600000010, 0), Key: key, Val: t, SpyName: "gospy", SampleRate: 100, Units: "samples", AggregationType: "sum"}); err != nil {
			panic(err)
		}
		close(ack)
	}()
	<-entered[0] // writer: series listed in the dimension, segment being created
	done := make(chan string)
	go func() { done <- get() }()
	select {
	case <-entered[1]: // render: missed the segment, about to Set its own empty one (only possible without the fix)
	case <-time.After(50 * time.Millisecond): // with the fix the render waits for the writer's miss to finish
	}
	close(release[0])
	<-ack
	fmt.Println("segments : ingest s1 acknowledged")
	close(release[1])
	fmt.Println("segments : concurrent render returned", <-done)
	fmt.Println("segments : render after everything returned:", get(), " (expected s1=1)")
}

func main() {
	logrus.SetOutput(io.Discard)
	storage.VerifDisablePeriodicTasks()
	demo("dimensions")
	demoSeg()
	random()
}

func random() {
	bad := 0
	for iter := 0; iter < 300; iter++ {
		dir, _ := os.MkdirTemp("", "agentb-x-")
		st, err := storage.New(&config.Server{StoragePath: dir, CacheEvictThreshold: 0.99, CacheEvictVolume: 0.1, MaxNodesSerialization: 2048, MaxNodesRender: 2048})
		if err != nil {
			panic(err)
		}
		key, _ := storage.ParseKey("directapp.cpu{}")
		var wg sync.WaitGroup
		stop := make(chan struct{})
		wg.Add(1)
		go func() {
			defer wg.Done()
			for {
				select {
				case <-stop:
					return
				default:
				}
				st.Get(&storage.GetInput{StartTime: time.Unix(1500000000, 0), EndTime: time.Unix(1700000000, 0), Key: key})
			}
		}()
		n := 5
		for i := 0; i < n; i++ {
			t := tree.New()
			t.Insert([]byte(fmt.Sprintf("s%d", i)), 1)
			from := int64(1600000000 + (iter*7+i*13)%1000*10)
			err := st.Put(&storage.PutInput{StartTime: time.Unix(from, 0), EndTime: time.Unix(from+10, 0), Key: key, Val: t, SpyName: "gospy", SampleRate: 100, Units: "samples", AggregationType: "sum"})
			if err != nil {
				panic(err)
			}
		}
		close(stop)
		wg.Wait()
		out, _ := st.Get(&storage.GetInput{StartTime: time.Unix(1500000000, 0), EndTime: time.Unix(1700000000, 0), Key: key})
		var tot uint64
		got := []string{}
		if out != nil && out.Tree != nil {
			flatten(out.Tree.VerifDump(), nil, func(s string, v uint64) { tot += v; got = append(got, fmt.Sprintf("%s=%d", s, v)) })
		}
		if tot != uint64(n) {
			bad++
			fmt.Println("iter", iter, "LOST: got", got)
		}
		st.Close()
		os.RemoveAll(dir)
	}
	fmt.Println("random stream: lost in", bad, "of 300 runs")
}
