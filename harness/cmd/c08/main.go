//go:build verif

package main

import (
	"fmt"
	"io"
	"os"
	"runtime"
	"strings"
	"sync/atomic"
	"time"

	"github.com/sirupsen/logrus"

	"github.com/pyroscope-io/pyroscope/pkg/config"
	"github.com/pyroscope-io/pyroscope/pkg/storage"
	"github.com/pyroscope-io/pyroscope/pkg/storage/tree"
)

func main() {
	logrus.SetOutput(io.Discard)
	storage.VerifDisablePeriodicTasks()
	dir, _ := os.MkdirTemp("", "agentb-x-")
	defer os.RemoveAll(dir)
	st, err := storage.New(&config.Server{StoragePath: dir, CacheEvictThreshold: 0.99, CacheEvictVolume: 0.1, MaxNodesSerialization: 2048, MaxNodesRender: 2048})
	if err != nil {
		panic(err)
	}
	put := func(name string, i int) {
		key, _ := storage.ParseKey(name)
		t := tree.New()
		t.Insert([]byte("a;b"), 1)
		from := int64(1600000000 + (i%1000)*10)
		if err := st.Put(&storage.PutInput{StartTime: time.Unix(from, 0), EndTime: time.Unix(from+10, 0), Key: key, Val: t, SpyName: "gospy", SampleRate: 100, Units: "samples", AggregationType: "sum"}); err != nil {
			panic(err)
		}
	}
	put("app{foo=bar}", 0)
	var ops int64
	for r := 0; r < 8; r++ {
		go func() {
			key, _ := storage.ParseKey("app{foo=bar}")
			for {
				st.Get(&storage.GetInput{StartTime: time.Unix(1600000000, 0), EndTime: time.Unix(1600010000, 0), Key: key})
				atomic.AddInt64(&ops, 1)
			}
		}()
	}
	go func() {
		for i := 0; ; i++ {
			put(fmt.Sprintf("app{foo=bar,i=%d}", i%20), i)
			atomic.AddInt64(&ops, 1)
		}
	}()
	go func() {
		for i := 0; ; i++ {
			key, _ := storage.ParseKey(fmt.Sprintf("app{foo=bar,i=%d}", (i+10)%20))
			st.Delete(&storage.DeleteInput{Key: key})
			atomic.AddInt64(&ops, 1)
		}
	}()
	last := int64(-1)
	for t := 0; t < 80; t++ {
		time.Sleep(250 * time.Millisecond)
		cur := atomic.LoadInt64(&ops)
		if cur == last {
			fmt.Println("DEADLOCK at storage level: no progress for 250 ms after", cur, "operations, t =", t)
			buf := make([]byte, 1<<20)
			buf = buf[:runtime.Stack(buf, true)]
			for _, g := range strings.Split(string(buf), "\n\n") {
				if strings.Contains(g, "sync.(*RWMutex)") {
					lines := strings.Split(g, "\n")
					out := []string{lines[0]}
					for _, l := range lines {
						if strings.HasPrefix(l, "sync.(*RWMutex)") || strings.HasPrefix(l, "github.com/pyroscope-io/pyroscope/pkg/storage") {
							out = append(out, "   "+strings.SplitN(l, "(0x", 2)[0])
						}
					}
					fmt.Println(strings.Join(out, "\n"))
				}
			}
			os.Exit(3)
		}
		last = cur
	}
	fmt.Println("no deadlock in 20 s;", last, "operations")
}
