//go:build verif

package main

import (
	"fmt"
	"os"
	"time"

	"github.com/pyroscope-io/pyroscope/pkg/config"
	"github.com/pyroscope-io/pyroscope/pkg/storage"
	"github.com/pyroscope-io/pyroscope/pkg/storage/tree"
	"github.com/sirupsen/logrus"
)

func main() {
	logrus.SetLevel(logrus.PanicLevel)
	storage.VerifDisablePeriodicTasks()
	dir, _ := os.MkdirTemp("/tmp", "cache-harness-st-dbg-")
	defer os.RemoveAll(dir)
	cfg := &config.Server{StoragePath: dir, APIBindAddr: ":0", CacheEvictThreshold: 0.99, CacheEvictVolume: 0.10,
		MaxNodesSerialization: 2048, MaxNodesRender: 8192, BadgerLogLevel: "error"}
	s, err := storage.New(cfg)
	if err != nil {
		panic(err)
	}
	s.VerifWrapCaches(nil)
	key, _ := storage.ParseKey("app0{}")
	put := func(from, until int64, stacks map[string]uint64) {
		t := tree.New()
		for k, v := range stacks {
			t.Insert([]byte(k), v)
		}
		if err := s.Put(&storage.PutInput{StartTime: time.Unix(from, 0), EndTime: time.Unix(until, 0), Key: key, Val: t,
			SpyName: "spy", SampleRate: 100, Units: "samples", AggregationType: "sum"}); err != nil {
			panic(err)
		}
	}
	getr := func(name string, a, b int64) string {
		k2, _ := storage.ParseKey(name)
		out, err := s.Get(&storage.GetInput{StartTime: time.Unix(a, 0), EndTime: time.Unix(b, 0), Key: k2})
		if err != nil || out == nil {
			return fmt.Sprint("nil ", err)
		}
		return out.Tree.String()
	}
	all := func(tag string) {
		fmt.Printf("%s q1 %q\n", tag, getr("app0{t=a}", 1295899500, 1295899800))
		fmt.Printf("%s q2 %q\n", tag, getr("app0{}", 1295899500, 1295899800))
		fmt.Printf("%s q3 %q\n", tag, getr("app0{t=a}", 1295899600, 1295899700))
		fmt.Printf("%s q4 %q\n", tag, getr("app0{}", 1295899550, 1295899650))
	}
	get := func() string {
		out, err := s.Get(&storage.GetInput{StartTime: time.Unix(1295899500, 0), EndTime: time.Unix(1295899800, 0), Key: key})
		if err != nil || out == nil {
			return fmt.Sprint("nil ", err)
		}
		return out.Tree.String()
	}
	put(1295899680, 1295899750, map[string]uint64{"main;c": 1, "c;b;c": 1})
	all("after put1")
	put(1295899560, 1295899630, map[string]uint64{"b": 4, "c;main;main": 4})
	all("after put2")
	all("again")
	_ = get
	s.Close()
}
