//go:build verif

// Storage-level stream of c03: the same property through storage.Put/Get, i.e. including the callback of Storage.Put
// that scales the profile per bucket, merges the earlier contents of a bucket that becomes pre-aggregated ("addons")
// and stores the trees.  Histories of one or two series with slot-sized and long uploads (empty and sparse profiles
// included); queries: full zoom-out, aligned buckets, single slots, and ranges split in two.
package main

import (
	"fmt"
	"math/rand"
	"os"
	"strings"

	"verifharness/lib"
	"verifharness/lib/stor"
)

var store *stor.Store

func getStore() *stor.Store {
	if store == nil {
		dir := fmt.Sprintf("/tmp/verif-c03-%d", os.Getpid())
		os.RemoveAll(dir)
		s, err := stor.Open(dir, 0, 2048)
		if err != nil {
			panic(err)
		}
		store = s
	}
	return store
}

func genStor(r *rand.Rand, idx int, tier string) Input {
	var in Input
	app := stor.UniqueApp("c03s", idx, 0)
	series := stor.RandSeries(r, app, 1+r.Intn(2))
	// base: a boundary of the year-1 grid of level 2..3 (1000 s / 10000 s), data within [-40, +400) slots of it
	base := stor.Boundary(r, 2+r.Intn(2))
	even := r.Intn(2) == 0 // counts are multiples of the span: every share is a whole number, full zoom-out is exact
	lo, hi := int64(0), int64(0)
	first := true
	note := func(f, u int64) {
		if first || f < lo {
			lo = f
		}
		if first || u > hi {
			hi = u
		}
		first = false
	}
	nput := 2 + r.Intn(6)
	for i := 0; i < nput; i++ {
		s := series[r.Intn(len(series))]
		var span int64
		switch r.Intn(5) {
		case 0, 1:
			span = 1
		case 2:
			span = int64(2 + r.Intn(8))
		case 3:
			span = int64(10 + r.Intn(40))
		default:
			span = int64(50 + r.Intn(350))
		}
		off := int64(r.Intn(440)) - 40
		if r.Intn(3) == 0 { // long uploads starting on a 100 s / 1000 s boundary
			off = off / 10 * 10
			if r.Intn(2) == 0 {
				off = off / 100 * 100
			}
		}
		from := base + off*10
		var stacks = stor.EvenStacks(r, 1+r.Intn(3), span, even)
		switch r.Intn(6) {
		case 0: // an idle window: a profile without samples
			for k := range stacks {
				stacks[k].V = 0
			}
		case 1: // a sparse long profile: fewer samples than slots, so most shares round to nothing
			if !even {
				for k := range stacks {
					stacks[k].V = uint64(1 + r.Intn(30))
				}
			}
		}
		note(from, from+span*10)
		in.Stor = append(in.Stor, stor.Op{Kind: "put", Name: s.RandName(r), From: from, Until: from + span*10,
			Stacks: stacks, Spy: "gospy", Rate: 100, Units: "samples", Agg: "sum"})
		if r.Intn(4) == 0 {
			in.Stor = append(in.Stor, queriesStor(r, app, base, lo, hi)...)
		}
	}
	in.Stor = append(in.Stor, queriesStor(r, app, base, lo, hi)...)
	if r.Intn(4) == 0 { // the same answers after the trees went through the disk
		in.Stor = append(in.Stor, stor.Op{Kind: "evict", Cache: "trees", Frac: 1})
		in.Stor = append(in.Stor, queriesStor(r, app, base, lo, hi)...)
	}
	return in
}

func queriesStor(r *rand.Rand, app string, base, lo, hi int64) []stor.Op {
	sel := app + "{}"
	qs := []stor.Op{}
	get := func(f, u int64) { qs = append(qs, stor.Op{Kind: "get", Name: sel, From: f, Until: u}) }
	// full zoom-out: exactly the data's extent, a wider aligned range, a much wider one
	get(lo, hi)
	get(lo-int64(r.Intn(30))*10, hi+int64(r.Intn(30))*10)
	if r.Intn(2) == 0 {
		get(base-100000, base+100000)
	}
	// aligned 100 s and 1000 s buckets and single slots inside the extent
	for i := 0; i < 4; i++ {
		f := lo + r.Int63n((hi-lo)/10+1)*10
		switch r.Intn(3) {
		case 0:
			f = (f+stor.UnixOffset)/100*100 - stor.UnixOffset
			get(f, f+100)
		case 1:
			f = (f+stor.UnixOffset)/1000*1000 - stor.UnixOffset
			get(f, f+1000)
		default:
			get(f, f+10)
		}
	}
	// a range, then its two halves (split at a random slot): the halves never add up to more than the whole
	for i := 0; i < 2; i++ {
		a := lo - int64(r.Intn(5))*10 + r.Int63n((hi-lo)/10+1)*10
		n := int64(2 + r.Intn(120))
		m := a + (1+r.Int63n(n-1))*10
		if r.Intn(2) == 0 {
			m = (m+stor.UnixOffset)/100*100 - stor.UnixOffset
			if m <= a || m >= a+n*10 {
				m = a + 10
			}
		}
		get(a, a+n*10)
		get(a, m)
		get(m, a+n*10)
	}
	return qs
}

func runStor(in Input) lib.Result {
	st := getStore()
	hops := []string{}
	crash := ""
	maxSpan := int64(0)
	empty, sparse := 0, 0
	for _, op := range in.Stor {
		res := st.Apply(op)
		if strings.HasPrefix(res.Err, "PANIC") {
			crash = res.Err
		}
		hops = append(hops, stor.CoqHop(op, res))
		if op.Kind == "put" {
			sp := (op.Until - op.From) / 10
			if sp > maxSpan {
				maxSpan = sp
			}
			tot := uint64(0)
			for _, s := range op.Stacks {
				tot += s.V
			}
			if tot == 0 {
				empty++
			} else if tot < uint64(sp) {
				sparse++
			}
		}
	}
	return lib.Result{
		Coq:        "(StorCase " + lib.List(hops) + ")",
		NonTrivial: maxSpan >= 10,
		Crash:      crash,
		Feat: map[string]interface{}{"stream": "storage", "ops": len(in.Stor), "max_span": maxSpan, "empty_profiles": empty,
			"sparse_profiles": sparse},
	}
}
