//go:build verif

// c03: no invented samples, nothing lost at full zoom-out (segment.Segment.Put/Get driven directly).
// Dump only: put callbacks in the order Go made them, final tree, get callbacks per queried range.
package main

import (
	"math/rand"
	"sort"

	"github.com/pyroscope-io/pyroscope/pkg/storage/segment"
	"verifharness/lib"
	"verifharness/lib/segu"
	"verifharness/lib/stor"
)

type Input struct {
	Writes  []segu.Write `json:"writes"`
	Queries []segu.Query `json:"queries"`
	// Stor: when non-empty the case is a storage-level history (stor.go) instead of a segment-level one
	Stor []stor.Op `json:"stor,omitempty"`
}

func allRanges(lo, size int64) []segu.Query {
	var qs []segu.Query
	for a := lo; a < lo+size; a++ {
		for b := a + 1; b <= lo+size; b++ {
			qs = append(qs, segu.Query{St: segu.SlotUnix(a), Et: segu.SlotUnix(b), Zs: int(a+2*b) % 3, Ze: int(2*a+b) % 3})
		}
	}
	return qs
}

func gen(r *rand.Rand, idx int, tier string) Input {
	if idx%6 == 5 {
		return genStor(r, idx, tier)
	}
	var in Input
	// window size: 12..1200 slots
	var size int64
	switch r.Intn(6) {
	case 0, 1:
		size = int64(lib.Range(r, 12, 25))
	case 2:
		size = int64(lib.Range(r, 26, 60))
	case 3:
		size = int64(lib.Range(r, 61, 250))
	default:
		size = int64(lib.Range(r, 251, 1200))
	}
	level := 1 + r.Intn(2) // 100 s or 1000 s boundary inside the window
	if size > 150 && lib.Chance(r, 0.3) {
		level = 3
	}
	w := segu.RandWindow(r, size, level)
	if lib.Chance(r, 0.15) {
		return genTiled(r, w)
	}
	nw := lib.Range(r, 1, 6)
	if lib.Chance(r, 0.2) {
		nw = lib.Range(r, 7, 14)
	}
	maxSpan := size
	if lib.Chance(r, 0.3) {
		maxSpan = 9
	}
	for i := 0; i < nw; i++ {
		in.Writes = append(in.Writes, segu.RandWrite(r, w, maxSpan))
	}
	if size <= 16 || (size <= 25 && lib.Chance(r, 0.3)) {
		in.Queries = allRanges(w.Lo, size)
		return in
	}
	// sampled ranges: split triples (s,m,e), the whole window, ranges on 10/100-slot boundaries,
	// ranges hugging the writes
	add := func(a, b int64) {
		if a < b {
			in.Queries = append(in.Queries, segu.Query{St: segu.SlotUnix(a), Et: segu.SlotUnix(b), Zs: segu.RandZone(r), Ze: segu.RandZone(r)})
		}
	}
	// requests exactly one bucket wide (10 and 100 slots) on the grid, where a match decides
	for _, g := range []int64{1, 10, 100} {
		x := w.Lo + r.Int63n(size)
		x -= ((x % g) + g) % g
		add(x, x+g)
	}
	add(w.Lo, w.Lo+size)
	add(w.Lo-int64(r.Intn(30)), w.Lo+size+int64(r.Intn(30)))
	pick := func() int64 {
		switch r.Intn(4) {
		case 0: // an endpoint of a write
			x := in.Writes[r.Intn(len(in.Writes))]
			if lib.Chance(r, 0.5) {
				return segu.UnixSlot(x.St)
			}
			return segu.UnixSlot(x.Et-1) + 1
		case 1: // a 10- or 100-slot boundary
			g := segu.Pow10(1 + r.Intn(2))
			x := w.Lo + r.Int63n(size+1)
			return x - x%g
		default:
			return w.Lo + r.Int63n(size+1)
		}
	}
	nt := lib.Range(r, 3, 7)
	for i := 0; i < nt; i++ {
		p := []int64{pick(), pick(), pick()}
		sort.Slice(p, func(i, j int) bool { return p[i] < p[j] })
		add(p[0], p[1])
		add(p[1], p[2])
		add(p[0], p[2])
	}
	return in
}

// A fully written stretch of the window made of short writes (1..9 slots, in random order, some
// overlapping), queried on sub-ranges of the written stretch: the cover must be canonical.
func genTiled(r *rand.Rand, w segu.Window) Input {
	var in Input
	size := w.Size
	if size > 400 {
		size = int64(lib.Range(r, 30, 400))
	}
	lo := w.Lo + r.Int63n(w.Size-size+1)
	var ws []segu.Write
	for x := lo; x < lo+size; {
		span := int64(lib.Range(r, 1, 9))
		if x+span > lo+size {
			span = lo + size - x
		}
		ws = append(ws, segu.Write{St: segu.SlotUnix(x), Et: segu.SlotUnix(x + span), Samples: uint64(span) * uint64(lib.Range(r, 1, 20)), Zs: segu.RandZone(r), Ze: segu.RandZone(r)})
		x += span
	}
	for i := lib.Range(r, 0, 4); i > 0; i-- { // a few extra overlapping short writes
		span := int64(lib.Range(r, 1, 9))
		x := lo + r.Int63n(size-span+1)
		ws = append(ws, segu.Write{St: segu.SlotUnix(x), Et: segu.SlotUnix(x + span), Samples: uint64(lib.Range(r, 1, 100)), Zs: segu.RandZone(r), Ze: segu.RandZone(r)})
	}
	r.Shuffle(len(ws), func(i, j int) { ws[i], ws[j] = ws[j], ws[i] })
	in.Writes = ws
	add := func(a, b int64) {
		if a < b {
			in.Queries = append(in.Queries, segu.Query{St: segu.SlotUnix(a), Et: segu.SlotUnix(b), Zs: segu.RandZone(r), Ze: segu.RandZone(r)})
		}
	}
	add(lo, lo+size)
	for i := lib.Range(r, 4, 8); i > 0; i-- {
		p := []int64{lo + r.Int63n(size+1), lo + r.Int63n(size+1), lo + r.Int63n(size+1)}
		if lib.Chance(r, 0.4) {
			p[0] -= ((p[0] % 10) + 10) % 10
			if p[0] < lo {
				p[0] = lo
			}
		}
		sort.Slice(p, func(i, j int) bool { return p[i] < p[j] })
		add(p[0], p[1])
		add(p[1], p[2])
		add(p[0], p[2])
	}
	return in
}

// Exhaustive small scopes. The window straddles a 1000 s boundary B (which is also a 100 s one).
func enum(tier string) []Input {
	B := segu.UnixSlot(1600000000)
	B = B - B%100 + 100
	var out []Input
	place := func(lo, size, maxSpan int64) []segu.Write {
		var ws []segu.Write
		for span := int64(1); span <= maxSpan && span <= size; span++ {
			for a := lo; a+span <= lo+size; a++ {
				ws = append(ws, segu.Write{St: segu.SlotUnix(a), Et: segu.SlotUnix(a + span), Samples: uint64(span) * 3, Zs: int(a+span) % 3, Ze: int(2*a+span) % 3})
			}
		}
		return ws
	}
	// E1: every single write over a 25-slot window, every aligned range
	{
		lo, size := B-12, int64(25)
		qs := allRanges(lo, size)
		for _, w := range place(lo, size, 25) {
			out = append(out, Input{Writes: []segu.Write{w}, Queries: qs})
		}
	}
	// E2: every sequence of two writes over a 12-slot window, every aligned range
	{
		lo, size := B-6, int64(12)
		qs := allRanges(lo, size)
		ps := place(lo, size, 12)
		for _, w1 := range ps {
			for _, w2 := range ps {
				out = append(out, Input{Writes: []segu.Write{w1, w2}, Queries: qs})
			}
		}
	}
	// E3: every sequence of three writes over a 6-slot window, every aligned range
	{
		lo, size := B-3, int64(6)
		qs := allRanges(lo, size)
		ps := place(lo, size, 6)
		for _, w1 := range ps {
			for _, w2 := range ps {
				for _, w3 := range ps {
					out = append(out, Input{Writes: []segu.Write{w1, w2, w3}, Queries: qs})
				}
			}
		}
	}
	// E4: sequences of two writes (all spans <= 25) over the 25-slot window, a systematic 1-in-16 sample
	// of all 105,625 (the full set is ~430 MB of Coq terms); ranges: the whole window and the split
	// triples through the write ends
	{
		lo, size := B-12, int64(25)
		ps := place(lo, size, 25)
		for i, w1 := range ps {
			for j, w2 := range ps {
				if (i*len(ps)+j)%16 != 0 {
					continue
				}
				pts := []int64{lo, segu.UnixSlot(w1.St), segu.UnixSlot(w1.Et), segu.UnixSlot(w2.St), segu.UnixSlot(w2.Et), lo + size}
				sort.Slice(pts, func(a, b int) bool { return pts[a] < pts[b] })
				var u []int64
				for _, p := range pts {
					if len(u) == 0 || u[len(u)-1] != p {
						u = append(u, p)
					}
				}
				var qs []segu.Query
				for a := 0; a < len(u); a++ {
					for b := a + 1; b < len(u); b++ {
						qs = append(qs, segu.Query{St: segu.SlotUnix(u[a]), Et: segu.SlotUnix(u[b]), Zs: (a + b) % 3, Ze: (a + 2*b) % 3})
					}
				}
				out = append(out, Input{Writes: []segu.Write{w1, w2}, Queries: qs})
			}
		}
	}
	if tier != "thorough" {
		// quick: a deterministic sample of the enumeration
		var s []Input
		for i, in := range out {
			if i%211 == 0 {
				s = append(s, in)
			}
		}
		return s
	}
	return out
}

func run(in Input) lib.Result {
	if len(in.Stor) > 0 {
		return runStor(in)
	}
	s := segment.New()
	ws := make([]string, len(in.Writes))
	maxSpan, crossings := int64(0), 0
	spanClass := map[string]int{}
	for i, w := range in.Writes {
		nst, net := segment.VerifNormalize(segu.T(w.St, w.Zs), segu.T(w.Et, w.Ze))
		cbs := segu.Put(s, w)
		ws[i] = "(OW " + lib.Z(w.St) + " " + lib.Z(w.Et) + " " + lib.N(w.Samples) + " " + lib.Z(nst.Unix()) + " " + lib.Z(net.Unix()) + " " + segu.CoqPutCBs(cbs) + ")"
		a, b := segu.UnixSlot(nst.Unix()), segu.UnixSlot(net.Unix())
		span := b - a
		if span > maxSpan {
			maxSpan = span
		}
		if a/10 != (b-1)/10 {
			crossings++
		}
		switch {
		case span == 1:
			spanClass["1"]++
		case span < 10:
			spanClass["2-9"]++
		case span <= 30:
			spanClass["10-30"]++
		case span <= 100:
			spanClass["31-100"]++
		default:
			spanClass[">100"]++
		}
	}
	dump := s.VerifDump()
	qs := make([]string, len(in.Queries))
	maxCover := 0
	cuts := false
	for i, q := range in.Queries {
		g := segu.Get(s, q)
		if len(g) > maxCover {
			maxCover = len(g)
		}
		qs[i] = "(OQ " + lib.Z(q.St) + " " + lib.Z(q.Et) + " " + segu.CoqGetCBs(g) + ")"
		if !cuts {
			cuts = cutsPresent(dump, q)
		}
	}
	nodes, levels, present := segu.TreeStats(dump)
	coq := "(SegCase {| c_writes := " + lib.List(ws) + "; c_tree := " + segu.CoqTree(dump) + "; c_queries := " + lib.List(qs) + " |})"
	return lib.Result{
		Coq:        coq,
		NonTrivial: (maxSpan > 10 || crossings > 0) && cuts,
		Feat: map[string]interface{}{"writes": len(in.Writes), "max_span": maxSpan, "span_classes": spanClass,
			"boundary_crossings": crossings, "max_cover": maxCover, "queries": len(in.Queries),
			"nodes": nodes, "levels": levels, "present": present, "range_cuts_present": cuts,
			"all_spans_short": maxSpan < 10, "zones_mixed": zonesMixed(in)},
		Obs: map[string]interface{}{"nodes": nodes, "levels": levels, "max_cover": maxCover},
	}
}

// does the queried range cut (overlap without containing) a present bucket?
func cutsPresent(n *segment.VerifNode, q segu.Query) bool {
	if n == nil {
		return false
	}
	qa, qb := segu.UnixSlot(q.St), segu.UnixSlot(q.Et-1)+1
	var rec func(n *segment.VerifNode) bool
	rec = func(n *segment.VerifNode) bool {
		t := segu.UnixSlot(n.Time.Unix())
		e := t + segu.Pow10(n.Depth)
		if n.Present && t < qb && qa < e && !(qa <= t && e <= qb) {
			return true
		}
		for _, c := range n.Children {
			if c != nil && rec(c) {
				return true
			}
		}
		return false
	}
	return rec(n)
}

func main() {
	defer func() {
		if store != nil {
			store.Destroy()
		}
	}()
	lib.Main(lib.Harness[Input]{Prop: "C03", Quick: 600, Thorough: 3600, Gen: gen, Enum: enum, Run: run})
}

func zonesMixed(in Input) bool {
	seen := map[int]bool{}
	for _, w := range in.Writes {
		seen[w.Zs%3], seen[w.Ze%3] = true, true
	}
	for _, q := range in.Queries {
		seen[q.Zs%3], seen[q.Ze%3] = true, true
	}
	return len(seen) > 1
}
