//go:build verif

package main

import "time"

func timeU(u int64) time.Time { return time.Unix(u, 0) }
