//go:build verif

// c05: the LFU-over-Badger cache behaves like a durable map (pkg/storage/cache over a private Badger directory).
// The harness drives cache.Cache with a trivial codec whose values are small mutable structs, and dumps what it saw.
// It contains no oracle: Corr/CorrC05.v decides.
package main

import (
	"bytes"
	"fmt"
	"math/rand"
	"os"
	"strconv"
	"strings"
	"sync"
	"time"

	"github.com/dgraph-io/badger/v2"
	"github.com/dgraph-io/badger/v2/options"
	"github.com/pyroscope-io/pyroscope/pkg/storage/cache"
	"verifharness/lib"
)

type Op struct {
	Op  string `json:"op"` // put read faultread mutate poke delete evict evicthold release writeback flush
	Key int    `json:"key,omitempty"`
	Val int    `json:"val,omitempty"`
	Num int    `json:"num,omitempty"` // evict fraction = num/den, den in {1,2,4}
	Den int    `json:"den,omitempty"`
}

type Input struct {
	Stream string `json:"stream"` // sync | hold | writeback
	Keys   int    `json:"keys"`
	Long   bool   `json:"long_keys,omitempty"` // keys of 130+ bytes
	Family int    `json:"family,omitempty"`    // key names form a chain: 1 = proper string prefixes, key 0 the shortest; 2 = the same, key 0 the longest; 3 = the cache's own Badger prefix repeated in front of the name
	Ops    []Op   `json:"ops"`
}

type obj struct{ Val int }

// ---------------------------------------------------------------------------------------------
// one Badger directory per process, shared by the cases (each case uses its own key prefix);
// a "flush" op really closes and reopens the database.

var (
	dbDir   string
	db      *badger.DB
	caseSeq int
)

type quietLogger struct{}

func (quietLogger) Errorf(string, ...interface{})   {}
func (quietLogger) Warningf(string, ...interface{}) {}
func (quietLogger) Infof(string, ...interface{})    {}
func (quietLogger) Debugf(string, ...interface{})   {}

func openDB() {
	if dbDir == "" {
		d, err := os.MkdirTemp("/tmp", "cache-harness-")
		if err != nil {
			panic(err)
		}
		dbDir = d
	}
	o := badger.DefaultOptions(dbDir).WithTruncate(false).WithSyncWrites(false).WithCompression(options.ZSTD).
		WithLogger(quietLogger{}).WithValueLogFileSize(1 << 24).WithMaxTableSize(1 << 22).WithNumMemtables(2).
		WithNumCompactors(2).WithCompactL0OnClose(false)
	var err error
	db, err = badger.Open(o)
	if err != nil {
		panic(err)
	}
}

type rig struct {
	c      *cache.Cache
	prefix string

	faultArmed, faultFired bool // the next FromBytes call fails once (a transient decode fault)

	mu      sync.Mutex
	saves   [][2]int // (key index, value) in serialization order
	holdAt  int      // block the holdAt-th gate call from now (0: none)
	seen    int
	entered chan int
	release chan struct{}
}

// the codec: decimal digits, except that the value 0 — a legal object, different from the default New(k) = 1000+k —
// serializes to ZERO bytes (an empty byte slice stored in Badger is still a stored value)
// Values from bigBase up are BIG objects: their serialized form is the decimal followed by ':' and (v % bigMod) filler
// bytes, i.e. 1-32 KiB.  Decoding checks the filler byte for byte; anything else decodes to the marker `garbled`.
const (
	bigBase = 1000000
	bigMod  = 32768
	garbled = 777777777
)

func encodeVal(v int) []byte {
	if v == 0 {
		return []byte{}
	}
	if v >= bigBase {
		return append([]byte(strconv.Itoa(v)+":"), bytes.Repeat([]byte{'x'}, v%bigMod)...)
	}
	return []byte(strconv.Itoa(v))
}

func decodeVal(b []byte) (int, error) {
	if len(b) == 0 {
		return 0, nil
	}
	if i := bytes.IndexByte(b, ':'); i >= 0 {
		v, err := strconv.Atoi(string(b[:i]))
		if err != nil || v < bigBase || !bytes.Equal(b[i+1:], bytes.Repeat([]byte{'x'}, v%bigMod)) {
			return garbled, nil
		}
		return v, nil
	}
	return strconv.Atoi(string(b))
}

// set per case
var (
	longKeys  bool
	keyFamily int
	keyCount  int
	keyPrefix string // the Badger prefix of the cache of the current case
)

// keyName: "k<i>" normally.  In a key family every name is a proper string prefix of the next longer one
// ("k", "k0", "k00", ...), as tree keys with times of different length or label values extending each other are.
func keyName(i int) string {
	switch {
	case longKeys:
		return "k" + strconv.Itoa(i) + strings.Repeat("_", 130)
	case keyFamily == 1:
		return "k" + strings.Repeat("0", i)
	case keyFamily == 2:
		return "k" + strings.Repeat("0", keyCount-1-i)
	case keyFamily == 3:
		// the cache's own Badger prefix in front of the name, i times: "k", "<prefix>k", "<prefix><prefix>k"
		return strings.Repeat(keyPrefix, i) + "k"
	}
	return "k" + strconv.Itoa(i)
}
func keyIdx(k string) int {
	switch {
	case longKeys:
	case keyFamily == 1:
		return len(k) - 1
	case keyFamily == 2:
		return keyCount - len(k)
	case keyFamily == 3:
		return strings.Count(k, keyPrefix)
	}
	i, _ := strconv.Atoi(strings.TrimRight(strings.TrimPrefix(k, "k"), "_"))
	return i
}

func (r *rig) newCache() {
	c := cache.New(db, r.prefix, "verif")
	c.New = func(k string) interface{} { return &obj{Val: 1000 + keyIdx(k)} }
	c.Bytes = func(k string, v interface{}) ([]byte, error) {
		o := v.(*obj)
		r.mu.Lock()
		r.saves = append(r.saves, [2]int{keyIdx(k), o.Val})
		r.mu.Unlock()
		return encodeVal(o.Val), nil
	}
	c.FromBytes = func(k string, b []byte) (interface{}, error) {
		if r.faultArmed {
			r.faultArmed, r.faultFired = false, true
			return nil, fmt.Errorf("transient decode fault")
		}
		n, err := decodeVal(b)
		if err != nil {
			return nil, err
		}
		return &obj{Val: n}, nil
	}
	c.VerifWrap(func(k string) {
		r.mu.Lock()
		if r.holdAt > 0 {
			r.seen++
			if r.seen == r.holdAt {
				ch := r.release
				r.holdAt = 0
				r.mu.Unlock()
				r.entered <- keyIdx(k)
				<-ch
				return
			}
		}
		r.mu.Unlock()
	})
	r.c = c
}

func (r *rig) takeSaves() [][2]int {
	r.mu.Lock()
	defer r.mu.Unlock()
	s := r.saves
	r.saves = nil
	return s
}

func (r *rig) diskOf(i int) (int, bool) {
	var val int
	found := false
	err := db.View(func(txn *badger.Txn) error {
		item, err := txn.Get([]byte(r.prefix + keyName(i)))
		if err != nil {
			if err == badger.ErrKeyNotFound {
				return nil
			}
			return err
		}
		return item.Value(func(b []byte) error {
			n, err := decodeVal(b)
			if err != nil {
				return err
			}
			val, found = n, true
			return nil
		})
	})
	if err != nil {
		panic(err)
	}
	return val, found
}

// within runs f and reports whether it returned in time (the lfu loops spin forever on some inputs).
func within(d time.Duration, f func()) bool {
	done := make(chan struct{})
	go func() { defer close(done); f() }()
	select {
	case <-done:
		return true
	case <-time.After(d):
		return false
	}
}

const patience = 20 * time.Second

func coqSaves(s [][2]int) string {
	items := make([]string, len(s))
	for i, kv := range s {
		items[i] = lib.Pair(lib.N(uint64(kv[0])), lib.N(uint64(kv[1])))
	}
	return lib.List(items)
}

func run(in Input) (res lib.Result) {
	if db == nil {
		openDB()
	}
	caseSeq++
	longKeys = in.Long
	keyFamily = in.Family
	keyCount = in.Keys
	if keyCount < 1 {
		keyCount = 1
	}
	if in.Long || in.Keys > 8 {
		keyFamily = 0
	}
	r := &rig{prefix: fmt.Sprintf("c%d:", caseSeq), entered: make(chan int, 1)}
	keyPrefix = r.prefix
	r.newCache()
	nkeys := in.Keys
	if nkeys < 1 {
		nkeys = 1
	}

	var hist []string
	handles := map[int]*obj{} // the pointer the client last obtained for each key (from Put or Get)
	counts := map[string]int{}
	held := -1
	overlaps := 0
	flushed := false
	hung := ""

	curKey := 0
	// Badger content: for every key of the universe; with many keys only after a flush (else the key just used and a few more)
	observe := func(full bool) string {
		var items []string
		for i := 0; i < nkeys; i++ {
			if !full && nkeys > 8 && i != curKey && i%37 != 0 {
				continue
			}
			if v, ok := r.diskOf(i); ok {
				items = append(items, lib.Pair(lib.N(uint64(i)), lib.Some(lib.N(uint64(v)))))
			} else {
				items = append(items, lib.Pair(lib.N(uint64(i)), "None"))
			}
		}
		return "{| o_len := " + lib.Nat(r.c.Len()) + "; o_disk := " + lib.List(items) + " |}"
	}
	emit := func(h string) { hist = append(hist, lib.Pair(h, observe(strings.HasPrefix(h, "HFlushReopen")))) }

	releaseHeld := func() {
		if held < 0 {
			return
		}
		close(r.release)
		if !within(patience, func() { r.c.VerifEvictionBarrier() }) {
			hung = "eviction barrier after release did not return"
			return
		}
		held = -1
		emit("HRelease " + coqSaves(r.takeSaves()))
	}
	get := func(k int) *obj {
		v, err := r.c.Get(keyName(k))
		if err != nil {
			panic(err)
		}
		return v.(*obj)
	}
	frac := func(o Op) (int, int, float64) {
		n, d := o.Num, o.Den
		if d != 1 && d != 2 && d != 4 {
			d = 1
		}
		if n < 0 {
			n = 0
		}
		if n > d { // never ask for more than everything: lfu.evict would spin forever
			n = d
		}
		return n, d, float64(n) / float64(d)
	}

	for _, o := range in.Ops {
		if hung != "" {
			break
		}
		k := o.Key
		if k < 0 || k >= nkeys {
			k = 0
		}
		counts[o.Op]++
		curKey = k
		switch o.Op {
		case "put":
			p := &obj{Val: o.Val}
			handles[k] = p
			r.c.Put(keyName(k), p)
			emit(fmt.Sprintf("HPut %d %d", k, o.Val))
		case "poke":
			// mutate through the pointer obtained earlier, without going through the cache
			if p, ok := handles[k]; ok {
				p.Val = o.Val
				emit(fmt.Sprintf("HPoke %d %d", k, o.Val))
			}
		case "read":
			if held == k {
				overlaps++
			}
			p := get(k)
			handles[k] = p
			emit(fmt.Sprintf("HRead %d %d", k, p.Val))
		case "faultread":
			// a Get during which the decoder fails once: the cache must hand the error on (and leave the record alone)
			r.faultArmed, r.faultFired = true, false
			v, err := r.c.Get(keyName(k))
			r.faultArmed = false
			if err != nil {
				if !r.faultFired {
					panic(err)
				}
				emit(fmt.Sprintf("HReadErr %d", k))
			} else {
				p := v.(*obj)
				handles[k] = p
				emit(fmt.Sprintf("HRead %d %d", k, p.Val))
			}
		case "mutate":
			if held == k {
				overlaps++
			}
			p := get(k)
			handles[k] = p
			got := p.Val
			p.Val = o.Val
			emit(fmt.Sprintf("HMutate %d %d %d", k, o.Val, got))
		case "delete":
			if err := r.c.Delete(keyName(k)); err != nil {
				panic(err)
			}
			// the client lets go of the pointer of an object it has deleted (a later poke of this key does nothing
			// until the key is put or read again); the model treats in-flight entries of a key as aliases of the
			// client's pointer, which would be wrong for a pointer obtained between a held save and this Delete
			delete(handles, k)
			emit(fmt.Sprintf("HDelete %d", k))
		case "evict", "evicthold":
			releaseHeld()
			if hung != "" {
				break
			}
			n, d, p := frac(o)
			cnt := int(float64(r.c.Len()) * p)
			if o.Op == "evicthold" && cnt >= 1 {
				r.mu.Lock()
				r.holdAt, r.seen, r.release = cnt, 0, make(chan struct{})
				r.mu.Unlock()
				evDone := make(chan struct{})
				go func() { defer close(evDone); r.c.Evict(p) }()
				hk, gotHold := -1, false
				select {
				case hk = <-r.entered:
					gotHold = true
				case <-time.After(3 * time.Second):
					// fewer saves than entries to evict (persisted entries, or a changed implementation): nothing to hold
					r.mu.Lock()
					r.holdAt = 0
					r.mu.Unlock()
					select {
					case hk = <-r.entered:
						gotHold = true
					default:
					}
				}
				select {
				case <-evDone:
				case <-time.After(patience):
					hung = "Evict did not return"
				}
				if gotHold {
					held = hk
					emit(fmt.Sprintf("HEvictHold %s %s %s %d", lib.Nat(n), lib.Nat(d), coqSaves(r.takeSaves()), hk))
					continue
				}
				if hung != "" {
					continue
				}
			} else {
				if !within(patience, func() { r.c.Evict(p) }) {
					hung = "Evict did not return"
					continue
				}
			}
			if !within(patience, func() { r.c.VerifEvictionBarrier() }) {
				hung = "eviction barrier did not return"
				continue
			}
			emit(fmt.Sprintf("HEvict %s %s %s", lib.Nat(n), lib.Nat(d), coqSaves(r.takeSaves())))
		case "release":
			releaseHeld()
		case "writeback":
			releaseHeld()
			if hung != "" {
				break
			}
			if !within(patience, func() { r.c.WriteBack(); r.c.VerifBarrier() }) {
				hung = "WriteBack did not return"
				continue
			}
			emit("HWriteBack " + coqSaves(r.takeSaves()))
		case "flush":
			releaseHeld()
			if hung != "" {
				break
			}
			if !within(patience, func() { r.c.Flush() }) {
				hung = "Flush did not return"
				continue
			}
			saved := r.takeSaves()
			if err := db.Close(); err != nil {
				panic(err)
			}
			openDB()
			r.newCache()
			flushed = true
			emit("HFlushReopen " + coqSaves(saved))
		}
	}
	if hung == "" {
		releaseHeld()
	}
	if hung == "" {
		// let the two goroutines of this cache end (not part of the history)
		within(patience, func() { r.c.Flush() })
	}
	_ = flushed

	keys := make([]string, nkeys)
	for i := range keys {
		keys[i] = lib.N(uint64(i))
	}
	res.Coq = "{| c_keys := " + lib.List(keys) + "; c_hist := " + lib.List(hist) + " |}"
	res.NonTrivial = nontrivial(in)
	feat := map[string]interface{}{"family": keyFamily, "stream": in.Stream, "len": len(in.Ops), "keys": nkeys, "forced_overlaps": overlaps}
	for _, kname := range []string{"put", "read", "faultread", "mutate", "poke", "delete", "evict", "evicthold", "writeback", "flush"} {
		feat["n_"+kname] = counts[kname]
	}
	res.Feat = feat
	if hung != "" {
		res.Crash = hung
	}
	return res
}

// non-trivial: the history evicts or reopens a key that was put or mutated earlier and reads it afterwards
func nontrivial(in Input) bool {
	stored := map[int]bool{}
	gone := map[int]bool{}
	for _, o := range in.Ops {
		switch o.Op {
		case "put", "mutate":
			if o.Op == "mutate" && gone[o.Key] {
				return true
			}
			stored[o.Key] = true
			delete(gone, o.Key)
		case "read":
			if gone[o.Key] {
				return true
			}
		case "delete":
			delete(stored, o.Key)
			delete(gone, o.Key)
		case "evict", "evicthold", "flush":
			if o.Op == "flush" || o.Num > 0 {
				for k := range stored {
					gone[k] = true
				}
			}
		}
	}
	return false
}

// ---------------------------------------------------------------------------------------------
// generators

var fracs = [][2]int{{1, 4}, {1, 2}, {3, 4}, {1, 1}, {1, 1}, {1, 2}}

// ---- stream "big": objects whose serialized form has 1-20 KiB (sometimes under keys of 130+ bytes), evicted or
// flushed, then read back ----
func genBig(r *rand.Rand) Input {
	in := Input{Stream: "big", Keys: lib.Range(r, 2, 3), Long: lib.Chance(r, 0.5)}
	big := func() int {
		size := lib.Pick(r, []int{1000, 1023, 1024, 1025, 1500, 4096, 10000, 16383, 16384, 16385, 20000})
		return bigBase*lib.Range(r, 1, 30)/bigMod*bigMod + bigMod*31 + size // = size modulo bigMod, above bigBase
	}
	n := lib.Range(r, 4, 14)
	for i := 0; i < n; i++ {
		k := r.Intn(in.Keys)
		switch x := r.Intn(100); {
		case x < 35:
			in.Ops = append(in.Ops, Op{Op: "put", Key: k, Val: big()})
		case x < 45:
			in.Ops = append(in.Ops, Op{Op: "mutate", Key: k, Val: big()})
		case x < 65:
			in.Ops = append(in.Ops, Op{Op: "read", Key: k})
		case x < 88:
			f := lib.Pick(r, fracs)
			in.Ops = append(in.Ops, Op{Op: "evict", Num: f[0], Den: f[1]})
		default:
			in.Ops = append(in.Ops, Op{Op: "flush"})
		}
	}
	in.Ops = append(in.Ops, Op{Op: "evict", Num: 1, Den: 1})
	for k := 0; k < in.Keys; k++ {
		in.Ops = append(in.Ops, Op{Op: "read", Key: k})
	}
	return in
}

// ---- stream "many": 63 / 64 / 65 / 128 / 192 live dirty entries at Flush (some hotter than others), reopen, reads ----
func genMany(r *rand.Rand) Input {
	n := lib.Pick(r, []int{64, 128, 192, 63, 65, 64, 128})
	in := Input{Stream: "many", Keys: n}
	for k := 0; k < n; k++ {
		in.Ops = append(in.Ops, Op{Op: "put", Key: k, Val: 10 + k})
	}
	hot := lib.Range(r, 0, 70)
	for i := 0; i < hot; i++ { // heat some entries: they are evicted last
		in.Ops = append(in.Ops, Op{Op: "read", Key: r.Intn(n)})
	}
	if lib.Chance(r, 0.3) {
		in.Ops = append(in.Ops, Op{Op: "delete", Key: r.Intn(n)})
	}
	in.Ops = append(in.Ops, Op{Op: "flush"})
	for i := 0; i < 8; i++ {
		in.Ops = append(in.Ops, Op{Op: "read", Key: r.Intn(n)})
	}
	return in
}

func gen(r *rand.Rand, idx int, tier string) Input {
	switch {
	case idx%20 == 7 || idx%20 == 17:
		return genBig(r)
	case idx%50 == 9:
		return genMany(r)
	}
	in := Input{Keys: lib.Range(r, 2, 3)}
	if lib.Chance(r, 0.5) {
		in.Family = lib.Range(r, 1, 3)
	}
	switch {
	case idx%5 == 3:
		in.Stream = "hold"
	case idx%5 == 4:
		in.Stream = "writeback"
	default:
		in.Stream = "sync"
	}
	n := lib.Range(r, 3, 40)
	ctr := 1
	holding := 0
	for i := 0; i < n; i++ {
		ctr++
		val := ctr
		if lib.Chance(r, 0.15) {
			val = 0 // the object whose serialized form is empty
		}
		dfl := lib.Chance(r, 0.12) // store / mutate back to exactly what New(key) would be
		k := r.Intn(in.Keys)
		if dfl {
			val = 1000 + k
		}
		x := r.Intn(100)
		switch {
		case holding > 0:
			// inside a hold window: client operations only, then release
			holding--
			if holding == 0 {
				in.Ops = append(in.Ops, Op{Op: "release"})
				continue
			}
			switch r.Intn(6) {
			case 0:
				in.Ops = append(in.Ops, Op{Op: "put", Key: k, Val: val})
			case 1:
				in.Ops = append(in.Ops, Op{Op: "mutate", Key: k, Val: val})
			case 2:
				in.Ops = append(in.Ops, Op{Op: "poke", Key: k, Val: val})
			case 3:
				// a Delete overlapping the held save: the save lands afterwards and the key is readable again
				in.Ops = append(in.Ops, Op{Op: "delete", Key: k})
			default:
				in.Ops = append(in.Ops, Op{Op: "read", Key: k})
			}
		case x < 22:
			in.Ops = append(in.Ops, Op{Op: "put", Key: k, Val: val})
		case x < 38:
			in.Ops = append(in.Ops, Op{Op: "read", Key: k})
		case x < 42:
			in.Ops = append(in.Ops, Op{Op: "faultread", Key: k})
		case x < 50:
			in.Ops = append(in.Ops, Op{Op: "mutate", Key: k, Val: val})
		case x < 55:
			in.Ops = append(in.Ops, Op{Op: "poke", Key: k, Val: val})
		case x < 63:
			in.Ops = append(in.Ops, Op{Op: "delete", Key: k})
		case x < 85:
			f := lib.Pick(r, fracs)
			if in.Stream == "writeback" {
				f = [2]int{1, 1} // persisted entries are dropped silently: only full evictions are observable
			}
			if in.Stream == "hold" && lib.Chance(r, 0.6) {
				in.Ops = append(in.Ops, Op{Op: "evicthold", Num: f[0], Den: f[1]})
				holding = lib.Range(r, 2, 4)
			} else {
				in.Ops = append(in.Ops, Op{Op: "evict", Num: f[0], Den: f[1]})
			}
		case x < 93:
			if in.Stream == "writeback" {
				in.Ops = append(in.Ops, Op{Op: "writeback"})
			} else {
				in.Ops = append(in.Ops, Op{Op: "read", Key: k})
			}
		default:
			in.Ops = append(in.Ops, Op{Op: "flush"})
		}
	}
	return in
}

// exhaustive small scope: all sequences over 2 keys of put/read/mutate/delete (per key), evict 1/2, evict 1, flush;
// the first keyed operation uses key 0 (the two keys are interchangeable).
// values of the enumerated histories: distinct per position, except that the first operation uses the value 0,
// whose serialized form is empty
func enumVal(i int, key int) int {
	switch i {
	case 0:
		return 0
	case 2:
		return 1000 + key // exactly what New(key) would be
	}
	return 10 + i
}

func enum(tier string) []Input {
	depth := 3
	if tier == "thorough" {
		depth = 5
	}
	type sym struct {
		op       string
		key      int
		num, den int
	}
	var alphabet []sym
	for k := 0; k < 2; k++ {
		for _, o := range []string{"put", "read", "mutate", "delete"} {
			alphabet = append(alphabet, sym{op: o, key: k})
		}
	}
	alphabet = append(alphabet, sym{op: "evict", num: 1, den: 2}, sym{op: "evict", num: 1, den: 1}, sym{op: "flush"})
	var out []Input
	var rec func(prefix []sym, usedKey bool)
	rec = func(prefix []sym, usedKey bool) {
		if len(prefix) > 0 {
			interesting := false
			for _, s := range prefix {
				if s.op == "evict" || s.op == "flush" || s.op == "delete" {
					interesting = true
				}
			}
			if interesting || len(prefix) <= 3 {
				in := Input{Stream: "enum", Keys: 2, Family: 2}
				for i, s := range prefix {
					in.Ops = append(in.Ops, Op{Op: s.op, Key: s.key, Val: enumVal(i, s.key), Num: s.num, Den: s.den})
				}
				out = append(out, in)
			}
		}
		if len(prefix) == depth {
			return
		}
		for _, s := range alphabet {
			keyed := s.op != "evict" && s.op != "flush"
			if keyed && !usedKey && s.key != 0 {
				continue
			}
			rec(append(append([]sym{}, prefix...), s), usedKey || keyed)
		}
	}
	rec(nil, false)

	// second enumeration: histories with at least one write-back (full evictions only, see gen), one level shallower
	wbAlphabet := append(append([]sym{}, alphabet[:8]...), sym{op: "evict", num: 1, den: 1}, sym{op: "flush"}, sym{op: "writeback"})
	wbDepth := depth - 1
	var recWB func(prefix []sym, usedKey bool)
	recWB = func(prefix []sym, usedKey bool) {
		hasWB := false
		for _, s := range prefix {
			if s.op == "writeback" {
				hasWB = true
			}
		}
		if hasWB {
			in := Input{Stream: "enum-writeback", Keys: 2, Family: 2}
			for i, s := range prefix {
				in.Ops = append(in.Ops, Op{Op: s.op, Key: s.key, Val: enumVal(i, s.key), Num: s.num, Den: s.den})
			}
			out = append(out, in)
		}
		if len(prefix) == wbDepth {
			return
		}
		for _, s := range wbAlphabet {
			keyed := s.op != "evict" && s.op != "flush" && s.op != "writeback"
			if keyed && !usedKey && s.key != 0 {
				continue
			}
			recWB(append(append([]sym{}, prefix...), s), usedKey || keyed)
		}
	}
	recWB(nil, false)
	return out
}

func main() {
	defer func() {
		if db != nil {
			db.Close()
		}
		if dbDir != "" {
			os.RemoveAll(dbDir)
		}
	}()
	lib.Main(lib.Harness[Input]{Prop: "C05", Quick: 400, Thorough: 6000, Gen: gen, Enum: enum, Run: run})
}
