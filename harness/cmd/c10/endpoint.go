//go:build verif

// c10, stream "endpoint": the same property through the real glue — storage.Put, then GET /render?format=json on
// the real server (pkg/server/render.go) with the max-nodes parameter absent / 0 / negative / junk / a budget.
// Dumps the tree storage.Get returns for the rendered range and the flamebearer as the JSON body carries it.
package main

import (
	"bytes"
	"encoding/json"
	"fmt"
	"math/rand"
	"net/http"
	"net/http/httptest"
	"net/url"
	"os"
	"sort"
	"strconv"
	"sync"
	"time"

	"github.com/pyroscope-io/pyroscope/pkg/server"
	"github.com/pyroscope-io/pyroscope/pkg/storage"
	"github.com/pyroscope-io/pyroscope/pkg/storage/tree"
	"verifharness/lib"
	"verifharness/lib/stor"
	"verifharness/lib/treeu"
)

const absentParam = "\x00absent"
const epT0 = 1341253200 // a multiple of 1000 s counted from year 1 as well as from 1970? only 100 s alignment matters here

var (
	epOnce  sync.Once
	epStore *stor.Store
	epMux   http.Handler
	epErr   error
	epSeq   int
)

func setupEndpoint() {
	dir, err := os.MkdirTemp("/tmp", "tree-b-c10-")
	if err != nil {
		epErr = err
		return
	}
	epStore, epErr = stor.Open(dir, 0, 2048)
	if epErr != nil {
		return
	}
	ctrl, err := server.New(epStore.Cfg, epStore.S)
	if err != nil {
		epErr = err
		return
	}
	epMux = ctrl.VerifMux()
}

func cleanupEndpoint() {
	if epStore != nil {
		epStore.Destroy()
	}
}

// frame names of the endpoint stream: plain text, text that needs JSON escaping, control bytes (0x01, 0x0b), DEL, and
// bytes that are not valid UTF-8 (latin-1, 0xff).  What arrives in the body is compared with the name as
// encoding/json itself transports it (jsonName below: invalid UTF-8 becomes U+FFFD, everything else is unchanged);
// the names are pairwise distinct after that projection.
var epNames = [][]byte{[]byte("a"), []byte("b"), []byte("c"), []byte("other"), []byte("total"), []byte("main"),
	[]byte("x"), []byte("a b"), []byte("été"), []byte("<&>"), []byte("q\"uo\\te\ttab"),
	[]byte("eval\x01tmpl"), []byte("\x0bvt"), []byte("del\x7fname"), []byte("caf\xe9.rb"), {0xff, 0xfe, 'z'}, {'u', 0xc3}}

// jsonName: the name as a JSON string carries it (reference: encoding/json on a plain Go string)
func jsonName(b []byte) []byte {
	enc, err := json.Marshal(string(b))
	if err != nil {
		return b
	}
	var out string
	if json.Unmarshal(enc, &out) != nil {
		return b
	}
	return []byte(out)
}

func jsonNames(n *tree.VerifNode) {
	n.Name = jsonName(n.Name)
	for _, c := range n.Children {
		jsonNames(c)
	}
}

func genEndpoint(r *rand.Rand) Input {
	g := &genCtx{r: r, left: lib.Range(r, 1, 12), maxDepth: lib.Range(r, 1, 4), selfs: smallSelf}
	in := Input{Kind: "endpoint", Via: "endpoint", Slots: 1}
	switch r.Intn(6) {
	case 0: // several slots: storage keeps floor-scaled copies per bucket and merges them back
		in.Slots = lib.Pick(r, []int{2, 3, 8})
		g.selfs = []uint64{0, 1, 3, 5, 7, 9, 11, 101}
		in.Kind = "endpoint-scaled"
	case 1:
		v := uint64(lib.Range(r, 1, 2))
		g.selfs = []uint64{v}
		in.Kind = "endpoint-ties"
	case 2:
		g.selfs = []uint64{0, 0, 0, 1}
		in.Kind = "endpoint-zeros"
	case 3: // bytes-unit profile: totals in 2^31 .. 2^40
		g.selfs = hugeSelf
		in.Kind = "endpoint-huge"
	}
	// genCtx.node draws child names from the global alphabet; redraw them from the JSON-safe one
	in.Tree = g.node([]byte(""), 0)
	renameJSONSafe(r, in.Tree)
	n := count(in.Tree)
	in.Default = lib.Pick(r, []int{1, 2, 3, n, n + 1, 2048})
	in.Params = []string{absentParam, "", "0", "-3", "abc", "12x", " 4", "1e3", "3.0", "99999999999999999999", "-0",
		"+2", "007", "1", "2", strconv.Itoa(n), strconv.Itoa(n + 1), "1024"}
	if n > 2 {
		in.Params = append(in.Params, strconv.Itoa(n-1))
	}
	return in
}

func renameJSONSafe(r *rand.Rand, n *treeu.JNode) {
	perm := r.Perm(len(epNames))
	var cn [][]byte
	for i := range n.Children {
		cn = append(cn, epNames[perm[i%len(epNames)]])
	}
	sort.Slice(cn, func(i, j int) bool { return bytes.Compare(cn[i], cn[j]) < 0 })
	for i, c := range n.Children {
		c.Name = cn[i]
		renameJSONSafe(r, c)
	}
}

func runEndpoint(in Input) (res lib.Result) {
	epOnce.Do(setupEndpoint)
	if epErr != nil {
		return lib.Result{Crash: "harness: cannot set up storage/server: " + epErr.Error()}
	}
	if in.Tree == nil || in.Slots < 1 {
		return lib.Result{Crash: "bad input"}
	}
	defer func() {
		if r := recover(); r != nil {
			res = lib.Result{Crash: fmt.Sprintf("panic: %v", r)}
		}
	}()
	epSeq++
	name := fmt.Sprintf("c10e%d.app", epSeq)
	key, err := storage.ParseKey(name)
	if err != nil {
		return lib.Result{Crash: "harness: " + err.Error()}
	}
	from, until := int64(epT0), int64(epT0+10*in.Slots)
	err = epStore.S.Put(&storage.PutInput{StartTime: time.Unix(from, 0), EndTime: time.Unix(until, 0), Key: key,
		Val: tree.VerifBuild(treeu.FromJ(in.Tree)), SpyName: "spy", SampleRate: 100, Units: "samples", AggregationType: "sum"})
	if err != nil {
		return lib.Result{Crash: "Put failed: " + err.Error()}
	}
	// the tree the handler is going to render (what storage.Get answers for the same key and range)
	out, err := epStore.S.Get(&storage.GetInput{StartTime: time.Unix(from, 0), EndTime: time.Unix(until, 0), Key: key})
	if err != nil {
		return lib.Result{Crash: "Get failed: " + err.Error()}
	}
	rendered := tree.New()
	if out != nil {
		rendered = out.Tree
	}
	dump := rendered.VerifDump()
	unusual := 0
	var cnt func(n *tree.VerifNode)
	cnt = func(n *tree.VerifNode) {
		if !bytes.Equal(jsonName(n.Name), n.Name) {
			unusual++
		} else {
			for _, c := range n.Name {
				if c < 0x20 || c == 0x7f {
					unusual++
					break
				}
			}
		}
		for _, c := range n.Children {
			cnt(c)
		}
	}
	cnt(dump)
	jsonNames(dump) // projection: names as a JSON document can carry them

	var runs []string
	classes := map[string]int{}
	statuses := map[int]int{}
	for _, p := range in.Params {
		epStore.Cfg.MaxNodesRender = in.Default
		q := url.Values{}
		q.Set("name", name)
		q.Set("from", strconv.FormatInt(from, 10))
		q.Set("until", strconv.FormatInt(until, 10))
		q.Set("format", "json")
		raw := ""
		if p != absentParam {
			q.Set("max-nodes", p)
			raw = p
		}
		req := httptest.NewRequest("GET", "/render?"+q.Encode(), nil)
		rec := httptest.NewRecorder()
		epMux.ServeHTTP(rec, req)
		statuses[rec.Code]++
		if rec.Code != 200 {
			return lib.Result{Crash: fmt.Sprintf("/render answered %d for max-nodes=%q", rec.Code, p)}
		}
		var body struct {
			Flamebearer *tree.Flamebearer `json:"flamebearer"`
		}
		if err := json.Unmarshal(rec.Body.Bytes(), &body); err != nil || body.Flamebearer == nil {
			return lib.Result{Crash: fmt.Sprintf("/render answered 200 but the body (%d bytes) does not decode as the flamebearer JSON for max-nodes=%q", rec.Body.Len(), p)}
		}
		runs = append(runs, coqRunP(0, body.Flamebearer, 0, lib.Some(lib.Bytes([]byte(raw))), in.Default))
		classes[paramClass(p)]++
	}
	coq := "{| c_tree := " + treeu.Coq(dump) + "; c_runs := " + lib.List(runs) + "; c_seq := []; c_conc := [] |}"
	nodes := treeu.Size(dump)
	return lib.Result{
		Coq:        coq,
		NonTrivial: nodes > in.Default || nodes > 2,
		Feat: map[string]interface{}{"kind": in.Kind, "via": "endpoint", "nodes": nodes, "slots": in.Slots,
			"config_default_vs_nodes": cmpClass(in.Default, nodes), "param_classes": len(classes),
			"names_ctrl_or_invalid_utf8": unusual},
		Obs: map[string]interface{}{"runs": len(runs), "statuses": fmt.Sprint(statuses)},
	}
}

func cmpClass(a, b int) string {
	switch {
	case a < b:
		return "default<nodes"
	case a == b:
		return "default=nodes"
	default:
		return "default>nodes"
	}
}

func paramClass(p string) string {
	if p == absentParam {
		return "absent"
	}
	v, err := strconv.Atoi(p)
	switch {
	case err != nil:
		return "junk"
	case v == 0:
		return "zero"
	case v < 0:
		return "negative"
	default:
		return "positive"
	}
}
