//go:build verif

// c10: the rendered flamegraph (tree.FlamebearerStruct, tree.minValue, cappedarr).
// Generates trees (tree.VerifBuild, optionally floor-scaled through Clone), renders them with every
// budget in {1..n+1, 1024} and dumps names, levels, numTicks, maxSelf and the threshold. No oracle here.
package main

import (
	"bytes"
	"fmt"
	"math/big"
	"math/rand"
	"sort"
	"strings"

	"github.com/pyroscope-io/pyroscope/pkg/storage/tree"
	"verifharness/lib"
	"verifharness/lib/treeu"
)

type Input struct {
	Tree    *treeu.JNode `json:"tree"`
	M       uint64       `json:"m"` // Clone(m/d) before rendering when d != 0
	D       uint64       `json:"d"`
	Budgets []int        `json:"budgets"`
	Kind    string       `json:"kind"`
	// stream "endpoint": the tree is stored through storage.Put over Slots 10-second slots and rendered with
	// GET /render?format=json on the real server, once per entry of Params (raw max-nodes value; absentParam = the
	// parameter is not sent) with config MaxNodesRender = Default
	Via     string   `json:"via,omitempty"`
	Slots   int      `json:"slots,omitempty"`
	Params  []string `json:"params,omitempty"`
	Default int      `json:"default,omitempty"`
	// multi-step sequence on ONE tree object (built from Tree, after the optional Clone): renders interleaved
	// with Merge / Insert calls on that same object
	Steps []Step `json:"steps,omitempty"`
	// stream "concurrent": Conc renders of one tree object (built by inserting Stacks) while a writer goroutine
	// keeps inserting into the same object
	Conc   int           `json:"conc,omitempty"`
	Stacks []treeu.Stack `json:"stacks,omitempty"`
}

type Step struct {
	Op     string       `json:"op"` // "render" | "merge" | "insert"
	Budget int          `json:"budget,omitempty"`
	Tree   *treeu.JNode `json:"tree,omitempty"` // merge: the source tree
	Key    []byte       `json:"key,omitempty"`  // insert
	Value  uint64       `json:"value,omitempty"`
}

var names = [][]byte{[]byte("a"), []byte("b"), []byte("c"), []byte("other"), []byte(""), []byte("total"),
	[]byte("main"), []byte("x"), {0xff, 0x00}, []byte("a b")}

var smallSelf = []uint64{0, 0, 0, 1, 1, 2, 2, 3, 5}

var hugeSelf = []uint64{0, 0, 1 << 31, 1 << 31, 1 << 32, 1<<32 - 1, 3 << 31, 1 << 33, 5, 1 << 36, 1 << 40, 1<<32 + 7}

type genCtx struct {
	r        *rand.Rand
	left     int // node budget of the generator
	maxDepth int
	selfs    []uint64
	unsorted bool
}

func (g *genCtx) node(name []byte, depth int) *treeu.JNode {
	n := &treeu.JNode{Name: name, Self: lib.Pick(g.r, g.selfs)}
	g.left--
	k := 0
	if depth < g.maxDepth && g.left > 0 {
		switch {
		case depth == 0:
			k = lib.Range(g.r, 1, 4)
		case lib.Chance(g.r, 0.6):
			k = lib.Range(g.r, 1, 3)
		}
	}
	if k > g.left {
		k = g.left
	}
	var cn [][]byte
	if g.unsorted {
		for i := 0; i < k; i++ {
			cn = append(cn, lib.Pick(g.r, names))
		}
	} else {
		perm := g.r.Perm(len(names))
		for i := 0; i < k; i++ {
			cn = append(cn, names[perm[i]])
		}
		sort.Slice(cn, func(i, j int) bool { return bytes.Compare(cn[i], cn[j]) < 0 })
	}
	n.Total = n.Self
	for _, c := range cn {
		ch := g.node(c, depth+1)
		n.Children = append(n.Children, ch)
		n.Total += ch.Total
	}
	return n
}

func perturb(r *rand.Rand, n *treeu.JNode) {
	if lib.Chance(r, 0.4) {
		n.Total = uint64(r.Intn(12))
	}
	for _, c := range n.Children {
		perturb(r, c)
	}
}

func count(n *treeu.JNode) int {
	s := 1
	for _, c := range n.Children {
		s += count(c)
	}
	return s
}

func budgetsFor(n int) []int {
	var b []int
	for i := 1; i <= n+1; i++ {
		b = append(b, i)
	}
	return append(b, 1024)
}

func gen(r *rand.Rand, idx int, tier string) Input {
	if idx%100 == 41 { // a few concurrent cases: 6 x 50 renders at quick tier
		in := Input{Kind: "concurrent", Via: "concurrent", Conc: 50, Budgets: []int{1 << 20, lib.Range(r, 2, 40)}}
		for i := 0; i < 120; i++ {
			in.Stacks = append(in.Stacks, treeu.Stack{Key: []byte(fmt.Sprintf("main;pkg%d;fn%d;leaf%d", r.Intn(4), r.Intn(8), r.Intn(30))),
				V: uint64(r.Intn(5) + 1)})
		}
		return in
	}
	if idx%5 == 3 {
		return genEndpoint(r)
	}
	g := &genCtx{r: r, left: lib.Range(r, 1, 12), maxDepth: lib.Range(r, 1, 4), selfs: smallSelf}
	in := Input{Kind: "consistent"}
	rootName := []byte("")
	if lib.Chance(r, 0.1) {
		rootName = lib.Pick(r, names)
	}
	switch idx % 10 {
	case 7, 8: // floor-scaled through Clone: larger odd values so that the floors lose something
		g.selfs = []uint64{0, 1, 3, 5, 7, 9, 11, 101, 1000003}
		in.Kind = "scaled"
		switch r.Intn(4) {
		case 0:
			in.M, in.D = 1, 2
		case 1:
			in.M, in.D = 2, 3
		case 2:
			in.M, in.D = uint64(lib.Range(r, 1, 9)), uint64(lib.Range(r, 1, 9))
		default:
			in.M, in.D = uint64(lib.Range(r, 0, 3)), uint64(lib.Range(r, 1, 1000))
		}
	case 9:
		switch r.Intn(3) {
		case 0: // all selfs equal: every level ties
			v := uint64(lib.Range(r, 0, 2))
			g.selfs = []uint64{v}
			in.Kind = "ties"
		case 1: // children not sorted / duplicate names (never produced by storage, but legal input)
			g.unsorted = true
			in.Kind = "unsorted"
		default:
			in.Kind = "inconsistent"
		}
	case 5: // bytes-unit profiles: totals in 2^31 .. 2^40, exact multiples of 2^32 among them (sums of folded
		// children cross 2^32)
		g.selfs = hugeSelf
		in.Kind = "huge"
	case 6: // leaves only at self 0/1: many zero-valued frames
		g.selfs = []uint64{0, 0, 0, 1}
		in.Kind = "zeros"
	}
	if idx%10 == 1 || idx%10 == 4 { // multi-step on one tree object
		in.Kind = "sequence"
		g.selfs = []uint64{0, 1, 1, 2, 3, 5, 10, 30, 100}
		in.Tree = g.node([]byte(""), 0)
		in.Budgets = []int{1024}
		n1 := count(in.Tree)
		mk := func() *treeu.JNode {
			g2 := &genCtx{r: r, left: lib.Range(r, 1, 8), maxDepth: lib.Range(r, 1, 3), selfs: g.selfs}
			return g2.node([]byte(""), 0)
		}
		t2, t3 := mk(), mk()
		total := n1 + count(t2) + count(t3)
		// budgets around the node counts before/after the merges, so that a merge moves the N-th largest total
		nA := lib.Pick(r, []int{n1, n1 + 1, lib.Range(r, 1, total), lib.Range(r, 2, n1+count(t2))})
		nB := lib.Range(r, 1, total+1)
		key := append(append([]byte{}, lib.Pick(r, names)...), append([]byte(";"), lib.Pick(r, names)...)...)
		in.Steps = []Step{
			{Op: "render", Budget: nA},
			{Op: "merge", Tree: t2},
			{Op: "render", Budget: nA},
			{Op: "render", Budget: nB},
			{Op: "render", Budget: nA},
			{Op: "merge", Tree: t3},
			{Op: "render", Budget: nA},
			{Op: "insert", Key: key, Value: uint64(lib.Range(r, 1, 200))},
			{Op: "render", Budget: nA},
			{Op: "render", Budget: nB},
		}
		if lib.Chance(r, 0.3) { // insert first, then merge: the memo (if any) is dropped by one and not the other
			in.Steps = append([]Step{{Op: "render", Budget: nA}, {Op: "insert", Key: key, Value: 7}}, in.Steps...)
		}
		return in
	}
	in.Tree = g.node(rootName, 0)
	if in.Kind == "inconsistent" {
		perturb(r, in.Tree)
	}
	in.Budgets = budgetsFor(count(in.Tree))
	return in
}

func coqRun(b int, fs *tree.Flamebearer, minv uint64) string {
	return coqRunP(b, fs, minv, "None", 0)
}

func coqRunP(b int, fs *tree.Flamebearer, minv uint64, param string, def int) string {
	ns := make([]string, len(fs.Names))
	for i, n := range fs.Names {
		ns[i] = lib.Bytes([]byte(n))
	}
	ls := make([]string, len(fs.Levels))
	for i, l := range fs.Levels {
		xs := make([]string, len(l))
		for j, v := range l {
			xs[j] = lib.Z(int64(v))
		}
		ls[i] = lib.List(xs)
	}
	return "{| r_max := " + lib.Nat(b) + "; r_names := " + lib.List(ns) + "; r_levels := " + lib.List(ls) +
		"; r_numticks := " + lib.Z(int64(fs.NumTicks)) + "; r_maxself := " + lib.Z(int64(fs.MaxSelf)) +
		"; r_minval := " + lib.N(minv) + "; r_param := " + param + "; r_default := " + lib.Nat(def) + " |}"
}

func walk(n *tree.VerifNode, f func(n *tree.VerifNode, depth int), depth int) {
	f(n, depth)
	for _, c := range n.Children {
		walk(c, f, depth+1)
	}
}

func runConcurrent(in Input) (res lib.Result) {
	defer func() {
		if r := recover(); r != nil {
			res = lib.Result{Crash: fmt.Sprintf("panic: %v", r)}
		}
	}()
	t := treeu.Build(in.Stacks)
	before := treeu.Coq(tree.New().VerifDump())
	stop := make(chan struct{})
	done := make(chan struct{})
	go func() { // the writer
		defer close(done)
		for i := 0; ; i++ {
			select {
			case <-stop:
				return
			default:
			}
			t.Insert([]byte(fmt.Sprintf("main;writer;w%d", i%50)), 3)
		}
	}()
	var runs []string
	for k := 0; k < in.Conc; k++ {
		b := in.Budgets[k%len(in.Budgets)]
		fs := t.FlamebearerStruct(b)
		runs = append(runs, coqRun(b, fs, 0))
	}
	close(stop)
	<-done
	coq := "{| c_tree := " + before + "; c_runs := []; c_seq := []; c_conc := " + lib.List(runs) + " |}"
	return lib.Result{Coq: coq, NonTrivial: true,
		Feat: map[string]interface{}{"kind": in.Kind, "via": "concurrent", "conc_renders": len(runs)},
		Obs:  map[string]interface{}{"runs": len(runs)}}
}

func run(in Input) (res lib.Result) {
	if in.Via == "concurrent" {
		return runConcurrent(in)
	}
	if in.Via == "endpoint" {
		return runEndpoint(in)
	}
	if in.Tree == nil || len(in.Budgets) == 0 {
		return lib.Result{Crash: "bad input"}
	}
	t := tree.VerifBuild(treeu.FromJ(in.Tree))
	if in.D != 0 {
		t = t.Clone(new(big.Rat).SetFrac(new(big.Int).SetUint64(in.M), new(big.Int).SetUint64(in.D)))
	}
	dump := t.VerifDump()
	before := treeu.Coq(dump)

	var runs []string
	others, ties, folded := 0, 0, 0
	for _, b := range in.Budgets {
		if b < 1 {
			continue // budgets >= 1 only (render.go ignores max-nodes <= 0)
		}
		var fs *tree.Flamebearer
		var minv uint64
		crash := ""
		func() {
			defer func() {
				if r := recover(); r != nil {
					crash = fmt.Sprintf("FlamebearerStruct(%d) panicked: %v", b, r)
				}
			}()
			fs = t.FlamebearerStruct(b)
			minv = t.VerifMinValue(b)
		}()
		if crash != "" {
			return lib.Result{Crash: crash}
		}
		runs = append(runs, coqRun(b, fs, minv))
		// features
		atTheta, below := 0, 0
		walk(dump, func(n *tree.VerifNode, _ int) {
			if minv > 0 && n.Total == minv {
				atTheta++
			}
			if n.Total < minv {
				below++
			}
		}, 0)
		if atTheta >= 2 {
			ties++
		}
		if below > 0 {
			folded++
		}
		for i, n := range fs.Names {
			if n == "other" {
				for _, l := range fs.Levels {
					for j := 0; j+3 < len(l); j += 4 {
						if l[j+3] == i {
							others++
						}
					}
				}
			}
		}
	}
	if treeu.Coq(t.VerifDump()) != before {
		return lib.Result{Crash: "rendering modified the tree"}
	}
	// multi-step sequence on the same tree object
	var seq []string
	seqRenders, seqMerges, sameBudgetAfterMerge := 0, 0, 0
	lastBudgetBeforeMerge := map[int]bool{}
	mergedSince := false
	for _, st := range in.Steps {
		switch st.Op {
		case "merge":
			if st.Tree == nil {
				continue
			}
			t.Merge(tree.VerifBuild(treeu.FromJ(st.Tree)))
			seqMerges++
			mergedSince = true
		case "insert":
			t.Insert(st.Key, st.Value)
		case "render":
			if st.Budget < 1 {
				continue
			}
			cur := treeu.Coq(t.VerifDump())
			var fs *tree.Flamebearer
			var minv uint64
			crash := ""
			func() {
				defer func() {
					if r := recover(); r != nil {
						crash = fmt.Sprintf("FlamebearerStruct(%d) in a sequence panicked: %v", st.Budget, r)
					}
				}()
				fs = t.FlamebearerStruct(st.Budget)
				minv = t.VerifMinValue(st.Budget)
			}()
			if crash != "" {
				return lib.Result{Crash: crash}
			}
			if treeu.Coq(t.VerifDump()) != cur {
				return lib.Result{Crash: "rendering modified the tree (sequence)"}
			}
			seq = append(seq, lib.Pair(cur, coqRun(st.Budget, fs, minv)))
			seqRenders++
			if mergedSince && lastBudgetBeforeMerge[st.Budget] {
				sameBudgetAfterMerge++
			}
			if !mergedSince {
				lastBudgetBeforeMerge[st.Budget] = true
			}
		}
	}
	// more features
	nodes, zeros, literalOther, depthMax := 0, 0, 0, 0
	seen := map[string]map[int]bool{}
	walk(dump, func(n *tree.VerifNode, d int) {
		nodes++
		if n.Total == 0 {
			zeros++
		}
		if string(n.Name) == "other" {
			literalOther++
		}
		if d > depthMax {
			depthMax = d
		}
		if seen[string(n.Name)] == nil {
			seen[string(n.Name)] = map[int]bool{}
		}
		seen[string(n.Name)][d] = true
	}, 0)
	repeated := 0
	for _, ds := range seen {
		if len(ds) > 1 {
			repeated++
		}
	}
	coq := "{| c_tree := " + before + "; c_runs := " + lib.List(runs) + "; c_seq := " + lib.List(seq) + "; c_conc := [] |}"
	return lib.Result{
		Coq:        coq,
		NonTrivial: folded > 0 || ties > 0 || sameBudgetAfterMerge > 0,
		Feat: map[string]interface{}{"kind": in.Kind, "nodes": nodes, "depth": depthMax, "zero_total_frames": zeros,
			"frames_named_other": literalOther, "names_at_several_depths": repeated,
			"budgets_with_fold": folded, "budgets_with_tie_at_theta": ties, "other_bars": others,
			"scaled": in.D != 0 && !(in.M == in.D),
			"seq_renders": seqRenders, "seq_merges": seqMerges, "seq_same_budget_after_merge": sameBudgetAfterMerge},
		Obs: map[string]interface{}{"runs": len(runs), "summary": strings.TrimSpace(fmt.Sprintf("%d nodes, %d budgets", nodes, len(runs)))},
	}
}

// ---- exhaustive small scope: every ordered tree shape with <= maxN nodes, every assignment of self values
// from {0,1,2} and of child names from {a, other} (children of one node may repeat a name), consistent totals ----

func shapes(n int) []*treeu.JNode { // all ordered trees with exactly n nodes
	if n == 1 {
		return []*treeu.JNode{{}}
	}
	var res []*treeu.JNode
	for _, f := range forests(n - 1) {
		res = append(res, &treeu.JNode{Children: f})
	}
	return res
}

func forests(n int) [][]*treeu.JNode { // all ordered forests with exactly n nodes
	if n == 0 {
		return [][]*treeu.JNode{nil}
	}
	var res [][]*treeu.JNode
	for k := 1; k <= n; k++ {
		for _, first := range shapes(k) {
			for _, rest := range forests(n - k) {
				res = append(res, append([]*treeu.JNode{first}, rest...))
			}
		}
	}
	return res
}

func clone(n *treeu.JNode) *treeu.JNode {
	r := &treeu.JNode{Name: n.Name, Self: n.Self, Total: n.Total}
	for _, c := range n.Children {
		r.Children = append(r.Children, clone(c))
	}
	return r
}

func flatten(n *treeu.JNode, out *[]*treeu.JNode) {
	*out = append(*out, n)
	for _, c := range n.Children {
		flatten(c, out)
	}
}

func fixTotals(n *treeu.JNode) uint64 {
	n.Total = n.Self
	for _, c := range n.Children {
		n.Total += fixTotals(c)
	}
	return n.Total
}

func enum(tier string) []Input {
	maxN, selfs := 3, []uint64{0, 1, 2}
	if tier == "thorough" {
		maxN = 4
	}
	enumNames := [][]byte{[]byte("a"), []byte("other")}
	var res []Input
	for n := 1; n <= maxN; n++ {
		for _, sh := range shapes(n) {
			combos := 1
			for i := 0; i < n; i++ {
				combos *= len(selfs)
			}
			nameCombos := 1 << (n - 1)
			for sc := 0; sc < combos; sc++ {
				for nc := 0; nc < nameCombos; nc++ {
					t := clone(sh)
					var nodes []*treeu.JNode
					flatten(t, &nodes)
					x := sc
					for _, nd := range nodes {
						nd.Self = selfs[x%len(selfs)]
						x /= len(selfs)
					}
					nodes[0].Name = []byte("")
					for i := 1; i < n; i++ {
						nodes[i].Name = enumNames[(nc>>(i-1))&1]
					}
					fixTotals(t)
					res = append(res, Input{Tree: t, Budgets: budgetsFor(n), Kind: "enum"})
				}
			}
		}
	}
	return res
}

func main() {
	defer cleanupEndpoint()
	lib.Main(lib.Harness[Input]{Prop: "C10", Quick: 600, Thorough: 8000, Gen: gen, Enum: enum, Run: run})
}
