//go:build verif

package main

import (
	"fmt"
	"math/big"
	"time"

	"github.com/pyroscope-io/pyroscope/pkg/storage/segment"
)

func main() {
	s := segment.New()
	s.SetMetadata("gospy", 100, "samples", "sum")
	s.Put(time.Unix(1428193190, 0), time.Unix(1428193200, 0), 4, func(depth int, t time.Time, r *big.Rat, addons []segment.Addon) {})
	b, _ := s.Bytes()
	fmt.Printf("%q\n", b)
	s2, err := segment.FromBytes(b)
	fmt.Println(err, s2.SpyName(), s2.SampleRate(), s2.Units(), s2.AggregationType())
}
