//go:build verif

// c13: timeline returned by storage.Get (GenerateTimeline / PopulateTimeline).
package main

import (
	"fmt"
	"math/rand"
	"os"
	"strings"

	"verifharness/lib"
	"verifharness/lib/httpstor"
	"verifharness/lib/stor"
)

type Input struct {
	Ops []stor.Op `json:"ops"`
	// the same history through POST /ingest and GET /render?format=json on the real server
	HTTP bool `json:"http,omitempty"`
}

var store *stor.Store

func getStore() *stor.Store {
	if store == nil {
		dir := fmt.Sprintf("/tmp/verif-c13-%d", os.Getpid())
		os.RemoveAll(dir)
		s, err := stor.Open(dir, 0, 2048)
		if err != nil {
			panic(err)
		}
		store = s
	}
	return store
}

func pow10(l int) int64 {
	w := int64(1)
	for i := 0; i < l; i++ {
		w *= 10
	}
	return w
}

var httpSrv *httpstor.Server

func getHTTP() *httpstor.Server {
	if httpSrv == nil {
		dir := fmt.Sprintf("/tmp/tree-b-c13http-%d", os.Getpid())
		os.RemoveAll(dir)
		s, err := httpstor.Open(dir)
		if err != nil {
			panic(err)
		}
		httpSrv = s
	}
	return httpSrv
}

func gen(r *rand.Rand, idx int, tier string) Input {
	var in Input
	in.HTTP = (tier == "thorough" && idx%3 == 1) || (tier != "thorough" && idx%12 == 5)
	app := stor.UniqueApp("tl", idx, 0)
	series := stor.RandSeries(r, app, 1+r.Intn(3))
	// timeline bucket level of the main query
	L := lib.Pick(r, []int{0, 0, 0, 1, 1, 2, 2, 3, 4, 5})
	w := pow10(L) // slots per bucket
	// range in slots: 1024*w < span <= 10240*w (for L=0 also short ranges)
	var span int64
	if L == 0 {
		span = 1 + r.Int63n(300)
		if r.Intn(4) == 0 {
			span = 1 + r.Int63n(10240)
		}
	} else {
		span = 1024*w + 1 + r.Int63n(3000*w)
	}
	// (not for 10^6 s buckets: such a range would exceed 292 years, where Go's time.Duration saturates)
	topOfBand := idx%10 == 3 && L <= 4
	if topOfBand { // the longest ranges that still get this bucket size: more than 10000 and at most 10240 entries
		span = 10000*w + 1 + r.Int63n(240*w)
		if r.Intn(3) == 0 { // exactly the longest one: 1024 times the next bucket size
			span = 10240 * w
		}
	}
	// anchor: a boundary of the year-1 grid of level >= L
	base := stor.Boundary(r, L+r.Intn(2))
	startSlot := (base+stor.UnixOffset)/10 - w*int64(r.Intn(3))
	offGrid := r.Intn(5) == 0
	if offGrid && w > 1 {
		startSlot += 1 + r.Int63n(w-1)
	}
	from := startSlot*10 - stor.UnixOffset
	until := from + span*10
	// keep data inside the epoch block
	lo, hi := int64(stor.EpochLo)+1000, int64(stor.EpochHi)-1000
	even := r.Intn(8) != 0
	// the timeline does not depend on the aggregation type: 1 in 3 histories use 'average' series
	agg := "sum"
	if r.Intn(3) == 0 {
		agg = "average"
	}
	nput := 1 + r.Intn(10)
	for i := 0; i < nput; i++ {
		s := series[r.Intn(len(series))]
		sp := int64(1 + r.Intn(9))
		if r.Intn(2) == 0 {
			sp = 1
		}
		var pf int64
		switch r.Intn(4) {
		case 0: // anywhere in the range (clamped to the block)
			pf = from + r.Int63n(span)*10
		case 1: // outside the range, just before/after
			if r.Intn(2) == 0 {
				pf = from - (1+r.Int63n(20))*10
			} else {
				pf = until + r.Int63n(20)*10
			}
		default: // clustered near the start / a bucket edge
			pf = from + (r.Int63n(3*w+25))*10
		}
		if topOfBand && r.Intn(2) == 0 { // in the last 240 buckets of the range
			pf = until - (1+r.Int63n(240*w))*10
		}
		if pf < lo {
			pf = lo + r.Int63n(1000)*10
			pf = pf / 10 * 10
		}
		if pf > hi {
			pf = hi - r.Int63n(1000)*10
			pf = pf / 10 * 10
		}
		// make sure all data stays within one 10^9 s block around the base
		in.Ops = append(in.Ops, stor.Op{Kind: "put", Name: s.RandName(r), From: pf, Until: pf + sp*10,
			Stacks: stor.EvenStacks(r, 1+r.Intn(3), sp, even), Spy: "gospy", Rate: 100, Units: "samples", Agg: agg})
		if r.Intn(5) == 0 { // the same upload once more, byte for byte (two idle processes of one service; a retry)
			in.Ops = append(in.Ops, in.Ops[len(in.Ops)-1])
		}
		if r.Intn(3) == 0 { // a second upload of the same series into the same slot (a node with two writes)
			in.Ops = append(in.Ops, stor.Op{Kind: "put", Name: s.RandName(r), From: pf, Until: pf + sp*10,
				Stacks: stor.EvenStacks(r, 1+r.Intn(2), sp, even), Spy: "gospy", Rate: 100, Units: "samples", Agg: agg})
		}
		if r.Intn(6) == 0 && !topOfBand { // (the longest ranges are asked once, at the end: 10,000+ entries each)
			in.Ops = append(in.Ops, stor.Op{Kind: "get", Name: stor.RandSelector(r, series).RandName(r), From: from, Until: until})
		}
	}
	// a window whose end is not a multiple of 10 s, with a series whose very first profile lies in that last, partial
	// slot next to an older series that has data there too (the last entry sums both)
	lateUntil := int64(0)
	if r.Intn(4) == 0 && !topOfBand {
		lateUntil = until/10*10 + 1 + r.Int63n(9)
		last := lateUntil / 10 * 10
		if last > lo && last < hi {
			late := stor.SeriesDef{App: app, Tags: map[string]string{"late": lib.Pick(r, []string{"1", "2"})}}
			old := series[r.Intn(len(series))]
			in.Ops = append(in.Ops, stor.Op{Kind: "put", Name: old.RandName(r), From: last, Until: last + 10,
				Stacks: stor.EvenStacks(r, 1+r.Intn(2), 1, true), Spy: "gospy", Rate: 100, Units: "samples", Agg: agg})
			in.Ops = append(in.Ops, stor.Op{Kind: "put", Name: late.RandName(r), From: last, Until: last + 10,
				Stacks: stor.EvenStacks(r, 1+r.Intn(2), 1, true), Spy: "gospy", Rate: 100, Units: "samples", Agg: agg})
			in.Ops = append(in.Ops, stor.Op{Kind: "get", Name: app + "{}", From: from, Until: lateUntil})
			if span > 12 {
				in.Ops = append(in.Ops, stor.Op{Kind: "get", Name: app + "{}", From: lateUntil - 53, Until: lateUntil})
			}
		}
	}
	// the segment objects are read back from their stored form before the queries (eviction or graceful restart):
	// coarse timelines read the counters of inner nodes, which only the codec restores
	if r.Intn(3) == 0 {
		if r.Intn(3) == 0 && !in.HTTP {
			in.Ops = append(in.Ops, stor.Op{Kind: "restart"})
		} else {
			in.Ops = append(in.Ops, stor.Op{Kind: "evict", Cache: "segments", Frac: 1})
		}
	}
	in.Ops = append(in.Ops, stor.Op{Kind: "get", Name: app + "{}", From: from, Until: until})
	if r.Intn(2) == 0 && !topOfBand {
		in.Ops = append(in.Ops, stor.Op{Kind: "get", Name: stor.RandSelector(r, series).RandName(r), From: from + r.Int63n(10), Until: until + r.Int63n(10)})
	}
	// a short 10 s-bucket query around the first put as well
	p0 := in.Ops[0]
	sf := (p0.From/10 - int64(r.Intn(5))) * 10
	in.Ops = append(in.Ops, stor.Op{Kind: "get", Name: app + "{}", From: sf, Until: sf + (1+r.Int63n(40))*10})
	return in
}

func run(in Input) lib.Result {
	if in.HTTP {
		return runHTTP(in)
	}
	st := getStore()
	hops := []string{}
	crash := ""
	maxDelta := int64(0)
	entries := 0
	nonzero := 0
	offgrid := 0
	for _, op := range in.Ops {
		res := st.Apply(op)
		if strings.HasPrefix(res.Err, "PANIC") {
			crash = res.Err
		}
		hops = append(hops, stor.CoqHop(op, res))
		if op.Kind == "get" && res.Get != nil && !res.Get.Nil {
			if res.Get.TLDelta > maxDelta {
				maxDelta = res.Get.TLDelta
			}
			entries += len(res.Get.TLSamples)
			for _, v := range res.Get.TLSamples {
				if v != 0 {
					nonzero++
				}
			}
			if res.Get.TLDelta > 0 && (res.Get.TLStart+stor.UnixOffset)%res.Get.TLDelta != 0 {
				offgrid++
			}
		}
	}
	return lib.Result{
		Coq:        "{| c_ops := " + lib.List(hops) + " |}",
		NonTrivial: nonzero >= 2 || maxDelta > 10,
		Crash:      crash,
		Feat: map[string]interface{}{"max_bucket_s": maxDelta, "entries": entries, "nonzero_entries": nonzero,
			"offgrid_gets": offgrid, "ops": len(in.Ops), "via_http": false},
	}
}

func runHTTP(in Input) lib.Result {
	hs := getHTTP()
	hops := []string{}
	crash := ""
	maxDelta := int64(0)
	entries, nonzero, offgrid := 0, 0, 0
	for _, op := range in.Ops {
		res := hs.Apply(op)
		if strings.HasPrefix(res.Err, "PANIC") {
			crash = res.Err
		}
		hops = append(hops, httpstor.CoqHop(op, res))
		if g := res.Get; op.Kind == "get" && g != nil && !g.Nil {
			if g.TLDelta > maxDelta {
				maxDelta = g.TLDelta
			}
			entries += len(g.TLSamples)
			for _, v := range g.TLSamples {
				if v != 0 {
					nonzero++
				}
			}
			if g.TLDelta > 0 && (g.TLStart+stor.UnixOffset)%g.TLDelta != 0 {
				offgrid++
			}
		}
	}
	return lib.Result{
		Coq:        "{| c_ops := " + lib.List(hops) + " |}",
		NonTrivial: nonzero >= 2 || maxDelta > 10,
		Crash:      crash,
		Feat: map[string]interface{}{"max_bucket_s": maxDelta, "entries": entries, "nonzero_entries": nonzero,
			"offgrid_gets": offgrid, "ops": len(in.Ops), "via_http": true},
	}
}

func main() {
	defer func() {
		if store != nil {
			store.Destroy()
		}
		if httpSrv != nil {
			httpSrv.Destroy()
		}
	}()
	lib.Main(lib.Harness[Input]{Prop: "C13", Quick: 200, Thorough: 3000, Gen: gen, Run: run})
}
