//go:build verif

// c11: delete by selector, retention pass, retention guard on ingest — through the real storage.
package main

import (
	"fmt"
	"math/rand"
	"os"
	"strings"
	"time"

	"verifharness/lib"
	"verifharness/lib/stor"
)

type Input struct {
	Ops []stor.Op `json:"ops"`
	// Hide: application names listed in the server's hide-applications setting while the history runs (they are left
	// out of label listings only; retention and deletion must still reach them)
	Hide []string `json:"hide,omitempty"`
	// Fresh: the history runs on a storage of its own (a new directory) instead of the process-wide one, so that it is
	// the only application the storage has ever seen
	Fresh bool `json:"fresh,omitempty"`
}

var store *stor.Store

func getStore() *stor.Store {
	if store == nil {
		dir := fmt.Sprintf("/tmp/verif-c11-%d", os.Getpid())
		os.RemoveAll(dir)
		s, err := stor.Open(dir, 0, 2048)
		if err != nil {
			panic(err)
		}
		store = s
	}
	return store
}

func gen(r *rand.Rand, idx int, tier string) Input {
	var in Input
	napps := 2
	nearNow := idx%6 == 5 // windows around the wall clock, some ahead of it (no retention guard in these histories)
	if idx%6 == 4 {       // a storage that knows exactly one application, with several series
		napps = 1
		in.Fresh = true
	}
	var all [][]stor.SeriesDef
	flat := []stor.SeriesDef{}
	for a := 0; a < napps; a++ {
		app := stor.UniqueApp("del", idx, a)
		if a == 1 && r.Intn(3) == 0 { // the second application's name extends the first one's (web / web.worker)
			app = all[0][0].App + lib.Pick(r, []string{".worker", "2", "-b"})
		}
		ss := stor.RandSeries(r, app, 2+r.Intn(2)+2*(2-napps))
		all = append(all, ss)
		flat = append(flat, ss...)
	}
	if r.Intn(4) == 0 {
		in.Hide = []string{all[r.Intn(napps)][0].App}
	}
	// data must be in the past for the retention guard (now ~ 2026-09): pick the base before 2026
	var base int64
	for {
		base = stor.Boundary(r, 1+r.Intn(3))
		if base < time.Now().Unix()-400*86400 {
			break
		}
	}
	if nearNow {
		base = time.Now().Unix() / 1000 * 1000
		if r.Intn(2) == 0 {
			base = (time.Now().Unix()+stor.UnixOffset)/100*100 - stor.UnixOffset + int64(r.Intn(3)-1)*100
		}
	}
	// retention guard threshold for ingests (30% of histories)
	var guard int64
	if r.Intn(10) < 3 && !nearNow {
		guard = base + (r.Int63n(40)-20)*10 + 5
	}
	minSlot, maxSlot := int64(-30), int64(40)
	mkPut := func() stor.Op {
		s := flat[r.Intn(len(flat))]
		span := int64(1 + r.Intn(9))
		if r.Intn(3) == 0 {
			span = 1
		}
		off := minSlot + r.Int63n(maxSlot-minSlot)
		from := base + off*10
		if r.Intn(10) == 0 { // an upload of 100 s or more: sub-range answers approximate (model comparison + retention clauses only)
			span = int64(10 + r.Intn(25))
			if r.Intn(2) == 0 { // exactly one or more aligned 100 s buckets: a present node without children
				from = (from+stor.UnixOffset)/100*100 - stor.UnixOffset
				span = int64(10 * (1 + r.Intn(3)))
			}
		}
		if guard != 0 && from > guard-40 && from < guard+40 { // stay clear of the clock slack
			from = guard + 60 + r.Int63n(20)*10
			from = from / 10 * 10
		}
		return stor.Op{Kind: "put", Name: s.RandName(r), From: from, Until: from + span*10,
			Stacks: stor.EvenStacks(r, 1+r.Intn(3), span, true), Spy: "gospy", Rate: 100, Units: "samples", Agg: "sum", Thr: guard}
	}
	// fixed query set, repeated around every mutating op of interest
	queries := []stor.Op{}
	for a := 0; a < napps; a++ {
		queries = append(queries, stor.Op{Kind: "get", Name: all[a][0].App + "{}", From: base + minSlot*10 - 100, Until: base + (maxSlot+40)*10})
	}
	nq := 2 + r.Intn(3)
	for i := 0; i < nq; i++ {
		sel := stor.RandSelector(r, all[r.Intn(napps)])
		f := base + (minSlot+r.Int63n(maxSlot-minSlot))*10
		u := f + (1+r.Int63n(50))*10
		switch r.Intn(4) {
		case 0: // aligned 100 s bucket(s)
			f = (f+stor.UnixOffset)/100*100 - stor.UnixOffset
			u = f + 100*int64(1+r.Intn(3))
		case 1:
			f += r.Int63n(10)
		}
		queries = append(queries, stor.Op{Kind: "get", Name: sel.RandName(r), From: f, Until: u})
	}
	askAll := func() {
		in.Ops = append(in.Ops, queries...)
	}
	nput := 4 + r.Intn(10)
	for i := 0; i < nput; i++ {
		in.Ops = append(in.Ops, mkPut())
	}
	nmut := 1 + r.Intn(3)
	kinds := make([]int, nmut)
	thresholds := make([]int64, nmut)
	for i := 0; i < nmut; i++ {
		kinds[i] = r.Intn(5)
		if kinds[i] == 2 || kinds[i] == 3 {
			t := base + (minSlot+r.Int63n(maxSlot-minSlot))*10
			switch r.Intn(3) {
			case 0:
				t = (t+stor.UnixOffset)/100*100 - stor.UnixOffset
			case 1:
				t += r.Int63n(10)
			}
			if r.Intn(3) == 0 { // exactly the start of some upload's window
				for _, op := range in.Ops {
					if op.Kind == "put" && r.Intn(3) == 0 {
						t = op.From / 10 * 10
					}
				}
			}
			thresholds[i] = t
			// queries that start exactly at the threshold (must be unchanged) and end exactly there (must be empty)
			for a := 0; a < napps; a++ {
				app := all[a][0].App + "{}"
				queries = append(queries, stor.Op{Kind: "get", Name: app, From: t / 10 * 10, Until: t/10*10 + 100*int64(1+r.Intn(3))})
				queries = append(queries, stor.Op{Kind: "get", Name: app, From: t/10*10 - 200, Until: t / 10 * 10})
			}
		}
	}
	for i := 0; i < nmut; i++ {
		kind := kinds[i]
		if kind <= 1 && r.Intn(2) == 0 {
			// the other series' objects are on disk only when the delete runs (no query in between reloads them)
			if r.Intn(3) == 0 {
				in.Ops = append(in.Ops, stor.Op{Kind: "restart"})
			} else {
				in.Ops = append(in.Ops, stor.Op{Kind: "evict", Cache: "trees", Frac: 1})
				in.Ops = append(in.Ops, stor.Op{Kind: "evict", Cache: "dicts", Frac: 1})
			}
		} else {
			askAll()
		}
		switch kind {
		case 0, 1: // delete by app or by tags
			var sel stor.SeriesDef
			if r.Intn(2) == 0 {
				sel = stor.SeriesDef{App: all[r.Intn(napps)][0].App}
			} else {
				sel = stor.RandSelector(r, all[r.Intn(napps)])
			}
			in.Ops = append(in.Ops, stor.Op{Kind: "delete", Name: sel.RandName(r)})
		case 2, 3: // retention pass, threshold on or off a bucket boundary (chosen above)
			in.Ops = append(in.Ops, stor.Op{Kind: "retention", From: thresholds[i]})
		default: // an ingest that the guard may reject
			in.Ops = append(in.Ops, mkPut())
		}
		askAll()
		// cache eviction / graceful restart must not matter
		if r.Intn(4) == 0 {
			in.Ops = append(in.Ops, stor.Op{Kind: "evict", Cache: lib.Pick(r, []string{"trees", "segments", "dimensions", "dicts"}), Frac: lib.Pick(r, []float64{0.5, 1})})
		}
		if tier == "thorough" && r.Intn(8) == 0 || tier != "thorough" && r.Intn(12) == 0 {
			in.Ops = append(in.Ops, stor.Op{Kind: "restart"})
			askAll()
		}
		// further ingests (re-ingest into deleted series included) and queries
		for j := r.Intn(4); j > 0; j-- {
			in.Ops = append(in.Ops, mkPut())
		}
	}
	askAll()
	return in
}

func run(in Input) lib.Result {
	st := getStore()
	if in.Fresh {
		dir := fmt.Sprintf("/tmp/verif-c11-%d-fresh", os.Getpid())
		os.RemoveAll(dir)
		fs, err := stor.Open(dir, 0, 2048)
		if err != nil {
			panic(err)
		}
		defer fs.Destroy()
		st = fs
	}
	st.Cfg.HideApplications = in.Hide
	defer func() { st.Cfg.HideApplications = nil }()
	hops := []string{}
	crash := ""
	feat := map[string]interface{}{}
	cnt := map[string]int{}
	rejected := 0
	reingestAfterDelete := false
	deleted := false
	for _, op := range in.Ops {
		res := st.Apply(op)
		if strings.HasPrefix(res.Err, "PANIC") {
			crash = res.Err
		}
		if op.Kind == "restart" && res.Err != "" {
			crash = "restart failed: " + res.Err
		}
		hops = append(hops, stor.CoqHop(op, res))
		cnt[op.Kind]++
		if op.Kind == "put" && res.Err != "" {
			rejected++
		}
		if op.Kind == "delete" {
			deleted = true
		}
		if op.Kind == "put" && deleted {
			reingestAfterDelete = true
		}
	}
	st.Cfg.Retention = 0
	for k, v := range cnt {
		feat[k] = v
	}
	feat["rejected_puts"] = rejected
	feat["fresh_single_app"] = in.Fresh
	feat["hidden_app"] = len(in.Hide) > 0
	return lib.Result{
		Coq:        "{| c_ops := " + lib.List(hops) + " |}",
		NonTrivial: (cnt["delete"] > 0 && reingestAfterDelete) || cnt["retention"] > 0,
		Crash:      crash,
		Feat:       feat,
	}
}

func main() {
	defer func() {
		if store != nil {
			store.Destroy()
		}
	}()
	lib.Main(lib.Harness[Input]{Prop: "C11", Quick: 150, Thorough: 2000, Gen: gen, Run: run})
}
