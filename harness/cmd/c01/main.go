//go:build verif

// c01: query exactness through storage.Put / storage.Get.
package main

import (
	"fmt"
	"math/rand"
	"os"
	"strings"

	"verifharness/lib"
	"verifharness/lib/httpstor"
	"verifharness/lib/stor"
)

type Input struct {
	Ops []stor.Op `json:"ops"`
	// the same history through POST /ingest and GET /render?format=json on the real server
	HTTP bool `json:"http,omitempty"`
}

var store *stor.Store

func getStore() *stor.Store {
	if store == nil {
		dir := fmt.Sprintf("/tmp/verif-c01-%d", os.Getpid())
		os.RemoveAll(dir)
		s, err := stor.Open(dir, 0, 2048)
		if err != nil {
			panic(err)
		}
		store = s
	}
	return store
}

var httpSrv *httpstor.Server

func getHTTP() *httpstor.Server {
	if httpSrv == nil {
		dir := fmt.Sprintf("/tmp/tree-b-c01http-%d", os.Getpid())
		os.RemoveAll(dir)
		s, err := httpstor.Open(dir)
		if err != nil {
			panic(err)
		}
		httpSrv = s
	}
	return httpSrv
}

func gen(r *rand.Rand, idx int, tier string) Input {
	var in Input
	// thorough: every third history goes through the HTTP handlers; quick: one in five
	in.HTTP = (tier == "thorough" && idx%3 == 1) || (tier != "thorough" && idx%5 == 2)
	napps := 1 + r.Intn(2)
	var all [][]stor.SeriesDef
	aggs := []string{}
	for a := 0; a < napps; a++ {
		app := stor.UniqueApp("app", idx, a)
		all = append(all, stor.RandSeries(r, app, 1+r.Intn(3)))
		if r.Intn(4) == 0 {
			aggs = append(aggs, "average")
		} else {
			aggs = append(aggs, "sum")
		}
	}
	lvl := 1 + r.Intn(4)
	base := stor.Boundary(r, lvl)
	nput := 1 + r.Intn(12)
	if r.Intn(5) == 0 {
		nput = 12 + r.Intn(28)
	}
	singleSlotOnly := r.Intn(3) == 0
	even := r.Intn(10) != 0
	minT, maxT := int64(1<<62), int64(-(1 << 62))
	mkPut := func() stor.Op {
		a := r.Intn(napps)
		s := all[a][r.Intn(len(all[a]))]
		span := int64(1 + r.Intn(9))
		if singleSlotOnly {
			span = 1
		}
		var off int64
		switch r.Intn(6) {
		case 0: // far away (hours .. months)
			off = (r.Int63n(2000000) - 1000000)
		default:
			off = r.Int63n(41) - 25
		}
		from := base + off*10
		until := from + span*10
		if from < minT {
			minT = from
		}
		if until > maxT {
			maxT = until
		}
		// unaligned variants that normalise to the same window
		// unaligned variants that normalise to the same window; through HTTP more often, incl. windows shorter
		// than 10 s that cross a slot boundary (from = slot+8, until = next slot+2)
		if r.Intn(4) == 0 || (in.HTTP && r.Intn(2) == 0) {
			from += r.Int63n(10)
		}
		if r.Intn(6) == 0 || (in.HTTP && r.Intn(2) == 0) {
			until -= 1 + r.Int63n(9)
		}
		var fromNs, untilNs int64
		if !in.HTTP && r.Intn(5) == 0 { // sub-second parts, as direct callers and `now` arguments have them
			fromNs = r.Int63n(1000000000)
			if until > from+1 || r.Intn(2) == 0 {
				untilNs = 1 + r.Int63n(999999999)
			}
			if until <= from {
				fromNs = 0
			}
		}
		return stor.Op{Kind: "put", Name: s.RandName(r), From: from, Until: until, FromNs: fromNs, UntilNs: untilNs,
			Stacks: stor.EvenStacks(r, 1+r.Intn(4), span, even),
			Spy: lib.Pick(r, []string{"gospy", "rbspy", "ebpfspy"}), Rate: lib.Pick(r, []uint32{100, 50, 1000}),
			Units: lib.Pick(r, []string{"samples", "objects", "bytes"}), Agg: aggs[a]}
	}
	mkGet := func() stor.Op {
		a := r.Intn(napps)
		sel := stor.RandSelector(r, all[a])
		var from, until int64
		switch r.Intn(6) {
		case 0: // everything
			from, until = minT-10*int64(r.Intn(3)), maxT+10*int64(r.Intn(3))
		case 1: // one slot
			from = base + (r.Int63n(41)-25)*10
			until = from + 10
		case 2: // an aligned bucket around the boundary
			w := int64(100)
			if r.Intn(2) == 0 {
				w = 1000
			}
			from = (base+stor.UnixOffset)/w*w - stor.UnixOffset - w*int64(r.Intn(2))
			until = from + w*int64(1+r.Intn(2))
		default:
			from = base + (r.Int63n(61)-35)*10
			until = from + (1+r.Int63n(60))*10
		}
		if r.Intn(4) == 0 {
			from += r.Int63n(10)
			until += r.Int63n(10)
		}
		if until < from {
			until = from
		}
		var fromNs, untilNs int64
		if !in.HTTP && r.Intn(4) == 0 { // an end just after a slot boundary (first second, sub-second part) and others
			fromNs = r.Int63n(1000000000)
			untilNs = 1 + r.Int63n(999999999)
			if r.Intn(2) == 0 {
				until = until / 10 * 10
			}
			if until <= from {
				until = from
				fromNs = 0
			}
		}
		return stor.Op{Kind: "get", Name: sel.RandName(r), From: from, Until: until, FromNs: fromNs, UntilNs: untilNs}
	}
	in.Ops = append(in.Ops, mkPut())
	for i := 1; i < nput; i++ {
		if r.Intn(8) == 0 { // the previous upload once more, byte for byte (two idle processes of one service; a retry)
			for j := len(in.Ops) - 1; j >= 0; j-- {
				if in.Ops[j].Kind == "put" {
					in.Ops = append(in.Ops, in.Ops[j])
					break
				}
			}
			continue
		}
		in.Ops = append(in.Ops, mkPut())
		if r.Intn(5) == 0 {
			in.Ops = append(in.Ops, mkGet())
		}
	}
	ng := 1 + r.Intn(5)
	for i := 0; i < ng; i++ {
		in.Ops = append(in.Ops, mkGet())
	}
	return in
}

func run(in Input) lib.Result {
	var st *stor.Store
	var hs *httpstor.Server
	if in.HTTP {
		hs = getHTTP()
	} else {
		st = getStore()
	}
	hops := []string{}
	nput, nget, matched2 := 0, 0, 0
	spans := map[int64]int{}
	sameBucket := map[string]int{}
	unaligned := 0
	crash := ""
	for _, op := range in.Ops {
		if in.HTTP {
			res := hs.Apply(op)
			if strings.HasPrefix(res.Err, "PANIC") {
				crash = res.Err
			}
			hops = append(hops, httpstor.CoqHop(op, res))
		} else {
			res := st.Apply(op)
			if strings.HasPrefix(res.Err, "PANIC") {
				crash = res.Err
			}
			hops = append(hops, stor.CoqHop(op, res))
		}
		switch op.Kind {
		case "put":
			nput++
			spans[(op.Until-op.From+9)/10]++
			sameBucket[fmt.Sprintf("%s/%d", stor.CoqSid(op.Name), (op.From+stor.UnixOffset)/100)]++
		case "get":
			nget++
			if op.From%10 != 0 || op.Until%10 != 0 {
				unaligned++
			}
			if (op.Until-op.From) > 100 || strings.Count(op.Name, "=") == 0 {
				matched2++
			}
		}
	}
	shared := 0
	for _, c := range sameBucket {
		if c >= 2 {
			shared++
		}
	}
	return lib.Result{
		Coq:        "{| c_ops := " + lib.List(hops) + "; c_http := " + lib.Bool(in.HTTP) + " |}",
		NonTrivial: shared >= 1 && matched2 >= 1,
		Crash:      crash,
		Feat: map[string]interface{}{"puts": nput, "gets": nget, "shared_100s_buckets": shared,
			"unaligned_gets": unaligned, "wide_or_app_only_gets": matched2, "via_http": in.HTTP},
	}
}

func main() {
	defer func() {
		if store != nil {
			store.Destroy()
		}
		if httpSrv != nil {
			httpSrv.Destroy()
		}
	}()
	lib.Main(lib.Harness[Input]{Prop: "C01", Quick: 300, Thorough: 4000, Gen: gen, Run: run})
}
