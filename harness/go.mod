module verifharness

go 1.21

require (
	github.com/pyroscope-io/pyroscope v0.0.0
	github.com/sirupsen/logrus v1.7.0
)

require (
	github.com/DataDog/zstd v1.4.1 // indirect
	github.com/beorn7/perks v1.0.1 // indirect
	github.com/cespare/xxhash v1.1.0 // indirect
	github.com/cespare/xxhash/v2 v2.1.1 // indirect
	github.com/dgraph-io/badger/v2 v2.2007.2 // indirect
	github.com/dgraph-io/ristretto v0.0.3-0.20200630154024-f66de99634de // indirect
	github.com/dgrijalva/lfu-go v0.0.0-20141010002404-f174e76c5138 // indirect
	github.com/dgryski/go-farm v0.0.0-20190423205320-6a90982ecee2 // indirect
	github.com/dustin/go-humanize v1.0.0 // indirect
	github.com/golang/protobuf v1.5.2 // indirect
	github.com/golang/snappy v0.0.1 // indirect
	github.com/google/uuid v1.1.2 // indirect
	github.com/matttproud/golang_protobuf_extensions v1.0.1 // indirect
	github.com/pkg/errors v0.9.1 // indirect
	github.com/prometheus/client_golang v1.10.0 // indirect
	github.com/prometheus/client_model v0.2.0 // indirect
	github.com/prometheus/common v0.18.0 // indirect
	github.com/prometheus/procfs v0.6.0 // indirect
	github.com/shirou/gopsutil v3.21.4+incompatible // indirect
	github.com/twmb/murmur3 v1.1.5 // indirect
	golang.org/x/net v0.0.0-20210428140749-89ef3d95e781 // indirect
	golang.org/x/sys v0.0.0-20210616094352-59db8d763f22 // indirect
	google.golang.org/protobuf v1.26.0 // indirect
)

replace github.com/pyroscope-io/pyroscope => /repo

replace github.com/mgechev/revive v1.0.3 => github.com/pyroscope-io/revive v1.0.6-0.20210330033039-4a71146f9dc1

replace github.com/dgrijalva/lfu-go => github.com/pyroscope-io/lfu-go v1.0.3
