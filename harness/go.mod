module verifharness

go 1.21

require (
	github.com/dgraph-io/badger/v2 v2.2007.2
	github.com/peterbourgon/ff/v3 v3.0.0
	github.com/pyroscope-io/pyroscope v0.0.0
	github.com/sirupsen/logrus v1.7.0
)

require (
	github.com/DataDog/zstd v1.4.1 // indirect
	github.com/VividCortex/ewma v1.1.1 // indirect
	github.com/aybabtme/rgbterm v0.0.0-20170906152045-cc83f3b3ce59 // indirect
	github.com/beorn7/perks v1.0.1 // indirect
	github.com/cespare/xxhash v1.1.0 // indirect
	github.com/cespare/xxhash/v2 v2.1.1 // indirect
	github.com/cheggaaa/pb/v3 v3.0.5 // indirect
	github.com/clarkduvall/hyperloglog v0.0.0-20171127014514-a0107a5d8004 // indirect
	github.com/dgraph-io/ristretto v0.0.3-0.20200630154024-f66de99634de // indirect
	github.com/dgrijalva/lfu-go v0.0.0-20141010002404-f174e76c5138 // indirect
	github.com/dgryski/go-farm v0.0.0-20190423205320-6a90982ecee2 // indirect
	github.com/dustin/go-humanize v1.0.0 // indirect
	github.com/fatih/color v1.10.0 // indirect
	github.com/gobuffalo/here v0.6.0 // indirect
	github.com/golang/protobuf v1.5.2 // indirect
	github.com/golang/snappy v0.0.1 // indirect
	github.com/google/uuid v1.1.2 // indirect
	github.com/iancoleman/strcase v0.1.2 // indirect
	github.com/kardianos/service v1.2.0 // indirect
	github.com/markbates/pkger v0.17.1 // indirect
	github.com/mattn/go-colorable v0.1.8 // indirect
	github.com/mattn/go-isatty v0.0.12 // indirect
	github.com/mattn/go-runewidth v0.0.10 // indirect
	github.com/matttproud/golang_protobuf_extensions v1.0.1 // indirect
	github.com/mitchellh/go-ps v1.0.0 // indirect
	github.com/pkg/errors v0.9.1 // indirect
	github.com/prometheus/client_golang v1.10.0 // indirect
	github.com/prometheus/client_model v0.2.0 // indirect
	github.com/prometheus/common v0.18.0 // indirect
	github.com/prometheus/procfs v0.6.0 // indirect
	github.com/rivo/uniseg v0.2.0 // indirect
	github.com/shirou/gopsutil v3.21.4+incompatible // indirect
	github.com/tklauser/go-sysconf v0.3.6 // indirect
	github.com/tklauser/numcpus v0.2.2 // indirect
	github.com/twmb/murmur3 v1.1.5 // indirect
	golang.org/x/net v0.0.0-20210428140749-89ef3d95e781 // indirect
	golang.org/x/sync v0.0.0-20201207232520-09787c993a3a // indirect
	golang.org/x/sys v0.0.0-20210616094352-59db8d763f22 // indirect
	google.golang.org/protobuf v1.26.0 // indirect
	gopkg.in/yaml.v2 v2.4.0 // indirect
)

replace github.com/pyroscope-io/pyroscope => /repo

replace github.com/mgechev/revive v1.0.3 => github.com/pyroscope-io/revive v1.0.6-0.20210330033039-4a71146f9dc1

replace github.com/dgrijalva/lfu-go => github.com/pyroscope-io/lfu-go v1.0.3
