module verifharness

go 1.21

require github.com/pyroscope-io/pyroscope v0.0.0

replace github.com/pyroscope-io/pyroscope => /repo

replace github.com/mgechev/revive v1.0.3 => github.com/pyroscope-io/revive v1.0.6-0.20210330033039-4a71146f9dc1

replace github.com/dgrijalva/lfu-go => github.com/pyroscope-io/lfu-go v1.0.3
