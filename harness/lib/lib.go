// Package lib: shared plumbing of the correspondence harnesses.
// A harness only generates inputs, runs the implementation and dumps what it observed
// (as a Coq term for the checker and as JSON for evidence/replay). It contains no oracle.
package lib

import (
	"bufio"
	"crypto/sha1"
	"encoding/hex"
	"encoding/json"
	"flag"
	"fmt"
	"math/rand"
	"os"
	"path/filepath"
	"sort"
	"strings"
)

type Case struct {
	ID         int                    `json:"id"`
	Seed       int64                  `json:"seed"`
	Origin     string                 `json:"origin"` // "gen", "corpus:<file>", "enum"
	Input      json.RawMessage        `json:"input"`
	Coq        string                 `json:"coq"`
	Obs        interface{}            `json:"obs,omitempty"`
	NonTrivial bool                   `json:"nontrivial"`
	Feat       map[string]interface{} `json:"feat,omitempty"`
	Key        string                 `json:"key"` // hash of canonical input
	Crash      string                 `json:"crash,omitempty"`
}

type Result struct {
	Coq        string
	Obs        interface{}
	NonTrivial bool
	Feat       map[string]interface{}
	Crash      string // implementation panicked / hung / raced: a spec failure by itself
}

type Options struct {
	Seed    int64
	Tier    string
	Out     string
	Corpus  string
	Only    int
	Replay  string
	N       int
	Shard   int
	Shards  int
}

// Harness describes one property's generator and runner. I is the JSON-serialisable input type.
type Harness[I any] struct {
	Prop string
	// number of generated cases per tier
	Quick, Thorough int
	Gen  func(r *rand.Rand, idx int, tier string) I
	// optional exhaustive enumeration (thorough tier, or sampled at quick): returns inputs
	Enum func(tier string) []I
	Run  func(in I) Result
}

func SubSeed(seed int64, idx int) int64 {
	h := sha1.Sum([]byte(fmt.Sprintf("%d/%d", seed, idx)))
	var v int64
	for i := 0; i < 8; i++ {
		v = v<<8 | int64(h[i])
	}
	if v < 0 {
		v = -v
	}
	return v
}

func Main[I any](h Harness[I]) {
	var o Options
	flag.Int64Var(&o.Seed, "seed", 1, "seed")
	flag.StringVar(&o.Tier, "tier", "quick", "quick|thorough")
	flag.StringVar(&o.Out, "out", "", "output JSONL file")
	flag.StringVar(&o.Corpus, "corpus", "", "directory of corpus inputs (*.json, each {\"input\": ...})")
	flag.IntVar(&o.Only, "only", -1, "run only generated case with this id")
	flag.StringVar(&o.Replay, "replay", "", "replay file: run only its input")
	flag.IntVar(&o.N, "n", 0, "override number of generated cases")
	flag.IntVar(&o.Shard, "shard", 0, "shard index")
	flag.IntVar(&o.Shards, "shards", 1, "number of shards (generated ids are split)")
	flag.Parse()

	var w *bufio.Writer
	if o.Out == "" {
		w = bufio.NewWriter(os.Stdout)
	} else {
		f, err := os.Create(o.Out)
		if err != nil {
			panic(err)
		}
		defer f.Close()
		w = bufio.NewWriterSize(f, 1<<20)
	}
	defer w.Flush()
	enc := json.NewEncoder(w)
	enc.SetEscapeHTML(false)

	emit := func(id int, seed int64, origin string, in I) {
		raw, err := json.Marshal(in)
		if err != nil {
			panic(err)
		}
		sum := sha1.Sum(raw)
		var res Result
		func() {
			defer func() {
				if r := recover(); r != nil {
					res = Result{Crash: fmt.Sprintf("harness-level panic: %v", r)}
				}
			}()
			res = h.Run(in)
		}()
		c := Case{ID: id, Seed: seed, Origin: origin, Input: raw, Coq: res.Coq, Obs: res.Obs,
			NonTrivial: res.NonTrivial, Feat: res.Feat, Key: hex.EncodeToString(sum[:8]), Crash: res.Crash}
		if err := enc.Encode(&c); err != nil {
			panic(err)
		}
	}

	if o.Replay != "" {
		b, err := os.ReadFile(o.Replay)
		if err != nil {
			panic(err)
		}
		var rf struct {
			Input json.RawMessage `json:"input"`
		}
		if err := json.Unmarshal(b, &rf); err != nil || rf.Input == nil {
			fmt.Fprintln(os.Stderr, "replay file has no input")
			os.Exit(2)
		}
		var in I
		if err := json.Unmarshal(rf.Input, &in); err != nil {
			panic(err)
		}
		emit(1, 0, "replay:"+o.Replay, in)
		return
	}

	id := 1
	// corpus first (only shard 0)
	if o.Corpus != "" && o.Shard == 0 && o.Only < 0 {
		files, _ := filepath.Glob(filepath.Join(o.Corpus, "*.json"))
		sort.Strings(files)
		for _, f := range files {
			b, err := os.ReadFile(f)
			if err != nil {
				continue
			}
			var rf struct {
				Input json.RawMessage `json:"input"`
			}
			if err := json.Unmarshal(b, &rf); err != nil || rf.Input == nil {
				fmt.Fprintf(os.Stderr, "corpus file %s: no input\n", f)
				continue
			}
			var in I
			if err := json.Unmarshal(rf.Input, &in); err != nil {
				fmt.Fprintf(os.Stderr, "corpus file %s: %v\n", f, err)
				continue
			}
			emit(id, 0, "corpus:"+filepath.Base(f), in)
			id++
		}
	}
	id = 1000 // generated ids start at 1000 so that corpus ids stay stable
	n := h.Quick
	if o.Tier == "thorough" {
		n = h.Thorough
	}
	if o.N > 0 {
		n = o.N
	}
	for i := 0; i < n; i++ {
		cid := id + i
		if o.Only >= 0 && cid != o.Only {
			continue
		}
		if o.Only < 0 && i%o.Shards != o.Shard {
			continue
		}
		ss := SubSeed(o.Seed, cid)
		r := rand.New(rand.NewSource(ss))
		in := h.Gen(r, i, o.Tier)
		emit(cid, ss, "gen", in)
	}
	if h.Enum != nil && o.Only < 0 {
		ins := h.Enum(o.Tier)
		base := 10000000
		for i, in := range ins {
			if i%o.Shards != o.Shard {
				continue
			}
			emit(base+i, 0, "enum", in)
		}
	}
}

// ---------- Coq term printers ----------

func N(v uint64) string { return fmt.Sprintf("%d", v) }

func Z(v int64) string {
	if v < 0 {
		return fmt.Sprintf("(%d)%%Z", v)
	}
	return fmt.Sprintf("%d%%Z", v)
}

func Nat(v int) string { return fmt.Sprintf("%d%%nat", v) }

func Bool(b bool) string {
	if b {
		return "true"
	}
	return "false"
}

func List(items []string) string { return "[" + strings.Join(items, "; ") + "]" }

func Bytes(b []byte) string {
	items := make([]string, len(b))
	for i, c := range b {
		items[i] = fmt.Sprintf("%d", c)
	}
	return List(items)
}

func BytesList(bs [][]byte) string {
	items := make([]string, len(bs))
	for i, b := range bs {
		items[i] = Bytes(b)
	}
	return List(items)
}

func Pair(a, b string) string { return "(" + a + ", " + b + ")" }

func Option(s *string) string {
	if s == nil {
		return "None"
	}
	return "(Some " + *s + ")"
}

func Some(s string) string { return "(Some " + s + ")" }

// Str prints a Coq string literal; only for ASCII printable text without control characters.
func Str(s string) string {
	var sb strings.Builder
	sb.WriteByte('"')
	for _, c := range []byte(s) {
		if c == '"' {
			sb.WriteString("\"\"")
		} else if c < 32 || c > 126 {
			sb.WriteByte('?')
		} else {
			sb.WriteByte(c)
		}
	}
	sb.WriteString("\"%string")
	return sb.String()
}

// ---------- random helpers ----------

func Pick[T any](r *rand.Rand, xs []T) T { return xs[r.Intn(len(xs))] }

func Chance(r *rand.Rand, p float64) bool { return r.Float64() < p }

func Range(r *rand.Rand, lo, hi int) int { // inclusive
	if hi <= lo {
		return lo
	}
	return lo + r.Intn(hi-lo+1)
}
