//go:build verif

// Package treeu: helpers around pkg/storage/tree for the harnesses (dump to Coq, random trees).
package treeu

import (
	"math/rand"
	"strings"

	"github.com/pyroscope-io/pyroscope/pkg/storage/tree"
	"verifharness/lib"
)

// Coq prints a dumped tree as a Coq term of type tnode.
func Coq(n *tree.VerifNode) string {
	var sb strings.Builder
	var rec func(n *tree.VerifNode)
	rec = func(n *tree.VerifNode) {
		sb.WriteString("(TNode ")
		sb.WriteString(lib.Bytes(n.Name))
		sb.WriteString(" ")
		sb.WriteString(lib.N(n.Self))
		sb.WriteString(" ")
		sb.WriteString(lib.N(n.Total))
		sb.WriteString(" [")
		for i, c := range n.Children {
			if i > 0 {
				sb.WriteString("; ")
			}
			rec(c)
		}
		sb.WriteString("])")
	}
	rec(n)
	return sb.String()
}

// JSON-friendly tree
type JNode struct {
	Name     []byte   `json:"n"`
	Self     uint64   `json:"s"`
	Total    uint64   `json:"t"`
	Children []*JNode `json:"c,omitempty"`
}

func ToJ(n *tree.VerifNode) *JNode {
	r := &JNode{Name: n.Name, Self: n.Self, Total: n.Total}
	for _, c := range n.Children {
		r.Children = append(r.Children, ToJ(c))
	}
	return r
}

func FromJ(n *JNode) *tree.VerifNode {
	r := &tree.VerifNode{Name: n.Name, Self: n.Self, Total: n.Total}
	if r.Name == nil {
		r.Name = []byte{}
	}
	for _, c := range n.Children {
		r.Children = append(r.Children, FromJ(c))
	}
	return r
}

func Size(n *tree.VerifNode) int {
	s := 1
	for _, c := range n.Children {
		s += Size(c)
	}
	return s
}

// Stack is one (key, count) insertion: key is the ';'-joined stack.
type Stack struct {
	Key []byte `json:"k"`
	V   uint64 `json:"v"`
}

func CoqStacks(ss []Stack) string {
	items := make([]string, len(ss))
	for i, s := range ss {
		items[i] = lib.Pair(lib.Bytes(s.Key), lib.N(s.V))
	}
	return lib.List(items)
}

var frameAlphabet = [][]byte{[]byte("a"), []byte("b"), []byte("c"), []byte("ab"), []byte("other"), []byte(""), []byte("main"), {0xff, 0x00}, []byte("a b"), []byte("z")}

// RandStacks makes n stacks over a small frame alphabet so that stacks share prefixes.
func RandStacks(r *rand.Rand, n int, maxDepth int, maxV uint64) []Stack {
	res := make([]Stack, 0, n)
	for i := 0; i < n; i++ {
		d := 1 + r.Intn(maxDepth)
		var key []byte
		for j := 0; j < d; j++ {
			if j > 0 {
				key = append(key, ';')
			}
			key = append(key, frameAlphabet[r.Intn(len(frameAlphabet))]...)
		}
		var v uint64
		switch r.Intn(6) {
		case 0:
			v = 0
		case 1:
			v = 1
		default:
			v = uint64(r.Int63n(int64(maxV))) + 1
		}
		res = append(res, Stack{Key: key, V: v})
	}
	return res
}

func Build(ss []Stack) *tree.Tree {
	t := tree.New()
	for _, s := range ss {
		t.Insert(s.Key, s.V)
	}
	return t
}
