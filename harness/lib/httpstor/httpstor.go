//go:build verif

// Package httpstor: run the storage histories of package stor through the real HTTP handlers instead of
// storage.Put / storage.Get: POST /ingest (collapsed-text body, from/until as Unix seconds, name with tags,
// spyName/sampleRate/units/aggregationType as query parameters) and GET /render?format=json (flamebearer with a
// budget far above the node count, timeline, metadata).  Dump only: the flamebearer is printed as the body
// carries it and turned back into a tree by Corr/FbTree.v (tree_of_fb) on the Coq side.
package httpstor

import (
	"bytes"
	"encoding/json"
	"fmt"
	"net/http"
	"net/http/httptest"
	"net/url"
	"strconv"

	"github.com/pyroscope-io/pyroscope/pkg/server"
	"verifharness/lib"
	"verifharness/lib/stor"
)

const RenderBudget = 65536

type Server struct {
	St  *stor.Store
	Mux http.Handler
}

func Open(dir string) (*Server, error) {
	st, err := stor.Open(dir, 0, 2048)
	if err != nil {
		return nil, err
	}
	ctrl, err := server.New(st.Cfg, st.S)
	if err != nil {
		st.Destroy()
		return nil, err
	}
	return &Server{St: st, Mux: ctrl.VerifMux()}, nil
}

func (s *Server) Destroy() { s.St.Destroy() }

// what GET /render answered
type Render struct {
	Status int
	Nil    bool // "timeline": null — storage had nothing for the query
	Names  []string
	Levels [][]int64
	NumTicks int64
	TLStart   int64
	TLDelta   int64
	TLSamples []uint64
	Spy   string
	Rate  uint32
	Units string
}

type Result struct {
	Err    string
	Status int
	Get    *Render
}

func (s *Server) serve(req *http.Request) (rec *httptest.ResponseRecorder, crash string) {
	rec = httptest.NewRecorder()
	defer func() {
		if r := recover(); r != nil {
			crash = fmt.Sprintf("PANIC: %v", r)
		}
	}()
	s.Mux.ServeHTTP(rec, req)
	return rec, ""
}

// Body renders the stacks of a put as the collapsed text format ("stack count" per line).
func Body(op stor.Op) []byte {
	var b bytes.Buffer
	for _, st := range op.Stacks {
		b.Write(st.Key)
		b.WriteByte(' ')
		b.WriteString(strconv.FormatUint(st.V, 10))
		b.WriteByte('\n')
	}
	return b.Bytes()
}

// Apply runs put and get through HTTP; every other kind of step goes to the storage object directly.
func (s *Server) Apply(op stor.Op) Result {
	switch op.Kind {
	case "put":
		q := url.Values{}
		q.Set("name", op.Name)
		q.Set("from", strconv.FormatInt(op.From, 10))
		q.Set("until", strconv.FormatInt(op.Until, 10))
		q.Set("spyName", op.Spy)
		q.Set("sampleRate", strconv.FormatUint(uint64(op.Rate), 10))
		q.Set("units", op.Units)
		q.Set("aggregationType", op.Agg)
		rec, crash := s.serve(httptest.NewRequest("POST", "/ingest?"+q.Encode(), bytes.NewReader(Body(op))))
		if crash != "" {
			return Result{Err: crash}
		}
		if rec.Code != 200 {
			return Result{Err: fmt.Sprintf("status %d", rec.Code), Status: rec.Code}
		}
		return Result{Status: 200}
	case "get":
		q := url.Values{}
		q.Set("name", op.Name)
		q.Set("from", strconv.FormatInt(op.From, 10))
		q.Set("until", strconv.FormatInt(op.Until, 10))
		q.Set("format", "json")
		q.Set("max-nodes", strconv.Itoa(RenderBudget))
		rec, crash := s.serve(httptest.NewRequest("GET", "/render?"+q.Encode(), nil))
		if crash != "" {
			return Result{Err: crash}
		}
		if rec.Code != 200 {
			return Result{Err: fmt.Sprintf("status %d", rec.Code), Status: rec.Code}
		}
		var body struct {
			Timeline *struct {
				StartTime     int64    `json:"startTime"`
				Samples       []uint64 `json:"samples"`
				DurationDelta int64    `json:"durationDelta"`
			} `json:"timeline"`
			Flamebearer struct {
				Names    []string  `json:"names"`
				Levels   [][]int64 `json:"levels"`
				NumTicks int64     `json:"numTicks"`
			} `json:"flamebearer"`
			Metadata struct {
				SpyName    string `json:"spyName"`
				SampleRate uint32 `json:"sampleRate"`
				Units      string `json:"units"`
			} `json:"metadata"`
		}
		if err := json.Unmarshal(rec.Body.Bytes(), &body); err != nil {
			return Result{Err: "PANIC: /render body is not JSON: " + err.Error()}
		}
		r := &Render{Status: 200, Names: body.Flamebearer.Names, Levels: body.Flamebearer.Levels, NumTicks: body.Flamebearer.NumTicks,
			Spy: body.Metadata.SpyName, Rate: body.Metadata.SampleRate, Units: body.Metadata.Units}
		if body.Timeline == nil {
			r.Nil = true
		} else {
			r.TLStart, r.TLDelta, r.TLSamples = body.Timeline.StartTime, body.Timeline.DurationDelta, body.Timeline.Samples
		}
		return Result{Status: 200, Get: r}
	default:
		res := s.St.Apply(op)
		return Result{Err: res.Err}
	}
}

func coqFb(g *Render) string {
	ns := make([]string, len(g.Names))
	for i, n := range g.Names {
		ns[i] = lib.Bytes([]byte(n))
	}
	ls := make([]string, len(g.Levels))
	for i, l := range g.Levels {
		xs := make([]string, len(l))
		for j, v := range l {
			xs[j] = lib.Z(v)
		}
		ls[i] = lib.List(xs)
	}
	return "(tree_of_fb " + lib.List(ns) + " " + lib.List(ls) + ")"
}

// CoqHop prints one step with its observation as a term of type hop (Corr/StorCorr.v); the tree of a query is
// the flamebearer wrapped in tree_of_fb (Corr/FbTree.v).
func CoqHop(op stor.Op, res Result) string {
	switch op.Kind {
	case "put":
		return stor.CoqHop(op, stor.OpResult{Err: res.Err})
	case "get":
		obs := "None"
		if g := res.Get; g != nil && !g.Nil {
			obs = "(Some {| g_tree := " + coqFb(g) + "; g_tl_start := " + lib.Z(g.TLStart) + "; g_tl_delta := " + lib.Z(g.TLDelta) +
				"; g_tl_samples := " + stor.CoqU64s(g.TLSamples) + "; g_spy := " + lib.Bytes([]byte(g.Spy)) +
				"; g_rate := " + lib.N(uint64(g.Rate)) + "; g_units := " + lib.Bytes([]byte(g.Units)) + " |})"
		}
		return "(HGet " + stor.CoqSid(op.Name) + " " + lib.Z(op.From) + " " + lib.Z(op.Until) + " " + obs + ")"
	default:
		return stor.CoqHop(op, stor.OpResult{Err: res.Err})
	}
}
