//go:build verif

// Package stor: run storage-level histories on the real pkg/storage (shared by C01, C11, C13).
package stor

import (
	"encoding/json"
	"fmt"
	"os"
	"strings"
	"time"

	"github.com/pyroscope-io/pyroscope/pkg/config"
	"github.com/pyroscope-io/pyroscope/pkg/storage"
	"github.com/pyroscope-io/pyroscope/pkg/storage/tree"
	"github.com/sirupsen/logrus"
	"verifharness/lib"
	"verifharness/lib/treeu"
)

// The supported epoch block: all data of a series inside one 10^9 s block counted from year 1.
const EpochLo = 864403200
const EpochHi = 1864403200

type Store struct {
	S    *storage.Storage
	Dir  string
	Cfg  *config.Server
	hung bool
}

func init() {
	logrus.SetLevel(logrus.PanicLevel)
	storage.VerifDisablePeriodicTasks()
}

func Open(dir string, retention time.Duration, maxNodes int) (*Store, error) {
	if err := os.MkdirAll(dir, 0o755); err != nil {
		return nil, err
	}
	cfg := &config.Server{
		StoragePath:           dir,
		APIBindAddr:           ":0",
		CacheEvictThreshold:   0.99,
		CacheEvictVolume:      0.10,
		MaxNodesSerialization: maxNodes,
		MaxNodesRender:        maxNodes,
		Retention:             retention,
		BadgerLogLevel:        "error",
	}
	s, err := storage.New(cfg)
	if err != nil {
		return nil, err
	}
	s.VerifWrapCaches(nil)
	return &Store{S: s, Dir: dir, Cfg: cfg}, nil
}

func (st *Store) Close() { st.S.Close() }

func (st *Store) Destroy() {
	st.S.Close()
	os.RemoveAll(st.Dir)
}

func (st *Store) Reopen() error {
	st.S.Close()
	s, err := storage.New(st.Cfg)
	if err != nil {
		return err
	}
	s.VerifWrapCaches(nil)
	st.S = s
	return nil
}

var zone530 = time.FixedZone("verif+0530", 5*3600+1800)

// T turns Unix seconds into a time.Time whose Location depends on the value (deterministically, so that
// histories replay): the same instant reaches the storage as Local, UTC or a fixed-offset zone, as it does in
// production (attime.Parse yields UTC for YYYYMMDD dates and Local for Unix timestamps). Instants are what
// matters; nothing may depend on the Location.
func T(unix int64) time.Time {
	t := time.Unix(unix, 0)
	switch (unix / 10) % 3 {
	case 1:
		return t.UTC()
	case 2:
		return t.In(zone530)
	}
	return t
}

// Op is one step of a storage history (JSON-serialisable: it is part of harness inputs).
type Op struct {
	Kind   string        `json:"kind"` // put | get | delete | retention | evict | restart
	Name   string        `json:"name,omitempty"`
	From   int64         `json:"from,omitempty"` // unix seconds
	Until  int64         `json:"until,omitempty"`
	Stacks []treeu.Stack `json:"stacks,omitempty"`
	Spy    string        `json:"spy,omitempty"`
	Rate   uint32        `json:"rate,omitempty"`
	Units  string        `json:"units,omitempty"`
	Agg    string        `json:"agg,omitempty"`
	Cache  string        `json:"cache,omitempty"`
	Frac   float64       `json:"frac,omitempty"`
	Thr    int64         `json:"thr,omitempty"` // put: retention threshold (unix) in force, 0 = none
	// sub-second parts of From/Until (nanoseconds, 0..999999999): direct callers of the storage, and `until=now`
	// style arguments, carry them; the HTTP driver ignores them (Unix-second parameters cannot)
	FromNs  int64 `json:"from_ns,omitempty"`
	UntilNs int64 `json:"until_ns,omitempty"`
}

// TN is T with a sub-second part.
func TN(unix, ns int64) time.Time {
	return T(unix).Add(time.Duration(ns))
}

// CeilUntil is the whole-second end that covers the same 10 s slots as (Until, UntilNs): the model works in whole
// seconds and slot boundaries are whole seconds, so a positive sub-second part is one more second for rounding.
func (op Op) CeilUntil() int64 {
	if op.UntilNs > 0 {
		return op.Until + 1
	}
	return op.Until
}

type GetDump struct {
	Nil       bool
	Tree      *tree.VerifNode
	TLStart   int64
	TLDelta   int64
	TLSamples []uint64
	Spy       string
	Rate      uint32
	Units     string
}

// Result of one op as observed on the implementation.
type OpResult struct {
	Err string
	Get *GetDump
}

// Apply runs one step under a watchdog: an operation that does not return within a minute is reported like a
// panic (the harnesses turn that into a crash verdict) and the store is not used again.
func (st *Store) Apply(op Op) OpResult {
	if st.hung {
		return OpResult{Err: "PANIC: skipped, an earlier operation hung"}
	}
	ch := make(chan OpResult, 1)
	go func() { ch <- st.apply(op) }()
	select {
	case r := <-ch:
		return r
	case <-time.After(60 * time.Second):
		st.hung = true
		return OpResult{Err: "PANIC: operation " + op.Kind + " did not return within 60 s (hang)"}
	}
}

func (st *Store) apply(op Op) (res OpResult) {
	defer func() {
		if r := recover(); r != nil {
			res.Err = fmt.Sprintf("PANIC: %v", r)
		}
	}()
	switch op.Kind {
	case "put":
		key, err := storage.ParseKey(op.Name)
		if err != nil {
			return OpResult{Err: err.Error()}
		}
		t := treeu.Build(op.Stacks)
		if op.Thr != 0 {
			st.Cfg.Retention = time.Since(time.Unix(op.Thr, 0))
		} else {
			st.Cfg.Retention = 0
		}
		err = st.S.Put(&storage.PutInput{
			StartTime: TN(op.From, op.FromNs), EndTime: TN(op.Until, op.UntilNs), Key: key, Val: t,
			SpyName: op.Spy, SampleRate: op.Rate, Units: op.Units, AggregationType: op.Agg,
		})
		if err != nil {
			return OpResult{Err: err.Error()}
		}
	case "get":
		key, err := storage.ParseKey(op.Name)
		if err != nil {
			return OpResult{Err: err.Error()}
		}
		out, err := st.S.Get(&storage.GetInput{StartTime: TN(op.From, op.FromNs), EndTime: TN(op.Until, op.UntilNs), Key: key})
		if err != nil {
			return OpResult{Err: err.Error()}
		}
		if out == nil {
			return OpResult{Get: &GetDump{Nil: true}}
		}
		d := &GetDump{Tree: out.Tree.VerifDump(), Spy: out.SpyName, Rate: out.SampleRate, Units: out.Units}
		if out.Timeline != nil {
			// Timeline's exported fields are what /render serialises
			b, _ := json.Marshal(out.Timeline)
			var tl struct {
				StartTime     int64    `json:"startTime"`
				Samples       []uint64 `json:"samples"`
				DurationDelta int64    `json:"durationDelta"`
			}
			json.Unmarshal(b, &tl)
			d.TLStart, d.TLDelta, d.TLSamples = tl.StartTime, tl.DurationDelta, tl.Samples
		}
		return OpResult{Get: d}
	case "delete":
		key, err := storage.ParseKey(op.Name)
		if err != nil {
			return OpResult{Err: err.Error()}
		}
		if err := st.S.Delete(&storage.DeleteInput{Key: key}); err != nil {
			return OpResult{Err: err.Error()}
		}
	case "retention":
		if err := st.S.DeleteDataBefore(T(op.From)); err != nil {
			return OpResult{Err: err.Error()}
		}
	case "evict":
		st.S.VerifEvict(op.Cache, op.Frac)
	case "restart":
		if err := st.Reopen(); err != nil {
			return OpResult{Err: err.Error()}
		}
	default:
		return OpResult{Err: "unknown op " + op.Kind}
	}
	return OpResult{}
}

// ---- Coq printing ----

func CoqU64s(v []uint64) string {
	items := make([]string, len(v))
	for i, x := range v {
		items[i] = lib.N(x)
	}
	return lib.List(items)
}

func CoqGet(g *GetDump) string {
	if g == nil || g.Nil {
		return "None"
	}
	var sb strings.Builder
	sb.WriteString("(Some {| g_tree := ")
	sb.WriteString(treeu.Coq(g.Tree))
	sb.WriteString("; g_tl_start := " + lib.Z(g.TLStart))
	sb.WriteString("; g_tl_delta := " + lib.Z(g.TLDelta))
	sb.WriteString("; g_tl_samples := " + CoqU64s(g.TLSamples))
	sb.WriteString("; g_spy := " + lib.Bytes([]byte(g.Spy)))
	sb.WriteString("; g_rate := " + lib.N(uint64(g.Rate)))
	sb.WriteString("; g_units := " + lib.Bytes([]byte(g.Units)) + " |})")
	return sb.String()
}
