//go:build verif

package stor

import (
	"fmt"
	"math/rand"
	"sort"
	"strings"

	"github.com/pyroscope-io/pyroscope/pkg/storage"
	"verifharness/lib"
	"verifharness/lib/treeu"
)

// SeriesDef: a series by application name and tags.
type SeriesDef struct {
	App  string            `json:"app"`
	Tags map[string]string `json:"tags,omitempty"`
}

// Name renders app{k=v,...} with the tags in the given order.
func (s SeriesDef) Name(order []string) string {
	parts := []string{}
	for _, k := range order {
		parts = append(parts, k+"="+s.Tags[k])
	}
	return s.App + "{" + strings.Join(parts, ",") + "}"
}

func (s SeriesDef) SortedKeys() []string {
	ks := []string{}
	for k := range s.Tags {
		ks = append(ks, k)
	}
	sort.Strings(ks)
	return ks
}

func (s SeriesDef) RandName(r *rand.Rand) string {
	ks := s.SortedKeys()
	r.Shuffle(len(ks), func(i, j int) { ks[i], ks[j] = ks[j], ks[i] })
	return s.Name(ks)
}

// CoqSid prints the Coq record for a series/selector name as Go parses it.
func CoqSid(name string) string {
	k, _ := storage.ParseKey(name)
	norm := k.Normalized()
	// tags: re-derive from the normalized text (app{k=v,...}); names generated here contain no
	// '{', '}', ',' or '=' inside keys and values
	app := k.AppName()
	inner := norm[len(app)+1 : len(norm)-1]
	tags := []string{}
	if inner != "" {
		for _, kv := range strings.Split(inner, ",") {
			i := strings.Index(kv, "=")
			tags = append(tags, lib.Pair(lib.Bytes([]byte(kv[:i])), lib.Bytes([]byte(kv[i+1:]))))
		}
	}
	return "{| sid_key := " + lib.Bytes([]byte(norm)) + "; sid_app := " + lib.Bytes([]byte(app)) +
		"; sid_tags := " + lib.List(tags) + " |}"
}

func CoqMeta(op Op) string {
	return "{| m_spy := " + lib.Bytes([]byte(op.Spy)) + "; m_rate := " + lib.N(uint64(op.Rate)) +
		"; m_units := " + lib.Bytes([]byte(op.Units)) + "; m_agg := " + lib.Bytes([]byte(op.Agg)) + " |}"
}

// CoqHop prints one history step with its observation as a term of type hop (Corr/StorCorr.v).
// thr: retention threshold (unix) in force for a put, or nil.
func CoqHop(op Op, res OpResult) string {
	switch op.Kind {
	case "put":
		t := "None"
		if op.Thr != 0 {
			t = lib.Some(lib.Z(op.Thr))
		}
		return "(HPut " + CoqSid(op.Name) + " " + lib.Z(op.From) + " " + lib.Z(op.CeilUntil()) + " " +
			treeu.CoqStacks(op.Stacks) + " " + CoqMeta(op) + " " + t + " " + lib.Bool(res.Err == "") + ")"
	case "get":
		return "(HGet " + CoqSid(op.Name) + " " + lib.Z(op.From) + " " + lib.Z(op.CeilUntil()) + " " + CoqGet(res.Get) + ")"
	case "delete":
		return "(HDelete " + CoqSid(op.Name) + ")"
	case "retention":
		return "(HRetention " + lib.Z(op.From) + ")"
	case "evict", "restart":
		return "HNop"
	}
	return ""
}

const UnixOffset = 62135596800

// Boundary returns a Unix time that lies on the year-1 grid of 10^(lvl) slots (10^(lvl+1) s),
// inside the supported epoch block, away from its ends.
func Boundary(r *rand.Rand, lvl int) int64 {
	w := int64(10)
	for i := 0; i < lvl; i++ {
		w *= 10
	}
	lo := (int64(EpochLo) + UnixOffset + 20000000) / w
	hi := (int64(EpochHi) + UnixOffset - 20000000) / w
	k := lo + r.Int63n(hi-lo)
	return k*w - UnixOffset
}

var stackAlphabet = []string{"a", "b", "c", "main", "x y", "z"}

// EvenStacks: stacks whose counts are multiples of span (count = span*k, k in 0..5).
func EvenStacks(r *rand.Rand, n int, span int64, even bool) []treeu.Stack {
	res := []treeu.Stack{}
	for i := 0; i < n; i++ {
		d := 1 + r.Intn(3)
		parts := []string{}
		for j := 0; j < d; j++ {
			parts = append(parts, stackAlphabet[r.Intn(len(stackAlphabet))])
		}
		k := uint64(r.Intn(6))
		v := k * uint64(span)
		if !even {
			v += uint64(r.Intn(int(span)))
		}
		res = append(res, treeu.Stack{Key: []byte(strings.Join(parts, ";")), V: v})
	}
	return res
}

var TagKeys = []string{"env", "region", "ver"}
var TagVals = map[string][]string{"env": {"prod", "dev"}, "region": {"us", "eu:1", "eu/2.x"}, "ver": {"1", "2"}}

// RandSeries makes n distinct series of one app with overlapping tag sets.
func RandSeries(r *rand.Rand, app string, n int) []SeriesDef {
	res := []SeriesDef{}
	seen := map[string]bool{}
	for tries := 0; len(res) < n && tries < 50; tries++ {
		s := SeriesDef{App: app, Tags: map[string]string{}}
		for _, k := range TagKeys {
			if r.Intn(3) > 0 {
				s.Tags[k] = lib.Pick(r, TagVals[k])
			}
		}
		nm := s.Name(s.SortedKeys())
		if !seen[nm] {
			seen[nm] = true
			res = append(res, s)
		}
	}
	return res
}

// Selector over an app: subset of one series' tags (so that it matches at least that series) or random.
func RandSelector(r *rand.Rand, series []SeriesDef) SeriesDef {
	s := series[r.Intn(len(series))]
	sel := SeriesDef{App: s.App, Tags: map[string]string{}}
	for k, v := range s.Tags {
		if r.Intn(2) == 0 {
			sel.Tags[k] = v
		}
	}
	if r.Intn(8) == 0 { // a selector that may match nothing
		k := lib.Pick(r, TagKeys)
		sel.Tags[k] = lib.Pick(r, TagVals[k])
	}
	return sel
}

func UniqueApp(prefix string, caseIdx int, i int) string {
	return fmt.Sprintf("%s%d.%d", prefix, caseIdx, i)
}
