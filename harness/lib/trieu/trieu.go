//go:build verif

// Package trieu: helpers around pkg/structs/transporttrie for the harnesses (dump to Coq, key generators).
package trieu

import (
	"math/rand"
	"strings"

	"github.com/pyroscope-io/pyroscope/pkg/structs/transporttrie"
	"verifharness/lib"
)

// Coq prints a dumped trie as a Coq term of type ttnode.
func Coq(n *transporttrie.VerifNode) string {
	var sb strings.Builder
	var rec func(n *transporttrie.VerifNode)
	rec = func(n *transporttrie.VerifNode) {
		sb.WriteString("(TT ")
		sb.WriteString(lib.Bytes(n.Name))
		sb.WriteString(" ")
		sb.WriteString(lib.N(n.Value))
		sb.WriteString(" [")
		for i, c := range n.Children {
			if i > 0 {
				sb.WriteString("; ")
			}
			rec(c)
		}
		sb.WriteString("])")
	}
	rec(n)
	return sb.String()
}

func Size(n *transporttrie.VerifNode) int {
	s := 1
	for _, c := range n.Children {
		s += Size(c)
	}
	return s
}

// NodeSet returns "fullkey\x00name" for every node: a split renames an existing node.
func NodeSet(n *transporttrie.VerifNode) map[string]bool {
	res := map[string]bool{}
	var rec func(n *transporttrie.VerifNode, prefix string)
	rec = func(n *transporttrie.VerifNode, prefix string) {
		full := prefix + string(n.Name)
		res[full+"\x00"+string(n.Name)] = true
		for _, c := range n.Children {
			rec(c, full)
		}
	}
	rec(n, "")
	return res
}

type KV struct {
	K []byte `json:"k"`
	V uint64 `json:"v"`
}

// Iter runs Iterate and copies every reported name (Iterate reuses the backing array of the prefix).
func Iter(t *transporttrie.Trie) []KV {
	var res []KV
	t.Iterate(func(name []byte, val uint64) {
		res = append(res, KV{K: append([]byte{}, name...), V: val})
	})
	return res
}

func CoqKVs(l []KV) string {
	items := make([]string, len(l))
	for i, kv := range l {
		items[i] = lib.Pair(lib.Bytes(kv.K), lib.N(kv.V))
	}
	return lib.List(items)
}

// frame names sharing byte prefixes that are not frame boundaries, spaces, bytes >= 0x80
var Frames = [][]byte{
	[]byte("a"), []byte("ab"), []byte("abc"), []byte("abd"), []byte("b"), []byte("ba"),
	[]byte("main"), []byte("main.f"), []byte("main.g"), []byte("foo"), []byte("foobar"), []byte("fo"),
	[]byte("x y"), []byte("x z"), {0xff}, {0xff, 0xfe}, {0xc3, 0xa9}, {0xc3, 0xa8}, []byte("1"), []byte("10"),
}

// RandKey: 1..maxDepth frames joined with ';'
func RandKey(r *rand.Rand, maxDepth int, nframes int) []byte {
	if nframes > len(Frames) {
		nframes = len(Frames)
	}
	d := 1 + r.Intn(maxDepth)
	var key []byte
	for j := 0; j < d; j++ {
		if j > 0 {
			key = append(key, ';')
		}
		key = append(key, Frames[r.Intn(nframes)]...)
	}
	return key
}

// Mutate returns a key related to k: a proper prefix cut anywhere, an extension, or a divergence after a shared prefix.
func Mutate(r *rand.Rand, k []byte) []byte {
	if len(k) == 0 {
		return []byte("q")
	}
	switch r.Intn(4) {
	case 0: // proper prefix (possibly cutting a frame in the middle)
		if len(k) == 1 {
			return append(append([]byte{}, k...), 'x')
		}
		return append([]byte{}, k[:1+r.Intn(len(k)-1)]...)
	case 1: // extension
		return append(append([]byte{}, k...), Frames[r.Intn(len(Frames))]...)
	case 2: // divergence after a shared prefix
		i := r.Intn(len(k))
		res := append([]byte{}, k[:i]...)
		return append(res, byte('A'+r.Intn(3)))
	default: // change the last byte
		res := append([]byte{}, k...)
		res[len(res)-1] ^= byte(1 + r.Intn(3))
		return res
	}
}

// WideKeys returns fan keys prefix+b+tail with pairwise distinct bytes b (a node with fan-out `fan` below prefix),
// in random order, and the keys going through the smallest and the largest lead byte.
// textSafe restricts the bytes to letters and digits.
func WideKeys(r *rand.Rand, prefix []byte, fan int, textSafe bool) (keys [][]byte, smallest, largest []byte) {
	var pool []byte
	if textSafe {
		for c := byte('0'); c <= '9'; c++ {
			pool = append(pool, c)
		}
		for c := byte('A'); c <= 'Z'; c++ {
			pool = append(pool, c)
		}
		for c := byte('a'); c <= 'z'; c++ {
			pool = append(pool, c)
		}
	} else {
		for c := 1; c < 256; c++ {
			pool = append(pool, byte(c))
		}
	}
	r.Shuffle(len(pool), func(i, j int) { pool[i], pool[j] = pool[j], pool[i] })
	if fan > len(pool) {
		fan = len(pool)
	}
	tails := [][]byte{{}, []byte("q"), []byte("qr"), []byte(";f")}
	lo, hi := -1, -1
	for i := 0; i < fan; i++ {
		k := append(append(append([]byte{}, prefix...), pool[i]), tails[r.Intn(len(tails))]...)
		keys = append(keys, k)
		if lo < 0 || pool[i] < pool[lo] {
			lo = i
		}
		if hi < 0 || pool[i] > pool[hi] {
			hi = i
		}
	}
	return keys, keys[lo], keys[hi]
}
