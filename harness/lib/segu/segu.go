//go:build verif

// Package segu: helpers around pkg/storage/segment for the harnesses (dumps as Coq terms,
// generators of write histories on the year-1 bucket grid). Dump only, no oracle.
package segu

import (
	"math/big"
	"math/rand"
	"strings"
	"time"

	"github.com/pyroscope-io/pyroscope/pkg/storage/segment"
	"verifharness/lib"
)

// Offset between year 1 and the Unix epoch in seconds (time.Truncate rounds relative to year 1).
const Off = int64(62135596800)

// Pow10 in slots.
func Pow10(l int) int64 {
	r := int64(1)
	for i := 0; i < l; i++ {
		r *= 10
	}
	return r
}

// SlotUnix converts a slot number (10 s units since year 1) to Unix seconds.
func SlotUnix(slot int64) int64 { return slot*10 - Off }

// UnixSlot converts Unix seconds to the slot containing them.
func UnixSlot(u int64) int64 {
	y := u + Off
	if y >= 0 {
		return y / 10
	}
	return -((-y + 9) / 10)
}

// Zs/Ze choose the *time.Location of the time.Time values handed to the segment (same instant):
// 0 = time.Unix (Local), 1 = UTC, 2 = a fixed-offset zone. Callers of the real code mix them
// (attime.Parse returns UTC for dates and Local for Unix timestamps; Deserialize rebuilds node times
// with time.Unix), so the harnesses do too.
type Write struct {
	St      int64  `json:"st"` // Unix seconds
	Et      int64  `json:"et"`
	Samples uint64 `json:"n"`
	Zs      int    `json:"zs,omitempty"`
	Ze      int    `json:"ze,omitempty"`
}

type Query struct {
	St int64 `json:"st"`
	Et int64 `json:"et"`
	Zs int   `json:"zs,omitempty"`
	Ze int   `json:"ze,omitempty"`
}

var fixedZone = time.FixedZone("verif+0530", 5*3600+1800)

// T builds the time.Time for Unix second u in the location chosen by z.
func T(u int64, z int) time.Time {
	switch z % 3 {
	case 1:
		return time.Unix(u, 0).UTC()
	case 2:
		return time.Unix(u, 0).In(fixedZone)
	}
	return time.Unix(u, 0)
}

// RandZone: Local, UTC or the fixed-offset zone.
func RandZone(r *rand.Rand) int { return r.Intn(3) }

// PutCB is one callback of Segment.Put as observed.
type PutCB struct {
	Depth    int
	T        int64
	Num, Den int64
	Addons   [][2]int64 // depth, unix
}

type GetCB struct {
	Depth           int
	T               int64
	Samples, Writes uint64
	Num, Den        int64
}

// Put runs Segment.Put and records the callbacks in the order they are made.
func Put(s *segment.Segment, w Write) []PutCB {
	var cbs []PutCB
	s.Put(T(w.St, w.Zs), T(w.Et, w.Ze), w.Samples, func(depth int, t time.Time, r *big.Rat, addons []segment.Addon) {
		c := PutCB{Depth: depth, T: t.Unix(), Num: r.Num().Int64(), Den: r.Denom().Int64()}
		for _, a := range addons {
			c.Addons = append(c.Addons, [2]int64{int64(a.Depth), a.T.Unix()})
		}
		cbs = append(cbs, c)
	})
	return cbs
}

func Get(s *segment.Segment, q Query) []GetCB {
	var cbs []GetCB
	s.Get(T(q.St, q.Zs), T(q.Et, q.Ze), func(depth int, samples, writes uint64, t time.Time, r *big.Rat) {
		cbs = append(cbs, GetCB{Depth: depth, T: t.Unix(), Samples: samples, Writes: writes, Num: r.Num().Int64(), Den: r.Denom().Int64()})
	})
	return cbs
}

func CoqPutCBs(cbs []PutCB) string {
	items := make([]string, len(cbs))
	for i, c := range cbs {
		ad := make([]string, len(c.Addons))
		for j, a := range c.Addons {
			ad[j] = lib.Pair(lib.Nat(int(a[0])), lib.Z(a[1]))
		}
		items[i] = "(OP " + lib.Nat(c.Depth) + " " + lib.Z(c.T) + " " + lib.Z(c.Num) + " " + lib.Z(c.Den) + " " + lib.List(ad) + ")"
	}
	return lib.List(items)
}

func CoqGetCBs(cbs []GetCB) string {
	items := make([]string, len(cbs))
	for i, c := range cbs {
		items[i] = "(OG " + lib.Nat(c.Depth) + " " + lib.Z(c.T) + " " + lib.N(c.Samples) + " " + lib.N(c.Writes) + " " + lib.Z(c.Num) + " " + lib.Z(c.Den) + ")"
	}
	return lib.List(items)
}

// CoqTree prints a dumped segment tree as a Coq term of type option onode.
func CoqTree(n *segment.VerifNode) string {
	if n == nil {
		return "None"
	}
	var sb strings.Builder
	var rec func(n *segment.VerifNode)
	rec = func(n *segment.VerifNode) {
		sb.WriteString("(ON ")
		sb.WriteString(lib.Nat(n.Depth))
		sb.WriteString(" ")
		sb.WriteString(lib.Z(n.Time.Unix()))
		sb.WriteString(" ")
		sb.WriteString(lib.Bool(n.Present))
		sb.WriteString(" ")
		sb.WriteString(lib.N(n.Samples))
		sb.WriteString(" ")
		sb.WriteString(lib.N(n.Writes))
		sb.WriteString(" [")
		for i, c := range n.Children {
			if i > 0 {
				sb.WriteString("; ")
			}
			if c == nil {
				sb.WriteString("None")
			} else {
				sb.WriteString("Some ")
				rec(c)
			}
		}
		sb.WriteString("])")
	}
	sb.WriteString("(Some ")
	rec(n)
	sb.WriteString(")")
	return sb.String()
}

// TreeStats: number of nodes, number of levels, number of present nodes.
func TreeStats(n *segment.VerifNode) (nodes, levels, present int) {
	if n == nil {
		return 0, 0, 0
	}
	levels = n.Depth + 1
	var rec func(n *segment.VerifNode)
	rec = func(n *segment.VerifNode) {
		nodes++
		if n.Present {
			present++
		}
		for _, c := range n.Children {
			if c != nil {
				rec(c)
			}
		}
	}
	rec(n)
	return
}

// Window is a range of slots [Lo, Lo+Size) that straddles a bucket boundary of level Level.
type Window struct {
	Lo, Size int64
	Level    int
}

// A base inside the supported epoch block (Unix [864403200, 1864403200)): slot number of a
// level-6 boundary around 2020.
func baseSlot() int64 {
	s := UnixSlot(1600000000)
	return s - s%Pow10(6)
}

// RandWindow picks a window of the given size straddling a boundary of the given level
// (level 1 = 100 s, level 2 = 1000 s, ...), the boundary at a random position strictly inside.
func RandWindow(r *rand.Rand, size int64, level int) Window {
	b := baseSlot() + int64(r.Intn(50))*Pow10(level) + Pow10(level)*int64(1+r.Intn(9))
	if level < 5 && lib.Chance(r, 0.5) {
		// make it a boundary of exactly that level most of the time, of a higher one sometimes
		b = baseSlot() + int64(1+r.Intn(9))*Pow10(level+1) + int64(1+r.Intn(9))*Pow10(level)
	}
	off := int64(1)
	if size > 2 {
		off = 1 + r.Int63n(size-1)
	}
	return Window{Lo: b - off, Size: size, Level: level}
}

// RandSpan: span distribution from 1 slot to several hundred, capped by max.
func RandSpan(r *rand.Rand, max int64) int64 {
	var s int64
	switch r.Intn(10) {
	case 0, 1, 2:
		s = 1
	case 3, 4:
		s = 2 + r.Int63n(8) // 2..9
	case 5:
		s = 10
	case 6:
		s = 10 + r.Int63n(21) // 10..30
	case 7:
		s = 20 + r.Int63n(100)
	case 8:
		s = 100 + r.Int63n(300)
	default:
		s = 1 + r.Int63n(max)
	}
	if s > max {
		s = 1 + r.Int63n(max)
	}
	return s
}

// RandWrite picks a write inside the window. With some probability its ends are aligned to 10- or
// 100-slot boundaries (to reach match/contain), and its second-level ends are off the 10 s grid
// (to exercise normalize).
func RandWrite(r *rand.Rand, w Window, maxSpan int64) Write {
	if maxSpan > w.Size {
		maxSpan = w.Size
	}
	span := RandSpan(r, maxSpan)
	lo := w.Lo + r.Int63n(w.Size-span+1)
	if lib.Chance(r, 0.3) {
		g := Pow10(1 + r.Intn(2))
		al := lo - ((lo%g)+g)%g
		if al >= w.Lo && al+span <= w.Lo+w.Size {
			lo = al
		}
		if lib.Chance(r, 0.5) {
			sp := (span / g) * g
			if sp > 0 && lo+sp <= w.Lo+w.Size {
				span = sp
			}
		}
	}
	st := SlotUnix(lo)
	et := SlotUnix(lo + span)
	if lib.Chance(r, 0.25) {
		st += int64(r.Intn(10)) // truncated away by normalize
	}
	if lib.Chance(r, 0.25) && span > 1 {
		et -= int64(1 + r.Intn(9)) // rounded up by normalize
	}
	var n uint64
	switch r.Intn(4) {
	case 0:
		n = uint64(span) * uint64(1+r.Intn(50))
	case 1:
		n = uint64(r.Intn(1000))
	case 2:
		n = uint64(r.Int63n(1 << 40))
	default:
		n = uint64(1 + r.Intn(100))
	}
	return Write{St: st, Et: et, Samples: n, Zs: RandZone(r), Ze: RandZone(r)}
}
