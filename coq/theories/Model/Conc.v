(* Conc.v — the concurrency model of C08 (DESIGN.md Appendix D).  Model stratum: definitions only.

   FINE model.  A thread is a list of atomic actions: acquire / release of a lock in read or write mode, or an
   access (read / write) of a shared location.  A configuration holds the remaining actions of every thread, the
   locks every thread holds, and — Go's sync.RWMutex rule — which thread has announced a pending write-acquire:
   a pending writer blocks NEW readers.  [step i c] lets thread i perform its next action if the lock rules allow
   it; a schedule is any sequence of thread indexes.  The access table below transcribes Storage.Put, Storage.Get,
   Storage.Delete / retention, the write-back and eviction tasks and the cache savers as they are in /repo after
   the fix commits ffa16da (D9), 39795c3 (cache miss path), 560e1ec (Intersection), 6f0bdb0 (Dimension.Serialize),
   fba57a2 (timeline and cover in one read section), with the pre-fix variants kept next to them for the
   refutation examples.

   COARSE model.  Ingests into one series and renders of it as start / atomic step / end events; any interleaving
   that respects each client's program order.  The atomic step of a render is its segment read section (the tree
   reads of one Segment.Get), the atomic step of an ingest is its segment write section (Segment.Put with all its
   per-bucket callbacks): the fine model's mutual exclusion (proved) is what justifies treating them as steps;
   the reduction itself is stated, not mechanised. *)
From Pyro Require Export Model.Base.
Open Scope nat_scope.

(* ---- locks and locations ------------------------------------------------------------------------------- *)
Inductive cacheid := CDims | CSegs | CDicts | CTrees.

Inductive lockid :=
| LPut                      (* Storage.putMutex *)
| LMiss (c : cacheid)       (* Cache.missMutex: the miss path of Cache.Get (39795c3) *)
| LLfu (c : cacheid)        (* lfu.Cache.lock *)
| LSeg (s : nat)            (* Segment.m of series s *)
| LTree (t : nat)           (* Tree.m of the cached tree t *)
| LDim (d : nat)            (* Dimension.m *)
| LDict (a : nat).          (* Dict.m *)

Inductive mode := MR | MW.

Inductive locid :=
| LocSegTree (s : nat)      (* the segment's node tree (root, present flags, samples, writes) *)
| LocSegMeta (s : nat)      (* spyName, sampleRate, units, aggregationType *)
| LocTree (t : nat)         (* a cached profile tree *)
| LocDimKeys (d : nat)      (* a dimension's key slice *)
| LocDict (a : nat)
| LocLfu (c : cacheid).     (* the lfu's maps and lists *)

Definition guard (x : locid) : lockid :=
  match x with
  | LocSegTree s | LocSegMeta s => LSeg s
  | LocTree t => LTree t
  | LocDimKeys d => LDim d
  | LocDict a => LDict a
  | LocLfu c => LLfu c
  end.

Inductive action :=
| Acq (l : lockid) (m : mode)
| Rel (l : lockid) (m : mode)
| Acc (x : locid) (write : bool).

Definition thread := list action.

(* ---- decidable equalities -------------------------------------------------------------------------------- *)
Definition cache_eqb (a b : cacheid) : bool :=
  match a, b with CDims, CDims | CSegs, CSegs | CDicts, CDicts | CTrees, CTrees => true | _, _ => false end.
Definition lock_eqb (a b : lockid) : bool :=
  match a, b with
  | LPut, LPut => true
  | LMiss x, LMiss y | LLfu x, LLfu y => cache_eqb x y
  | LSeg x, LSeg y | LTree x, LTree y | LDim x, LDim y | LDict x, LDict y => Nat.eqb x y
  | _, _ => false
  end.
Definition mode_eqb (a b : mode) : bool := match a, b with MR, MR | MW, MW => true | _, _ => false end.

(* ---- the acquisition order -------------------------------------------------------------------------------- *)
(* putMutex < dimensions cache < segments cache < segment < trees cache < dicts cache < tree / dimension < dict *)
Definition rank (l : lockid) : nat :=
  match l with
  | LPut => 0
  | LMiss CDims => 1 | LLfu CDims => 2
  | LMiss CSegs => 3 | LLfu CSegs => 4
  | LSeg _ => 5
  | LMiss CTrees => 6 | LLfu CTrees => 7
  | LMiss CDicts => 8 | LLfu CDicts => 9
  | LTree _ => 10 | LDim _ => 10
  | LDict _ => 11
  end.

(* ---- configurations ------------------------------------------------------------------------------------------ *)
Definition held := list (lockid * mode).

Record tstate := {
  ts_code : thread;               (* remaining actions *)
  ts_held : held;
  ts_pending : option lockid      (* announced write-acquire (sync.RWMutex: blocks new readers) *)
}.
Definition config := list tstate.

Definition init_config (ts : list thread) : config :=
  map (fun t => {| ts_code := t; ts_held := []; ts_pending := None |}) ts.

Definition holds (l : lockid) (h : held) : bool := existsb (fun p => lock_eqb (fst p) l) h.
Definition holds_w (l : lockid) (h : held) : bool :=
  existsb (fun p => lock_eqb (fst p) l && mode_eqb (snd p) MW) h.
Definition holds_mode (l : lockid) (m : mode) (h : held) : bool :=
  existsb (fun p => lock_eqb (fst p) l && mode_eqb (snd p) m) h.

Definition pending_on (l : lockid) (t : tstate) : bool :=
  match ts_pending t with Some l' => lock_eqb l' l | None => false end.

Fixpoint remove_held (l : lockid) (m : mode) (h : held) : held :=
  match h with
  | [] => []
  | p :: h' => if lock_eqb (fst p) l && mode_eqb (snd p) m then h' else p :: remove_held l m h'
  end.

(* every thread except number i *)
Fixpoint others {A} (i : nat) (l : list A) : list A :=
  match l, i with
  | [], _ => []
  | _ :: l', O => l'
  | x :: l', S i' => x :: others i' l'
  end.

Fixpoint set_at {A} (i : nat) (x : A) (l : list A) : list A :=
  match l, i with
  | [], _ => []
  | _ :: l', O => x :: l'
  | y :: l', S i' => y :: set_at i' x l'
  end.

(* one step of thread i; None = thread i cannot move (finished, or blocked on a lock) *)
Definition step (i : nat) (c : config) : option config :=
  match nth_error c i with
  | None => None
  | Some t =>
      let rest := others i c in
      match ts_code t with
      | [] => None
      | Acq l MW :: code' =>
          match ts_pending t with
          | None =>   (* announce: from now on new readers of l wait *)
              Some (set_at i {| ts_code := ts_code t; ts_held := ts_held t; ts_pending := Some l |} c)
          | Some _ =>
              if existsb (fun u => holds l (ts_held u)) rest then None
              else Some (set_at i {| ts_code := code'; ts_held := (l, MW) :: ts_held t; ts_pending := None |} c)
          end
      | Acq l MR :: code' =>
          if existsb (fun u => holds_w l (ts_held u) || pending_on l u) rest then None
          else Some (set_at i {| ts_code := code'; ts_held := (l, MR) :: ts_held t; ts_pending := None |} c)
      | Rel l m :: code' =>
          Some (set_at i {| ts_code := code'; ts_held := remove_held l m (ts_held t); ts_pending := ts_pending t |} c)
      | Acc _ _ :: code' =>
          Some (set_at i {| ts_code := code'; ts_held := ts_held t; ts_pending := ts_pending t |} c)
      end
  end.

(* run a schedule; a scheduled thread that cannot move is skipped *)
Fixpoint run_sched (sched : list nat) (c : config) : config :=
  match sched with
  | [] => c
  | i :: s' => run_sched s' (match step i c with Some c' => c' | None => c end)
  end.

Definition finished (c : config) : bool := forallb (fun t => match ts_code t with [] => true | _ => false end) c.
Definition stuck (c : config) : bool :=
  negb (finished c) && forallb (fun i => match step i c with None => true | Some _ => false end) (seq 0 (length c)).

(* ---- static discipline of one thread ---------------------------------------------------------------------------- *)
(* locks are taken in strictly increasing rank (relative to what is held), released only when held, and all
   released at the end *)
Fixpoint ordered_from (h : held) (t : thread) : bool :=
  match t with
  | [] => match h with [] => true | _ => false end
  | Acq l m :: t' => forallb (fun p => Nat.ltb (rank (fst p)) (rank l)) h && ordered_from ((l, m) :: h) t'
  | Rel l m :: t' => holds_mode l m h && ordered_from (remove_held l m h) t'
  | Acc _ _ :: t' => ordered_from h t'
  end.
Definition ordered_thread (t : thread) : bool := ordered_from [] t.

(* lockset: every access is made holding the location's lock, in write mode for a write *)
Fixpoint lockset_from (h : held) (t : thread) : bool :=
  match t with
  | [] => true
  | Acq l m :: t' => lockset_from ((l, m) :: h) t'
  | Rel l m :: t' => lockset_from (remove_held l m h) t'
  | Acc x w :: t' =>
      (holds_mode (guard x) MW h || (negb w && holds_mode (guard x) MR h)) && lockset_from h t'
  end.
Definition lockset_thread (t : thread) : bool := lockset_from [] t.

(* two threads are at conflicting accesses *)
Definition next_access (t : tstate) : option (locid * bool) :=
  match ts_code t with Acc x w :: _ => Some (x, w) | _ => None end.
Definition loc_eqb (a b : locid) : bool :=
  match a, b with
  | LocSegTree x, LocSegTree y | LocSegMeta x, LocSegMeta y | LocTree x, LocTree y
  | LocDimKeys x, LocDimKeys y | LocDict x, LocDict y => Nat.eqb x y
  | LocLfu x, LocLfu y => cache_eqb x y
  | _, _ => false
  end.

(* ---- the access table --------------------------------------------------------------------------------------------- *)
Definition locked (l : lockid) (m : mode) (body : thread) : thread := (Acq l m :: body) ++ [Rel l m].

(* lfu.Get / lfu.Set / lfu.Delete *)
Definition lfu_op (c : cacheid) : thread := locked (LLfu c) MW [Acc (LocLfu c) true].

(* Cache.Get: hit, or the serialized miss path (re-check, Badger, [load], Set) *)
Definition cache_get_hit (c : cacheid) : thread := lfu_op c.
Definition cache_get_miss (c : cacheid) (load : thread) : thread :=
  lfu_op c ++ locked (LMiss c) MW (lfu_op c ++ load ++ lfu_op c).
(* before 39795c3: no missMutex *)
Definition cache_get_miss_prefix (c : cacheid) (load : thread) : thread := lfu_op c ++ load ++ lfu_op c.

(* treeFromBytes: the tree's dictionary comes from the dicts cache *)
Definition load_tree : thread := cache_get_miss CDicts [].

(* one per-bucket callback of Segment.Put inside Storage.Put: trees.Get, merge the addon trees into the private
   clone (read lock on each cached addon tree), merge the clone into the cached tree (write lock), trees.Put *)
Definition put_callback (t : nat) (addons : list nat) (miss : bool) : thread :=
  (if miss then cache_get_miss CTrees load_tree else cache_get_hit CTrees) ++
  flat_map (fun a => cache_get_hit CTrees ++ locked (LTree a) MR [Acc (LocTree a) false]) addons ++
  locked (LTree t) MW [Acc (LocTree t) true] ++
  lfu_op CTrees.

(* Storage.Put for series s with labels in dimensions ds, touching trees ts (each with its addon trees) *)
Definition put_thread (s : nat) (ds : list nat) (cbs : list (nat * list nat * bool)) : thread :=
  locked LPut MW (
    flat_map (fun d => cache_get_miss CDims [] ++ locked (LDim d) MW [Acc (LocDimKeys d) true]) ds ++
    cache_get_miss CSegs [] ++
    locked (LSeg s) MW [Acc (LocSegMeta s) true] ++                          (* SetMetadata *)
    locked (LSeg s) MW (Acc (LocSegTree s) true ::                           (* Segment.Put: grow + put *)
                        flat_map (fun cb => put_callback (fst (fst cb)) (snd (fst cb)) (snd cb)) cbs) ++
    lfu_op CSegs).                                                           (* segments.Put *)

(* Storage.Get for a selector over dimensions ds matching series s, covering the cached trees ts *)
Definition get_thread (s : nat) (ds : list nat) (ts : list nat) : thread :=
  flat_map (fun d => cache_get_miss CDims []) ds ++
  flat_map (fun d => locked (LDim d) MR [Acc (LocDimKeys d) false]) ds ++  (* Intersection: copyKeys, one at a time *)
  cache_get_miss CSegs [] ++
  locked (LSeg s) MR [Acc (LocSegMeta s) false] ++                          (* AggregationType *)
  locked (LSeg s) MR (Acc (LocSegTree s) false ::                           (* GetWithTimeline (fba57a2): timeline, *)
                      Acc (LocSegTree s) false ::                           (*   cover and the tree reads of the    *)
                      flat_map (fun t => cache_get_hit CTrees ++ locked (LTree t) MR [Acc (LocTree t) false]) ts) ++
                                                                            (*   callbacks in ONE read section      *)
  locked (LSeg s) MR [Acc (LocSegMeta s) false].                            (* SpyName / SampleRate / Units *)

(* pre-fix variants (for the refutation examples) *)
(* before ffa16da (D9): PopulateTimeline without the segment lock, metadata getters without it, Intersection
   reading the key slices without the dimension locks *)
Definition get_thread_d9 (s : nat) (ds : list nat) (ts : list nat) : thread :=
  flat_map (fun d => cache_get_miss_prefix CDims []) ds ++
  map (fun d => Acc (LocDimKeys d) false) ds ++
  cache_get_miss_prefix CSegs [] ++
  [Acc (LocSegMeta s) false] ++
  [Acc (LocSegTree s) false] ++
  locked (LSeg s) MR (Acc (LocSegTree s) false ::
                      flat_map (fun t => cache_get_hit CTrees ++ locked (LTree t) MR [Acc (LocTree t) false]) ts) ++
  [Acc (LocSegMeta s) false].
(* between ffa16da and 560e1ec: Intersection takes the read locks of ALL its dimensions and keeps them, in the
   (random) order the caller's map iteration produced *)
Fixpoint nested_rlocks (ds : list nat) (body : thread) : thread :=
  match ds with
  | [] => body
  | d :: ds' => locked (LDim d) MR (Acc (LocDimKeys d) false :: nested_rlocks ds' body)
  end.
Definition get_thread_nested (s : nat) (ds : list nat) (ts : list nat) : thread :=
  nested_rlocks ds [] ++
  locked (LSeg s) MR (Acc (LocSegTree s) false ::
                      flat_map (fun t => cache_get_hit CTrees ++ locked (LTree t) MR [Acc (LocTree t) false]) ts).

(* the savers: Cache.saveToDisk called by the write-back goroutine, the eviction goroutine or Flush *)
Definition save_dimension (d : nat) : thread := locked (LDim d) MR [Acc (LocDimKeys d) false].
Definition save_dimension_unlocked (d : nat) : thread := [Acc (LocDimKeys d) false].   (* before 6f0bdb0: no lock *)
Definition save_segment (s : nat) : thread := locked (LSeg s) MR [Acc (LocSegTree s) false; Acc (LocSegMeta s) false].
Definition save_dict (a : nat) : thread := locked (LDict a) MR [Acc (LocDict a) false].
Definition save_tree (t a : nat) : thread :=     (* treeBytes: dicts.Get, then Serialize: d.Put per node under the tree's read lock *)
  cache_get_miss CDicts [] ++
  locked (LTree t) MR (Acc (LocTree t) false :: locked (LDict a) MW [Acc (LocDict a) true]).

(* write-back task: lfu.WriteBack holds the lfu lock while it offers entries (non-blocking sends) *)
Definition writeback_task (c : cacheid) : thread := lfu_op c.
(* eviction task: lfu.Evict holds the lfu lock across its BLOCKING sends to the eviction goroutine; the saves the
   goroutine performs meanwhile are therefore placed inside the section *)
Definition evict_task (c : cacheid) (saves : thread) : thread := locked (LLfu c) MW (Acc (LocLfu c) true :: saves).

(* Storage.Delete / retention for series s: enumerate, delete the trees under the segment's write lock, then
   remove the series from its dimensions (NOT under putMutex) *)
Definition delete_thread (s : nat) (ds : list nat) (ts : list nat) : thread :=
  flat_map (fun d => cache_get_miss CDims []) ds ++
  flat_map (fun d => locked (LDim d) MR [Acc (LocDimKeys d) false]) ds ++
  cache_get_miss CSegs [] ++
  locked (LSeg s) MW (Acc (LocSegTree s) true :: flat_map (fun t => lfu_op CTrees) ts) ++
  lfu_op CDicts ++ lfu_op CSegs ++
  flat_map (fun d => cache_get_miss CDims [] ++ locked (LDim d) MW [Acc (LocDimKeys d) true]) ds.
Definition delete_thread_nested (s : nat) (ds : list nat) : thread :=
  nested_rlocks ds [] ++
  flat_map (fun d => locked (LDim d) MW [Acc (LocDimKeys d) true]) ds.

(* ---- COARSE model ------------------------------------------------------------------------------------------------------ *)
(* Clients of ONE series.  An ingest g goes through: called (WStart) -> its segment write section, one atomic step
   (WApply) -> returned (WEnd).  A render r: called (RStart) -> its segment read section, one atomic step that
   returns the ingests applied so far (RRead) -> returned (REnd).  A schedule is ANY list of these events; an event
   whose client is not in the right phase is ignored (so every list is a schedule and the phase order of each
   client is respected by construction).  Ghost fields record what had returned when a render was called and
   what had been called when it returned. *)
Inductive cevent :=
| WStart (g : nat) | WApply (g : nat) | WEnd (g : nat)
| RStart (r : nat) | RRead (r : nat) | REnd (r : nat).

Record cstate := {
  c_started : list nat;                  (* ingests called *)
  c_applied : list nat;                  (* ingests whose write section has run, oldest first = the series' state *)
  c_ended : list nat;                    (* ingests acknowledged *)
  r_started : list (nat * list nat);     (* render -> ingests acknowledged when it was called (ghost) *)
  r_read : list (nat * list nat);        (* render -> what its read section saw = what it returns *)
  r_ended : list (nat * list nat)        (* render -> ingests called when it returned (ghost) *)
}.

Definition c_init : cstate :=
  {| c_started := []; c_applied := []; c_ended := []; r_started := []; r_read := []; r_ended := [] |}.

Definition memn (x : nat) (l : list nat) : bool := existsb (Nat.eqb x) l.
Definition memk (x : nat) (l : list (nat * list nat)) : bool := existsb (fun p => Nat.eqb x (fst p)) l.

Definition c_step (s : cstate) (e : cevent) : cstate :=
  match e with
  | WStart g =>
      if memn g (c_started s) then s
      else {| c_started := g :: c_started s; c_applied := c_applied s; c_ended := c_ended s;
              r_started := r_started s; r_read := r_read s; r_ended := r_ended s |}
  | WApply g =>
      if memn g (c_started s) && negb (memn g (c_applied s))
      then {| c_started := c_started s; c_applied := c_applied s ++ [g]; c_ended := c_ended s;
              r_started := r_started s; r_read := r_read s; r_ended := r_ended s |}
      else s
  | WEnd g =>
      if memn g (c_applied s) && negb (memn g (c_ended s))
      then {| c_started := c_started s; c_applied := c_applied s; c_ended := g :: c_ended s;
              r_started := r_started s; r_read := r_read s; r_ended := r_ended s |}
      else s
  | RStart r =>
      if memk r (r_started s) then s
      else {| c_started := c_started s; c_applied := c_applied s; c_ended := c_ended s;
              r_started := (r, c_ended s) :: r_started s; r_read := r_read s; r_ended := r_ended s |}
  | RRead r =>
      if memk r (r_started s) && negb (memk r (r_read s))
      then {| c_started := c_started s; c_applied := c_applied s; c_ended := c_ended s;
              r_started := r_started s; r_read := (r, c_applied s) :: r_read s; r_ended := r_ended s |}
      else s
  | REnd r =>
      if memk r (r_read s) && negb (memk r (r_ended s))
      then {| c_started := c_started s; c_applied := c_applied s; c_ended := c_ended s;
              r_started := r_started s; r_read := r_read s; r_ended := (r, c_started s) :: r_ended s |}
      else s
  end.

Definition c_run (evs : list cevent) : cstate := fold_left c_step evs c_init.

(* the series' content as a sum: every applied ingest contributes its weight (its profile; merge is addition, C09) *)
Definition sumw (w : nat -> N) (l : list nat) : N := fold_right (fun g n => (w g + n)%N) 0%N l.

(* the real Storage.Get before fba57a2 read the timeline and the tree in two read sections: two consecutive reads
   of one client, which may see different states *)
Definition two_sections_example : list cevent :=
  [WStart 1; RStart 10; RStart 11; RRead 10; WApply 1; WEnd 1; RRead 11; REnd 10; REnd 11].
