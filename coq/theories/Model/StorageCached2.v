(* StorageCached2.v — the cached twin of Model/Storage.v with BOTH object stores the storage model talks about behind
   Model/Cache.v: the trees (as in Model/StorageCached.v) and the SEGMENTS.  Definitions only.

   Model/Storage.v enumerates its table of live series directly.  The real code finds the series through the
   dimensions (inverted index, outside Model/Storage.v; C07_storage_index_sound: the index answers exactly the live
   series whose tags include the selector) and then does segments.Get(key) per series.  Here the index is the sorted
   list of live series ids, c2_index; the segment OBJECTS live in a second Model/Cache.v store keyed by the series key,
   with seg's codec (Model/SegCodec.v s_serialize / s_deserialize over the JSON metadata codec of Model/MetaJson.v;
   FromBytes errors are read as segment.New()).
     Storage.Put            segments.Get(sk) (a miss creates segment.New()), SetMetadata + Put through the pointer,
                            trees as in the first twin, segments.Put(sk, st); the key enters the index
     Storage.Get            segments.Get(key) for every matching id, then trees.Get for every cover node
     Storage.Delete         per matching id: segments.Get, trees.Delete per node, segments.Delete, id leaves the index
     DeleteDataBefore       per id: segments.Get, DeleteDataBefore through the pointer (no Put: OMutate), trees.Delete;
                            if the root went: segments.Delete and the id leaves the index
   Maintenance: Evict(+completion of its saves) / Flush+reopen of either store, anywhere. *)
From Pyro Require Export Model.StorageCached Model.SegCodec Model.MetaJson.
Local Open Scope Z_scope.

Section GenStore.
Context {K V D : Type}.
Context (keq : forall a b : K, {a = b} + {a <> b}) (dflt : K -> V) (enc : K -> V -> D) (dec : K -> D -> V).

Definition g_step := Cache.step keq dflt enc dec.
Definition g_read (k : K) (c : Cache.cache (K:=K) (V:=V) (D:=D)) : Cache.cache (K:=K) (V:=V) (D:=D) * V :=
  match g_step c (Cache.ORead k) with
  | (c', Cache.Ret v) => (c', v)
  | (c', _) => (c', dflt k)
  end.
Definition g_put (k : K) (v : V) c := fst (g_step c (Cache.OPut k v)).
Definition g_del (k : K) c := fst (g_step c (Cache.ODelete k)).
Definition g_poke (k : K) (f : V -> V) c := fst (g_step c (Cache.OMutate k f)).
Fixpoint g_reads (keys : list K) c : Cache.cache (K:=K) (V:=V) (D:=D) * list V :=
  match keys with
  | [] => (c, [])
  | k :: r => let (c1, v) := g_read k c in let (c2, vs) := g_reads r c1 in (c2, v :: vs)
  end.
(* Evict + completion of its saves, or Flush + reopen *)
Definition g_maint (m : Cache.cop (K:=K) (V:=V)) c := snd (Cache.run keq dflt enc dec c (Cache.lower1 m)).
End GenStore.

(* ---- the segments store ---- *)
Definition bytes_dec : forall a b : bytes, {a = b} + {a <> b} := list_eq_dec N.eq_dec.
Definition scache := Cache.cache (K:=bytes) (V:=segment) (D:=bytes).
Definition sc_dflt (k : bytes) : segment := Segment.s_empty.
Definition sc_enc (k : bytes) (s : segment) : bytes := s_serialize write_meta s.
Definition sc_dec (k : bytes) (bs : bytes) : segment :=
  match s_deserialize read_meta bs with Some s => s | None => Segment.s_empty end.
Definition s_read := g_read bytes_dec sc_dflt sc_enc sc_dec.
Definition s_reads := g_reads bytes_dec sc_dflt sc_enc sc_dec.
Definition s_put := g_put bytes_dec sc_dflt sc_enc sc_dec.
Definition s_del := g_del bytes_dec sc_dflt sc_enc sc_dec.
Definition s_poke := g_poke bytes_dec sc_dflt sc_enc sc_dec.

Record c2_state := { c2_index : list sid; c2_segs : scache; c2_trees : tcache }.
Definition c2_init : c2_state := {| c2_index := []; c2_segs := Cache.c_empty; c2_trees := Cache.c_empty |}.

(* the index: sorted insert of a series id (dimension.Insert of its key into the dimensions of its tags) *)
Fixpoint idx_store (k : sid) (l : list sid) : list sid :=
  match l with
  | [] => [k]
  | k' :: l' =>
      match bcmp (sid_key k) (sid_key k') with
      | Lt => k :: l
      | Eq => k :: l'
      | Gt => k' :: idx_store k l'
      end
  end.
Definition idx_remove (k : sid) (l : list sid) : list sid := filter (fun x => negb (sid_eqb k x)) l.

Definition c2_put_go (pi : put_input) (c2 : c2_state) : c2_state * bool :=
  let k := pi_sid pi in
  let (sc1, seg) := s_read (sid_key k) (c2_segs c2) in
  let '(seg', cbs) := s_put_unix (pi_from pi) (pi_until pi) (t_total (pi_tree pi)) (s_set_meta (pi_meta pi) seg) in
  ({| c2_index := idx_store k (c2_index c2);
      c2_segs := s_put (sid_key k) seg' sc1;
      c2_trees := fold_left (c_put_cb (sid_key k) (pi_tree pi)) cbs (c2_trees c2) |}, true).

Definition c2_put (retention_thr : option Z) (pi : put_input) (c2 : c2_state) : c2_state * bool :=
  match retention_thr with
  | Some thr => if pi_from pi <? thr then (c2, false) else c2_put_go pi c2
  | None => c2_put_go pi c2
  end.

Definition c2_get (sel : sid) (from until : Z) (c2 : c2_state) : c2_state * option get_output :=
  let '(a, b) := s_normalize_unix (from, until) in
  let ids := filter (sel_matches sel) (c2_index c2) in
  let (sc', ss) := s_reads (map sid_key ids) (c2_segs c2) in
  let matching := combine ids ss in
  let items := get_items a b matching in
  let (c', vals) := c_reads (map item_key items) (c2_trees c2) in
  ({| c2_index := c2_index c2; c2_segs := sc'; c2_trees := c' |},
   get_finish a b matching (map (fun iv => item_part (fst iv) (snd iv)) (combine items vals))).

Definition c2_delete_one (c2 : c2_state) (k : sid) : c2_state :=
  let (sc1, seg) := s_read (sid_key k) (c2_segs c2) in
  let '(_, cbs, _) := s_delete_before_unix max_time_unix seg in
  {| c2_index := idx_remove k (c2_index c2);
     c2_segs := s_del (sid_key k) sc1;
     c2_trees := c_del_cbs (sid_key k) cbs (c2_trees c2) |}.

Definition c2_delete (sel : sid) (c2 : c2_state) : c2_state :=
  fold_left c2_delete_one (filter (sel_matches sel) (c2_index c2)) c2.

Definition c2_retention_one (thr : Z) (c2 : c2_state) (k : sid) : c2_state :=
  let (sc1, seg) := s_read (sid_key k) (c2_segs c2) in
  let '(seg', cbs, root_deleted) := s_delete_before_unix thr seg in
  let trees' := c_del_cbs (sid_key k) cbs (c2_trees c2) in
  if root_deleted
  then {| c2_index := idx_remove k (c2_index c2); c2_segs := s_del (sid_key k) sc1; c2_trees := trees' |}
  else {| c2_index := c2_index c2; c2_segs := s_poke (sid_key k) (fun _ => seg') sc1; c2_trees := trees' |}.

Definition c2_retention (thr : Z) (c2 : c2_state) : c2_state :=
  fold_left (c2_retention_one thr) (c2_index c2) c2.

Definition c2_step (retention_thr : option Z) (c2 : c2_state) (o : st_op) : c2_state * st_out :=
  match o with
  | OpPut pi => let '(c2', ok) := c2_put retention_thr pi c2 in (c2', OutPut ok)
  | OpGet sel f u => let '(c2', r) := c2_get sel f u c2 in (c2', OutGet r)
  | OpDelete sel => (c2_delete sel c2, OutUnit)
  | OpRetention thr => (c2_retention thr c2, OutUnit)
  end.

(* ---- maintenance of either store ---- *)
Inductive maint2 :=
| M2Trees (m : maint)
| M2SegEvict (num den : nat) (order : list bytes)
| M2SegFlushReopen.

Definition c2_maint (m : maint2) (c2 : c2_state) : c2_state :=
  match m with
  | M2Trees mt =>
      {| c2_index := c2_index c2; c2_segs := c2_segs c2;
         c2_trees := cs_trees (cst_maint mt {| cs_segs := []; cs_trees := c2_trees c2 |}) |}
  | M2SegEvict n d order =>
      {| c2_index := c2_index c2;
         c2_segs := g_maint bytes_dec sc_dflt sc_enc sc_dec (Cache.CEvict n d order) (c2_segs c2);
         c2_trees := c2_trees c2 |}
  | M2SegFlushReopen =>
      {| c2_index := c2_index c2;
         c2_segs := g_maint bytes_dec sc_dflt sc_enc sc_dec Cache.CFlushReopen (c2_segs c2);
         c2_trees := c2_trees c2 |}
  end.

Inductive chop2 := C2O (o : st_op) | C2M (m : maint2).

Fixpoint c2_run (rt : option Z) (h : list chop2) (c2 : c2_state) : c2_state * list st_out :=
  match h with
  | [] => (c2, [])
  | C2O o :: r =>
      let '(c21, out) := c2_step rt c2 o in
      let '(c22, outs) := c2_run rt r c21 in
      (c22, out :: outs)
  | C2M m :: r => c2_run rt r (c2_maint m c2)
  end.

(* the same history for the first twin: maintenance of the segments store disappears *)
Definition c2map (h : list chop2) : list chop :=
  flat_map (fun x => match x with
                     | C2O o => [CO o]
                     | C2M (M2Trees m) => [CM m]
                     | C2M _ => []
                     end) h.
