(* TextFormats.v — model of pkg/convert/parser.go: ParseGroups and ParseIndividualLines as they are now
   (ParseGroups returns scanner.Err() after the loop), with bufio.Scanner/ScanLines, bytes.LastIndexByte
   and strconv.Atoi.  Definitions only. *)
From Pyro Require Export Model.Base.

Local Open Scope N_scope.

(* ---- bufio.ScanLines over the whole body -------------------------------------------------------
   A token ends at '\n' (not part of the token); one trailing '\r' is dropped; a last line without
   '\n' is a token when it is not empty.  The scanner's buffer holds at most 64 KiB = 65536 bytes and a
   token must fit together with its '\n' (or, for the last line, must leave the buffer not full so that
   the scanner reads on and sees EOF): a line of 65536 or more bytes is ErrTooLong; Scan() then
   returns false and Err() reports it.  Lines before it have been delivered. *)
Definition max_token : N := 65536.

(* list reversal in linear time (List.rev is quadratic; bodies can hold 64 KiB lines) *)
Definition frev {A} (l : list A) : list A := rev_append l [].

Definition drop_cr (line : bytes) : bytes :=
  match frev line with
  | c :: r => if N.eqb c 13 then frev r else line
  | [] => line
  end.

(* raw lines: split at 10; the text after the last '\n' is a line only if it is not empty *)
Fixpoint raw_lines_aux (cur : bytes) (s : bytes) : list bytes :=
  match s with
  | [] => match cur with [] => [] | _ => [frev cur] end
  | c :: s' => if N.eqb c 10 then frev cur :: raw_lines_aux [] s' else raw_lines_aux (c :: cur) s'
  end.
Definition raw_lines (s : bytes) : list bytes := raw_lines_aux [] s.

(* the tokens delivered by successive Scan() calls, and whether the scanner ended with an error *)
Fixpoint scan_tokens (ls : list bytes) : list bytes * bool :=
  match ls with
  | [] => ([], true)
  | l :: ls' =>
      if max_token <=? N.of_nat (length l) then ([], false)
      else let (ts, ok) := scan_tokens ls' in (drop_cr l :: ts, ok)
  end.
Definition scan_lines (body : bytes) : list bytes * bool := scan_tokens (raw_lines body).

(* ---- bytes.LastIndexByte(line, ' ') as a split: (line[:i], line[i+1:]) --------------------------- *)
Fixpoint split_last_space (line : bytes) : option (bytes * bytes) :=
  match line with
  | [] => None
  | c :: l' =>
      match split_last_space l' with
      | Some (a, b) => Some (c :: a, b)
      | None => if N.eqb c 32 then Some ([], l') else None
      end
  end.

(* ---- strconv.Atoi: optional sign, at least one digit, digits only, result within int64 ---------- *)
Definition is_digit (c : byte) : bool := (48 <=? c) && (c <=? 57).
Fixpoint digits_val (acc : N) (s : bytes) : option N :=
  match s with
  | [] => Some acc
  | c :: s' => if is_digit c then digits_val (acc * 10 + (c - 48)) s' else None
  end.
Definition atoi (s : bytes) : option Z :=
  let (neg, ds) := match s with
                   | 45 :: r => (true, r)        (* '-' *)
                   | 43 :: r => (false, r)       (* '+' *)
                   | _ => (false, s)
                   end in
  match ds with
  | [] => None
  | _ => match digits_val 0 ds with
         | None => None
         | Some n =>
             if neg then (if n <=? 2 ^ 63 then Some (- Z.of_N n)%Z else None)
             else (if n <? 2 ^ 63 then Some (Z.of_N n) else None)
         end
  end.

(* strconv.Itoa for non-negative numbers *)
Fixpoint itoa_fuel (fuel : nat) (n : N) (acc : bytes) : bytes :=
  match fuel with
  | O => acc
  | S f => let acc' := (48 + n mod 10) :: acc in
           if n <? 10 then acc' else itoa_fuel f (n / 10) acc'
  end.
Definition itoa (n : N) : bytes := itoa_fuel (S (N.to_nat (N.log2 n))) n [].

(* ---- ParseGroups: the callbacks made, in order, and whether nil was returned --------------------- *)
Fixpoint groups_of_tokens (ts : list bytes) : list (bytes * Z) * bool :=
  match ts with
  | [] => ([], true)
  | line :: ts' =>
      match split_last_space line with
      | None => groups_of_tokens ts'                      (* index == -1: continue *)
      | Some (stack, count) =>
          match atoi count with
          | None => ([], false)                           (* return err *)
          | Some v => let (r, ok) := groups_of_tokens ts' in ((stack, v) :: r, ok)
          end
      end
  end.
Definition parse_groups (body : bytes) : list (bytes * Z) * bool :=
  let (ts, scan_ok) := scan_lines body in
  let (r, ok) := groups_of_tokens ts in
  (r, ok && scan_ok).

(* ---- ParseIndividualLines: equal lines are counted; the empty line is dropped; no callback at all
   when the scanner failed.  Go ranges over a map: the order of the callbacks is unspecified (the model
   lists keys in order of first occurrence; Tree.Insert is commutative so the order is not observable
   in the stored tree). *)
Fixpoint count_add (k : bytes) (m : list (bytes * N)) : list (bytes * N) :=
  match m with
  | [] => [(k, 1)]
  | (q, w) :: m' => if beqb q k then (q, w + 1) :: m' else (q, w) :: count_add k m'
  end.
Definition count_lines (ts : list bytes) : list (bytes * N) :=
  fold_left (fun m k => count_add k m) ts [].
Definition parse_lines (body : bytes) : list (bytes * N) * bool :=
  let (ts, scan_ok) := scan_lines body in
  if scan_ok
  then (filter (fun kv => negb (match fst kv with [] => true | _ => false end)) (count_lines ts), true)
  else ([], false).

(* ---- how a client writes a profile in the two text formats ---------------------------------------- *)
Definition render_groups (ms : list (bytes * N)) : bytes :=
  flat_map (fun kv => fst kv ++ 32 :: itoa (snd kv) ++ [10]) ms.
Fixpoint repeat_line (n : nat) (l : bytes) : bytes :=
  match n with O => [] | S n' => l ++ 10 :: repeat_line n' l end.
Definition render_lines (ms : list (bytes * N)) : bytes :=
  flat_map (fun kv => repeat_line (N.to_nat (snd kv)) (fst kv)) ms.

(* wrapConvertFunction: t.Insert(k, uint64(v)) — a negative int wraps *)
Definition to_uint64 (v : Z) : N := Z.to_N (v mod 2 ^ 64)%Z.
