(* DimCodec.v — pkg/storage/dimension/serialization.go: a dimension is its sorted list of segment keys.
   Serialize: uvarint(version = 1), then for every key uvarint(len) and the bytes.
   Deserialize: skip the version; read (length, bytes) pairs until io.EOF at the start of a length.
   Model stratum: definitions only. *)
From Pyro Require Export Model.Base Model.Varint.

Definition dim := list bytes.

Definition dim_enc_keys (d : dim) : bytes := flat_map (fun k => uvarint_enc (Nlen k) ++ k) d.
Definition dim_enc (d : dim) : bytes := uvarint_enc 1 ++ dim_enc_keys d.

(* fuel: every key consumes at least the byte of its length *)
Fixpoint dim_dec_keys (fuel : nat) (bs : bytes) : option dim :=
  match fuel with
  | O => None
  | S f =>
      match bs with
      | [] => Some []                      (* io.EOF where a length would start: end of the list *)
      | _ =>
          match uvarint_dec bs with
          | None => None                   (* truncated / overlong varint: error *)
          | Some (n, r) =>
              match take_bytes (N.to_nat n) r with
              | None => None               (* io.ReadAtLeast: unexpected EOF *)
              | Some (k, r') =>
                  match dim_dec_keys f r' with
                  | Some ks => Some (k :: ks)
                  | None => None
                  end
              end
          end
      end
  end.

Definition dim_dec (bs : bytes) : option dim :=
  match uvarint_dec bs with
  | None => None
  | Some (_, r) => dim_dec_keys (S (length r)) r
  end.
