(* Key.v — series names (pkg/storage/key.go, pkg/structs/sortedmap).  Model stratum: definitions only.

   Strings are lists of Unicode code points (what Go's `for _, r := range s` / `[]rune(s)` yields:
   every invalid byte becomes U+FFFD; this decoding is done by Go in the harness and is trusted).
   All strings the parser builds are made of `string(r)` pieces, hence valid UTF-8, and Go's string
   order on valid UTF-8 is the lexicographic order of the code points; `utf8` below is used by the
   correspondence check to compare with the bytes Go produced (so this agreement is tested too). *)
From Pyro Require Export Model.Base.

Definition runes := list N.

(* ---------- strings.TrimSpace: unicode.IsSpace ---------- *)
Definition is_space (c : N) : bool :=
  ((9 <=? c) && (c <=? 13))            (* \t \n \v \f \r *)
  || (c =? 32) || (c =? 133) || (c =? 160)      (* space, U+0085, U+00A0 *)
  || (c =? 5760)                                 (* U+1680 *)
  || ((8192 <=? c) && (c <=? 8202))             (* U+2000..U+200A *)
  || (c =? 8232) || (c =? 8233) || (c =? 8239)  (* U+2028 U+2029 U+202F *)
  || (c =? 8287) || (c =? 12288).               (* U+205F U+3000 *)

Fixpoint trim_left (s : runes) : runes :=
  match s with
  | [] => []
  | c :: s' => if is_space c then trim_left s' else s
  end.
Definition trim_right (s : runes) : runes := rev (trim_left (rev s)).
Definition trim (s : runes) : runes := trim_right (trim_left s).

(* ---------- the labels map: association list sorted by key, later puts overwrite ---------- *)
Definition labels := list (runes * runes).

Fixpoint lput (k v : runes) (m : labels) : labels :=
  match m with
  | [] => [(k, v)]
  | (k', v') :: m' =>
      match bcmp k k' with
      | Lt => (k, v) :: m
      | Eq => (k, v) :: m'
      | Gt => (k', v') :: lput k v m'
      end
  end.

Fixpoint lget (k : runes) (m : labels) : option runes :=
  match m with
  | [] => None
  | (k', v') :: m' => if beqb k k' then Some v' else lget k m'
  end.

(* "__name__" *)
Definition name_key : runes := [95; 95; 110; 97; 109; 101; 95; 95].

Definition c_lbrace : N := 123.
Definition c_rbrace : N := 125.
Definition c_eq : N := 61.
Definition c_comma : N := 44.
Definition c_colon : N := 58.

(* ---------- ParseKey: the rune state machine ---------- *)
Inductive pstate := SName | SKey | SVal | SDone.

Record parser := {
  p_st : pstate;
  p_key : runes;
  p_val : runes;
  p_labels : labels
}.

Definition p_init : parser := {| p_st := SName; p_key := []; p_val := []; p_labels := [] |}.

Definition step (p : parser) (r : N) : parser :=
  match p_st p with
  | SName =>
      if r =? c_lbrace
      then {| p_st := SKey; p_key := p_key p; p_val := p_val p;
              p_labels := lput name_key (trim (p_val p)) (p_labels p) |}
      else {| p_st := SName; p_key := p_key p; p_val := p_val p ++ [r]; p_labels := p_labels p |}
  | SKey =>
      if r =? c_rbrace
      then {| p_st := SDone; p_key := p_key p; p_val := p_val p; p_labels := p_labels p |}
      else if r =? c_eq
      then {| p_st := SVal; p_key := p_key p; p_val := []; p_labels := p_labels p |}
      else {| p_st := SKey; p_key := p_key p ++ [r]; p_val := p_val p; p_labels := p_labels p |}
  | SVal =>
      if (r =? c_comma) || (r =? c_rbrace)
      then {| p_st := SKey; p_key := []; p_val := p_val p;
              p_labels := lput (trim (p_key p)) (trim (p_val p)) (p_labels p) |}
      else {| p_st := SVal; p_key := p_key p; p_val := p_val p ++ [r]; p_labels := p_labels p |}
  | SDone => p
  end.

Definition run_parser (s : runes) : parser := fold_left step s p_init.

(* for _, r := range name + "{" *)
Definition parse (s : runes) : labels := p_labels (run_parser (s ++ [c_lbrace])).

(* ---------- Key methods ---------- *)
Definition app_name (m : labels) : runes :=
  match lget name_key m with Some n => n | None => [] end.

Definition tags (m : labels) : labels := filter (fun kv => negb (beqb (fst kv) name_key)) m.

Fixpoint join_tags (l : labels) : runes :=
  match l with
  | [] => []
  | [(k, v)] => k ++ c_eq :: v
  | (k, v) :: l' => k ++ c_eq :: v ++ c_comma :: join_tags l'
  end.

Definition normalized (m : labels) : runes :=
  app_name m ++ c_lbrace :: join_tags (tags m) ++ [c_rbrace].

(* strconv.Itoa *)
Fixpoint digits_aux (fuel : nat) (n : N) (acc : runes) : runes :=
  match fuel with
  | O => acc
  | S f => if n <? 10 then (48 + n) :: acc else digits_aux f (n / 10) ((48 + n mod 10) :: acc)
  end.
Definition digits (n : N) : runes := digits_aux (S (N.to_nat (N.log2 n))) n [].
Definition itoa (z : Z) : runes :=
  match z with
  | Zneg p => 45 :: digits (Npos p)
  | _ => digits (Z.to_N z)
  end.

Definition tree_key (m : labels) (depth : nat) (unix : Z) : runes :=
  normalized m ++ c_colon :: itoa (Z.of_nat depth) ++ c_colon :: itoa unix.

(* strings.IndexAny(k, "{") / strings.LastIndex(k, ":"); None stands for -1 *)
Fixpoint index_of (c : N) (s : runes) : option nat :=
  match s with
  | [] => None
  | x :: s' => if x =? c then Some O
               else match index_of c s' with Some j => Some (S j) | None => None end
  end.
Fixpoint last_index (c : N) (s : runes) : option nat :=
  match s with
  | [] => None
  | x :: s' => match last_index c s' with
               | Some j => Some (S j)
               | None => if x =? c then Some O else None
               end
  end.

(* k[0:strings.IndexAny(k, "{")] ; None = the slice expression panics *)
Definition from_tree_to_dict_key (k : runes) : option runes :=
  match index_of c_lbrace k with
  | Some i => Some (firstn i k)
  | None => None
  end.

(* i := LastIndex(k, ":"); i = LastIndex(k[:i-1], ":"); k[:i] ; None = a slice expression panics *)
Definition from_tree_to_main_key (k : runes) : option runes :=
  match last_index c_colon k with
  | Some (S i') =>
      match last_index c_colon (firstn i' k) with
      | Some j => Some (firstn j k)
      | None => None
      end
  | _ => None
  end.

(* ---------- UTF-8 encoding of valid scalar values (used by the correspondence check) ---------- *)
Definition utf8_rune (c : N) : bytes :=
  if c <? 128 then [c]
  else if c <? 2048 then [192 + c / 64; 128 + c mod 64]
  else if c <? 65536 then [224 + c / 4096; 128 + (c / 64) mod 64; 128 + c mod 64]
  else [240 + c / 262144; 128 + (c / 4096) mod 64; 128 + (c / 64) mod 64; 128 + c mod 64].
Definition utf8 (s : runes) : bytes := flat_map utf8_rune s.

(* ---------- the textual form used by the theorems: name{k1=v1,...,kn=vn} ---------- *)
Definition render (n : runes) (l : labels) : runes := n ++ c_lbrace :: join_tags l ++ [c_rbrace].

Definition has (c : N) (s : runes) : bool := existsb (N.eqb c) s.
