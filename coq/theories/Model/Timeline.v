(* Timeline.v — model of pkg/storage/segment/timeline.go (GenerateTimeline, PopulateTimeline).
   Definitions only.  Time in 10-second slots since year 1 as in Segment.v. *)
From Pyro Require Export Model.Base Model.Segment.
Local Open Scope Z_scope.

Record timeline := {
  tl_st : Z;                 (* normalised start, slots *)
  tl_et : Z;                 (* normalised end, slots *)
  tl_lvl : nat;              (* durationDelta = 10 s * 10^tl_lvl *)
  tl_samples : list N        (* one entry per bucket *)
}.

(* GenerateTimeline: delta = the largest durations[d] (d = 0..) strictly below totalDuration/1024,
   durations[0] when there is none.  durations[d] for d >= 9 is negative in Go (int64 overflow) and
   the loop breaks there, so only levels 0..8 are candidates.  Everything is in slots:
   totalDuration = (et - st) slots, minDuration = totalDuration*10s/1024 (integer division on
   nanoseconds): d_l < minDuration  <=>  10^l * 10^10 ns < ((et-st) * 10^10 ns) / 1024 (Go truncating
   division on a non-negative value). *)
Definition ns_per_slot : Z := 10000000000.

Fixpoint pick_level (cands : list nat) (min_ns : Z) (best : nat) : nat :=
  match cands with
  | [] => best
  | l :: rest => if pow10 l * ns_per_slot <? min_ns then pick_level rest min_ns l else pick_level rest min_ns best
  end.

Definition tl_generate (a b : Z) : timeline :=
  let total_ns := (b - a) * ns_per_slot in
  let min_ns := Z.quot total_ns 1024 in
  let lvl := pick_level [0; 1; 2; 3; 4; 5; 6; 7; 8]%nat min_ns O in
  let n := Z.quot (b - a) (pow10 lvl) in
  {| tl_st := a; tl_et := b; tl_lvl := lvl; tl_samples := repeat 0%N (Z.to_nat n) |}.

(* buf[i] for i in [i0, i1) ∩ [0, len): if 0 then 1; += samples *)
Fixpoint bump_range (i0 i1 : Z) (smp : N) (idx : Z) (buf : list N) : list N :=
  match buf with
  | [] => []
  | x :: buf' =>
      (if (i0 <=? idx) && (idx <? i1) then ((if (x =? 0)%N then 1 else x) + smp)%N else x)
        :: bump_range i0 i1 smp (idx + 1) buf'
  end.

(* streeNode.populateTimeline; [dl] = level of the timeline buckets (minDuration = durations[dl]) *)
Fixpoint tl_populate_node (lvl : nat) (a b : Z) (dl : nat) (n : snode) (buf : list N) {struct lvl} : list N :=
  match n with
  | SNode t p s w ch =>
      let r := relationship t (t + pow10 lvl) a b in
      if is_outside r then buf
      else
        let descend := negb (length ch =? 0)%nat && (dl <=? lvl)%nat in
        match lvl with
        | S l =>
            if descend
            then fold_left (fun bf o => match o with Some c => tl_populate_node l a b dl c bf | None => bf end) ch buf
            else
              let cur := if (lvl <? dl)%nat then dl else lvl in
              let nt := if (lvl <? dl)%nat then trunc_to dl t else t in
              let i := Z.quot (nt - a) (pow10 dl) in
              let rb := i + Z.quot (pow10 cur) (pow10 dl) in
              bump_range i rb s 0 buf
        | O =>
            let cur := if (0 <? dl)%nat then dl else O in
            let nt := if (0 <? dl)%nat then trunc_to dl t else t in
            let i := Z.quot (nt - a) (pow10 dl) in
            let rb := i + Z.quot (pow10 cur) (pow10 dl) in
            bump_range i rb s 0 buf
        end
  end.

Definition tl_populate (s : segment) (tl : timeline) : timeline :=
  match s_root s with
  | None => tl
  | Some (lvl, n) =>
      {| tl_st := tl_st tl; tl_et := tl_et tl; tl_lvl := tl_lvl tl;
         tl_samples := tl_populate_node lvl (tl_st tl) (tl_et tl) (tl_lvl tl) n (tl_samples tl) |}
  end.
