(* Dimension.v — the inverted index lists of pkg/storage/dimension/dimension.go (after the fixes D2, D3).
   Model stratum: definitions only.

   A dimension is the sorted, duplicate-free list of series keys carrying one tag pair.
   sort.Search on the sorted slice (first index with keys[i] >= key) is the linear scan below.
   Intersection is the cursor machine of the code: a cursor is the not yet consumed suffix keys[i:]
   (never empty while the loop runs).  sort.Sort(sortableDims) with Less = ">=" is a parameter `srt`
   of the loop: the theorems hold for ANY function returning a permutation of the cursors; the
   correspondence check instantiates it with the insertion sort Go runs on fewer than 12 elements. *)
From Pyro Require Export Model.Base.

Definition dkey := bytes.
Definition dim := list dkey.

(* Dimension.Insert *)
Fixpoint d_insert (k : dkey) (d : dim) : dim :=
  match d with
  | [] => [k]
  | x :: d' =>
      match bcmp x k with
      | Lt => x :: d_insert k d'
      | Eq => d
      | Gt => k :: d
      end
  end.

(* Dimension.Delete *)
Fixpoint d_delete (k : dkey) (d : dim) : dim :=
  match d with
  | [] => []
  | x :: d' =>
      match bcmp x k with
      | Lt => x :: d_delete k d'
      | Eq => d'
      | Gt => d
      end
  end.

Definition d_mem (k : dkey) (d : dim) : bool := existsb (beqb k) d.

(* ---------- Intersection ---------- *)
Inductive adv := AMatch | ANoMatch | AEnd.

(* sortableDim.advance(cmp): move while current < cmp; end when the cursor runs off *)
Fixpoint advance (cur : list dkey) (v : dkey) : adv * list dkey :=
  match cur with
  | [] => (AEnd, [])
  | c :: rest =>
      match bcmp c v with
      | Eq => (AMatch, cur)
      | Gt => (ANoMatch, cur)
      | Lt => advance rest v
      end
  end.

(* step 2: every other cursor advances to val; None = some cursor hit the end (the code returns result) *)
Fixpoint advance_all (ds : list (list dkey)) (v : dkey) : option (bool * list (list dkey)) :=
  match ds with
  | [] => Some (true, [])
  | d :: ds' =>
      match advance d v with
      | (AEnd, _) => None
      | (r, d') =>
          match advance_all ds' v with
          | None => None
          | Some (am, ds'') => Some ((match r with AMatch => true | _ => false end) && am, d' :: ds'')
          end
      end
  end.

(* step 4: cursors standing on val move past it (only_on_val = true: the code as it is now;
   false: the rule before fix D2, every cursor moves); None = a cursor ran off (the code returns result) *)
Fixpoint pop_val (only_on_val : bool) (ds : list (list dkey)) (v : dkey) : option (list (list dkey)) :=
  match ds with
  | [] => Some []
  | d :: ds' =>
      match d with
      | [] => None
      | c :: rest =>
          if only_on_val && negb (beqb c v)
          then match pop_val only_on_val ds' v with Some r => Some (d :: r) | None => None end
          else match rest with
               | [] => None
               | _ => match pop_val only_on_val ds' v with Some r => Some (rest :: r) | None => None end
               end
      end
  end.

(* the for{} loop; None = out of fuel or a state the code cannot be in (no cursor / empty cursor) *)
Fixpoint inter_loop (srt : list (list dkey) -> list (list dkey)) (only_on_val : bool)
         (fuel : nat) (dims : list (list dkey)) (acc : list dkey) : option (list dkey) :=
  match fuel with
  | O => None
  | S f =>
      match srt dims with
      | (val :: r0) :: others =>
          match advance_all others val with
          | None => Some (rev acc)
          | Some (am, others') =>
              let acc' := if am then val :: acc else acc in
              match pop_val only_on_val ((val :: r0) :: others') val with
              | None => Some (rev acc')
              | Some dims' => inter_loop srt only_on_val f dims' acc'
              end
          end
      | _ => None
      end
  end.

Definition total_len (ds : list (list dkey)) : nat := fold_right (fun d n => (length d + n)%nat) O ds.

Definition is_nil {A} (l : list A) : bool := match l with [] => true | _ => false end.

Definition intersection_gen (srt : list (list dkey) -> list (list dkey)) (only_on_val : bool)
           (input : list dim) : option (list dkey) :=
  match input with
  | [] => Some []
  | [d] => Some d                        (* copyKeys *)
  | _ => if existsb is_nil input then Some []
         else inter_loop srt only_on_val (S (total_len input + length input)) input []
  end.

(* the order sort.Sort leaves fewer than 12 cursors in: insertion sort, an element moves left while
   its head is >= the head on its left *)
Definition head_gtb (a b : list dkey) : bool :=
  match a, b with
  | x :: _, y :: _ => match bcmp x y with Gt => true | _ => false end
  | _, _ => false
  end.
Fixpoint ins_desc (x : list dkey) (l : list (list dkey)) : list (list dkey) :=
  match l with
  | [] => [x]
  | y :: l' => if head_gtb y x then y :: ins_desc x l' else x :: l
  end.
Definition sort_desc (l : list (list dkey)) : list (list dkey) := fold_left (fun acc x => ins_desc x acc) l [].

Definition intersection (input : list dim) : option (list dkey) := intersection_gen sort_desc true input.
Definition intersection_unfixed (input : list dim) : option (list dkey) := intersection_gen sort_desc false input.

(* ---------- Union: first-occurrence order ---------- *)
Definition union (input : list dim) : list dkey :=
  match input with
  | [] => []
  | [d] => d
  | _ => fold_left (fun res d => fold_left (fun res k => if d_mem k res then res else res ++ [k]) d res) input []
  end.
