(* UrlCoding.v — byte-level model of the URL query coding between the agent's uploader and the /ingest handler
   (Go 1.23 net/url): url.QueryEscape and url.Values.Encode as remote.go uses them, url.QueryUnescape and
   url.ParseQuery as r.URL.Query() uses them (errors ignored: malformed pairs are dropped), Values.Get.
   Definitions only. *)
From Pyro Require Export Model.Base.

Local Open Scope N_scope.

(* ---- shouldEscape(c, encodeQueryComponent): only letters, digits and - _ . ~ stay ---------------------- *)
Definition is_alnum (c : byte) : bool :=
  ((97 <=? c) && (c <=? 122)) || ((65 <=? c) && (c <=? 90)) || ((48 <=? c) && (c <=? 57)).
Definition url_unreserved (c : byte) : bool :=
  is_alnum c || N.eqb c 45 || N.eqb c 95 || N.eqb c 46 || N.eqb c 126.

(* "0123456789ABCDEF"[n] *)
Definition upper_hex (n : N) : byte := if n <? 10 then 48 + n else 55 + n.

(* url.QueryEscape: ' ' -> '+', unreserved bytes stay, everything else is %XX with upper-case hex *)
Fixpoint url_escape (s : bytes) : bytes :=
  match s with
  | [] => []
  | c :: s' =>
      if N.eqb c 32 then 43 :: url_escape s'
      else if url_unreserved c then c :: url_escape s'
      else 37 :: upper_hex (c / 16) :: upper_hex (c mod 16) :: url_escape s'
  end.

(* ishex / unhex: either case *)
Definition unhex (c : byte) : option N :=
  if (48 <=? c) && (c <=? 57) then Some (c - 48)
  else if (97 <=? c) && (c <=? 102) then Some (c - 97 + 10)
  else if (65 <=? c) && (c <=? 70) then Some (c - 65 + 10)
  else None.

(* url.QueryUnescape: '+' -> ' ', %XY -> byte; a '%' not followed by two hex digits is an EscapeError
   (the whole string is rejected) *)
Fixpoint url_unescape (s : bytes) : option bytes :=
  match s with
  | [] => Some []
  | c :: s' =>
      if N.eqb c 37 then
        match s' with
        | h :: l :: s'' =>
            match unhex h, unhex l, url_unescape s'' with
            | Some a, Some b, Some r => Some ((a * 16 + b) :: r)
            | _, _, _ => None
            end
        | _ => None
        end
      else match url_unescape s' with
           | Some r => Some ((if N.eqb c 43 then 32 else c) :: r)
           | None => None
           end
  end.

(* ---- url.Values.Encode, one value per key: keys in sorted order, key=value joined by '&' ---------------- *)
Definition qpair := (bytes * bytes)%type.

Fixpoint kv_insert_sorted (kv : qpair) (l : list qpair) : list qpair :=
  match l with
  | [] => [kv]
  | x :: l' => match bcmp (fst kv) (fst x) with
               | Gt => x :: kv_insert_sorted kv l'
               | _ => kv :: l
               end
  end.
Definition sort_query (q : list qpair) : list qpair := fold_right kv_insert_sorted [] q.   (* slices.Sort(keys) *)

Definition encode_pair (kv : qpair) : bytes := url_escape (fst kv) ++ 61 :: url_escape (snd kv).
Fixpoint join_amp (l : list bytes) : bytes :=
  match l with
  | [] => []
  | [x] => x
  | x :: l' => x ++ 38 :: join_amp l'
  end.
Definition url_encode_query (q : list qpair) : bytes := join_amp (map encode_pair (sort_query q)).

(* ---- url.ParseQuery (as r.URL.Query(): the error is dropped) ---------------------------------------------- *)
(* strings.Cut(s, sep): the text before the first sep and the text after it (None when sep does not occur) *)
Fixpoint cut_at (sep : byte) (s : bytes) : bytes * option bytes :=
  match s with
  | [] => ([], None)
  | c :: s' => if N.eqb c sep then ([], Some s')
               else let (a, r) := cut_at sep s' in (c :: a, r)
  end.
Definition has_byte (b : byte) (s : bytes) : bool := existsb (N.eqb b) s.

(* one "key=value" piece: dropped when it contains ';', is empty, or either side has a bad escape *)
Definition parse_piece (p : bytes) : option qpair :=
  if has_byte 59 p then None
  else match p with
       | [] => None
       | _ => let (k, ov) := cut_at 61 p in
              let v := match ov with Some v => v | None => [] end in
              match url_unescape k, url_unescape v with
              | Some k', Some v' => Some (k', v')
              | _, _ => None
              end
       end.

(* the pieces between '&' *)
Fixpoint split_amp_aux (fuel : nat) (s : bytes) : list bytes :=
  match fuel with
  | O => []
  | S f => match s with
           | [] => []
           | _ => let (p, r) := cut_at 38 s in
                  p :: match r with Some r' => split_amp_aux f r' | None => [] end
           end
  end.
Definition split_amp (s : bytes) : list bytes := split_amp_aux (S (length s)) s.

(* the (key, value) pairs in the order they are appended; Values.Get(k) is the first pair with key k
   (q_get of Model/Ingest.v) *)
Definition url_parse_query (raw : bytes) : list qpair :=
  flat_map (fun p => match parse_piece p with Some kv => [kv] | None => [] end) (split_amp raw).
