(* ConcData.v — the fine lock-step model of Model/Conc.v instrumented with DATA for one series s, used to mechanise
   the step from the fine to the coarse model (C08_atomic_read_fine).  Model stratum: definitions only.

   Tracked locations of series s: the segment's node tree of s and the cached profile trees that belong to s
   ([tree_series]); threads of other series touch other locations and other segment locks.  The content of a tracked location is the list of the
   thread numbers that wrote it, in write order (a Put merges its profile into the bucket's tree: the list IS the
   content, merge being addition).  A write by thread i appends i; a read by the reader thread g records what it
   saw.  Ghost fields: the order in which writers entered their write sections, the executed prefix of every
   thread, and a snapshot taken when g's read section performs its first read. *)
From Pyro Require Export Model.Base Model.Conc.
Open Scope nat_scope.

(* Every cached profile tree belongs to one series (its key is series:depth:time).  Trees are numbered; the series a
   tree number belongs to is the exponent of 2 in (t + 1), so that every series owns unboundedly many trees:
   tree_id s j = 2^s * (2 j + 1) - 1 is the j-th tree of series s. *)
Fixpoint v2 (fuel n : nat) : nat :=
  match fuel with
  | O => 0
  | S f => match n with
           | O => 0
           | _ => if Nat.even n then S (v2 f (Nat.div2 n)) else 0
           end
  end.
Definition tree_series (t : nat) : nat := v2 (S t) (S t).
Definition tree_id (s j : nat) : nat := 2 ^ s * (2 * j + 1) - 1.

(* the locations of series s: its segment tree and the profile trees it owns *)
Definition tracked (s : nat) (x : locid) : bool :=
  match x with
  | LocSegTree s' => Nat.eqb s' s
  | LocTree t => Nat.eqb (tree_series t) s
  | _ => false
  end.

Definition is_twrite (s : nat) (a : action) : bool :=
  match a with Acc x true => tracked s x | _ => false end.
Definition is_tread (s : nat) (a : action) : bool :=
  match a with Acc x false => tracked s x | _ => false end.

(* how many times a piece of code writes the tracked location x / any tracked location / reads any *)
Fixpoint contrib (s : nat) (x : locid) (code : thread) : nat :=
  match code with
  | [] => 0
  | Acc y true :: r => (if tracked s y && loc_eqb y x then 1 else 0) + contrib s x r
  | _ :: r => contrib s x r
  end.
Fixpoint nwrites (s : nat) (code : thread) : nat :=
  match code with
  | [] => 0
  | a :: r => (if is_twrite s a then 1 else 0) + nwrites s r
  end.
Fixpoint nreads (s : nat) (code : thread) : nat :=
  match code with
  | [] => 0
  | a :: r => (if is_tread s a then 1 else 0) + nreads s r
  end.

Definition apply_held (a : action) (h : held) : held :=
  match a with
  | Acq l m => (l, m) :: h
  | Rel l m => remove_held l m h
  | Acc _ _ => h
  end.

(* static discipline of a writer: every tracked write is made holding the segment's WRITE lock, and once the
   thread has written, it does not release that lock while tracked writes remain: ONE write section *)
Fixpoint wdisc (s : nat) (started : bool) (h : held) (code : thread) : bool :=
  match code with
  | [] => true
  | a :: r =>
      (if is_twrite s a then holds_w (LSeg s) h else true) &&
      (match a with
       | Rel l MW => if lock_eqb l (LSeg s) && started then Nat.eqb (nwrites s r) 0 else true
       | _ => true
       end) &&
      wdisc s (started || is_twrite s a) (apply_held a h) r
  end.

(* static discipline of the reader: no tracked writes; every tracked read is made holding the segment's lock, and
   once it has read, it does not release that lock while tracked reads remain: ONE read section *)
Fixpoint rdisc (s : nat) (started : bool) (h : held) (code : thread) : bool :=
  match code with
  | [] => true
  | a :: r =>
      negb (is_twrite s a) &&
      (if is_tread s a then holds (LSeg s) h else true) &&
      (match a with
       | Rel l _ => if lock_eqb l (LSeg s) && started then Nat.eqb (nreads s r) 0 else true
       | _ => true
       end) &&
      rdisc s (started || is_tread s a) (apply_held a h) r
  end.

Record dstate := {
  d_val : locid -> list nat;                 (* content of every tracked location *)
  d_order : list nat;                        (* writers in the order of their first tracked write *)
  d_hist : nat -> thread;                    (* executed actions of every thread, oldest first *)
  d_obs : list (locid * list nat);           (* what the reader's tracked reads returned, newest first *)
  d_snap : option (list nat * list nat * list nat)
     (* taken at the reader's first tracked read: (writer order then, threads that had finished, threads that had
        executed at least one action) *)
}.

Definition d_init : dstate :=
  {| d_val := fun _ => []; d_order := []; d_hist := fun _ => []; d_obs := []; d_snap := None |}.

Definition finished_threads (c : config) : list nat :=
  filter (fun i => match nth_error c i with Some t => match ts_code t with [] => true | _ => false end | None => false end)
         (seq 0 (length c)).
Definition begun_threads (d : dstate) (n : nat) : list nat :=
  filter (fun i => match d_hist d i with [] => false | _ => true end) (seq 0 n).

Definition upd_loc (f : locid -> list nat) (x : locid) (v : list nat) : locid -> list nat :=
  fun y => if loc_eqb y x then v else f y.
Definition upd_hist (f : nat -> thread) (i : nat) (v : thread) : nat -> thread :=
  fun j => if Nat.eqb j i then v else f j.

(* bookkeeping for the action [a] that thread i has just executed in configuration c (before the step) *)
Definition record (s g : nat) (c : config) (i : nat) (a : action) (d : dstate) : dstate :=
  let hist' := upd_hist (d_hist d) i (d_hist d i ++ [a]) in
  match a with
  | Acc x true =>
      if tracked s x then
        {| d_val := upd_loc (d_val d) x (d_val d x ++ [i]);
           d_order := if memn i (d_order d) then d_order d else d_order d ++ [i];
           d_hist := hist'; d_obs := d_obs d; d_snap := d_snap d |}
      else {| d_val := d_val d; d_order := d_order d; d_hist := hist'; d_obs := d_obs d; d_snap := d_snap d |}
  | Acc x false =>
      if tracked s x && Nat.eqb i g then
        {| d_val := d_val d; d_order := d_order d; d_hist := hist';
           d_obs := (x, d_val d x) :: d_obs d;
           d_snap := match d_snap d with
                     | None => Some (d_order d, finished_threads c, begun_threads d (length c))
                     | sn => sn
                     end |}
      else {| d_val := d_val d; d_order := d_order d; d_hist := hist'; d_obs := d_obs d; d_snap := d_snap d |}
  | _ => {| d_val := d_val d; d_order := d_order d; d_hist := hist'; d_obs := d_obs d; d_snap := d_snap d |}
  end.

(* did the step consume thread i's next action (an announced write-acquire does not)? *)
Definition consumed (i : nat) (c c' : config) : option action :=
  match nth_error c i, nth_error c' i with
  | Some t, Some t' =>
      match ts_code t with
      | a :: r => if Nat.ltb (length (ts_code t')) (length (ts_code t)) then Some a else None
      | [] => None
      end
  | _, _ => None
  end.

Definition dstep (s g : nat) (cd : config * dstate) (i : nat) : config * dstate :=
  match step i (fst cd) with
  | None => cd
  | Some c' =>
      (c', match consumed i (fst cd) c' with
           | Some a => record s g (fst cd) i a (snd cd)
           | None => snd cd
           end)
  end.

Definition drun (s g : nat) (sched : list nat) (ts : list thread) : config * dstate :=
  fold_left (dstep s g) sched (init_config ts, d_init).

(* the content of x after exactly the writers in S ran their whole write sections, in that order *)
Definition after_puts (s : nat) (ts : list thread) (S : list nat) (x : locid) : list nat :=
  flat_map (fun i => repeat i (contrib s x (nth i ts []))) S.

(* the section-only threads of one series (no cache / lfu steps) *)
Definition put_core (s : nat) (trees : list nat) : thread :=
  locked LPut MW (locked (LSeg s) MW
    (Acc (LocSegTree s) true :: flat_map (fun t => locked (LTree t) MW [Acc (LocTree t) true]) trees)).
Definition get_core (s : nat) (trees : list nat) : thread :=
  locked (LSeg s) MR
    (Acc (LocSegTree s) false :: Acc (LocSegTree s) false ::
     flat_map (fun t => locked (LTree t) MR [Acc (LocTree t) false]) trees).

(* Storage.Get for a selector that matches several series (sel: the matching series with the trees covering the range,
   in the order of the segment keys): the loop over the segment keys takes, for every series, segments.Get,
   AggregationType (a read section of its own) and ONE GetWithTimeline read section — one read section per series, no
   lock spanning two series; afterwards the metadata getters of the last segment. *)
Definition selector_section (p : nat * list nat) : thread :=
  cache_get_miss CSegs [] ++
  locked (LSeg (fst p)) MR [Acc (LocSegMeta (fst p)) false] ++
  locked (LSeg (fst p)) MR (Acc (LocSegTree (fst p)) false :: Acc (LocSegTree (fst p)) false ::
     flat_map (fun t => cache_get_hit CTrees ++ locked (LTree t) MR [Acc (LocTree t) false]) (snd p)).
Definition selector_tail (sel : list (nat * list nat)) : thread :=
  match rev sel with
  | [] => []
  | p :: _ => locked (LSeg (fst p)) MR [Acc (LocSegMeta (fst p)) false]
  end.
Definition get_selector (ds : list nat) (sel : list (nat * list nat)) : thread :=
  flat_map (fun d => cache_get_miss CDims []) ds ++
  flat_map (fun d => locked (LDim d) MR [Acc (LocDimKeys d) false]) ds ++
  flat_map selector_section sel ++
  selector_tail sel.

(* every section reads trees of its own series only, and no series is matched twice *)
Definition selector_wf (sel : list (nat * list nat)) : Prop :=
  NoDup (map fst sel) /\ forall p, In p sel -> forall t, In t (snd p) -> tree_series t = fst p.
