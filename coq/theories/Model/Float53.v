(* Float53.v — the fragment of IEEE-754 binary64 arithmetic that the Go code uses on counters
   (float64(uint64), big.Rat.Float64, float64 multiply, uint64(float64)), on Z.
   A finite non-negative double is  fm * 2^fe  with fm = 0 or 2^52 <= fm < 2^53.
   Subnormals, infinities and NaN are outside the model (operands are counters < 2^64 and
   ratios of slot counts).  Definitions only. *)
From Pyro Require Export Model.Base.
Local Open Scope Z_scope.

Record f53 := { fm : Z; fe : Z }.

(* round-half-even of p/q for p >= 0, q > 0 *)
Definition rne_div (p q : Z) : Z :=
  let k := p / q in
  let r := p mod q in
  if 2 * r <? q then k
  else if q <? 2 * r then k + 1
  else if Z.even k then k else k + 1.

(* round-half-even of p / (q * 2^e) *)
Definition rne_scaled (p q e : Z) : Z :=
  if 0 <=? e then rne_div p (q * 2 ^ e) else rne_div (p * 2 ^ (- e)) q.

(* nearest double to the rational p/q (p >= 0, q > 0), ties to even *)
Definition rne53 (p q : Z) : f53 :=
  if p <=? 0 then {| fm := 0; fe := 0 |}
  else
    let lp := Z.log2 p in
    let lq := Z.log2 q in
    (* p/q lies in (2^(lp-lq-1), 2^(lp-lq+1)); is it >= 2^(lp-lq) ? *)
    let ge := q * 2 ^ lp <=? p * 2 ^ lq in
    let e := if ge then lp - lq - 52 else lp - lq - 53 in
    let m := rne_scaled p q e in
    if m =? 2 ^ 53 then {| fm := 2 ^ 52; fe := e + 1 |} else {| fm := m; fe := e |}.

Definition f53_of_N (n : N) : f53 := rne53 (Z.of_N n) 1.          (* float64(uint64) *)
Definition f53_of_rat (m d : Z) : f53 := rne53 m d.                (* big.Rat.Float64 *)

(* product of two doubles, rounded *)
Definition f53_mul (x y : f53) : f53 :=
  let r := rne53 (fm x * fm y) 1 in
  if fm r =? 0 then r else {| fm := fm r; fe := fe r + fe x + fe y |}.

(* uint64(f) for a non-negative finite f: truncation toward zero *)
Definition f53_trunc (x : f53) : N :=
  Z.to_N (if 0 <=? fe x then fm x * 2 ^ fe x else fm x / 2 ^ (- fe x)).

(* uint64(float64(samples) * r.Float64())  — segment.go:100-101 *)
Definition samples_incr (samples : N) (m d : Z) : N :=
  f53_trunc (f53_mul (f53_of_N samples) (f53_of_rat m d)).
