(* Ingest.v — model of ingestParamsFromRequest (pkg/server/ingest.go) and of the query built by
   Remote.uploadProfile (pkg/agent/upstream/remote/remote.go).  Definitions only.
   URL coding of query values is taken as the identity (url.Values.Encode / URL.Query). *)
From Coq Require Import Ascii.
From Pyro Require Export Model.Base Model.Tree Model.Varint Model.TTrie Model.TextFormats Model.TreeCodec.

Local Open Scope N_scope.

Definition query := list (bytes * bytes).          (* url.Values restricted to one value per key *)

(* q.Get(key): the first value, "" when absent *)
Fixpoint q_get (key : bytes) (q : query) : bytes :=
  match q with
  | [] => []
  | (k, v) :: q' => if beqb k key then v else q_get key q'
  end.

Inductive wire_format := FTree | FTrie | FLines | FGroups.

Definition ascii (s : string) : bytes := map (fun c => N_of_ascii c) (list_ascii_of_string s).

Definition ct_tree : bytes := ascii "binary/octet-stream+tree".
Definition ct_trie : bytes := ascii "binary/octet-stream+trie".

Definition select_format (format content_type : bytes) : wire_format :=
  if beqb format (ascii "tree") || beqb content_type ct_tree then FTree
  else if beqb format (ascii "trie") || beqb content_type ct_trie then FTrie
  else if beqb format (ascii "lines") then FLines
  else FGroups.

(* from / until: attime.Parse of a string of digits that is not an 8-digit calendar date is
   time.Unix(Atoi(s), 0); everything else (relative times, dates, absent = now) is modelled in C17 *)
Inductive time_arg :=
| TNow                       (* parameter absent: time.Now() *)
| TUnix (secs : Z)
| TOther (raw : bytes).
Definition all_digits (s : bytes) : bool := negb (match s with [] => true | _ => false end) && forallb is_digit s.
Definition parse_time_arg (s : bytes) : time_arg :=
  match s with
  | [] => TNow
  | _ => if all_digits s && negb (Nat.eqb (length s) 8)
         then match atoi s with Some v => TUnix v | None => TUnix 0 end
         else TOther s
  end.

Record ingest_params := {
  ip_format : wire_format;
  ip_name : bytes;                 (* handed to storage.ParseKey *)
  ip_from : time_arg;
  ip_until : time_arg;
  ip_spy : bytes;
  ip_rate : N;                     (* uint32 *)
  ip_units : bytes;
  ip_aggregation : bytes
}.

Definition default_sample_rate : N := 100.        (* types.DefaultSampleRate *)

Definition ingest_params_of (q : query) (content_type : bytes) : ingest_params :=
  {| ip_format := select_format (q_get (ascii "format") q) content_type;
     ip_name := q_get (ascii "name") q;
     ip_from := parse_time_arg (q_get (ascii "from") q);
     ip_until := parse_time_arg (q_get (ascii "until") q);
     ip_spy := match q_get (ascii "spyName") q with [] => ascii "unknown" | s => s end;
     ip_rate := match q_get (ascii "sampleRate") q with
                | [] => default_sample_rate
                | s => match atoi s with
                       | None => default_sample_rate                (* logged, default used *)
                       | Some v => Z.to_N (v mod 2 ^ 32)%Z          (* uint32(sampleRate) *)
                       end
                end;
     ip_units := match q_get (ascii "units") q with [] => ascii "samples" | s => s end;
     ip_aggregation := match q_get (ascii "aggregationType") q with [] => ascii "sum" | s => s end |}.

(* upstream.UploadJob without the trie; times as whole Unix seconds (StartTime.Unix()) *)
Record upload_job := {
  j_name : bytes; j_start : N; j_end : N;
  j_spy : bytes; j_rate : N; j_units : bytes; j_aggregation : bytes
}.

(* the query of Remote.uploadProfile (q.Set in this order; Encode sorts by key, Get does not care) *)
Definition upload_query (j : upload_job) : query :=
  [ (ascii "name", j_name j);
    (ascii "from", itoa (j_start j));
    (ascii "until", itoa (j_end j));
    (ascii "spyName", j_spy j);
    (ascii "sampleRate", itoa (j_rate j));
    (ascii "units", j_units j);
    (ascii "aggregationType", j_aggregation j) ].
Definition upload_content_type : bytes := ct_trie.

(* ---- the profile tree the handler builds from a request body (wrapConvertFunction) ---------------- *)
(* inserting a multiset of (stack, count) directly: the profile itself *)
Definition profile_of (ms : list (bytes * N)) : tnode :=
  fold_left (fun t kv => t_insert (fst kv) (snd kv) t) ms t_empty.

Definition tree_via_groups (body : bytes) : option tnode :=
  let (r, ok) := parse_groups body in
  if ok then Some (fold_left (fun t kv => t_insert (fst kv) (to_uint64 (snd kv)) t) r t_empty) else None.
Definition tree_via_lines (body : bytes) : option tnode :=
  let (r, ok) := parse_lines body in
  if ok then Some (profile_of r) else None.
(* convert.ParseTrie: Deserialize, then Iterate; int(val) and back to uint64 is the identity *)
Definition tree_via_trie (body : bytes) : option tnode :=
  match tt_deserialize body with
  | Some t => Some (profile_of (tt_iterate t))
  | None => None
  end.
(* what the agent's uploader sends for a multiset of samples *)
Definition trie_body (ms : list (bytes * N)) : bytes := tt_serialize 1 1 (tt_of_multiset ms).

(* format=tree: tree.DeserializeNoDict on the body; a client writes Tree.SerializeNoDict(maxNodes) *)
Definition tree_via_tree (body : bytes) : option tnode := tc_deserialize_nodict body.
Definition tree_body (maxNodes : nat) (ms : list (bytes * N)) : bytes := tc_serialize_nodict maxNodes (profile_of ms).
