(* Cache.v — model of pkg/storage/cache/cache.go: an LFU (Model/Lfu.v) in front of a Badger map, with the two
   goroutines that serialize handed-off entries ("in-flight saves").
   Model stratum: definitions only, no proofs.

   Values are immutable here.  The Go cache stores pointers; a client that mutates the object it got from
   Get changes the cached value without the LFU noticing.  That is the op OMutate: it rewrites the value of
   the LFU entry *if the entry is still there* and is lost otherwise (the client then mutates an object the
   cache has already let go of) — unless a save of that object is still in flight: the goroutine serializes the
   pointer later, so the save sees the mutation (OMutate rewrites the in-flight entries of the key in that case;
   the theorems exclude it by "no operation on a key while a save of that key is in flight", the harness drives it
   in the gate-held stream).

   Badger is a total map with read-your-writes; Bytes/FromBytes are enc/dec; New is dflt. *)
From Coq Require Import List Arith Bool.
From Pyro Require Export Model.Lfu.
Import ListNotations.
Set Implicit Arguments.

Section Cache.
Context {K V D : Type}.
Context (keq : forall a b : K, {a = b} + {a <> b}).
Context (dflt : K -> V) (enc : K -> V -> D) (dec : K -> D -> V).

Definition disk := K -> option D.
Definition d_set (k : K) (x : option D) (d : disk) : disk := fun k' => if keq k' k then x else d k'.

Record cache := mkC {
  c_lfu : lfu (K:=K) (V:=V);
  c_disk : disk;
  c_evq : list (K * V);     (* handed to the eviction goroutine, not yet on disk (FIFO) *)
  c_wbq : list (K * V)      (* handed to the write-back goroutine, not yet on disk (FIFO) *)
}.

Definition c_empty : cache := mkC [] (fun _ => None) [] [].

Inductive op :=
| OPut (k : K) (v : V)                          (* Cache.Put *)
| ORead (k : K)                                 (* Cache.Get *)
| OMutate (k : K) (f : V -> V)                  (* client mutates the object it holds for k *)
| ODelete (k : K)                               (* Cache.Delete *)
| OEvict (num den : nat) (order : list K)       (* Cache.Evict(num/den); oracle: visiting order *)
| OWriteBack (acc : list K)                     (* Cache.WriteBack(); oracle: accepted sends *)
| OFlushReopen                                  (* Flush, close Badger, open it again, cache.New *)
| OSaveCompletes (wb : bool).                   (* internal: head of the eviction (false) / write-back (true) queue reaches Badger *)

Inductive out := Ret (v : V) | Unit | Bad.     (* Bad: impossible oracle or non-terminating Go loop; state unchanged *)

Definition save (kv : K * V) (d : disk) : disk := d_set (fst kv) (Some (enc (fst kv) (snd kv))) d.
Definition complete (q : list (K * V)) (d : disk) : disk := fold_left (fun d kv => save kv d) q d.

(* what Flush hands to the eviction goroutine: every entry not marked persisted *)
Definition flush_sends (l : lfu (K:=K) (V:=V)) : list (K * V) :=
  map (fun ke => (fst ke, e_val (snd ke))) (filter (fun ke => negb (e_pers (snd ke))) l).

Definition q_poke (k : K) (f : V -> V) (q : list (K * V)) : list (K * V) :=
  map (fun kv => if keq (fst kv) k then (fst kv, f (snd kv)) else kv) q.

Definition step (c : cache) (o : op) : cache * out :=
  match o with
  | OPut k v => (mkC (l_set keq k v (c_lfu c)) (c_disk c) (c_evq c) (c_wbq c), Unit)
  | ORead k =>
      (* Cache.Get: lfu.Get; on a miss (since /repo 39795c3) the rest runs under the per-cache missMutex and starts
         with a second lfu.Get, which in a sequential history misses again and changes nothing (a missing lfu.Get
         has no effect); then Badger, FromBytes or New, lfu.Set.  The mutex only serializes concurrent misses of
         one cache; it does not wait for in-flight saves, so the D11 schedule is unchanged. *)
      match l_get keq k (c_lfu c) with
      | (Some v, l') => (mkC l' (c_disk c) (c_evq c) (c_wbq c), Ret v)
      | (None, _) =>
          let v := match c_disk c k with Some d => dec k d | None => dflt k end in
          (mkC (l_set keq k v (c_lfu c)) (c_disk c) (c_evq c) (c_wbq c), Ret v)
      end
  | OMutate k f =>
      (* the client mutates the object it holds for k.  If the LFU still holds that object the cached value changes
         (no touch: frequency and `persisted` stay).  If not, the object may still be waiting in a save goroutine,
         which serializes it only later: the in-flight saves of k see the mutation (in-flight entries of one key are
         treated as aliases of the client's object); otherwise the mutation is lost. *)
      match l_find keq k (c_lfu c) with
      | Some _ => (mkC (l_poke keq k f (c_lfu c)) (c_disk c) (c_evq c) (c_wbq c), Unit)
      | None => (mkC (c_lfu c) (c_disk c) (q_poke k f (c_evq c)) (q_poke k f (c_wbq c)), Unit)
      end
  | ODelete k => (mkC (l_delete keq k (c_lfu c)) (d_set k None (c_disk c)) (c_evq c) (c_wbq c), Unit)
  | OEvict num den order =>
      match den with
      | 0 => (c, Bad)
      | _ =>
        match l_evict keq order (l_len (c_lfu c) * num / den) (c_lfu c) with
        | Some (l', sends) => (mkC l' (c_disk c) (c_evq c ++ sends) (c_wbq c), Unit)
        | None => (c, Bad)
        end
      end
  | OWriteBack acc =>
      match l_persist keq acc (c_lfu c) with
      | Some (l', sends) => (mkC l' (c_disk c) (c_evq c) (c_wbq c ++ sends), Unit)
      | None => (c, Bad)
      end
  | OFlushReopen =>
      (* the write-back goroutine is independent of the eviction goroutine; the model lets its pending saves
         land first.  Flush's own sends go through the eviction goroutine after the pending ones. *)
      (mkC [] (complete (flush_sends (c_lfu c)) (complete (c_evq c) (complete (c_wbq c) (c_disk c)))) [] [], Unit)
  | OSaveCompletes false =>
      match c_evq c with
      | kv :: q => (mkC (c_lfu c) (save kv (c_disk c)) q (c_wbq c), Unit)
      | [] => (c, Unit)
      end
  | OSaveCompletes true =>
      match c_wbq c with
      | kv :: q => (mkC (c_lfu c) (save kv (c_disk c)) (c_evq c) q, Unit)
      | [] => (c, Unit)
      end
  end.

Fixpoint run (c : cache) (ops : list op) : list out * cache :=
  match ops with
  | [] => ([], c)
  | o :: r => let (c', x) := step c o in let (xs, c'') := run c' r in (x :: xs, c'')
  end.

(* ---- the specification: a plain map ---- *)
Definition smap := K -> option V.
Definition s_set (k : K) (x : option V) (m : smap) : smap := fun k' => if keq k' k then x else m k'.
Definition s_empty : smap := fun _ => None.

Definition spec_step (m : smap) (o : op) : smap * out :=
  match o with
  | OPut k v => (s_set k (Some v) m, Unit)
  | ORead k => match m k with
               | Some v => (m, Ret v)
               | None => (s_set k (Some (dflt k)) m, Ret (dflt k))
               end
  | OMutate k f => match m k with
                   | Some v => (s_set k (Some (f v)) m, Unit)
                   | None => (m, Unit)
                   end
  | ODelete k => (s_set k None m, Unit)
  | _ => (m, Unit)
  end.

Fixpoint spec_run (m : smap) (ops : list op) : list out * smap :=
  match ops with
  | [] => ([], m)
  | o :: r => let (m', x) := spec_step m o in let (xs, m'') := spec_run m' r in (x :: xs, m'')
  end.

(* ---- hypotheses of the theorems, as predicates on histories ---- *)
Definition inflight (k : K) (c : cache) : Prop := In k (map fst (c_evq c ++ c_wbq c)).
Definition quiet (k : K) (c : cache) : Prop := ~ inflight k c.

(* "the entry is touched again before it can be evicted": scanning the rest of the history, a Put/Get/Delete of k
   comes before any Evict or Flush (an unfinished history counts as touched: nothing has been evicted yet) *)
Fixpoint touched_first (k : K) (rest : list op) : Prop :=
  match rest with
  | [] => True
  | OPut k' _ :: r | ORead k' :: r | ODelete k' :: r => if keq k k' then True else touched_first k r
  | OEvict _ _ _ :: _ | OFlushReopen :: _ => False
  | _ :: r => touched_first k r
  end.

(* admissibility of one op in a state, given the rest of the history:
   - client operations on k wait for k's in-flight saves (excludes D11);
   - a mutation goes through an object the cache still holds and that was obtained by a Get/Put after the last
     write-back (the entry is present and not marked persisted);
   - every entry a write-back marks is either really handed to the write-back goroutine or touched again before
     the next eviction (excludes D10). *)
Definition op_ok (c : cache) (o : op) (rest : list op) : Prop :=
  match o with
  | OPut k _ | ORead k | ODelete k => quiet k c
  | OMutate k _ => quiet k c /\ exists e, l_find keq k (c_lfu c) = Some e /\ e_pers e = false
  | OWriteBack acc => forall k, In k (l_front (c_lfu c)) -> In k acc \/ touched_first k rest
  | _ => True
  end.

Fixpoint admissible (c : cache) (ops : list op) : Prop :=
  match ops with
  | [] => True
  | o :: r => op_ok c o r /\ admissible (fst (step c o)) r
  end.

(* the same without write-back: only "saves complete before the next operation on the same key" and
   "a mutation goes through an object the cache still holds" *)
Definition op_ok0 (c : cache) (o : op) : Prop :=
  match o with
  | OPut k _ | ORead k | ODelete k => quiet k c
  | OMutate k _ => quiet k c /\ l_find keq k (c_lfu c) <> None
  | _ => True
  end.

Fixpoint admissible0 (c : cache) (ops : list op) : Prop :=
  match ops with
  | [] => True
  | o :: r => op_ok0 c o /\ admissible0 (fst (step c o)) r
  end.

Definition is_writeback (o : op) : bool := match o with OWriteBack _ => true | _ => false end.
Definition no_writeback (ops : list op) : Prop := forallb (fun o => negb (is_writeback o)) ops = true.

(* ---- client-level histories: what a sequential client (and the harness) does ---- *)
Inductive cop :=
| CPut (k : K) (v : V)
| CRead (k : K)
| CMutate (k : K) (f : V -> V)                   (* Get k, then mutate the returned object *)
| CDelete (k : K)
| CEvict (num den : nat) (order : list K)        (* Evict, then wait until the eviction goroutine is idle *)
| CEvictHold (num den : nat) (order : list K)    (* Evict; the last hand-off stays in flight *)
| CRelease                                       (* the held save reaches the disk *)
| CWriteBack (acc : list K)                      (* WriteBack, then wait for both goroutines *)
| CFlushReopen.

Definition lower1 (o : cop) : list op :=
  match o with
  | CPut k v => [OPut k v]
  | CRead k => [ORead k]
  | CMutate k f => [ORead k; OMutate k f]
  | CDelete k => [ODelete k]
  | CEvict n d order => OEvict n d order :: repeat (OSaveCompletes false) (length order)
  | CEvictHold n d order => OEvict n d order :: repeat (OSaveCompletes false) (length order - 1)
  | CRelease => [OSaveCompletes false]
  | CWriteBack acc => OWriteBack acc :: repeat (OSaveCompletes true) (length acc)
  | CFlushReopen => [OFlushReopen]
  end.
Definition lower (l : list cop) : list op := flat_map lower1 l.

Definition is_sync (o : cop) : bool :=
  match o with CEvictHold _ _ _ | CRelease | CWriteBack _ => false | _ => true end.

(* reads of a run *)
Definition rets (l : list out) : list V := flat_map (fun x => match x with Ret v => [v] | _ => [] end) l.

End Cache.
