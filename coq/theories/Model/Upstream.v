(* Upstream.v — model of pkg/agent/upstream/remote/remote.go and pkg/agent/upstream/direct/direct.go
   (the agent's non-blocking uploaders).  Model stratum: definitions only, no proofs.

   What is modelled (the LOGIC): the buffered channel [jobs]/[queue] (capacity 100) as a FIFO list, the
   [select { case q <- job: … default: log }] of Upload as ONE total step, the worker goroutines
   ([handleJobs]/[uploadLoop]) as per-worker states idle / busy(job) / exited, [safeUpload]'s recover()
   (a panic ends the attempt, not the worker), the stop channel, and the request that [uploadProfile]
   builds from the job and the configuration (query parameters, content type, bearer token).
   What is NOT modelled (named in the evidence as sampled, not proved): wall-clock latency of the Go
   runtime's channel send, net/http, sockets, the Go scheduler.  The server is an arbitrary environment:
   it only chooses the outcome of every attempt (ok | http error | transport error — hang until the
   client times out or the server is released, refused connection, slow body all end in one of these —
   | panic inside the attempt).

   remote.Remote and direct.Direct are the same machine; Direct has one worker and its Upload has the
   additional [case <-u.stop: return] branch. *)
From Pyro Require Export Model.Base.

Inductive umode := MRemote | MDirect.

Inductive outcome := OOk | OHttpError | OTransportError | OPanic.

(* upstream.UploadJob.  [j_id] is not a Go field: it names the call of Upload that handed the job over
   (theorems about "at most once" are stated for pairwise different ids).  StartTime/EndTime are kept as
   the Unix seconds that uploadProfile sends.  [j_trie = None] is a nil *Trie (uploadProfile and
   direct.uploadProfile dereference it and panic). *)
Record job := {
  j_id : N;
  j_name : bytes;
  j_from : Z;
  j_until : Z;
  j_spy : bytes;
  j_rate : N;
  j_units : bytes;
  j_agg : bytes;
  j_trie : option bytes
}.

Record ucfg := {
  c_mode : umode;
  c_cap : nat;            (* 100 in both packages *)
  c_workers : nat;        (* cfg.UpstreamThreads; upstreamThreads = 1 in direct *)
  c_token : bytes;        (* cfg.AuthToken *)
  c_path : bytes          (* path of cfg.UpstreamAddress; "/ingest" is joined to it *)
}.

Definition remote_cfg (k : nat) (token path : bytes) : ucfg :=
  {| c_mode := MRemote; c_cap := 100; c_workers := k; c_token := token; c_path := path |}.
Definition direct_cfg : ucfg :=
  {| c_mode := MDirect; c_cap := 100; c_workers := 1; c_token := []; c_path := [] |}.

(* ---- the request built by remote.uploadProfile ------------------------------------------------ *)
Record request := {
  rq_path : bytes;
  rq_name : bytes;            (* q.Set("name", j.Name) *)
  rq_from : Z;                (* strconv.Itoa(int(j.StartTime.Unix())) *)
  rq_until : Z;
  rq_spy : bytes;
  rq_rate : N;
  rq_units : bytes;
  rq_agg : bytes;
  rq_ctype : bytes;           (* "binary/octet-stream+trie" *)
  rq_auth : option bytes;     (* the Authorization header, absent when no token is configured *)
  rq_body : bytes
}.

Definition ascii_ingest : bytes := [47; 105; 110; 103; 101; 115; 116].   (* "/ingest" *)
Definition ascii_bearer : bytes := [66; 101; 97; 114; 101; 114; 32].     (* "Bearer " *)
Definition ascii_ctype : bytes :=                                          (* "binary/octet-stream+trie" *)
  [98;105;110;97;114;121;47;111;99;116;101;116;45;115;116;114;101;97;109;43;116;114;105;101].

(* path.Join(p, "/ingest") for the paths the configuration can carry here: "" , "/" and "/a/b" without
   trailing slash or dot segments (path.Clean is the identity on them) *)
Definition join_ingest (p : bytes) : bytes :=
  match p with
  | [] => ascii_ingest
  | [47] => ascii_ingest
  | _ => p ++ ascii_ingest
  end.

Definition auth_header (token : bytes) : option bytes :=
  match token with
  | [] => None
  | _ => Some (ascii_bearer ++ token)
  end.

(* None: j.Trie.Bytes() dereferenced a nil trie — the attempt panics before a request exists *)
Definition build_request (cfg : ucfg) (j : job) : option request :=
  match j_trie j with
  | None => None
  | Some body =>
      Some {| rq_path := join_ingest (c_path cfg);
              rq_name := j_name j; rq_from := j_from j; rq_until := j_until j;
              rq_spy := j_spy j; rq_rate := j_rate j; rq_units := j_units j; rq_agg := j_agg j;
              rq_ctype := ascii_ctype;
              rq_auth := auth_header (c_token cfg);
              rq_body := body |}
  end.

(* ---- state ------------------------------------------------------------------------------------- *)
Inductive wstate := WIdle | WBusy (j : job) | WExited.

Record ustate := {
  u_queue : list job;                              (* the channel buffer, oldest first *)
  u_workers : list wstate;
  u_stopped : bool;                                (* done / stop channel closed *)
  u_drops : list job;                              (* dropped with the "queue is full" log line, newest first *)
  u_lost : list job;                               (* Direct only: Upload returned through [case <-u.stop] *)
  u_attempts : list (nat * job * option request);  (* attempts started: worker, job, request built *)
  u_finished : list (nat * job * outcome);         (* attempts ended *)
  u_errlog : N                                     (* Errorf lines other than "queue is full" *)
}.

Definition u_init (cfg : ucfg) : ustate :=
  {| u_queue := []; u_workers := repeat WIdle (c_workers cfg); u_stopped := false;
     u_drops := []; u_lost := []; u_attempts := []; u_finished := []; u_errlog := 0 |}.

Inductive uevent :=
| EUpload (j : job) (pick_stop : bool)   (* the producer calls Upload; [pick_stop] resolves Go's random
                                            choice between two ready select cases (Direct after Stop) *)
| ETake (w : nat)                         (* worker w receives from the channel and starts safeUpload *)
| EFinish (w : nat) (o : outcome)         (* the attempt of worker w ends (returns, or panics and is recovered) *)
| EExit (w : nat)                         (* worker w takes the done/stop branch and returns *)
| EStop.                                  (* Stop(): close(done) *)

Fixpoint set_nth {A} (n : nat) (x : A) (l : list A) : list A :=
  match l, n with
  | [], _ => []
  | _ :: l', O => x :: l'
  | y :: l', S n' => y :: set_nth n' x l'
  end.

Definition is_direct (cfg : ucfg) : bool := match c_mode cfg with MDirect => true | MRemote => false end.

Definition queue_full (cfg : ucfg) (s : ustate) : bool := Nat.leb (c_cap cfg) (length (u_queue s)).

(* which branch of Upload's select runs *)
Inductive upload_branch := BSend | BStop | BDefault.
Definition upload_branch_of (cfg : ucfg) (s : ustate) (pick_stop : bool) : upload_branch :=
  let send_ready := negb (queue_full cfg s) in
  let stop_ready := is_direct cfg && u_stopped s in
  if send_ready then (if stop_ready && pick_stop then BStop else BSend)
  else if stop_ready then BStop
  else BDefault.

Definition with_queue (s : ustate) (q : list job) : ustate :=
  {| u_queue := q; u_workers := u_workers s; u_stopped := u_stopped s; u_drops := u_drops s;
     u_lost := u_lost s; u_attempts := u_attempts s; u_finished := u_finished s; u_errlog := u_errlog s |}.
Definition with_drop (s : ustate) (j : job) : ustate :=
  {| u_queue := u_queue s; u_workers := u_workers s; u_stopped := u_stopped s; u_drops := j :: u_drops s;
     u_lost := u_lost s; u_attempts := u_attempts s; u_finished := u_finished s; u_errlog := u_errlog s |}.
Definition with_lost (s : ustate) (j : job) : ustate :=
  {| u_queue := u_queue s; u_workers := u_workers s; u_stopped := u_stopped s; u_drops := u_drops s;
     u_lost := j :: u_lost s; u_attempts := u_attempts s; u_finished := u_finished s; u_errlog := u_errlog s |}.

Definition upload (cfg : ucfg) (j : job) (pick_stop : bool) (s : ustate) : ustate :=
  match upload_branch_of cfg s pick_stop with
  | BSend => with_queue s (u_queue s ++ [j])
  | BStop => with_lost s j
  | BDefault => with_drop s j
  end.

Definition outcome_is_ok (o : outcome) : bool := match o with OOk => true | _ => false end.

(* [enabled]: can the event happen in this state.  Upload is enabled in EVERY state. *)
Definition enabled (cfg : ucfg) (e : uevent) (s : ustate) : bool :=
  match e with
  | EUpload _ _ => true
  | ETake w => match nth_error (u_workers s) w, u_queue s with
               | Some WIdle, _ :: _ => true
               | _, _ => false
               end
  | EFinish w _ => match nth_error (u_workers s) w with Some (WBusy _) => true | _ => false end
  | EExit w => match nth_error (u_workers s) w with Some WIdle => u_stopped s | _ => false end
  | EStop => true
  end.

(* an event that is not enabled leaves the state unchanged (the function is total) *)
Definition u_step (cfg : ucfg) (s : ustate) (e : uevent) : ustate :=
  match e with
  | EUpload j ps => upload cfg j ps s
  | ETake w =>
      match nth_error (u_workers s) w, u_queue s with
      | Some WIdle, j :: q =>
          {| u_queue := q; u_workers := set_nth w (WBusy j) (u_workers s); u_stopped := u_stopped s;
             u_drops := u_drops s; u_lost := u_lost s;
             u_attempts := (w, j, build_request cfg j) :: u_attempts s;
             u_finished := u_finished s; u_errlog := u_errlog s |}
      | _, _ => s
      end
  | EFinish w o =>
      match nth_error (u_workers s) w with
      | Some (WBusy j) =>
          (* a nil trie always panics; otherwise the environment decides *)
          let o' := match j_trie j with None => OPanic | Some _ => o end in
          {| u_queue := u_queue s; u_workers := set_nth w WIdle (u_workers s); u_stopped := u_stopped s;
             u_drops := u_drops s; u_lost := u_lost s; u_attempts := u_attempts s;
             u_finished := (w, j, o') :: u_finished s;
             u_errlog := if outcome_is_ok o' then u_errlog s else u_errlog s + 1 |}
      | _ => s
      end
  | EExit w =>
      match nth_error (u_workers s) w with
      | Some WIdle =>
          if u_stopped s then
            {| u_queue := u_queue s; u_workers := set_nth w WExited (u_workers s); u_stopped := true;
               u_drops := u_drops s; u_lost := u_lost s; u_attempts := u_attempts s;
               u_finished := u_finished s; u_errlog := u_errlog s |}
          else s
      | _ => s
      end
  | EStop =>
      {| u_queue := u_queue s; u_workers := u_workers s; u_stopped := true;
         u_drops := u_drops s; u_lost := u_lost s; u_attempts := u_attempts s;
         u_finished := u_finished s; u_errlog := u_errlog s |}
  end.

Definition u_run (cfg : ucfg) (evs : list uevent) (s : ustate) : ustate := fold_left (u_step cfg) evs s.

(* ---- projections used by theorems and by the correspondence check ------------------------------ *)
Definition uploaded (evs : list uevent) : list job :=
  flat_map (fun e => match e with EUpload j _ => [j] | _ => [] end) evs.

Definition busy_jobs (ws : list wstate) : list job :=
  flat_map (fun w => match w with WBusy j => [j] | _ => [] end) ws.

Definition attempt_jobs (s : ustate) : list job := map (fun a => snd (fst a)) (u_attempts s).
Definition finished_jobs (s : ustate) : list job := map (fun a => snd (fst a)) (u_finished s).

Definition has_stop (evs : list uevent) : bool :=
  existsb (fun e => match e with EStop => true | _ => false end) evs.

Definition alive (w : wstate) : bool := match w with WExited => false | _ => true end.
