(* Base.v — bytes, lexicographic comparison (bytes.Compare), small list helpers.
   Model stratum: definitions only, no proofs. *)
From Coq Require Export String.
From Coq Require Export List NArith ZArith Bool Lia.
Export ListNotations.
Open Scope N_scope.

Definition byte := N.
Definition bytes := list byte.

(* bytes.Compare *)
Fixpoint bcmp (a b : bytes) : comparison :=
  match a, b with
  | [], [] => Eq
  | [], _ :: _ => Lt
  | _ :: _, [] => Gt
  | x :: a', y :: b' =>
      match N.compare x y with
      | Eq => bcmp a' b'
      | c => c
      end
  end.

Definition beqb (a b : bytes) : bool := match bcmp a b with Eq => true | _ => false end.
Definition bltb (a b : bytes) : bool := match bcmp a b with Lt => true | _ => false end.

(* lexicographic comparison on lists of byte strings (stack paths) *)
Fixpoint pcmp (a b : list bytes) : comparison :=
  match a, b with
  | [], [] => Eq
  | [], _ :: _ => Lt
  | _ :: _, [] => Gt
  | x :: a', y :: b' =>
      match bcmp x y with
      | Eq => pcmp a' b'
      | c => c
      end
  end.

Definition peqb (a b : list bytes) : bool := match pcmp a b with Eq => true | _ => false end.

(* bytes.Split(key, ";") — always returns at least one (possibly empty) part *)
Fixpoint bsplit_aux (sep : byte) (cur : bytes) (s : bytes) : list bytes :=
  match s with
  | [] => [rev cur]
  | c :: s' => if N.eqb c sep then rev cur :: bsplit_aux sep [] s'
               else bsplit_aux sep (c :: cur) s'
  end.
Definition bsplit (sep : byte) (s : bytes) : list bytes := bsplit_aux sep [] s.

Fixpoint bjoin (sep : byte) (l : list bytes) : bytes :=
  match l with
  | [] => []
  | [x] => x
  | x :: l' => x ++ sep :: bjoin sep l'
  end.

Definition sumN (l : list N) : N := fold_right N.add 0 l.

(* finite maps from paths to counts as sorted association lists (canonical form) *)
Fixpoint padd (p : list bytes) (v : N) (m : list (list bytes * N)) : list (list bytes * N) :=
  match m with
  | [] => [(p, v)]
  | (q, w) :: m' =>
      match pcmp p q with
      | Lt => (p, v) :: m
      | Eq => (q, w + v) :: m'
      | Gt => (q, w) :: padd p v m'
      end
  end.
Definition pnorm (l : list (list bytes * N)) : list (list bytes * N) :=
  fold_left (fun m pv => padd (fst pv) (snd pv) m) l [].
Fixpoint pget (p : list bytes) (m : list (list bytes * N)) : N :=
  match m with
  | [] => 0
  | (q, w) :: m' => if peqb p q then w + pget p m' else pget p m'
  end.
Definition pnz (m : list (list bytes * N)) := filter (fun pv => negb (N.eqb (snd pv) 0)) m.

Definition list_eqb {A} (eqb : A -> A -> bool) : list A -> list A -> bool :=
  fix go (a b : list A) : bool :=
    match a, b with
    | [], [] => true
    | x :: a', y :: b' => eqb x y && go a' b'
    | _, _ => false
    end.

Definition pv_eqb (a b : list bytes * N) : bool := peqb (fst a) (fst b) && N.eqb (snd a) (snd b).
Definition pm_eqb := list_eqb pv_eqb.
