(* Tree.v — model of pkg/storage/tree/tree.go (profile tree) and pkg/structs/merge/merge.go.
   Model stratum: definitions only. *)
From Pyro Require Export Model.Base.

Inductive tnode := TNode (name : bytes) (self total : N) (ch : list tnode).

Definition t_name (t : tnode) := match t with TNode n _ _ _ => n end.
Definition t_self (t : tnode) := match t with TNode _ s _ _ => s end.
Definition t_total (t : tnode) := match t with TNode _ _ t' _ => t' end.
Definition t_ch (t : tnode) := match t with TNode _ _ _ c => c end.

Definition t_new (name : bytes) : tnode := TNode name 0 0 [].
Definition t_empty : tnode := t_new [].           (* tree.New() *)

(* treeNode.insert followed by an update of the found/created child:
   sort.Search finds the first child whose name is >= target; if it is not equal a fresh node is
   inserted at that position.  [f] is applied to that child. *)
Fixpoint t_upd (name : bytes) (f : tnode -> tnode) (ch : list tnode) : list tnode :=
  match ch with
  | [] => [f (t_new name)]
  | c :: ch' =>
      match bcmp (t_name c) name with
      | Lt => c :: t_upd name f ch'
      | Eq => f c :: ch'
      | Gt => f (t_new name) :: ch
      end
  end.

(* Tree.Insert with the key already split at ';' : adds v to the total of every node on the
   path (root included) and to the self of the last one. *)
Fixpoint t_insert_path (path : list bytes) (v : N) (t : tnode) : tnode :=
  match t with
  | TNode n s tot ch =>
      match path with
      | [] => TNode n (s + v) (tot + v) ch
      | l :: path' => TNode n s (tot + v) (t_upd l (t_insert_path path' v) ch)
      end
  end.

(* Tree.Insert(key, value): labels := bytes.Split(key, ";") *)
Definition t_insert (key : bytes) (v : N) (t : tnode) : tnode :=
  t_insert_path (bsplit 59 key) v t.

(* Tree.Merge: dst.Merge(src).  Structural on src. *)
Fixpoint t_merge (d s : tnode) {struct s} : tnode :=
  match d, s with
  | TNode dn ds dt dch, TNode _ ss st sch =>
      TNode dn (ds + ss) (dt + st)
        ((fix go (sch : list tnode) (dch : list tnode) {struct sch} : list tnode :=
            match sch with
            | [] => dch
            | sc :: rest => go rest (t_upd (t_name sc) (fun dc => t_merge dc sc) dch)
            end) sch dch)
  end.

(* treeNode.clone(m, d): each value becomes v*m/d (Go uint64 arithmetic; the model is on N,
   the 2^64 product bound is a hypothesis of the theorems and enforced by the generators). *)
Fixpoint t_clone (m d : N) (t : tnode) : tnode :=
  match t with
  | TNode n s tot ch => TNode n (s * m / d) (tot * m / d) (map (t_clone m d) ch)
  end.

(* iterate: pre-order, callback (path, self).  The Go code builds the key ";root;a;b"; the model
   keeps the path as the list of names below the root. *)
Fixpoint t_den_aux (prefix : list bytes) (t : tnode) : list (list bytes * N) :=
  match t with
  | TNode n s _ ch =>
      (prefix, s) :: flat_map (fun c => t_den_aux (prefix ++ [t_name c]) c) ch
  end.
Definition t_den (t : tnode) : list (list bytes * N) := t_den_aux [] t.

Fixpoint t_tot_aux (prefix : list bytes) (t : tnode) : list (list bytes * N) :=
  match t with
  | TNode n _ tot ch =>
      (prefix, tot) :: flat_map (fun c => t_tot_aux (prefix ++ [t_name c]) c) ch
  end.
Definition t_tots (t : tnode) : list (list bytes * N) := t_tot_aux [] t.

(* lookup of a node by path *)
Fixpoint t_find (name : bytes) (ch : list tnode) : option tnode :=
  match ch with
  | [] => None
  | c :: ch' => if beqb (t_name c) name then Some c else t_find name ch'
  end.
Fixpoint t_at (p : list bytes) (t : tnode) : option (N * N) :=
  match p with
  | [] => Some (t_self t, t_total t)
  | l :: p' => match t_find l (t_ch t) with
               | None => None
               | Some c => t_at p' c
               end
  end.
Definition t_self_at (p : list bytes) (t : tnode) : N :=
  match t_at p t with Some (s, _) => s | None => 0 end.
Definition t_total_at (p : list bytes) (t : tnode) : N :=
  match t_at p t with Some (_, x) => x | None => 0 end.

Fixpoint t_size (t : tnode) : nat :=
  match t with TNode _ _ _ ch => S (fold_right (fun c n => (t_size c + n)%nat) 0%nat ch) end.

(* boolean well-formedness predicates *)
Fixpoint sorted_names (ch : list tnode) : bool :=
  match ch with
  | [] => true
  | c :: ch' => match ch' with
                | [] => true
                | c' :: _ => bltb (t_name c) (t_name c') && sorted_names ch'
                end
  end.
Fixpoint t_wfb (t : tnode) : bool :=
  match t with TNode _ _ _ ch => sorted_names ch && forallb t_wfb ch end.

Definition ch_total (ch : list tnode) : N := sumN (map t_total ch).
Fixpoint t_exactb (t : tnode) : bool :=
  match t with TNode _ s tot ch => N.eqb tot (s + ch_total ch) && forallb t_exactb ch end.
Fixpoint t_subb (t : tnode) : bool :=
  match t with TNode _ s tot ch => N.leb (s + ch_total ch) tot && forallb t_subb ch end.

Fixpoint t_eqb (a b : tnode) {struct a} : bool :=
  match a, b with
  | TNode an as_ at_ ach, TNode bn bs bt bch =>
      beqb an bn && N.eqb as_ bs && N.eqb at_ bt &&
      (fix go (x y : list tnode) {struct x} : bool :=
         match x, y with
         | [], [] => true
         | c :: x', c' :: y' => t_eqb c c' && go x' y'
         | _, _ => false
         end) ach bch
  end.

(* ---- pkg/structs/merge: the pool of MergeTriesConcurrently ---------------------------------
   State: the pool (a list), the in-flight jobs (pairs handed to workers, result not yet
   returned).  The coordinator queues jobs pool[0].Merge(pool[1]) while at least two trees are
   in the pool and fewer than [conc] are in flight, then waits for one completion; which job
   completes is the schedule's choice. The finished tree is prepended to the pool. *)
Record pool_state := { ps_pool : list tnode; ps_fly : list (tnode * tnode) }.

Fixpoint pool_queue (fuel : nat) (conc : nat) (s : pool_state) : pool_state :=
  match fuel with
  | O => s
  | S fuel' =>
      match ps_pool s with
      | a :: b :: rest =>
          if Nat.ltb (length (ps_fly s)) conc
          then pool_queue fuel' conc {| ps_pool := rest; ps_fly := ps_fly s ++ [(a, b)] |}
          else s
      | _ => s
      end
  end.

Fixpoint remove_nth {A} (n : nat) (l : list A) : list A :=
  match l, n with
  | [], _ => []
  | _ :: l', O => l'
  | x :: l', S n' => x :: remove_nth n' l'
  end.

(* one completion: the schedule picks which in-flight job finishes (index modulo the number in
   flight, so every choice is legal) *)
Definition pool_finish (choice : nat) (s : pool_state) : pool_state :=
  match ps_fly s with
  | [] => s
  | j0 :: _ =>
      let i := Nat.modulo choice (length (ps_fly s)) in
      let j := nth i (ps_fly s) j0 in
      {| ps_pool := t_merge (fst j) (snd j) :: ps_pool s; ps_fly := remove_nth i (ps_fly s) |}
  end.

Definition pool_round (conc : nat) (choice : nat) (s : pool_state) : pool_state :=
  pool_finish choice (pool_queue (length (ps_pool s)) conc s).

(* MergeTriesConcurrently(conc, tries...) under schedule [sched] (one choice per merge).
   Returns None for an empty family (Go returns nil) or when the schedule is too short. *)
Definition pool_run (conc : nat) (sched : list nat) (tries : list tnode) : option tnode :=
  match tries with
  | [] => None
  | _ =>
      let s := fold_left (fun s c => pool_round conc c s) sched
                         {| ps_pool := tries; ps_fly := [] |} in
      match ps_pool s, ps_fly s with
      | [t], [] => Some t
      | _, _ => None
      end
  end.

Definition merge_serial (tries : list tnode) : option tnode :=
  match tries with
  | [] => None
  | t :: rest => Some (fold_left t_merge rest t)
  end.
