(* Storage.v — model of pkg/storage/storage.go over plain maps (association lists): Put, Get, Delete,
   DeleteDataBefore.  This is the specification-level storage every storage property (C01, C11, C13)
   is stated about; the cache/Badger/codec stack below it is the subject of C02/C05.
   Definitions only.

   Abstractions (each validated by the correspondence checks, each listed as "modelled"):
   * a series is identified by its application name and its sorted tag list; the canonical key text
     (Key.Normalized(), model in Key.v / C15) is carried along as bytes and only used to order the
     matching series the way dimension.Intersection returns them (sorted by key bytes);
   * the inverted index (dimensions) is abstracted by its specification — "the live series of the
     application whose tags include all pairs of the selector" — which is what C07 proves about the
     cursor machine of dimension.go;
   * the trees cache always answers (cache.New creates tree.New() on a miss), so a missing tree is
     the empty tree. *)
From Pyro Require Export Model.Base Model.Tree Model.Segment Model.Timeline.
Local Open Scope Z_scope.

(* ---- series identifiers ---- *)
Record sid := { sid_key : bytes; sid_app : bytes; sid_tags : list (bytes * bytes) }.

Definition kv_eqb (x y : bytes * bytes) : bool := beqb (fst x) (fst y) && beqb (snd x) (snd y).
Definition sid_eqb (x y : sid) : bool := beqb (sid_key x) (sid_key y).

(* selector matching: same application and every (k,v) of the selector is a tag of the series *)
Definition sel_matches (sel s : sid) : bool :=
  beqb (sid_app sel) (sid_app s) &&
  forallb (fun kv => existsb (kv_eqb kv) (sid_tags s)) (sid_tags sel).

(* ---- state ---- *)
Definition tkey := (bytes * nat * Z)%type.          (* series key, level, time in slots *)
Definition tkey_eqb (x y : tkey) : bool :=
  let '(k1, l1, t1) := x in let '(k2, l2, t2) := y in beqb k1 k2 && Nat.eqb l1 l2 && (t1 =? t2).

Record st_state := {
  st_segs : list (sid * segment);          (* live series, sorted by key bytes *)
  st_trees : list (tkey * tnode)
}.
Definition st_init : st_state := {| st_segs := []; st_trees := [] |}.

Fixpoint seg_lookup (k : sid) (l : list (sid * segment)) : option segment :=
  match l with
  | [] => None
  | (k', s) :: l' => if sid_eqb k k' then Some s else seg_lookup k l'
  end.
(* insert/replace keeping the list sorted by key bytes *)
Fixpoint seg_store (k : sid) (s : segment) (l : list (sid * segment)) : list (sid * segment) :=
  match l with
  | [] => [(k, s)]
  | (k', s') :: l' =>
      match bcmp (sid_key k) (sid_key k') with
      | Lt => (k, s) :: l
      | Eq => (k, s) :: l'
      | Gt => (k', s') :: seg_store k s l'
      end
  end.
Definition seg_remove (k : sid) (l : list (sid * segment)) : list (sid * segment) :=
  filter (fun ks => negb (sid_eqb k (fst ks))) l.

Fixpoint tree_lookup (k : tkey) (l : list (tkey * tnode)) : option tnode :=
  match l with
  | [] => None
  | (k', t) :: l' => if tkey_eqb k k' then Some t else tree_lookup k l'
  end.
Definition tree_get (k : tkey) (l : list (tkey * tnode)) : tnode :=
  match tree_lookup k l with Some t => t | None => t_empty end.
Fixpoint tree_store (k : tkey) (t : tnode) (l : list (tkey * tnode)) : list (tkey * tnode) :=
  match l with
  | [] => [(k, t)]
  | (k', t') :: l' => if tkey_eqb k k' then (k, t) :: l' else (k', t') :: tree_store k t l'
  end.
Definition tree_remove (k : tkey) (l : list (tkey * tnode)) : list (tkey * tnode) :=
  filter (fun kt => negb (tkey_eqb k (fst kt))) l.

(* ---- Put ---- *)
Record put_input := {
  pi_sid : sid; pi_from : Z; pi_until : Z;        (* Unix seconds *)
  pi_tree : tnode; pi_meta : meta
}.

(* the callback passed to Segment.Put: clone the profile by the ratio, merge the addons' stored
   trees into the clone, merge the clone into the bucket's stored tree.  big.Rat reduces m/d to
   lowest terms; floor(v*m/d) does not depend on that. *)
Definition put_cb_apply (k : bytes) (prof : tnode) (trees : list (tkey * tnode)) (c : put_cb)
  : list (tkey * tnode) :=
  let clone := t_clone (Z.to_N (pc_m c)) (Z.to_N (pc_d c)) prof in
  let clone' := fold_left (fun cl a => t_merge cl (tree_get (k, fst a, snd a) trees)) (pc_addons c) clone in
  let tk := (k, pc_lvl c, pc_t c) in
  tree_store tk (t_merge (tree_get tk trees) clone') trees.

(* [retention_thr]: Some unix threshold when config.Retention is set (now - retention) *)
Definition st_put (retention_thr : option Z) (pi : put_input) (st : st_state) : st_state * bool :=
  match retention_thr with
  | Some thr => if pi_from pi <? thr then (st, false) else
      (let k := pi_sid pi in
       let seg := match seg_lookup k (st_segs st) with Some s => s | None => s_empty end in
       let '(seg', cbs) := s_put_unix (pi_from pi) (pi_until pi) (t_total (pi_tree pi)) (s_set_meta (pi_meta pi) seg) in
       ({| st_segs := seg_store k seg' (st_segs st);
           st_trees := fold_left (put_cb_apply (sid_key k) (pi_tree pi)) cbs (st_trees st) |}, true))
  | None =>
      (let k := pi_sid pi in
       let seg := match seg_lookup k (st_segs st) with Some s => s | None => s_empty end in
       let '(seg', cbs) := s_put_unix (pi_from pi) (pi_until pi) (t_total (pi_tree pi)) (s_set_meta (pi_meta pi) seg) in
       ({| st_segs := seg_store k seg' (st_segs st);
           st_trees := fold_left (put_cb_apply (sid_key k) (pi_tree pi)) cbs (st_trees st) |}, true))
  end.

(* ---- Get ---- *)
Record get_output := { go_tree : tnode; go_timeline : timeline; go_meta : meta }.

Definition average_bytes : bytes := [97; 118; 101; 114; 97; 103; 101]%N.   (* "average" *)

Definition st_get (sel : sid) (from until : Z) (st : st_state) : option get_output :=
  let '(a, b) := s_normalize_unix (from, until) in
  let matching := filter (fun ks => sel_matches sel (fst ks)) (st_segs st) in
  let tl := fold_left (fun tl ks => tl_populate (snd ks) tl) matching (tl_generate a b) in
  let parts := flat_map (fun ks =>
                 map (fun c => (t_clone (Z.to_N (gc_m c)) (Z.to_N (gc_d c))
                                        (tree_get (sid_key (fst ks), gc_lvl c, gc_t c) (st_trees st)),
                                gc_writes c))
                     (s_get a b (snd ks))) matching in
  match merge_serial (map fst parts) with
  | None => None
  | Some t =>
      let writes := sumN (map snd parts) in
      let avg := existsb (fun ks => beqb (m_agg (s_meta (snd ks))) average_bytes) matching in
      let t' := if (0 <? writes)%N && avg then t_clone 1 writes t else t in
      let m := match rev matching with ks :: _ => s_meta (snd ks) | [] => meta0 end in
      Some {| go_tree := t'; go_timeline := tl; go_meta := m |}
  end.

(* ---- Delete (by selector) ---- *)
(* every tree of the series is removed (after the fix: the walk visits every node), then the segment *)
Definition max_time_unix : Z := 2 ^ 62.            (* storage.maxTime = time.Unix(1<<62, ...) *)

Definition st_delete_series (st : st_state) (ks : sid * segment) : st_state :=
  let '(_, cbs, _) := s_delete_before_unix max_time_unix (snd ks) in
  {| st_segs := seg_remove (fst ks) (st_segs st);
     st_trees := fold_left (fun tr c => tree_remove (sid_key (fst ks), fst c, snd c) tr) cbs (st_trees st) |}.

Definition st_delete (sel : sid) (st : st_state) : st_state :=
  fold_left st_delete_series (filter (fun ks => sel_matches sel (fst ks)) (st_segs st)) st.

(* ---- DeleteDataBefore (retention pass) ---- *)
Definition st_retention_series (thr : Z) (st : st_state) (ks : sid * segment) : st_state :=
  let '(seg', cbs, root_deleted) := s_delete_before_unix thr (snd ks) in
  let trees' := fold_left (fun tr c => tree_remove (sid_key (fst ks), fst c, snd c) tr) cbs (st_trees st) in
  if root_deleted
  then {| st_segs := seg_remove (fst ks) (st_segs st); st_trees := trees' |}
  else {| st_segs := seg_store (fst ks) seg' (st_segs st); st_trees := trees' |}.

Definition st_retention (thr : Z) (st : st_state) : st_state :=
  fold_left (st_retention_series thr) (st_segs st) st.

(* ---- histories ---- *)
Inductive st_op :=
| OpPut (pi : put_input)
| OpGet (sel : sid) (from until : Z)
| OpDelete (sel : sid)
| OpRetention (thr : Z).

Inductive st_out :=
| OutPut (ok : bool)
| OutGet (r : option get_output)
| OutUnit.

Definition st_step (retention_thr : option Z) (st : st_state) (o : st_op) : st_state * st_out :=
  match o with
  | OpPut pi => let '(st', ok) := st_put retention_thr pi st in (st', OutPut ok)
  | OpGet sel f u => (st, OutGet (st_get sel f u st))
  | OpDelete sel => (st_delete sel st, OutUnit)
  | OpRetention thr => (st_retention thr st, OutUnit)
  end.

Fixpoint st_run (retention_thr : option Z) (ops : list st_op) (st : st_state) : st_state * list st_out :=
  match ops with
  | [] => (st, [])
  | o :: ops' =>
      let '(st1, out) := st_step retention_thr st o in
      let '(st2, outs) := st_run retention_thr ops' st1 in
      (st2, out :: outs)
  end.
