(* Cappedarr.v — model of pkg/structs/cappedarr/cappedarr.go (CappedArray.Push / MinValue) and of
   pkg/storage/tree/minval.go (Tree.minValue, after the fix of D1).
   Model stratum: definitions only.

   The Go array [values] has [maxSize] slots; the live part is the window
   values[maxSize-len .. maxSize), kept in ascending order; every slot left of the window holds 0
   (it is never written).  The model keeps exactly that window as a list ([ca_vals], ascending,
   head = values[maxSize-len]).  Reading the four branches of Push against this window:

   * window not full (len < maxSize): len is incremented BEFORE anything else, so the window grows
     by the slot to its left, which holds 0.
       - v = 0: i = 0 and v <= values[0] = 0  ("case 2"): Push returns false, but the window has
         already grown: it now starts with one more 0.  (This is the array code's treatment of zero
         values: a zero is recorded and refused at the same time.)
       - v > 0: "case 3": the i window elements smaller than v are shifted one slot to the left and v
         is written behind them: sorted insertion (before the first element >= v).  Returns true.
         "case 4" is unreachable here because the slot compared with v is either the fresh 0 or an
         element < v.
   * window full (len = maxSize; window = whole array):
       - v <= smallest element (i = 0): "case 2", refused, nothing changes.
       - all elements < v (i = maxSize): "case 1": everything shifted left by one (smallest dropped),
         v written last.
       - otherwise: "case 4": elements 1..i-1 shifted left by one (smallest dropped), v written at i-1.
     In both accepting cases the new window is: sorted insertion of v, then drop the head.
   * maxSize = 0: the Go code panics (slice bounds out of range) on the first Push; callers
     guarantee maxNodes >= 1 (render.go: "mn > 0", config defaults 2048/8192).  The model refuses the
     value and leaves the window empty; every theorem carries  (1 <= maxNodes). *)
From Pyro Require Export Model.Base Model.Tree.

Record capped := { ca_max : nat; ca_vals : list N (* ascending, length <= ca_max *) }.

Definition ca_new (maxSize : nat) : capped := {| ca_max := maxSize; ca_vals := [] |}.

(* insertion before the first element >= v   (position i = sort.Search(.. >= v)) *)
Fixpoint ca_insert (v : N) (l : list N) : list N :=
  match l with
  | [] => [v]
  | x :: l' => if N.ltb x v then x :: ca_insert v l' else v :: l
  end.

Definition ca_push (v : N) (c : capped) : bool * capped :=
  if Nat.ltb (length (ca_vals c)) (ca_max c) then
    (* not full: the window first grows by a 0 slot *)
    if N.eqb v 0 then (false, {| ca_max := ca_max c; ca_vals := 0 :: ca_vals c |})
    else (true, {| ca_max := ca_max c; ca_vals := ca_insert v (ca_vals c) |})
  else
    match ca_vals c with
    | [] => (false, c)                                   (* maxSize = 0: Go panics *)
    | w0 :: _ =>
        if N.leb v w0 then (false, c)
        else (true, {| ca_max := ca_max c; ca_vals := tl (ca_insert v (ca_vals c)) |})
    end.

(* MinValue: values[maxSize-len], or 0 when nothing was pushed *)
Definition ca_min (c : capped) : N :=
  match ca_vals c with
  | [] => 0
  | w0 :: _ => w0
  end.

(* iterateWithCum with the callback of minValue: pre-order, children left to right, the children of
   a node are visited only when Push accepted the node's total.  State: the capped array and the
   number of callback invocations ("visited"). *)
Fixpoint mv_visit (t : tnode) (st : capped * nat) {struct t} : capped * nat :=
  match t with
  | TNode _ _ tot ch =>
      let (ok, c') := ca_push tot (fst st) in
      let st' := (c', S (snd st)) in
      if ok then
        (fix go (ch : list tnode) (st : capped * nat) {struct ch} : capped * nat :=
           match ch with
           | [] => st
           | c :: rest => go rest (mv_visit c st)
           end) ch st'
      else st'
  end.

Definition mv_children (ch : list tnode) (st : capped * nat) : capped * nat :=
  fold_left (fun st c => mv_visit c st) ch st.

(* Tree.minValue(maxNodes) as it is after the fix: 0 when the (pruned) walk visited at most
   maxNodes nodes, MinValue otherwise. *)
Definition t_minval (maxNodes : nat) (t : tnode) : N :=
  let st := mv_visit t (ca_new maxNodes, O) in
  if Nat.leb (snd st) maxNodes then 0 else ca_min (fst st).
