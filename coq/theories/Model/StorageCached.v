(* StorageCached.v — pkg/storage/storage.go with the TREES going through the cache (Model/Cache.v), the cached twin of
   Model/Storage.v.  Definitions only.

   cst_step mirrors st_step access by access:
     Storage.Put   per segment callback: trees.Get(tk); Clone; trees.Get(addon) for every addon; Merge; trees.Put(tk, ...)
                   (the Merge goes through the pointer Get returned and is followed by Put of that pointer: in the value
                   model that is OPut of the merged tree)
     Storage.Get   trees.Get(key) for every cover node of every matching series, in order
     Storage.Delete / DeleteDataBefore: trees.Delete(tk) for every callback
   A Get of a tree that is nowhere creates tree.New() in the cache (cache.New), which the plain model reads as "absent".
   Tree codec: the serialized form is abstracted by what it decodes to, retotal (prune 0 t) (= t_reload of
   Proofs/TreeReloadProofs.v; tree-b's tree_reload_codec: valid below the node cap, against the dictionary of that
   time or any later one — the dictionaries cache is therefore not part of this model).
   PARTIAL: the segments stay in a plain association list as in Model/Storage.v (their codec round-trips exactly on
   reachable segments, C02_segments_transparent); dimensions and dictionaries do not occur in Model/Storage.v.
   Maintenance steps: Cache.Evict(num/den) with any visiting order the LFU allows, followed by the completion of its
   saves (what VerifEvict does), and Flush + reopen.  No write-back. *)
From Pyro Require Export Model.Base Model.Tree Model.TreeCodec Model.Lfu Model.Cache.
From Pyro Require Export Model.Segment Model.Timeline Model.Storage.
Local Open Scope Z_scope.

Definition tkey_dec (a b : tkey) : {a = b} + {a <> b}.
Proof. repeat decide equality. Defined.

Definition tcache := Cache.cache (K:=tkey) (V:=tnode) (D:=tnode).
Definition ct_dflt (k : tkey) : tnode := t_empty.                              (* cache.New = tree.New() *)
Definition ct_enc (k : tkey) (t : tnode) : tnode := t_retotal (t_prune 0 t).   (* Bytes, read through FromBytes *)
Definition ct_dec (k : tkey) (d : tnode) : tnode := d.
Definition ct_step : tcache -> Cache.op -> tcache * Cache.out := Cache.step tkey_dec ct_dflt ct_enc ct_dec.
Definition ct_run : tcache -> list Cache.op -> list Cache.out * tcache := Cache.run tkey_dec ct_dflt ct_enc ct_dec.

Definition c_read (k : tkey) (c : tcache) : tcache * tnode :=
  match ct_step c (Cache.ORead k) with
  | (c', Cache.Ret v) => (c', v)
  | (c', _) => (c', t_empty)
  end.
Definition c_put (k : tkey) (v : tnode) (c : tcache) : tcache := fst (ct_step c (Cache.OPut k v)).
Definition c_del (k : tkey) (c : tcache) : tcache := fst (ct_step c (Cache.ODelete k)).

Fixpoint c_reads (keys : list tkey) (c : tcache) : tcache * list tnode :=
  match keys with
  | [] => (c, [])
  | k :: r => let (c1, v) := c_read k c in let (c2, vs) := c_reads r c1 in (c2, v :: vs)
  end.

Record cst_state := { cs_segs : list (sid * segment); cs_trees : tcache }.
Definition cst_init : cst_state := {| cs_segs := []; cs_trees := Cache.c_empty |}.

(* ---- Put ---- *)
Definition c_addon (k : bytes) (st : tcache * tnode) (a : nat * Z) : tcache * tnode :=
  let (c', v) := c_read (k, fst a, snd a) (fst st) in (c', t_merge (snd st) v).

Definition c_put_cb (k : bytes) (prof : tnode) (c : tcache) (cb : put_cb) : tcache :=
  let tk := (k, pc_lvl cb, pc_t cb) in
  let (c1, cached) := c_read tk c in
  let clone := t_clone (Z.to_N (pc_m cb)) (Z.to_N (pc_d cb)) prof in
  let (c2, clone') := fold_left (c_addon k) (pc_addons cb) (c1, clone) in
  c_put tk (t_merge cached clone') c2.

Definition cst_put_go (pi : put_input) (cst : cst_state) : cst_state * bool :=
  let k := pi_sid pi in
  let seg := match seg_lookup k (cs_segs cst) with Some s => s | None => Segment.s_empty end in
  let '(seg', cbs) := s_put_unix (pi_from pi) (pi_until pi) (t_total (pi_tree pi)) (s_set_meta (pi_meta pi) seg) in
  ({| cs_segs := seg_store k seg' (cs_segs cst);
      cs_trees := fold_left (c_put_cb (sid_key k) (pi_tree pi)) cbs (cs_trees cst) |}, true).

Definition cst_put (retention_thr : option Z) (pi : put_input) (cst : cst_state) : cst_state * bool :=
  match retention_thr with
  | Some thr => if pi_from pi <? thr then (cst, false) else cst_put_go pi cst
  | None => cst_put_go pi cst
  end.

(* ---- Get ---- *)
Definition get_items (a b : Z) (matching : list (sid * segment)) : list ((sid * segment) * get_cb) :=
  flat_map (fun ks => map (fun c => (ks, c)) (s_get a b (snd ks))) matching.
Definition item_key (kc : (sid * segment) * get_cb) : tkey := (sid_key (fst (fst kc)), gc_lvl (snd kc), gc_t (snd kc)).
Definition item_part (kc : (sid * segment) * get_cb) (t : tnode) : tnode * N :=
  (t_clone (Z.to_N (gc_m (snd kc))) (Z.to_N (gc_d (snd kc))) t, gc_writes (snd kc)).

Definition get_finish (a b : Z) (matching : list (sid * segment)) (parts : list (tnode * N)) : option get_output :=
  match merge_serial (map fst parts) with
  | None => None
  | Some t =>
      let writes := sumN (map snd parts) in
      let avg := existsb (fun ks => beqb (m_agg (s_meta (snd ks))) average_bytes) matching in
      Some {| go_tree := if (0 <? writes)%N && avg then t_clone 1 writes t else t;
              go_timeline := fold_left (fun tl ks => tl_populate (snd ks) tl) matching (tl_generate a b);
              go_meta := match rev matching with ks :: _ => s_meta (snd ks) | [] => meta0 end |}
  end.

Definition cst_get (sel : sid) (from until : Z) (cst : cst_state) : cst_state * option get_output :=
  let '(a, b) := s_normalize_unix (from, until) in
  let matching := filter (fun ks => sel_matches sel (fst ks)) (cs_segs cst) in
  let items := get_items a b matching in
  let (c', vals) := c_reads (map item_key items) (cs_trees cst) in
  ({| cs_segs := cs_segs cst; cs_trees := c' |},
   get_finish a b matching (map (fun iv => item_part (fst iv) (snd iv)) (combine items vals))).

(* ---- Delete, DeleteDataBefore ---- *)
Definition c_del_cbs (k : bytes) (cbs : list (nat * Z)) (c : tcache) : tcache :=
  fold_left (fun c cb => c_del (k, fst cb, snd cb) c) cbs c.

Definition cst_delete_series (cst : cst_state) (ks : sid * segment) : cst_state :=
  let '(_, cbs, _) := s_delete_before_unix max_time_unix (snd ks) in
  {| cs_segs := seg_remove (fst ks) (cs_segs cst); cs_trees := c_del_cbs (sid_key (fst ks)) cbs (cs_trees cst) |}.

Definition cst_delete (sel : sid) (cst : cst_state) : cst_state :=
  fold_left cst_delete_series (filter (fun ks => sel_matches sel (fst ks)) (cs_segs cst)) cst.

Definition cst_retention_series (thr : Z) (cst : cst_state) (ks : sid * segment) : cst_state :=
  let '(seg', cbs, root_deleted) := s_delete_before_unix thr (snd ks) in
  let trees' := c_del_cbs (sid_key (fst ks)) cbs (cs_trees cst) in
  if root_deleted
  then {| cs_segs := seg_remove (fst ks) (cs_segs cst); cs_trees := trees' |}
  else {| cs_segs := seg_store (fst ks) seg' (cs_segs cst); cs_trees := trees' |}.

Definition cst_retention (thr : Z) (cst : cst_state) : cst_state :=
  fold_left (cst_retention_series thr) (cs_segs cst) cst.

Definition cst_step (retention_thr : option Z) (cst : cst_state) (o : st_op) : cst_state * st_out :=
  match o with
  | OpPut pi => let '(cst', ok) := cst_put retention_thr pi cst in (cst', OutPut ok)
  | OpGet sel f u => let '(cst', r) := cst_get sel f u cst in (cst', OutGet r)
  | OpDelete sel => (cst_delete sel cst, OutUnit)
  | OpRetention thr => (cst_retention thr cst, OutUnit)
  end.

(* ---- maintenance of the trees cache ---- *)
Inductive maint :=
| MEvict (num den : nat) (order : list tkey)    (* Cache.Evict(num/den), oracle = visiting order; then its saves complete *)
| MFlushReopen.                                 (* Flush, close, reopen *)

Definition cst_maint (m : maint) (cst : cst_state) : cst_state :=
  {| cs_segs := cs_segs cst;
     cs_trees := snd (ct_run (cs_trees cst)
                        (Cache.lower1 (match m with
                                       | MEvict n d order => Cache.CEvict n d order
                                       | MFlushReopen => Cache.CFlushReopen
                                       end))) |}.

(* ---- histories: storage operations with maintenance steps inserted anywhere ---- *)
Inductive chop := CO (o : st_op) | CM (m : maint).

Fixpoint c_run (rt : option Z) (h : list chop) (cst : cst_state) : cst_state * list st_out :=
  match h with
  | [] => (cst, [])
  | CO o :: r =>
      let '(cst1, out) := cst_step rt cst o in
      let '(cst2, outs) := c_run rt r cst1 in
      (cst2, out :: outs)
  | CM m :: r => c_run rt r (cst_maint m cst)
  end.

Definition cstrip (h : list chop) : list st_op :=
  flat_map (fun x => match x with CO o => [o] | CM _ => [] end) h.
