(* TreeCodec.v — model of pkg/storage/tree/serialize.go (Serialize / SerializeNoDict / Deserialize /
   DeserializeNoDict), using Model/Cappedarr.v for the pruning threshold (minval.go, after fix D1) and
   Model/Dict.v for the symbol dictionary.  Model stratum: definitions only.

   Fidelity notes:
   * Both writers walk the tree in pre-order with an explicit stack; the model recurses.  A node's
     children are written only when `Total > minVal`; a pruned node is written with child count 0.
   * Serialize calls d.Put(name) for every node it writes, in writing order, so the dictionary is
     threaded through the walk ([ser_t] returns the new dictionary); names of pruned subtrees are
     never put.
   * Both readers rebuild the tree with treeNode.insert (sorted insertion; an existing child with the
     same name is REUSED, its Self/Total overwritten by the values read), set Total := Self for the
     node read and add Self to every ancestor, so decoded totals are recomputed from self values.
     The model's recursive descent returns the updated parent: the amount added to the ancestors by a
     sub-parse is the final total of the node it read.
   * `t.root = t.root.ChildrenNodes[0]`: the dummy root's only child.
   * Deserialize resolves a label through Dict.Get; on a miss Go substitutes the text
     "label not found <base64>" — outside the model (answer None): it cannot happen for keys written by
     Serialize into the same dictionary (TreeCodecProofs) and the harness never provokes it.
   * serialization.ReadBytes: n = 0 gives the empty slice, n > MaxInt64 or a short read is an error.
   * A child count larger than the remaining input is an error in the model at once; Go discovers it at
     EOF after walking the rest of the input (same answer: error). *)
From Pyro Require Export Model.Base Model.Varint Model.Tree Model.Cappedarr Model.Dict.

(* ---- writers ---------------------------------------------------------------------------------- *)
Fixpoint ser_nd (th : N) (t : tnode) : bytes :=
  match t with
  | TNode n s tot ch =>
      uvarint_enc (Nlen n) ++ n ++ uvarint_enc s ++
      (if th <? tot then uvarint_enc (Nlen ch) ++ flat_map (ser_nd th) ch else uvarint_enc 0)
  end.

Definition tc_serialize_nodict (maxNodes : nat) (t : tnode) : bytes :=
  ser_nd (t_minval maxNodes t) t.

Fixpoint ser_t (th : N) (t : tnode) (d : trie) {struct t} : bytes * trie :=
  match t with
  | TNode n s tot ch =>
      let '(k, d1) := d_put n d in
      let hd := uvarint_enc (Nlen k) ++ k ++ uvarint_enc s in
      if th <? tot then
        let '(body, d2) :=
          (fix go (ch : list tnode) (d : trie) {struct ch} : bytes * trie :=
             match ch with
             | [] => ([], d)
             | c :: rest => let '(b1, d') := ser_t th c d in
                            let '(b2, d'') := go rest d' in (b1 ++ b2, d'')
             end) ch d1 in
        (hd ++ uvarint_enc (Nlen ch) ++ body, d2)
      else (hd ++ uvarint_enc 0, d1)
  end.

Definition tc_serialize (maxNodes : nat) (t : tnode) (d : trie) : bytes * trie :=
  let '(b, d') := ser_t (t_minval maxNodes t) t d in (uvarint_enc 1 ++ b, d').

(* ---- readers ---------------------------------------------------------------------------------- *)
Definition max_int64 : N := 9223372036854775807.

Definition read_bytes (n : N) (bs : bytes) : option (bytes * bytes) :=
  if n =? 0 then Some ([], bs)
  else if max_int64 <? n then None
  else if Nlen bs <? n then None
  else take_bytes (N.to_nat n) bs.

(* one node read into [parent]; [nm] resolves what was read as label (dictionary key or the name) *)
Fixpoint parse_tn (nm : bytes -> option bytes) (fuel : nat) (bs : bytes) (parent : tnode) : option (tnode * bytes) :=
  match fuel with
  | O => None
  | S f =>
      match uvarint_dec bs with None => None | Some (ll, r1) =>
      match read_bytes ll r1 with None => None | Some (key, r2) =>
      match nm key with None => None | Some name =>
      match uvarint_dec r2 with None => None | Some (self, r3) =>
      match uvarint_dec r3 with None => None | Some (cl, r4) =>
        if Nlen r4 <? cl then None else
        let old := match t_find name (t_ch parent) with Some e => t_ch e | None => [] end in
        match (fix kids (n : nat) (bs : bytes) (c : tnode) : option (tnode * bytes) :=
                 match n with
                 | O => Some (c, bs)
                 | S n' => match parse_tn nm f bs c with
                           | None => None
                           | Some (c', r) => kids n' r c'
                           end
                 end) (N.to_nat cl) r4 (TNode name self self old) with
        | None => None
        | Some (cf, r5) =>
            match parent with
            | TNode pn ps ptot pch =>
                Some (TNode pn ps (ptot + t_total cf) (t_upd name (fun _ => cf) pch), r5)
            end
        end
      end end end end end
  end.

Definition parse_root (nm : bytes -> option bytes) (bs : bytes) : option tnode :=
  match parse_tn nm (S (length bs)) bs t_empty with
  | Some (TNode _ _ _ (c :: _), _) => Some c
  | _ => None
  end.

Definition tc_deserialize_nodict (bs : bytes) : option tnode := parse_root (fun k => Some k) bs.

Definition tc_deserialize (d : trie) (bs : bytes) : option tnode :=
  match uvarint_dec bs with
  | None => None
  | Some (_, r) => parse_root (fun k => d_get k d) r
  end.

(* ---- what the decoded tree is (specification side) --------------------------------------------- *)
(* children of nodes whose total does not exceed the threshold are cut *)
Fixpoint t_prune (th : N) (t : tnode) : tnode :=
  match t with
  | TNode n s tot ch => TNode n s tot (if th <? tot then map (t_prune th) ch else [])
  end.
(* totals recomputed from self values *)
Fixpoint t_retotal (t : tnode) : tnode :=
  match t with
  | TNode n s _ ch => let ch' := map t_retotal ch in TNode n s (s + ch_total ch') ch'
  end.
(* frames whose total is zero removed *)
Fixpoint t_strip0 (t : tnode) : tnode :=
  match t with
  | TNode n s tot ch =>
      TNode n s tot
        ((fix go (ch : list tnode) : list tnode :=
            match ch with
            | [] => []
            | c :: r => if t_total c =? 0 then go r else t_strip0 c :: go r
            end) ch)
  end.

(* minval.go BEFORE the fix of D1 (kept for the regression example) *)
Definition t_minval_old (maxNodes : nat) (t : tnode) : N :=
  ca_min (fst (mv_visit t (ca_new maxNodes, O))).
