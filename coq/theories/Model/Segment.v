(* Segment.v — model of pkg/storage/segment/{segment,overlap,relationship,constants}.go.
   Definitions only (no proofs).

   Time is a Z counted in 10-second slots since year 1 (the origin of time.Truncate).  A bucket of
   level l starting at t is [t, t + 10^l).  Conversion to Unix seconds happens only at the boundary:
   unix = slot*10 - 62135596800.  durations[d] overflows int64 from depth 9 on, so the tree is
   meaningful only while the root level is <= 8; [s_grow] stops there (see [s_grow_ok]) and every
   theorem carries the "one epoch block" hypothesis.

   A node does not store its depth: the depth is the level the recursion is at (the root level is
   kept in the segment).  Children are the ten slots of the Go slice ([None] = nil); a level-0 node
   has the empty list (Go: nil slice).  The breadth-first work list of streeNode.put becomes
   recursion on the level (pre-order); in both orders a node is handled before its descendants. *)
From Pyro Require Export Model.Base Model.Float53.
Local Open Scope Z_scope.

Definition pow10 (l : nat) : Z := 10 ^ Z.of_nat l.

Definition unix_offset : Z := 62135596800.                 (* seconds between year 1 and 1970 *)
Definition slot_to_unix (t : Z) : Z := t * 10 - unix_offset.
Definition unix_to_slot (u : Z) : Z := (u + unix_offset) / 10.   (* floor *)

Inductive snode := SNode (time : Z) (present : bool) (samples writes : N) (ch : list (option snode)).

Definition sn_time (n : snode) := match n with SNode t _ _ _ _ => t end.
Definition sn_present (n : snode) := match n with SNode _ p _ _ _ => p end.
Definition sn_samples (n : snode) := match n with SNode _ _ s _ _ => s end.
Definition sn_writes (n : snode) := match n with SNode _ _ _ w _ => w end.
Definition sn_ch (n : snode) := match n with SNode _ _ _ _ c => c end.

Record meta := { m_spy : bytes; m_rate : N; m_units : bytes; m_agg : bytes }.
Definition meta0 : meta := {| m_spy := []; m_rate := 0%N; m_units := []; m_agg := [] |}.

Record segment := { s_root : option (nat * snode); s_meta : meta }.    (* nat = root level *)
Definition s_empty : segment := {| s_root := None; s_meta := meta0 |}.  (* segment.New() *)
Definition s_set_meta (m : meta) (s : segment) : segment := {| s_root := s_root s; s_meta := m |}.

(* ---------- relationship.go ---------- *)
Inductive rel := Inside | Match | Outside | Overlap | Contain.

Definition rel_eqb (x y : rel) : bool :=
  match x, y with
  | Inside, Inside | Match, Match | Outside, Outside | Overlap, Overlap | Contain, Contain => true
  | _, _ => false
  end.

(* t1,t2: the node; st,et: the read/write range *)
Definition relationship (t1 t2 st et : Z) : rel :=
  if (t1 =? st) && (t2 =? et) then Match
  else if (t1 <=? st) && (et <=? t2) then Inside
  else if (st <=? t1) && (t2 <=? et) then Contain
  else if (t1 <=? st) && (t2 <=? st) then Outside
  else if (et <=? t1) && (et <=? t2) then Outside
  else Overlap.

Definition is_outside (r : rel) := match r with Outside => true | _ => false end.
Definition creates (r : rel) := match r with Inside | Overlap => true | _ => false end.
Definition covers (r : rel) := match r with Match | Contain => true | _ => false end.

(* ---------- overlap.go: number of slots of [t1,t2) inside [st,et) ---------- *)
Definition ov (t1 t2 st et : Z) : Z := Z.max 0 (Z.min t2 et - Z.max t1 st).
(* overlapWrite = ov / (et - st);  overlapRead = ov / (t2 - t1)  (big.NewRat normalises; the model
   keeps numerator and denominator as computed, comparisons are by cross-multiplication) *)

(* ---------- callbacks ---------- *)
Record put_cb := { pc_lvl : nat; pc_t : Z; pc_m : Z; pc_d : Z; pc_addons : list (nat * Z) }.
Record get_cb := { gc_lvl : nat; gc_t : Z; gc_samples : N; gc_writes : N; gc_m : Z; gc_d : Z }.

(* ---------- nodes ---------- *)
Definition new_node (t : Z) (lvl : nat) : snode :=
  SNode t false 0%N 0%N (match lvl with O => [] | S _ => repeat None 10 end).

Definition count_some {A} (l : list (option A)) : nat :=
  length (filter (fun o => match o with Some _ => true | None => false end) l).

Definition somes {A} (l : list (option A)) : list A :=
  flat_map (fun o => match o with Some x => [x] | None => [] end) l.

(* list update at index i (None when out of range: Go panics with index out of range) *)
Fixpoint list_set {A} (i : nat) (x : A) (l : list A) {struct l} : option (list A) :=
  match l, i with
  | [], _ => None
  | _ :: l', O => Some (x :: l')
  | y :: l', S i' => match list_set i' x l' with Some r => Some (y :: r) | None => None end
  end.

(* streeNode.replace: i := child.time.Sub(sn.time) / durations[child.depth]  (Go division truncates) *)
Definition replace_idx (lvl_child : nat) (t_parent t_child : Z) : Z :=
  Z.quot (t_child - t_parent) (pow10 lvl_child).

Definition sn_replace (lvl_child : nat) (parent child : snode) : option snode :=
  match parent with
  | SNode t p s w ch =>
      let i := replace_idx lvl_child t (sn_time child) in
      if i <? 0 then None
      else match list_set (Z.to_nat i) (Some child) ch with
           | Some ch' => Some (SNode t p s w ch')
           | None => None
           end
  end.

(* findAddons: the maximal present nodes of the subtree *)
Fixpoint find_addons (lvl : nat) (n : snode) {struct lvl} : list (nat * Z) :=
  match n with
  | SNode t p _ _ ch =>
      if p then [(lvl, t)]
      else match lvl with
           | O => []
           | S l => flat_map (fun o => match o with Some c => find_addons l c | None => [] end) ch
           end
  end.

(* the "maybe create a new child" loop of put: slot i of a node whose (truncated) time is [base]
   gets a fresh child when its bucket is not outside the write; [wc] = width of a child *)
Fixpoint fill_children (lc : nat) (base a b : Z) (i : Z) (ch : list (option snode)) : list (option snode) :=
  match ch with
  | [] => []
  | o :: ch' =>
      (match o with
       | Some c => Some c
       | None =>
           let ct := base + i * pow10 lc in
           if is_outside (relationship ct (ct + pow10 lc) a b) then None else Some (new_node ct lc)
       end) :: fill_children lc base a b (i + 1) ch'
  end.

Definition trunc_to (lvl : nat) (t : Z) : Z := t / pow10 lvl * pow10 lvl.   (* time.Truncate *)

(* streeNode.put for one node and, recursively, its subtree.  [a,b) is the normalised write. *)
Fixpoint s_put_node (lvl : nat) (a b : Z) (smp : N) (n : snode) {struct lvl} : snode * list put_cb :=
  match n with
  | SNode t p s w ch =>
      let r := relationship t (t + pow10 lvl) a b in
      if is_outside r then (n, [])
      else
        let ch1 := match lvl with
                   | O => ch
                   | S l => if creates r then fill_children l (trunc_to lvl t) a b 0 ch else ch
                   end in
        let cnt := count_some ch1 in
        let m := ov t (t + pow10 lvl) a b in
        let d := b - a in
        let fire := covers r || (1 <? cnt)%nat || p in
        let addons := if fire && negb p then find_addons lvl (SNode t p s w ch1) else [] in
        let own := if fire
                   then [{| pc_lvl := lvl; pc_t := t; pc_m := m; pc_d := d; pc_addons := addons |}]
                   else [] in
        let s' := (s + samples_incr smp m d)%N in
        let w' := (w + 1)%N in
        match lvl with
        | O => (SNode t (p || fire) s' w' ch1, own)
        | S l =>
            let rs := map (fun o => match o with
                                    | Some c => let '(c', cbs) := s_put_node l a b smp c in (Some c', cbs)
                                    | None => (None, [])
                                    end) ch1 in
            (SNode t (p || fire) s' w' (map fst rs), own ++ concat (map snd rs))
        end
  end.

(* streeNode.get *)
Fixpoint s_get_node (lvl : nat) (a b : Z) (n : snode) {struct lvl} : list get_cb :=
  match n with
  | SNode t p s w ch =>
      let r := relationship t (t + pow10 lvl) a b in
      if p && covers r
      then [{| gc_lvl := lvl; gc_t := t; gc_samples := s; gc_writes := w; gc_m := 1; gc_d := 1 |}]
      else if is_outside r then []
      else if p && (length ch =? 0)%nat
      then [{| gc_lvl := lvl; gc_t := t; gc_samples := s; gc_writes := w;
               gc_m := ov t (t + pow10 lvl) a b; gc_d := pow10 lvl |}]
      else match lvl with
           | O => []
           | S l => flat_map (fun o => match o with Some c => s_get_node l a b c | None => [] end) ch
           end
  end.

(* streeNode.deleteDataBefore: (new node, callbacks in visiting order, "delete me") *)
Fixpoint s_del_node (lvl : nat) (thr : Z) (n : snode) {struct lvl} : snode * list (nat * Z) * bool :=
  match n with
  | SNode t p s w ch =>
      if thr <? t then (n, [], false)                       (* isAfter *)
      else
        let isb := t + pow10 lvl <=? thr in                 (* isBefore *)
        let own := if isb then [(lvl, t)] else [] in
        match lvl with
        | O => (n, own, isb)
        | S l =>
            let rs := map (fun o => match o with
                                    | Some c => let '(c', cbs, del) := s_del_node l thr c in
                                                ((if del then None else Some c'), cbs)
                                    | None => (None, [])
                                    end) ch in
            (SNode t p s w (map fst rs), own ++ concat (map snd rs), isb)
        end
  end.

(* ---------- Segment ---------- *)

(* normalize, on whole seconds counted from year 1; the result is in slots *)
Definition s_normalize (se : Z * Z) : Z * Z :=
  let '(st, et) := se in
  let st' := st / 10 in
  let et2 := et / 10 in
  if (et2 * 10 =? et) && negb (st' =? et2) then (st', et2) else (st', et2 + 1).
Definition s_normalize_unix (se : Z * Z) : Z * Z :=
  s_normalize (fst se + unix_offset, snd se + unix_offset).
Definition s_normalize_time (t : Z) : Z := t / 10.           (* normalizeTime: seconds -> slot *)

Definition max_level : nat := 8.

(* the loop of growTree; fuel = levels still available below the int64 overflow of durations *)
Fixpoint s_grow_loop (fuel : nat) (a b : Z) (lvl : nat) (n : snode) {struct fuel} : nat * snode :=
  match relationship (sn_time n) (sn_time n + pow10 lvl) a b with
  | Inside | Match => (lvl, n)
  | _ =>
      match fuel with
      | O => (lvl, n)            (* outside the supported epoch block: see s_grow_ok *)
      | S f =>
          let nl := S lvl in
          let root0 := SNode (trunc_to nl (sn_time n)) false (sn_samples n) (sn_writes n) (repeat None 10) in
          match sn_replace lvl root0 n with
          | Some root1 => s_grow_loop f a b nl root1
          | None => (lvl, n)
          end
      end
  end.

(* growTree(st, et) on slots *)
Definition s_grow (a b : Z) (s : segment) : segment :=
  match s_root s with
  | Some (lvl, n) =>
      let a' := Z.min a (sn_time n) in
      let b' := Z.max b (sn_time n + pow10 lvl) in
      {| s_root := Some (s_grow_loop (max_level - lvl) a' b' lvl n); s_meta := s_meta s |}
  | None =>
      {| s_root := Some (s_grow_loop max_level a b O (new_node a O)); s_meta := s_meta s |}
  end.

(* did growTree reach a root that holds [a,b) ?  (false only outside one 10^8-slot block) *)
Definition s_holds (a b : Z) (s : segment) : bool :=
  match s_root s with
  | Some (lvl, n) => (sn_time n <=? a) && (b <=? sn_time n + pow10 lvl)
  | None => false
  end.
Definition s_grow_ok (a b : Z) (s : segment) : bool := s_holds a b (s_grow a b s).

(* Segment.Put on an already normalised range (slots); returns the new segment and the callbacks *)
Definition s_put (a b : Z) (smp : N) (s : segment) : segment * list put_cb :=
  let s1 := s_grow a b s in
  match s_root s1 with
  | Some (lvl, n) =>
      let '(n', cbs) := s_put_node lvl a b smp n in
      ({| s_root := Some (lvl, n'); s_meta := s_meta s1 |}, cbs)
  | None => (s1, [])
  end.

(* Segment.Get on an already normalised range *)
Definition s_get (a b : Z) (s : segment) : list get_cb :=
  match s_root s with
  | Some (lvl, n) => s_get_node lvl a b n
  | None => []
  end.

(* the same two on whole Unix seconds, as the exported Go API takes them *)
Definition s_put_unix (st et : Z) (smp : N) (s : segment) : segment * list put_cb :=
  let '(a, b) := s_normalize_unix (st, et) in s_put a b smp s.
Definition s_get_unix (st et : Z) (s : segment) : list get_cb :=
  let '(a, b) := s_normalize_unix (st, et) in s_get a b s.

(* Segment.DeleteDataBefore with the threshold already normalised to a slot *)
Definition s_delete_before (thr : Z) (s : segment) : segment * list (nat * Z) * bool :=
  match s_root s with
  | None => (s, [], true)
  | Some (lvl, n) =>
      let '(n', cbs, del) := s_del_node lvl thr n in
      if del then ({| s_root := None; s_meta := s_meta s |}, cbs, true)
      else ({| s_root := Some (lvl, n'); s_meta := s_meta s |}, cbs, false)
  end.
Definition s_delete_before_unix (thr : Z) (s : segment) := s_delete_before (unix_to_slot thr) s.

(* Segment.StartTime: time of the leftmost leaf-most node (None = zero time) *)
Fixpoint s_start_node (lvl : nat) (n : snode) {struct lvl} : Z :=
  match lvl with
  | O => sn_time n
  | S l => match somes (sn_ch n) with
           | c :: _ => s_start_node l c
           | [] => sn_time n
           end
  end.
Definition s_start_time (s : segment) : option Z :=
  match s_root s with Some (lvl, n) => Some (s_start_node lvl n) | None => None end.

(* ---------- boolean well-formedness ---------- *)

(* I_align: the node sits on the grid of its level, has ten slots (none at level 0), and the child in
   slot i is the bucket (lvl-1, t + i*10^(lvl-1)), recursively *)
Fixpoint slots_ok (chk : Z -> snode -> bool) (w t : Z) (ch : list (option snode)) : bool :=
  match ch with
  | [] => true
  | o :: ch' => (match o with Some c => chk t c | None => true end) && slots_ok chk w (t + w) ch'
  end.

Fixpoint sn_wfb (lvl : nat) (t0 : Z) (n : snode) {struct lvl} : bool :=
  match n with
  | SNode t _ _ _ ch =>
      (t =? t0) && (t mod pow10 lvl =? 0) &&
      match lvl with
      | O => match ch with [] => true | _ => false end
      | S l => (length ch =? 10)%nat && slots_ok (sn_wfb l) (pow10 l) t ch
      end
  end.

(* I_two: a node with at least two children is present, recursively *)
Fixpoint sn_twob (lvl : nat) (n : snode) {struct lvl} : bool :=
  match n with
  | SNode _ p _ _ ch =>
      ((count_some ch <? 2)%nat || p) &&
      match lvl with
      | O => true
      | S l => forallb (fun o => match o with Some c => sn_twob l c | None => true end) ch
      end
  end.

(* all times of the tree lie in the block [blk*10^8, (blk+1)*10^8) slots — "one epoch block" *)
Definition in_block (blk a b : Z) : bool := (blk * pow10 8 <=? a) && (b <=? (blk + 1) * pow10 8).

Definition s_wfb (s : segment) : bool :=
  match s_root s with
  | None => true
  | Some (lvl, n) => (lvl <=? max_level)%nat && sn_wfb lvl (sn_time n) n
  end.
Definition s_twob (s : segment) : bool :=
  match s_root s with None => true | Some (lvl, n) => sn_twob lvl n end.

(* ---------- the exact bucket store driven by the put callbacks (C03/C01) ----------
   store[k] += m * beta + sum over addons of store[a], where beta is the per-slot amount of the write
   being applied (profile = span * beta, so that profile * m/d = m * beta is integer arithmetic). *)
Definition skey := (nat * Z)%type.
Definition skey_eqb (x y : skey) : bool := Nat.eqb (fst x) (fst y) && (snd x =? snd y).
Definition store := skey -> Z.
Definition store0 : store := fun _ => 0.
Definition st_add (k : skey) (v : Z) (E : store) : store :=
  fun k' => if skey_eqb k k' then E k' + v else E k'.
Definition sumZ (l : list Z) : Z := fold_right Z.add 0 l.
Definition apply_cb (beta : Z) (E : store) (c : put_cb) : store :=
  st_add (pc_lvl c, pc_t c) (pc_m c * beta + sumZ (map E (pc_addons c))) E.
Definition apply_cbs (beta : Z) (E : store) (cbs : list put_cb) : store :=
  fold_left (apply_cb beta) cbs E.
(* what a reader assembles from the buckets get names (ratio m/d applied; 1/1 for aligned ranges) *)
Definition read_sum (E : store) (g : list get_cb) : Z :=
  sumZ (map (fun c => E (gc_lvl c, gc_t c) * gc_m c / gc_d c) g).

(* a history of writes (a, b, samples, beta) applied to a segment together with its store *)
Record write := { w_a : Z; w_b : Z; w_smp : N; w_beta : Z }.
Definition put_step (sE : segment * store) (w : write) : segment * store :=
  let '(s', cbs) := s_put (w_a w) (w_b w) (w_smp w) (fst sE) in
  (s', apply_cbs (w_beta w) (snd sE) cbs).
Definition run_writes (ws : list write) : segment * store := fold_left put_step ws (s_empty, store0).
