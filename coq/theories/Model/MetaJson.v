(* MetaJson.v — model of the metadata block of a serialised segment:
     serialization.WriteMetadata  = uvarint(len) ++ json.Marshal(map[string]interface{}{...})
     serialization.ReadMetadata + Segment.populateFromMetadata.
   json.Marshal of the map {aggregationType, sampleRate, spyName, units}: keys sorted, sampleRate a decimal
   number (uint32), strings through encoding/json's appendString with escapeHTML = true (go1.23):
     "  \  -> \" \\ ;  \b \f \n \r \t -> short forms ;  other bytes < 0x20 and < > &  -> \u00XX (lower-case hex);
     U+2028 / U+2029 ->   /   ;  every byte at which utf8.DecodeRune fails -> � ;
     everything else copied (0x7f included).
   The reader is a JSON object parser for what populateFromMetadata needs: string values (unquoteBytes:
   escapes, \uXXXX with surrogate pairs, malformed UTF-8 coerced to U+FFFD, raw control characters
   rejected), non-negative integer numbers (float64 -> uint32 is exact below 2^32; larger values are
   outside the model), unknown keys ignored, insignificant whitespace.  Other JSON values (true, false,
   null, arrays, objects, fractions, exponents, negative numbers) and a wrong value type for a known
   key (Go: panic in the type assertion) make the model return None.  Definitions only. *)
From Pyro Require Export Model.Base Model.Varint Model.Segment.
Local Open Scope N_scope.

(* ---------- UTF-8 as utf8.DecodeRune sees it ---------- *)
Definition u8cont (b : N) : bool := (128 <=? b) && (b <=? 191).
Definition u8bad : bytes := [239; 191; 189].                     (* U+FFFD *)

(* the rune starting at a byte >= 0x80: Some (its bytes, rest), or None for (RuneError, 1) *)
Definition u8dec (bs : bytes) : option (bytes * bytes) :=
  match bs with
  | [] => None
  | b :: r =>
      if (194 <=? b) && (b <=? 223) then
        match r with
        | c1 :: r1 => if u8cont c1 then Some ([b; c1], r1) else None
        | _ => None
        end
      else if (224 <=? b) && (b <=? 239) then
        match r with
        | c1 :: c2 :: r2 =>
            let lo := if b =? 224 then 160 else 128 in
            let hi := if b =? 237 then 159 else 191 in
            if (lo <=? c1) && (c1 <=? hi) && u8cont c2 then Some ([b; c1; c2], r2) else None
        | _ => None
        end
      else if (240 <=? b) && (b <=? 244) then
        match r with
        | c1 :: c2 :: c3 :: r3 =>
            let lo := if b =? 240 then 144 else 128 in
            let hi := if b =? 244 then 143 else 191 in
            if (lo <=? c1) && (c1 <=? hi) && u8cont c2 && u8cont c3 then Some ([b; c1; c2; c3], r3) else None
        | _ => None
        end
      else None
  end.

(* what a string becomes on the way through json.Marshal / Unmarshal: malformed bytes -> U+FFFD *)
Fixpoint utf8_fix (fuel : nat) (bs : bytes) {struct fuel} : bytes :=
  match fuel with
  | O => []
  | S f =>
      match bs with
      | [] => []
      | b :: r =>
          if b <? 128 then b :: utf8_fix f r
          else match u8dec bs with
               | Some (rb, r') => rb ++ utf8_fix f r'
               | None => u8bad ++ utf8_fix f r
               end
      end
  end.
Definition json_string_roundtrip (bs : bytes) : bytes := utf8_fix (S (length bs)) bs.
Definition utf8_validb (bs : bytes) : bool := list_eqb N.eqb (json_string_roundtrip bs) bs.

(* ---------- writer ---------- *)
Definition hexd (n : N) : N := if n <? 10 then 48 + n else 87 + n.          (* "0123456789abcdef" *)

Definition esc_ascii (b : N) : bytes :=
  if (b =? 34) || (b =? 92) then [92; b]
  else if b =? 8 then [92; 98]
  else if b =? 12 then [92; 102]
  else if b =? 10 then [92; 110]
  else if b =? 13 then [92; 114]
  else if b =? 9 then [92; 116]
  else if (b <? 32) || (b =? 60) || (b =? 62) || (b =? 38) then [92; 117; 48; 48; hexd (b / 16); hexd (b mod 16)]
  else [b].

Definition ls_rune : bytes := [226; 128; 168].        (* U+2028 *)
Definition ps_rune : bytes := [226; 128; 169].        (* U+2029 *)
Definition esc_rune (rb : bytes) : bytes :=
  if list_eqb N.eqb rb ls_rune then [92; 117; 50; 48; 50; 56]
  else if list_eqb N.eqb rb ps_rune then [92; 117; 50; 48; 50; 57]
  else rb.

Definition esc_bad : bytes := [92; 117; 102; 102; 102; 100].     (* � *)

Fixpoint jq_body (fuel : nat) (bs : bytes) {struct fuel} : bytes :=
  match fuel with
  | O => []
  | S f =>
      match bs with
      | [] => []
      | b :: r =>
          if b <? 128 then esc_ascii b ++ jq_body f r
          else match u8dec bs with
               | Some (rb, r') => esc_rune rb ++ jq_body f r'
               | None => esc_bad ++ jq_body f r
               end
      end
  end.

(* a quoted string followed by [k] *)
Definition wq (s : bytes) (k : bytes) : bytes := 34 :: jq_body (S (length s)) s ++ 34 :: k.

Fixpoint to_dec_f (fuel : nat) (n : N) {struct fuel} : bytes :=
  match fuel with
  | O => [48 + n mod 10]
  | S f => if n <? 10 then [48 + n] else to_dec_f f (n / 10) ++ [48 + n mod 10]
  end.
Definition to_dec (n : N) : bytes := to_dec_f (N.to_nat (N.log2 n)) n.

Definition key_agg : bytes := [97; 103; 103; 114; 101; 103; 97; 116; 105; 111; 110; 84; 121; 112; 101].   (* aggregationType *)
Definition key_rate : bytes := [115; 97; 109; 112; 108; 101; 82; 97; 116; 101].                            (* sampleRate *)
Definition key_spy : bytes := [115; 112; 121; 78; 97; 109; 101].                                           (* spyName *)
Definition key_units : bytes := [117; 110; 105; 116; 115].                                                 (* units *)

(* json.Marshal(generateMetadata()) *)
Definition write_meta (m : meta) : bytes :=
  123 :: wq key_agg (58 :: wq (m_agg m)
    (44 :: wq key_rate (58 :: to_dec (m_rate m) ++
      44 :: wq key_spy (58 :: wq (m_spy m)
        (44 :: wq key_units (58 :: wq (m_units m) [125])))))).

(* ---------- reader ---------- *)
Definition unhex (c : N) : option N :=
  if (48 <=? c) && (c <=? 57) then Some (c - 48)
  else if (97 <=? c) && (c <=? 102) then Some (c - 87)
  else if (65 <=? c) && (c <=? 70) then Some (c - 55)
  else None.
Definition hex4 (a b c d : N) : option N :=
  match unhex a, unhex b, unhex c, unhex d with
  | Some x, Some y, Some z, Some w => Some (((x * 16 + y) * 16 + z) * 16 + w)
  | _, _, _, _ => None
  end.

(* utf8.EncodeRune *)
Definition utf8_enc (r : N) : bytes :=
  if r <? 128 then [r]
  else if r <? 2048 then [192 + r / 64; 128 + r mod 64]
  else if (55296 <=? r) && (r <=? 57343) then u8bad
  else if r <? 65536 then [224 + r / 4096; 128 + (r / 64) mod 64; 128 + r mod 64]
  else if r <? 1114112 then [240 + r / 262144; 128 + (r / 4096) mod 64; 128 + (r / 64) mod 64; 128 + r mod 64]
  else u8bad.

Definition ocons (pre : bytes) (o : option (bytes * bytes)) : option (bytes * bytes) :=
  match o with Some (x, rest) => Some (pre ++ x, rest) | None => None end.

(* unquoteBytes, reading up to and including the closing quote; returns (string, rest) *)
Fixpoint uq (fuel : nat) (bs : bytes) {struct fuel} : option (bytes * bytes) :=
  match fuel with
  | O => None
  | S f =>
      match bs with
      | [] => None
      | b :: r =>
          if b =? 34 then Some ([], r)
          else if b =? 92 then
            match r with
            | [] => None
            | e :: r1 =>
                if (e =? 34) || (e =? 92) || (e =? 47) then ocons [e] (uq f r1)
                else if e =? 98 then ocons [8] (uq f r1)
                else if e =? 102 then ocons [12] (uq f r1)
                else if e =? 110 then ocons [10] (uq f r1)
                else if e =? 114 then ocons [13] (uq f r1)
                else if e =? 116 then ocons [9] (uq f r1)
                else if e =? 117 then
                  match r1 with
                  | h1 :: h2 :: h3 :: h4 :: r2 =>
                      match hex4 h1 h2 h3 h4 with
                      | None => None
                      | Some rr =>
                          if (55296 <=? rr) && (rr <=? 57343) then
                            match r2 with
                            | 92 :: 117 :: g1 :: g2 :: g3 :: g4 :: r3 =>
                                match hex4 g1 g2 g3 g4 with
                                | Some rr1 =>
                                    if (rr <? 56320) && (56320 <=? rr1) && (rr1 <=? 57343)
                                    then ocons (utf8_enc (65536 + (rr - 55296) * 1024 + (rr1 - 56320))) (uq f r3)
                                    else ocons u8bad (uq f r2)
                                | None => ocons u8bad (uq f r2)
                                end
                            | _ => ocons u8bad (uq f r2)
                            end
                          else ocons (utf8_enc rr) (uq f r2)
                      end
                  | _ => None
                  end
                else None
            end
          else if b <? 32 then None
          else if b <? 128 then ocons [b] (uq f r)
          else match u8dec bs with
               | Some (rb, r') => ocons rb (uq f r')
               | None => ocons u8bad (uq f r)
               end
      end
  end.

Definition is_ws (b : N) : bool := (b =? 32) || (b =? 9) || (b =? 10) || (b =? 13).
Fixpoint skip_ws (bs : bytes) : bytes :=
  match bs with
  | b :: r => if is_ws b then skip_ws r else bs
  | [] => []
  end.

Definition is_digit (b : N) : bool := (48 <=? b) && (b <=? 57).
Fixpoint parse_digits (acc : N) (bs : bytes) : N * bytes :=
  match bs with
  | b :: r => if is_digit b then parse_digits (acc * 10 + (b - 48)) r else (acc, bs)
  | [] => (acc, [])
  end.

Inductive jval := JStr (s : bytes) | JNum (n : N).

Definition read_value (bs : bytes) : option (jval * bytes) :=
  match bs with
  | [] => None
  | b :: r =>
      if b =? 34 then match uq (length r) r with Some (s, r') => Some (JStr s, r') | None => None end
      else if is_digit b then let '(n, r') := parse_digits 0 bs in Some (JNum n, r')
      else None
  end.

(* populateFromMetadata for one key (type assertions: a wrong type panics in Go -> None) *)
Definition set_field (key : bytes) (v : jval) (m : meta) : option meta :=
  if list_eqb N.eqb key key_rate then
    match v with
    | JNum n => if n <? 2 ^ 32 then Some {| m_spy := m_spy m; m_rate := n; m_units := m_units m; m_agg := m_agg m |} else None
    | JStr _ => None
    end
  else if list_eqb N.eqb key key_spy then
    match v with JStr s => Some {| m_spy := s; m_rate := m_rate m; m_units := m_units m; m_agg := m_agg m |} | JNum _ => None end
  else if list_eqb N.eqb key key_units then
    match v with JStr s => Some {| m_spy := m_spy m; m_rate := m_rate m; m_units := s; m_agg := m_agg m |} | JNum _ => None end
  else if list_eqb N.eqb key key_agg then
    match v with JStr s => Some {| m_spy := m_spy m; m_rate := m_rate m; m_units := m_units m; m_agg := s |} | JNum _ => None end
  else Some m.

(* members of the object, after '{' or ',' *)
Fixpoint read_members (fuel : nat) (m : meta) (bs : bytes) {struct fuel} : option meta :=
  match fuel with
  | O => None
  | S f =>
      match skip_ws bs with
      | 34 :: r =>
          match uq (length r) r with
          | None => None
          | Some (key, r1) =>
              match skip_ws r1 with
              | 58 :: r2 =>
                  match read_value (skip_ws r2) with
                  | None => None
                  | Some (v, r3) =>
                      match set_field key v m with
                      | None => None
                      | Some m' =>
                          match skip_ws r3 with
                          | 44 :: r4 => read_members f m' r4
                          | 125 :: r4 => match skip_ws r4 with [] => Some m' | _ => None end
                          | _ => None
                          end
                      end
                  end
              | _ => None
              end
          end
      | _ => None
      end
  end.

(* json.Unmarshal into a map + populateFromMetadata on a fresh segment *)
Definition read_meta (bs : bytes) : option meta :=
  match skip_ws bs with
  | 123 :: r =>
      match skip_ws r with
      | 125 :: r' => match skip_ws r' with [] => Some meta0 | _ => None end
      | _ => read_members (length r) meta0 r
      end
  | _ => None
  end.

Definition fix_meta (m : meta) : meta :=
  {| m_spy := json_string_roundtrip (m_spy m); m_rate := m_rate m;
     m_units := json_string_roundtrip (m_units m); m_agg := json_string_roundtrip (m_agg m) |}.
Definition meta_validb (m : meta) : bool :=
  utf8_validb (m_spy m) && utf8_validb (m_units m) && utf8_validb (m_agg m) && (m_rate m <? 2 ^ 32).
