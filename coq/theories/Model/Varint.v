(* Varint.v — encoding/binary PutUvarint / ReadUvarint (pkg/util/varint). Definitions only. *)
From Pyro Require Export Model.Base.

(* PutUvarint: 7-bit groups, least significant first, continuation bit 0x80 *)
Fixpoint uvarint_enc_fuel (fuel : nat) (n : N) : bytes :=
  match fuel with
  | O => [n mod 128]
  | S f => if n <? 128 then [n] else (n mod 128 + 128) :: uvarint_enc_fuel f (n / 128)
  end.
Definition uvarint_enc (n : N) : bytes := uvarint_enc_fuel (N.to_nat (N.log2 n)) n.

(* ReadUvarint: at most 10 bytes, the 10th must be 0 or 1; error (None) on truncation/overflow.
   [i] is the index of the byte being read, [w] the weight 2^(7*i), [acc] the value so far. *)
Fixpoint uvarint_dec_aux (fuel : nat) (i : nat) (w acc : N) (bs : bytes) : option (N * bytes) :=
  match fuel with
  | O => None
  | S f =>
      match bs with
      | [] => None
      | b :: bs' =>
          if b <? 128
          then (if Nat.eqb i 9 && (1 <? b) then None else Some (acc + b * w, bs'))
          else uvarint_dec_aux f (S i) (w * 128) (acc + (b - 128) * w) bs'
      end
  end.
Definition uvarint_dec (bs : bytes) : option (N * bytes) := uvarint_dec_aux 10 0 1 0 bs.

(* reading exactly n bytes (io.ReadAtLeast(br, buf, n) into a buffer of length n) *)
Fixpoint take_bytes (n : nat) (bs : bytes) : option (bytes * bytes) :=
  match n with
  | O => Some ([], bs)
  | S n' => match bs with
            | [] => None
            | b :: bs' => match take_bytes n' bs' with
                          | Some (x, r) => Some (b :: x, r)
                          | None => None
                          end
            end
  end.

Definition Nlen {A} (l : list A) : N := N.of_nat (length l).
Definition is_byte (b : N) : bool := b <? 256.
Definition bytes_ok (bs : bytes) : bool := forallb is_byte bs.
