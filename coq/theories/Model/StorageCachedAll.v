(* StorageCachedAll.v — ONE cached twin of Model/Storage.v for all the object stores the storage-level twins cover:
   the index of live series (exact), the SEGMENTS behind a Model/Cache.v store (as in Model/StorageCached2.v) and the
   trees behind an ARBITRARY trees store S given by its operations (read / put / delete / drop-on-series-delete /
   maintenance), written once; definitions only.  Instantiated below with tree-b's store of Model/StorageCachedDict.v
   (real tree bytes on disk + the dictionaries behind their own Model/Cache.v store), this is the twin in which
   trees, dictionaries and segments are all cached and all three are evicted / flushed in one history.
   The storage code over the trees store is tree-b's (g_put_cb, g_reads, g_del_cbs of Model/StorageCachedDict.v). *)
From Pyro Require Export Model.StorageCached2 Model.StorageCachedDict.
Local Open Scope Z_scope.

Section All.
Context {S M : Type}.
Context (ts_read : tkey -> S -> S * tnode) (ts_put : tkey -> tnode -> S -> S) (ts_del : tkey -> S -> S)
        (ts_drop : bytes -> S -> S) (ts_maint : M -> S -> S).

Record a_state := { a_index : list sid; a_segs : scache; a_store : S }.

Definition a_put_go (pi : put_input) (a : a_state) : a_state * bool :=
  let k := pi_sid pi in
  let (sc1, seg) := StorageCached2.s_read (sid_key k) (a_segs a) in
  let '(seg', cbs) := s_put_unix (pi_from pi) (pi_until pi) (t_total (pi_tree pi)) (s_set_meta (pi_meta pi) seg) in
  ({| a_index := idx_store k (a_index a);
      a_segs := StorageCached2.s_put (sid_key k) seg' sc1;
      a_store := fold_left (g_put_cb ts_read ts_put (sid_key k) (pi_tree pi)) cbs (a_store a) |}, true).

Definition a_put (retention_thr : option Z) (pi : put_input) (a : a_state) : a_state * bool :=
  match retention_thr with
  | Some thr => if pi_from pi <? thr then (a, false) else a_put_go pi a
  | None => a_put_go pi a
  end.

Definition a_get (sel : sid) (from until : Z) (a : a_state) : a_state * option get_output :=
  let '(x, y) := s_normalize_unix (from, until) in
  let ids := filter (sel_matches sel) (a_index a) in
  let (sc', ss) := StorageCached2.s_reads (map sid_key ids) (a_segs a) in
  let matching := combine ids ss in
  let items := get_items x y matching in
  let (s', vals) := StorageCachedDict.g_reads ts_read (map item_key items) (a_store a) in
  ({| a_index := a_index a; a_segs := sc'; a_store := s' |},
   get_finish x y matching (map (fun iv => item_part (fst iv) (snd iv)) (combine items vals))).

Definition a_delete_one (a : a_state) (k : sid) : a_state :=
  let (sc1, seg) := StorageCached2.s_read (sid_key k) (a_segs a) in
  let '(_, cbs, _) := s_delete_before_unix max_time_unix seg in
  {| a_index := idx_remove k (a_index a);
     a_segs := StorageCached2.s_del (sid_key k) sc1;
     a_store := ts_drop (sid_key k) (g_del_cbs ts_del (sid_key k) cbs (a_store a)) |}.

Definition a_delete (sel : sid) (a : a_state) : a_state :=
  fold_left a_delete_one (filter (sel_matches sel) (a_index a)) a.

Definition a_retention_one (thr : Z) (a : a_state) (k : sid) : a_state :=
  let (sc1, seg) := StorageCached2.s_read (sid_key k) (a_segs a) in
  let '(seg', cbs, root_deleted) := s_delete_before_unix thr seg in
  let store' := g_del_cbs ts_del (sid_key k) cbs (a_store a) in
  if root_deleted
  then {| a_index := idx_remove k (a_index a); a_segs := StorageCached2.s_del (sid_key k) sc1; a_store := ts_drop (sid_key k) store' |}
  else {| a_index := a_index a; a_segs := StorageCached2.s_poke (sid_key k) (fun _ => seg') sc1; a_store := store' |}.

Definition a_retention (thr : Z) (a : a_state) : a_state :=
  fold_left (a_retention_one thr) (a_index a) a.

Definition a_step (retention_thr : option Z) (a : a_state) (o : st_op) : a_state * st_out :=
  match o with
  | OpPut pi => let '(a', ok) := a_put retention_thr pi a in (a', OutPut ok)
  | OpGet sel f u => let '(a', r) := a_get sel f u a in (a', OutGet r)
  | OpDelete sel => (a_delete sel a, OutUnit)
  | OpRetention thr => (a_retention thr a, OutUnit)
  end.

Inductive amaint :=
| AMStore (m : M)                                   (* maintenance of the trees store (and whatever is behind it) *)
| AMSegEvict (num den : nat) (order : list bytes)   (* segments.Evict + completion of its saves *)
| AMSegFlushReopen.

Definition a_maint (m : amaint) (a : a_state) : a_state :=
  match m with
  | AMStore ms => {| a_index := a_index a; a_segs := a_segs a; a_store := ts_maint ms (a_store a) |}
  | AMSegEvict n d order =>
      {| a_index := a_index a;
         a_segs := g_maint StorageCached2.bytes_dec sc_dflt sc_enc sc_dec (Cache.CEvict n d order) (a_segs a);
         a_store := a_store a |}
  | AMSegFlushReopen =>
      {| a_index := a_index a;
         a_segs := g_maint StorageCached2.bytes_dec sc_dflt sc_enc sc_dec Cache.CFlushReopen (a_segs a);
         a_store := a_store a |}
  end.

Inductive ahop := AO (o : st_op) | AM (m : amaint).

Fixpoint a_run (rt : option Z) (h : list ahop) (a : a_state) : a_state * list st_out :=
  match h with
  | [] => (a, [])
  | AO o :: r =>
      let '(a1, out) := a_step rt a o in
      let '(a2, outs) := a_run rt r a1 in
      (a2, out :: outs)
  | AM m :: r => a_run rt r (a_maint m a)
  end.

(* the reference: tree-b's storage over the same trees store with the segments in the plain table *)
Inductive ghop := GO (o : st_op) | GM (m : M).

Definition gr_maint (m : M) (g : gst (S:=S)) : gst (S:=S) := {| g_segs := g_segs g; g_store := ts_maint m (g_store g) |}.

Fixpoint gr_run (rt : option Z) (h : list ghop) (g : gst (S:=S)) : gst (S:=S) * list st_out :=
  match h with
  | [] => (g, [])
  | GO o :: r =>
      let '(g1, out) := gst_step ts_read ts_put ts_del ts_drop rt g o in
      let '(g2, outs) := gr_run rt r g1 in
      (g2, out :: outs)
  | GM m :: r => gr_run rt r (gr_maint m g)
  end.

Definition agmap (h : list ahop) : list ghop :=
  flat_map (fun x => match x with AO o => [GO o] | AM (AMStore m) => [GM m] | AM _ => [] end) h.

End All.

(* ---- the instance: tree-b's store (tree bytes + dictionaries cache) ---- *)
Definition all_state := a_state (S:=bstore).
Definition all_init : all_state := {| a_index := []; a_segs := Cache.c_empty; a_store := b_empty |}.
Definition b_maint (cap : nat) (m : dmaint) (s : bstore) : bstore :=
  g_store (dst_maint cap m {| g_segs := []; g_store := s |}).
Definition all_run (cap : nat) : option Z -> list (ahop (M:=dmaint)) -> all_state -> all_state * list st_out :=
  a_run b_read b_put b_del b_drop (b_maint cap).

(* the same history for tree-b's twin (segments plain): maintenance of the segments store disappears *)
Definition admap (h : list (ahop (M:=dmaint))) : list dhop :=
  flat_map (fun x => match x with AO o => [DO o] | AM (AMStore m) => [DM m] | AM _ => [] end) h.
