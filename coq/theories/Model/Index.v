(* Index.v — the index part of pkg/storage/storage.go: how Put / Get / Delete maintain labels, dimensions
   and segments (code as it is now: fixes D2, D3, D5 applied).  Model stratum: definitions only.

   Series names are label maps (Model/Key.v).  Dimension and segment keys are the canonical texts
   (Key.normalized); in Go they are the UTF-8 bytes of these texts and dimensions order them with
   bytes.Compare, which agrees with the code point order used here (see Model/Key.v).
   Go ranges over the labels map in random order; the model uses the sorted order: every effect below is
   a set operation per tag pair, and the result of Intersection does not depend on the order of its
   arguments (intersection_spec).
   A segment with its trees is abstracted to the multiset of (stack, count) uploaded to it. *)
From Pyro Require Export Model.Base Model.Key Model.Dimension Model.Labels.

Definition dim_name (k v : runes) : bytes := k ++ c_colon :: v.     (* k + ":" + v *)

(* caches with a default constructor: a missing dimension reads as empty *)
Definition dims_t := list (bytes * dim).
Fixpoint dm_get (n : bytes) (m : dims_t) : dim :=
  match m with
  | [] => []
  | (n', d) :: m' => if beqb n n' then d else dm_get n m'
  end.
Fixpoint dm_set (n : bytes) (d : dim) (m : dims_t) : dims_t :=
  match m with
  | [] => [(n, d)]
  | (n', d') :: m' => if beqb n n' then (n, d) :: m' else (n', d') :: dm_set n d m'
  end.

(* stack -> count, sorted by stack *)
Definition profile := list (bytes * N).
Fixpoint pr_add (s : bytes) (c : N) (p : profile) : profile :=
  match p with
  | [] => [(s, c)]
  | (s', c') :: p' =>
      match bcmp s s' with
      | Lt => (s, c) :: p
      | Eq => (s', c' + c) :: p'
      | Gt => (s', c') :: pr_add s c p'
      end
  end.
Definition pr_merge (a b : profile) : profile := fold_left (fun p sc => pr_add (fst sc) (snd sc) p) b a.

Definition segs_t := list (bytes * profile).
Fixpoint seg_get (k : bytes) (m : segs_t) : profile :=
  match m with
  | [] => []
  | (k', p) :: m' => if beqb k k' then p else seg_get k m'
  end.
Fixpoint seg_set (k : bytes) (p : profile) (m : segs_t) : segs_t :=
  match m with
  | [] => [(k, p)]
  | (k', p') :: m' => if beqb k k' then (k, p) :: m' else (k', p') :: seg_set k p m'
  end.
Fixpoint seg_del (k : bytes) (m : segs_t) : segs_t :=
  match m with
  | [] => []
  | (k', p') :: m' => if beqb k k' then seg_del k m' else (k', p') :: seg_del k m'
  end.
Definition seg_mem (k : bytes) (m : segs_t) : bool := existsb (fun kp => beqb k (fst kp)) m.

Record index := { ix_labels : lstore; ix_dims : dims_t; ix_segs : segs_t }.
Definition ix_empty : index := {| ix_labels := []; ix_dims := []; ix_segs := [] |}.

(* apply f to the dimension of every tag pair of K (incl. __name__) *)
Definition upd_dims (f : dim -> dim) (K : labels) (m : dims_t) : dims_t :=
  fold_left (fun m kv => let n := dim_name (fst kv) (snd kv) in dm_set n (f (dm_get n m)) m) K m.

(* Storage.Put: labels.Put for every pair, dimensions[k:v].Insert(segment key) for every pair, segment updated *)
Definition ix_put (K : labels) (stack : bytes) (c : N) (st : index) : index :=
  let sk := normalized K in
  {| ix_labels := fold_left (fun s kv => labels_put (fst kv) (snd kv) s) K (ix_labels st);
     ix_dims := upd_dims (d_insert sk) K (ix_dims st);
     ix_segs := seg_set sk (pr_add stack c (seg_get sk (ix_segs st))) (ix_segs st) |}.

(* the dimensions of a selector's pairs, intersected *)
Definition ix_select (Q : labels) (st : index) : option (list dkey) :=
  intersection (map (fun kv => dm_get (dim_name (fst kv) (snd kv)) (ix_dims st)) Q).

(* the segments Get aggregates from: every selected key is re-parsed, its SegmentKey() looked up;
   a key without a segment contributes an empty segment *)
Definition ix_select_series (Q : labels) (st : index) : option (list bytes) :=
  match ix_select Q st with
  | None => None
  | Some sks => Some (filter (fun k => seg_mem k (ix_segs st)) (map (fun sk => normalized (parse sk)) sks))
  end.

Definition ix_get (Q : labels) (st : index) : option profile :=
  match ix_select_series Q st with
  | None => None
  | Some ks => Some (fold_left (fun acc k => pr_merge acc (seg_get k (ix_segs st))) ks [])
  end.

(* deleteSegmentAndRelatedData *)
Definition delete_series (K : labels) (st : index) : index :=
  {| ix_labels := ix_labels st;
     ix_dims := upd_dims (d_delete (normalized K)) K (ix_dims st);
     ix_segs := seg_del (normalized K) (ix_segs st) |}.

(* Storage.Delete: Intersection gives a snapshot; every key in it is re-parsed and removed *)
Definition ix_delete (Q : labels) (st : index) : index :=
  match ix_select Q st with
  | None => st
  | Some sks => fold_left (fun st sk => delete_series (parse sk) st) sks st
  end.

Inductive iop :=
| IPut (K : labels) (stack : bytes) (c : N)
| IDelete (Q : labels)
| IDrop (K : labels).    (* deleteSegmentAndRelatedData(K) alone: what a retention pass
                            (Storage.DeleteDataBefore) does to a series all of whose buckets have expired *)

Definition ix_step (st : index) (o : iop) : index :=
  match o with
  | IPut K s c => ix_put K s c st
  | IDelete Q => ix_delete Q st
  | IDrop K => delete_series K st
  end.
Definition ix_run (ops : list iop) : index := fold_left ix_step ops ix_empty.

(* ---------- the specification side: computed from the history alone ---------- *)

(* every pair of a is a pair of b *)
Definition sub_labels (a b : labels) : bool :=
  forallb (fun kv => match lget (fst kv) b with Some v => beqb v (snd kv) | None => false end) a.

Definition labels_eqb (a b : labels) : bool :=
  list_eqb (fun x y => beqb (fst x) (fst y) && beqb (snd x) (snd y)) a b.

(* the live series: ingested and not deleted since *)
Definition live_step (L : list labels) (o : iop) : list labels :=
  match o with
  | IPut K _ _ => if existsb (labels_eqb K) L then L else L ++ [K]
  | IDelete Q => filter (fun K => negb (sub_labels Q K)) L
  | IDrop K => filter (fun K' => negb (labels_eqb K' K)) L
  end.
Definition live (ops : list iop) : list labels := fold_left live_step ops [].

(* the uploads that are still there: not followed by a delete whose selector their series matches *)
Definition lp_step (acc : list (labels * bytes * N)) (o : iop) : list (labels * bytes * N) :=
  match o with
  | IPut K s c => acc ++ [(K, s, c)]
  | IDelete Q => filter (fun x => negb (sub_labels Q (fst (fst x)))) acc
  | IDrop K => filter (fun x => negb (labels_eqb (fst (fst x)) K)) acc
  end.
Definition live_puts (ops : list iop) : list (labels * bytes * N) := fold_left lp_step ops [].

(* what a query for selector Q must aggregate: every live upload whose tags include Q's pairs, once *)
Definition spec_get (Q : labels) (ops : list iop) : profile :=
  fold_left (fun p x => match x with (K, s, c) => if sub_labels Q K then pr_add s c p else p end) (live_puts ops) [].
