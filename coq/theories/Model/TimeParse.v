(* TimeParse.v — byte-level models of
     pkg/util/attime/attime.go        (Parse, parseTimeOffset, getUnitMultiplier)
     pkg/util/duration/parse.go       (ParseDuration, the pyroscope copy: int64 accumulation)
     $GOROOT/src/time/format.go       (ParseDuration of Go 1.23: uint64 accumulation, 1<<63 special case)
     pkg/util/bytesize/bytesize.go    (Parse, String)
   Model stratum: definitions only, no proofs.

   Conventions: a byte is an N < 256, a Go string is a list of bytes.  int64/uint64 arithmetic is done on Z and
   wrapped explicitly (wrap64 / wrapu64) at every place where the Go code computes in a machine type, because the
   parsers' overflow tests are part of their behaviour.  binary64 values are exact rationals num/den produced only by
   `rne` (round to nearest even, 53 bits, unbounded exponent: neither overflow nor the subnormal range is reachable from
   the operands used here, except strconv.ParseFloat's overflow, which is tested explicitly against 2^1024).
   A time.Time is its number of nanoseconds since the Unix epoch (Z, unbounded). *)
From Pyro Require Export Model.Base.
Local Open Scope Z_scope.

(* ------------------------------------------------------------------------------------------------ *)
(* machine integers *)

Definition two63 : Z := 9223372036854775808.
Definition two64 : Z := 18446744073709551616.
Definition max_int64 : Z := 9223372036854775807.
Definition wrap64 (x : Z) : Z := (x + two63) mod two64 - two63.   (* int64, two's complement *)
Definition wrapu64 (x : Z) : Z := x mod two64.                    (* uint64 *)

(* ------------------------------------------------------------------------------------------------ *)
(* bytes *)

Definition is_digit (c : N) : bool := (48 <=? c)%N && (c <=? 57)%N.
Definition digit_val (c : N) : Z := Z.of_N c - 48.
(* regexp ^\d+$ (RE2: \d is ASCII, $ is end of text) *)
Definition digits_only (s : bytes) : bool := match s with [] => false | _ => forallb is_digit s end.
Definition digits_val (s : bytes) : Z := fold_left (fun a c => a * 10 + digit_val c) s 0.

(* strconv.Atoi restricted to the arguments attime passes: a string of ASCII digits or the empty string.
   Syntax error (empty) -> 0; range error -> the value is clamped to MaxInt64 (ParseInt returns cutoff-1 with ErrRange and
   attime ignores the error). *)
Definition go_atoi (s : bytes) : Z :=
  if digits_only s then Z.min (digits_val s) max_int64 else 0.

Fixpoint span {A} (p : A -> bool) (s : list A) : list A * list A :=
  match s with
  | [] => ([], [])
  | c :: s' => if p c then let (a, b) := span p s' in (c :: a, b) else ([], s)
  end.

Fixpoint is_prefix (p s : bytes) : bool :=
  match p, s with
  | [], _ => true
  | _ :: _, [] => false
  | x :: p', y :: s' => N.eqb x y && is_prefix p' s'
  end.

(* strings.TrimSpace: leading and trailing Unicode white space.  A valid UTF-8 encoding of a white-space rune at the
   start (end) of the string is exactly what utf8.DecodeRune (DecodeLastRune) recognises, so trimming is removal of
   these byte sequences; invalid UTF-8 decodes to RuneError, which is not white space. *)
Definition ws_seqs : list bytes :=
  [[9]; [10]; [11]; [12]; [13]; [32];
   [194;133]; [194;160];                                  (* U+0085, U+00A0 *)
   [225;154;128];                                         (* U+1680 *)
   [226;128;128]; [226;128;129]; [226;128;130]; [226;128;131]; [226;128;132]; [226;128;133];
   [226;128;134]; [226;128;135]; [226;128;136]; [226;128;137]; [226;128;138];   (* U+2000..U+200A *)
   [226;128;168]; [226;128;169]; [226;128;175];           (* U+2028, U+2029, U+202F *)
   [226;129;159];                                         (* U+205F *)
   [227;128;128]]%N.                                      (* U+3000 *)

Fixpoint strip_one (seqs : list bytes) (s : bytes) : option bytes :=
  match seqs with
  | [] => None
  | q :: seqs' => if is_prefix q s then Some (skipn (length q) s) else strip_one seqs' s
  end.

Fixpoint trim_left_with (seqs : list bytes) (fuel : nat) (s : bytes) : bytes :=
  match fuel with
  | O => s
  | S f => match strip_one seqs s with
           | Some s' => trim_left_with seqs f s'
           | None => s
           end
  end.
Definition trim_left (s : bytes) : bytes := trim_left_with ws_seqs (length s) s.
Definition trim_right (s : bytes) : bytes :=
  rev (trim_left_with (map (@rev N) ws_seqs) (length s) (rev s)).
Definition trim_space (s : bytes) : bytes := trim_right (trim_left s).

(* strings.Replace(s, "_", "", -1) etc. *)
Definition is_sep (c : N) : bool := N.eqb c 95 || N.eqb c 44 || N.eqb c 32.
Definition remove_seps (s : bytes) : bytes := filter (fun c => negb (is_sep c)) s.

Fixpoint index_byte (c : N) (s : bytes) : option nat :=
  match s with
  | [] => None
  | x :: s' => if N.eqb x c then Some O else option_map S (index_byte c s')
  end.

(* ------------------------------------------------------------------------------------------------ *)
(* civil dates (time.Parse("20060102", s) and time.Date(...).Unix()) *)

Definition is_leap (y : Z) : bool := (y mod 4 =? 0) && (negb (y mod 100 =? 0) || (y mod 400 =? 0)).
Definition days_in (m y : Z) : Z :=
  if m =? 2 then (if is_leap y then 29 else 28)
  else if (m =? 4) || (m =? 6) || (m =? 9) || (m =? 11) then 30 else 31.
(* days since 1970-01-01 of the proleptic Gregorian date y-m-d *)
Definition days_from_civil (y m d : Z) : Z :=
  let y' := if m <=? 2 then y - 1 else y in
  let era := y' / 400 in
  let yoe := y' - era * 400 in
  let mp := (m + 9) mod 12 in
  let doy := (153 * mp + 2) / 5 + d - 1 in
  let doe := yoe * 365 + yoe / 4 - yoe / 100 + doy in
  era * 146097 + doe - 719468.

(* time.Parse("20060102", s) for an all-digit s: succeeds iff len = 8, month in 1..12, day in 1..daysIn(month, year).
   attime then also demands year > 1900 (month < 13 and day < 32 hold for every parsed date; a failed parse gives the
   zero Time whose year is 1).  Result: Unix seconds of UTC midnight. *)
Definition yyyymmdd (s : bytes) : option Z :=
  if (length s =? 8)%nat && forallb is_digit s then
    let y := digits_val (firstn 4 s) in
    let m := digits_val (firstn 2 (skipn 4 s)) in
    let d := digits_val (skipn 6 s) in
    if (1 <=? m) && (m <=? 12) && (1 <=? d) && (d <=? days_in m y) && (1900 <? y)
    then Some (days_from_civil y m d * 86400) else None
  else None.

(* ------------------------------------------------------------------------------------------------ *)
(* attime *)

Definition has_prefix (p s : bytes) : bool := is_prefix p s.

(* getUnitMultiplier: seconds *)
Definition get_unit_multiplier (u : bytes) : Z :=
  if has_prefix [115]%N u then 1                                              (* "s" *)
  else if has_prefix [109;111;110]%N u || has_prefix [77]%N u then 3600*24*30   (* "mon", "M" *)
  else if has_prefix [109;105;110]%N u || has_prefix [109]%N u then 60          (* "min", "m" *)
  else if has_prefix [104]%N u then 3600                                      (* "h" *)
  else if has_prefix [100]%N u then 3600*24                                   (* "d" *)
  else if has_prefix [119]%N u then 3600*24*7                                 (* "w" *)
  else if has_prefix [121]%N u then 3600*24*365                               (* "y" *)
  else 0.

(* Go slice expression s[lo:hi]; None = run-time panic (slice bounds out of range) *)
Definition go_sub (s : bytes) (lo hi : nat) : option bytes :=
  if (lo <=? hi)%nat && (hi <=? length s)%nat then Some (firstn (hi - lo) (skipn lo s)) else None.

(* i := 1; for i <= len(offset) && digitsOnly.MatchString(offset[:i]) { i++ } *)
Fixpoint scan_num (fuel : nat) (off : bytes) (i : nat) : nat :=
  match fuel with
  | O => i
  | S f => if (i <=? length off)%nat && digits_only (firstn i off) then scan_num f off (S i) else i
  end.
(* i = 1; for i <= len(offset) && !digitsOnly.MatchString(offset[i-1:i]) { i++ } *)
Fixpoint scan_unit (fuel : nat) (off : bytes) (i : nat) : nat :=
  match fuel with
  | O => i
  | S f => if (i <=? length off)%nat && negb (digits_only (firstn 1 (skipn (i - 1) off)))
           then scan_unit f off (S i) else i
  end.

(* one term: d += time.Second * time.Duration(num*sign*getUnitMultiplier(unit)); int and Duration are int64 *)
Definition offset_term (sign num : Z) (unit : bytes) : Z :=
  wrap64 (1000000000 * wrap64 (wrap64 (wrap64 (num * sign) * get_unit_multiplier unit))).

(* the loop `for offset != ""` of parseTimeOffset, literally (indices, slice expressions).
   None = a slice expression out of range (panic) or fuel exhausted (the loop would not terminate). *)
Fixpoint offset_loop (fuel : nat) (sign : Z) (off : bytes) (d : Z) : option Z :=
  match off with
  | [] => Some d
  | _ :: _ =>
    match fuel with
    | O => None
    | S f =>
      let i := scan_num (S (length off)) off 1 in
      match go_sub off 0 (i - 1), go_sub off (i - 1) (length off) with
      | Some numS, Some off1 =>
          let num := go_atoi numS in
          let j := scan_unit (S (length off1)) off1 1 in
          match go_sub off1 0 (j - 1), go_sub off1 (j - 1) (length off1) with
          | Some unit, Some off2 => offset_loop f sign off2 (wrap64 (d + offset_term sign num unit))
          | _, _ => None
          end
      | _, _ => None
      end
    end
  end.

Definition parse_time_offset (off : bytes) : option Z :=
  match off with
  | [] => Some 0
  | c :: off' =>
      if N.eqb c 45 then offset_loop (length off') (-1) off' 0
      else if N.eqb c 43 then offset_loop (length off') 1 off' 0
      else offset_loop (length off) 1 off 0
  end.

(* attime.Parse with time.Now() = now (nanoseconds since the epoch).  Result in nanoseconds since the epoch.
   time.Time.Add is exact for every int64 Duration (seconds are kept in an int64 and saturate only beyond +-2^63 s). *)
Definition attime_clean (s : bytes) : bytes := remove_seps (trim_space s).

Definition attime_parse (now : Z) (s0 : bytes) : option Z :=
  let s := attime_clean s0 in
  if digits_only s then
    match yyyymmdd s with
    | Some sec => Some (sec * 1000000000)
    | None => Some (go_atoi s * 1000000000)
    end
  else
    let offset :=
      match index_byte 43 s with
      | Some i => skipn i s
      | None => match index_byte 45 s with
                | Some i => skipn i s
                | None => []
                end
      end in
    match parse_time_offset offset with
    | Some d => Some (now + d)
    | None => None
    end.

(* ------------------------------------------------------------------------------------------------ *)
(* binary64 as exact rationals *)

Definition fl := (Z * Z)%type.     (* num / den, num >= 0, den > 0 *)

Definition rne (num den : Z) : fl :=
  if num <=? 0 then (0, 1) else
  let e1 := Z.log2 num - Z.log2 den - 52 in
  let q_at e := if 0 <=? e then num / (den * 2 ^ e) else (num * 2 ^ (- e)) / den in
  let e := if q_at e1 <? 2 ^ 52 then e1 - 1 else e1 in
  let n := if 0 <=? e then num else num * 2 ^ (- e) in
  let D := if 0 <=? e then den * 2 ^ e else den in
  let q := n / D in
  let r := n mod D in
  let q' := if (D <? 2 * r) || ((2 * r =? D) && Z.odd q) then q + 1 else q in
  if 0 <=? e then (q' * 2 ^ e, 1) else (q', 2 ^ (- e)).

Definition f_of_Z (n : Z) : fl := rne n 1.
Definition f_mul (a b : fl) : fl := rne (fst a * fst b) (snd a * snd b).
Definition f_div (a b : fl) : fl := rne (fst a * snd b) (snd a * fst b).
Definition f_trunc (a : fl) : Z := fst a / snd a.
Definition f_ltb (a b : fl) : bool := fst a * snd b <? fst b * snd a.
Definition f_one : fl := (1, 1).

(* Go: a float -> integer conversion of a value the integer type cannot hold is implementation-defined.
   The parsers below reach such a conversion for no input we know of; the model keeps it visible as a separate outcome. *)
Inductive pres (A : Type) := POk (v : A) | PErr | PImplDefined.
Arguments POk {A} v.
Arguments PErr {A}.
Arguments PImplDefined {A}.

(* ------------------------------------------------------------------------------------------------ *)
(* duration: the pyroscope copy (int64) *)

Definition ns_us : Z := 1000.
Definition ns_ms : Z := 1000000.
Definition ns_s : Z := 1000000000.
Definition ns_m : Z := 60000000000.
Definition ns_h : Z := 3600000000000.

Definition std_unit (u : bytes) : option Z :=
  if beqb u [110;115]%N then Some 1                         (* ns *)
  else if beqb u [117;115]%N then Some ns_us                (* us *)
  else if beqb u [194;181;115]%N then Some ns_us            (* U+00B5 s *)
  else if beqb u [206;188;115]%N then Some ns_us            (* U+03BC s *)
  else if beqb u [109;115]%N then Some ns_ms                (* ms *)
  else if beqb u [115]%N then Some ns_s
  else if beqb u [109]%N then Some ns_m
  else if beqb u [104]%N then Some ns_h
  else None.

Definition pyro_unit (u : bytes) : option Z :=
  match std_unit u with
  | Some x => Some x
  | None =>
      if beqb u [100]%N then Some (24 * ns_h)               (* d *)
      else if beqb u [77]%N then Some (24 * 30 * ns_h)      (* M *)
      else if beqb u [121]%N then Some (24 * 365 * ns_h)    (* y *)
      else None
  end.

(* leadingInt, int64: None = errLeadingInt *)
Fixpoint pyro_leading_int (s : bytes) (x : Z) : option (Z * bytes) :=
  match s with
  | [] => Some (x, [])
  | c :: s' =>
      if is_digit c then
        if max_int64 / 10 <? x then None
        else let x' := wrap64 (x * 10 + Z.of_N c - 48) in
             if x' <? 0 then None else pyro_leading_int s' x'
      else Some (x, s)
  end.

(* leadingFraction, int64 *)
Fixpoint pyro_leading_fraction (s : bytes) (x : Z) (scale : fl) (overflow : bool) : Z * fl * bytes :=
  match s with
  | [] => (x, scale, [])
  | c :: s' =>
      if is_digit c then
        if overflow then pyro_leading_fraction s' x scale true
        else if max_int64 / 10 <? x then pyro_leading_fraction s' x scale true
        else let y := wrap64 (x * 10 + Z.of_N c - 48) in
             if y <? 0 then pyro_leading_fraction s' x scale true
             else pyro_leading_fraction s' y (f_mul scale (f_of_Z 10)) false
      else (x, scale, s)
  end.

Definition is_dot_or_digit (c : N) : bool := N.eqb c 46 || is_digit c.

(* float64(f) * (float64(unit) / scale) truncated; the callers flag a value outside the target integer type's range
   (int64: [0, 2^63) is what can occur; uint64: [0, 2^64)) as implementation-defined *)
Definition frac_part (f unit : Z) (scale : fl) : Z := f_trunc (f_mul (f_of_Z f) (f_div (f_of_Z unit) scale)).

Fixpoint pyro_loop (fuel : nat) (s : bytes) (d : Z) : pres Z :=
  match s with
  | [] => POk d
  | c0 :: _ =>
    match fuel with
    | O => PErr
    | S fu =>
      if negb (is_dot_or_digit c0) then PErr else
      match pyro_leading_int s 0 with
      | None => PErr
      | Some (v, s1) =>
        let pre := negb (length s =? length s1)%nat in
        let '(f, scale, s2, post) :=
          match s1 with
          | c1 :: s1' =>
              if N.eqb c1 46 then
                let '(f, scale, s2) := pyro_leading_fraction s1' 0 f_one false in
                (f, scale, s2, negb (length s1' =? length s2)%nat)
              else (0, f_one, s1, false)
          | [] => (0, f_one, s1, false)
          end in
        if negb pre && negb post then PErr else
        let (u, s3) := span (fun c => negb (is_dot_or_digit c)) s2 in
        match u with
        | [] => PErr                                   (* missing unit *)
        | _ :: _ =>
          match pyro_unit u with
          | None => PErr                               (* unknown unit *)
          | Some unit =>
            if max_int64 / unit <? v then PErr else
            let v1 := wrap64 (v * unit) in
            if 0 <? f then
              let t := frac_part f unit scale in
              if (t <? 0) || (two63 <=? t) then PImplDefined else
              let v2 := wrap64 (v1 + t) in
              if v2 <? 0 then PErr else
              let d' := wrap64 (d + v2) in
              if d' <? 0 then PErr else pyro_loop fu s3 d'
            else
              let d' := wrap64 (d + v1) in
              if d' <? 0 then PErr else pyro_loop fu s3 d'
          end
        end
      end
    end
  end.

Definition strip_sign (s : bytes) : bool * bytes :=
  match s with
  | c :: s' => if N.eqb c 45 then (true, s') else if N.eqb c 43 then (false, s') else (false, s)
  | [] => (false, [])
  end.

Definition pyro_parse_duration (s0 : bytes) : pres Z :=
  let (neg, s) := strip_sign s0 in
  if beqb s [48]%N then POk 0
  else match s with
       | [] => PErr
       | _ :: _ =>
           match pyro_loop (length s) s 0 with
           | POk d => POk (if neg then wrap64 (- d) else d)
           | PErr => PErr
           | PImplDefined => PImplDefined
           end
       end.

(* ------------------------------------------------------------------------------------------------ *)
(* duration: time.ParseDuration of Go 1.23 (uint64) *)

(* The functions are parametrised by the admitted magnitude B; the standard library is the instance B = 1<<63
   (std_parse_duration below).  The instance B = 1<<63 - 1 is used only to say "the admission of 1<<63 plays no role". *)
Fixpoint std_leading_int_b (B : Z) (s : bytes) (x : Z) : option (Z * bytes) :=
  match s with
  | [] => Some (x, [])
  | c :: s' =>
      if is_digit c then
        if B / 10 <? x then None
        else let x' := wrapu64 (x * 10 + Z.of_N c - 48) in
             if B <? x' then None else std_leading_int_b B s' x'
      else Some (x, s)
  end.

Fixpoint std_leading_fraction_b (B : Z) (s : bytes) (x : Z) (scale : fl) (overflow : bool) : Z * fl * bytes :=
  match s with
  | [] => (x, scale, [])
  | c :: s' =>
      if is_digit c then
        if overflow then std_leading_fraction_b B s' x scale true
        else if max_int64 / 10 <? x then std_leading_fraction_b B s' x scale true
        else let y := wrapu64 (x * 10 + Z.of_N c - 48) in
             if B <? y then std_leading_fraction_b B s' x scale true
             else std_leading_fraction_b B s' y (f_mul scale (f_of_Z 10)) false
      else (x, scale, s)
  end.

Fixpoint std_loop_b (B : Z) (fuel : nat) (s : bytes) (d : Z) : pres Z :=
  match s with
  | [] => POk d
  | c0 :: _ =>
    match fuel with
    | O => PErr
    | S fu =>
      if negb (is_dot_or_digit c0) then PErr else
      match std_leading_int_b B s 0 with
      | None => PErr
      | Some (v, s1) =>
        let pre := negb (length s =? length s1)%nat in
        let '(f, scale, s2, post) :=
          match s1 with
          | c1 :: s1' =>
              if N.eqb c1 46 then
                let '(f, scale, s2) := std_leading_fraction_b B s1' 0 f_one false in
                (f, scale, s2, negb (length s1' =? length s2)%nat)
              else (0, f_one, s1, false)
          | [] => (0, f_one, s1, false)
          end in
        if negb pre && negb post then PErr else
        let (u, s3) := span (fun c => negb (is_dot_or_digit c)) s2 in
        match u with
        | [] => PErr
        | _ :: _ =>
          match std_unit u with
          | None => PErr
          | Some unit =>
            if B / unit <? v then PErr else
            let v1 := wrapu64 (v * unit) in
            if 0 <? f then
              let t := frac_part f unit scale in
              if (t <? 0) || (two64 <=? t) then PImplDefined else
              let v2 := wrapu64 (v1 + t) in
              if B <? v2 then PErr else
              let d' := wrapu64 (d + v2) in
              if B <? d' then PErr else std_loop_b B fu s3 d'
            else
              let d' := wrapu64 (d + v1) in
              if B <? d' then PErr else std_loop_b B fu s3 d'
          end
        end
      end
    end
  end.

Definition std_parse_duration_b (B : Z) (s0 : bytes) : pres Z :=
  let (neg, s) := strip_sign s0 in
  if beqb s [48]%N then POk 0
  else match s with
       | [] => PErr
       | _ :: _ =>
           match std_loop_b B (length s) s 0 with
           | POk d => if neg then POk (wrap64 (- d))               (* -Duration(d); Duration(1<<63) is MinInt64 *)
                      else if max_int64 <? d then PErr else POk d
           | PErr => PErr
           | PImplDefined => PImplDefined
           end
       end.

Definition std_parse_duration : bytes -> pres Z := std_parse_duration_b two63.

(* ------------------------------------------------------------------------------------------------ *)
(* bytesize *)

(* regexp \s = [\t\n\f\r ] *)
Definition re_space (c : N) : bool := N.eqb c 9 || N.eqb c 10 || N.eqb c 12 || N.eqb c 13 || N.eqb c 32.

(* strings.ToLower as far as the lookup in `multipliers` can see it: ASCII letters; the two non-ASCII runes whose lower
   case is ASCII (U+212A KELVIN SIGN -> k, U+0130 -> i); every other byte >= 0x80 becomes 255, which occurs in no key *)
Fixpoint lower_for_lookup (fuel : nat) (s : bytes) : bytes :=
  match fuel with
  | O => []
  | S f =>
    match s with
    | [] => []
    | c :: s' =>
        if is_prefix [226;132;170]%N s then 107%N :: lower_for_lookup f (skipn 3 s)
        else if is_prefix [196;176]%N s then 105%N :: lower_for_lookup f (skipn 2 s)
        else if (65 <=? c)%N && (c <=? 90)%N then (c + 32)%N :: lower_for_lookup f s'
        else if (128 <=? c)%N then 255%N :: lower_for_lookup f s'
        else c :: lower_for_lookup f s'
    end
  end.

Definition kb : Z := 1024.
Definition bs_multiplier (u : bytes) : option Z :=
  if beqb u []%N then Some 1
  else if beqb u [98]%N then Some 1
  else if beqb u [107;98]%N then Some kb
  else if beqb u [109;98]%N then Some (kb^2)
  else if beqb u [103;98]%N then Some (kb^3)
  else if beqb u [116;98]%N then Some (kb^4)
  else if beqb u [112;98]%N then Some (kb^5)
  else if beqb u [107;105;98]%N then Some 1000
  else if beqb u [109;105;98]%N then Some (1000^2)
  else if beqb u [103;105;98]%N then Some (1000^3)
  else if beqb u [116;105;98]%N then Some (1000^4)
  else if beqb u [112;105;98]%N then Some (1000^5)
  else None.

Definition two1024 : Z := 2 ^ 1024.

(* strconv.ParseFloat(s, 64) for s over digits and '.', containing a '.': syntax = exactly one '.', at least one digit;
   correctly rounded; an overflow to +Inf is an error *)
Definition parse_float_dec (s : bytes) : option fl :=
  let (ip, rest) := span is_digit s in
  match rest with
  | 46%N :: fp =>
      if forallb is_digit fp && negb ((length ip =? 0)%nat && (length fp =? 0)%nat) then
        let v := rne (digits_val (ip ++ fp)) (10 ^ Z.of_nat (length fp)) in
        if two1024 * snd v <=? fst v then None else Some v
      else None
  | _ => None
  end.

Definition bytesize_parse (s0 : bytes) : option Z :=
  let s := trim_space s0 in
  let (num, r1) := span (fun c => is_digit c || N.eqb c 46) s in
  match num with
  | [] => None
  | _ :: _ =>
    let (_, unit) := span re_space r1 in
    if existsb is_digit unit then None else           (* [^\d]*$ *)
    match bs_multiplier (lower_for_lookup (length unit) unit) with
    | None => None
    | Some m =>
      if existsb (N.eqb 46) num then
        match parse_float_dec num with
        | None => None
        | Some v =>
            let res := f_mul v (f_of_Z m) in
            if two63 * snd res <=? fst res then None else Some (f_trunc res)
        end
      else
        let v := digits_val num in
        if two64 <=? v then None                      (* ParseUint range error *)
        else if max_int64 / m <? v then None
        else Some (v * m)
    end
  end.

(* decimal printing *)
Fixpoint dec_digits (fuel : nat) (n : Z) (acc : bytes) : bytes :=
  match fuel with
  | O => acc
  | S f => let acc' := Z.to_N (48 + n mod 10) :: acc in
           if n <? 10 then acc' else dec_digits f (n / 10) acc'
  end.
Definition dec_nonneg (n : Z) : bytes := dec_digits (S (Z.to_nat (Z.log2 n))) n [].
Definition dec_Z (n : Z) : bytes := if n <? 0 then 45%N :: dec_nonneg (- n) else dec_nonneg n.

(* fmt.Sprintf("%.2f", x) for a finite x >= 0: exact decimal expansion rounded half-to-even at the second place *)
Definition fmt_2f (x : fl) : bytes :=
  let n := fst x * 100 in
  let q := n / snd x in
  let r := n mod snd x in
  let q' := if (snd x <? 2 * r) || ((2 * r =? snd x) && Z.odd q) then q + 1 else q in
  let fr := q' mod 100 in
  dec_nonneg (q' / 100) ++ [46%N; Z.to_N (48 + fr / 10); Z.to_N (48 + fr mod 10)].

Definition bs_suffixes : list bytes := [[75;66]; [77;66]; [71;66]; [84;66]; [80;66]]%N.

Fixpoint bs_print_loop (sfx : list bytes) (bf : fl) : bytes :=
  match sfx with
  | [] => []
  | [s] => fmt_2f (fst bf, snd bf * 1024) ++ 32%N :: s       (* last suffix: printed whether or not bf < 1024 *)
  | s :: sfx' =>
      let bf' := (fst bf, snd bf * 1024) in                  (* bf /= 1024.0 is exact *)
      if f_ltb bf' (1024, 1) then fmt_2f bf' ++ 32%N :: s else bs_print_loop sfx' bf'
  end.

(* ByteSize.String(); b is an int64 *)
Definition bytesize_print (b : Z) : bytes :=
  if b <? 1024 then dec_Z b ++ [32; 98; 121; 116; 101; 115]%N
  else bs_print_loop bs_suffixes (f_of_Z b).
