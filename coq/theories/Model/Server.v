(* Server.v — the /ingest and /render handlers (pkg/server/ingest.go, render.go) as functions
     request x environment x abstract storage state -> outcome x state.
   Model stratum: definitions only, no proofs.

   What is concrete: parameter handling (format selection, from/until through attime with the defaults, the clamp
   until := from of /ingest and the 422 of /render for until < from), the window normalisation of segment.normalize,
   the order parse-body -> free-space check -> retention check -> put, the status codes.
   What is abstract (Section variables): the profile type, the four body parsers (total functions bytes -> option tree:
   "total" is their whole contract here; their models are Model/TextFormats.v, Model/TTrie.v, Model/TreeCodec.v), the
   storage state and its put, the key parser (storage.ParseKey never returns an error) and the metadata taken from
   the query.  Run-time panics of the Go code are explicit outcomes (Panic) so that "never panics" is a statement. *)
From Pyro Require Export Model.Base Model.TimeParse.
Local Open Scope Z_scope.

Definition query := list (bytes * bytes).            (* url.Values, first value per key *)
Fixpoint q_get (key : bytes) (q : query) : bytes :=
  match q with
  | [] => []
  | (k, v) :: q' => if beqb k key then v else q_get key q'
  end.

Definition k_format : bytes := [102;111;114;109;97;116]%N.
Definition k_from : bytes := [102;114;111;109]%N.
Definition k_until : bytes := [117;110;116;105;108]%N.
Definition k_name : bytes := [110;97;109;101]%N.
Definition v_tree : bytes := [116;114;101;101]%N.
Definition v_trie : bytes := [116;114;105;101]%N.
Definition v_lines : bytes := [108;105;110;101;115]%N.
Definition v_json : bytes := [106;115;111;110]%N.
(* "binary/octet-stream+tree", "binary/octet-stream+trie" *)
Definition ct_prefix : bytes := [98;105;110;97;114;121;47;111;99;116;101;116;45;115;116;114;101;97;109;43]%N.
Definition ct_tree : bytes := ct_prefix ++ v_tree.
Definition ct_trie : bytes := ct_prefix ++ v_trie.

Inductive wire_format := FTree | FTrie | FLines | FGroups.
(* the if/else ladder of ingestParamsFromRequest: a binary Content-Type is honoured WHATEVER the format parameter says
   (a request may carry both); "tree" (parameter or header) is tested before "trie"; the parameter alone selects lines;
   everything else, unknown and empty formats included, is the collapsed-text parser *)
Definition select_format (format content_type : bytes) : wire_format :=
  if beqb format v_tree || beqb content_type ct_tree then FTree
  else if beqb format v_trie || beqb content_type ct_trie then FTrie
  else if beqb format v_lines then FLines
  else FGroups.

Record request := { rq_query : query; rq_content_type : bytes; rq_body : bytes }.

(* what the handler reads from its environment while serving one request *)
Record env := {
  e_now_from : Z;                  (* time.Now() when from is evaluated (ns) *)
  e_now_until : Z;                 (* time.Now() when until is evaluated (ns) *)
  e_space_ok : bool;               (* performFreeSpaceCheck: free space >= OutOfSpaceThreshold (or unknown) *)
  e_retention_thr : option Z       (* lifetimeBasedRetentionThreshold: Some (now - Retention) in ns when Retention <> 0 *)
}.

Inductive outcome :=
| Status (code : Z)
| Panic (what : string).           (* a Go run-time panic inside the handler *)

Definition ten_s : Z := 10000000000.
Definition floor10 (t : Z) : Z := t / ten_s * ten_s.          (* time.Truncate(10 s); 10 s divides the epoch offset *)

(* segment.normalize *)
Definition normalize (st et : Z) : Z * Z :=
  let st' := floor10 st in
  let et2 := floor10 et in
  if (et2 =? et) && negb (st' =? et2) then (st', et) else (st', et2 + ten_s).

Section Handlers.
  Variables (tree key meta state : Type).
  Variable parse_key : bytes -> key.
  Variable meta_of : query -> meta.
  Variables parse_tree parse_trie parse_lines parse_groups : bytes -> option tree.
  (* Storage.Put after its two refusal checks: key, normalised window [w0, w1) in ns, profile, metadata *)
  Variable put : key -> Z -> Z -> tree -> meta -> state -> state.

  Definition parser_of (f : wire_format) : bytes -> option tree :=
    match f with FTree => parse_tree | FTrie => parse_trie | FLines => parse_lines | FGroups => parse_groups end.

  (* `if qt := q.Get(k); qt != "" { attime.Parse(qt) } else { time.Now() }` *)
  Definition time_param (now : Z) (v : bytes) : option Z :=
    match v with [] => Some now | _ => attime_parse now v end.

  Record ingest_params := { ip_format : wire_format; ip_from : Z; ip_until : Z; ip_key : key; ip_meta : meta }.

  Definition ingest_params_of (rq : request) (e : env) : option ingest_params :=
    let q := rq_query rq in
    match time_param (e_now_from e) (q_get k_from q), time_param (e_now_until e) (q_get k_until q) with
    | Some f, Some u =>
        Some {| ip_format := select_format (q_get k_format q) (rq_content_type rq);
                ip_from := f; ip_until := u; ip_key := parse_key (q_get k_name q); ip_meta := meta_of q |}
    | _, _ => None
    end.

  Definition ingest (rq : request) (e : env) (st : state) : outcome * state :=
    match ingest_params_of rq e with
    | None => (Panic "attime.Parse: slice bounds out of range", st)
    | Some ip =>
        let from := ip_from ip in
        let until := if ip_until ip <? from then from else ip_until ip in      (* the window is clamped, not rejected *)
        match parser_of (ip_format ip) (rq_body rq) with
        | None => (Status 422, st)
        | Some t =>
            if negb (e_space_ok e) then (Status 503, st)                         (* errOutOfSpace *)
            else if match e_retention_thr e with Some thr => from <? thr | None => false end
            then (Status 503, st)                                                (* errRetention *)
            else
              let (w0, w1) := normalize from until in
              if w1 <=? w0 then (Panic "big.NewRat: division by zero (empty window)", st)
              else (Status 200, put (ip_key ip) w0 w1 t (ip_meta ip) st)
        end
    end.

  (* /render: the status; the state is not touched *)
  Definition render (q : query) (now_from now_until : Z) : outcome :=
    match attime_parse now_from (q_get k_from q), attime_parse now_until (q_get k_until q) with
    | Some f, Some u =>
        if u <? f then Status 422
        else
          let (w0, w1) := normalize f u in
          if w1 <? w0 then Panic "makeslice: len out of range"                   (* GenerateTimeline *)
          else if beqb (q_get k_format q) v_json then Status 200 else Status 422
    | _, _ => Panic "attime.Parse: slice bounds out of range"
    end.

  (* histories *)
  Definition acknowledged (rq : request) (e : env) (st : state) : bool :=
    match fst (ingest rq e st) with Status c => c =? 200 | Panic _ => false end.

  Fixpoint run (l : list (request * env)) (st : state) : list outcome * state :=
    match l with
    | [] => ([], st)
    | (rq, e) :: l' =>
        let (o, st') := ingest rq e st in
        let (os, st'') := run l' st' in
        (o :: os, st'')
    end.
End Handlers.

(* the status alone does not depend on the storage state *)
Definition ingest_status {tree} (p_tree p_trie p_lines p_groups : bytes -> option tree) (rq : request) (e : env) : outcome :=
  fst (ingest tree unit unit unit (fun _ => tt) (fun _ => tt) p_tree p_trie p_lines p_groups (fun _ _ _ _ _ s => s) rq e tt).
