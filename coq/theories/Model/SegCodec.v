(* SegCodec.v — model of pkg/storage/segment/serialization.go (format version 2) and of
   pkg/util/serialization/metadata.go.  Definitions only.

   The JSON coding of the four metadata fields (encoding/json) is not modelled: it is an
   encode/decode pair given as Section variables; the round-trip theorem assumes
   [dec (enc m) = Some m] (true of encoding/json for valid UTF-8 strings and a uint32).

   Serialize walks the tree depth-first (explicit stack, children pushed in front) = pre-order.
   Deserialize is recursive descent on fuel; a child is attached to its parent with the index
   arithmetic of streeNode.replace.  The decoder model returns None where the Go decoder returns an
   error or panics, and also where it would build a tree the model cannot represent (a child whose
   depth is not its parent's depth minus one, or a time off the 10 s grid); bytes written by
   Serialize never do that. *)
From Pyro Require Export Model.Base Model.Varint Model.Float53 Model.Segment.
Local Open Scope Z_scope.

Definition current_version : N := 2%N.

(* uint64(n.time.Unix()) and time.Unix(int64(v), 0) *)
Definition time_enc (slot : Z) : N :=
  let u := slot_to_unix slot in Z.to_N (if u <? 0 then 2 ^ 64 + u else u).
Definition time_dec (v : N) : option Z :=
  let z := Z.of_N v in
  let u := if z <? 2 ^ 63 then z else z - 2 ^ 64 in
  if (u + unix_offset) mod 10 =? 0 then Some (unix_to_slot u) else None.

Definition ser_header (lvl : nat) (n : snode) : bytes :=
  match n with
  | SNode t p s w ch =>
      uvarint_enc (N.of_nat lvl) ++ uvarint_enc (time_enc t) ++ uvarint_enc s ++ uvarint_enc w ++
      uvarint_enc (if p then 1%N else 0%N) ++
      uvarint_enc (N.of_nat (match lvl with O => O | S _ => count_some ch end))
  end.

Fixpoint ser_node (lvl : nat) (n : snode) {struct lvl} : bytes :=
  ser_header lvl n ++
  match lvl with
  | O => []
  | S l => concat (map (ser_node l) (somes (sn_ch n)))
  end.

(* the loop that reads [k] children and attaches each to [parent] (level [lvl]) with replace *)
Fixpoint dec_children (dec : bytes -> option (nat * snode * bytes)) (lvl : nat) (k : nat)
         (parent : snode) (bs : bytes) {struct k} : option (nat * snode * bytes) :=
  match k with
  | O => Some (lvl, parent, bs)
  | S k' =>
      match dec bs with
      | None => None
      | Some (cl, c, bs') =>
          if negb (Nat.eqb (S cl) lvl) then None
          else match sn_replace cl parent c with
               | Some parent' => dec_children dec lvl k' parent' bs'
               | None => None            (* Go: index out of range *)
               end
      end
  end.

(* the fixed-size part of a node record *)
Definition dec_header (ver : N) (bs : bytes) : option (nat * snode * N * bytes) :=
  match uvarint_dec bs with None => None | Some (depth, bs1) =>
  match uvarint_dec bs1 with None => None | Some (tv, bs2) =>
  match uvarint_dec bs2 with None => None | Some (smp, bs3) =>
  match (if (2 <=? ver)%N then uvarint_dec bs3 else Some (0%N, bs3)) with None => None | Some (wr, bs4) =>
  match uvarint_dec bs4 with None => None | Some (pv, bs5) =>
  match uvarint_dec bs5 with None => None | Some (clen, bs6) =>
  match time_dec tv with None => None | Some t =>
    let lvl := N.to_nat depth in
    Some (lvl, SNode t (pv =? 1)%N smp wr (match lvl with O => [] | S _ => repeat None 10 end), clen, bs6)
  end end end end end end end.

(* one node and its subtree: (level, node, rest).  [ver] is the format version read from the stream *)
Fixpoint dec_node (fuel : nat) (ver : N) (bs : bytes) {struct fuel} : option (nat * snode * bytes) :=
  match fuel with
  | O => None
  | S f =>
      match dec_header ver bs with
      | None => None
      | Some (lvl, node, clen, bs6) =>
          (* every child needs at least six bytes: a larger count runs into EOF in Go *)
          if (Nlen bs6 <? clen)%N then None
          else dec_children (dec_node f ver) lvl (N.to_nat clen) node bs6
      end
  end.

Section Codec.
  Variable enc_meta : meta -> bytes.                 (* json.Marshal of the four fields *)
  Variable dec_meta : bytes -> option meta.          (* json.Unmarshal + populateFromMetadata *)

  Definition s_serialize (s : segment) : bytes :=
    let mb := enc_meta (s_meta s) in
    uvarint_enc current_version ++ uvarint_enc (Nlen mb) ++ mb ++
    match s_root s with
    | Some (lvl, n) => ser_node lvl n
    | None => []
    end.

  Definition s_deserialize (bs : bytes) : option segment :=
    match uvarint_dec bs with None => None | Some (ver, bs1) =>
    match uvarint_dec bs1 with None => None | Some (ml, bs2) =>
    match (if (Nlen bs2 <? ml)%N then None else take_bytes (N.to_nat ml) bs2) with None => None | Some (mb, bs3) =>
    match dec_meta mb with None => None | Some m =>
    match dec_node (S (length bs3)) ver bs3 with
    | Some (lvl, n, _) => Some {| s_root := Some (lvl, n); s_meta := m |}
    | None => None                                   (* includes the empty segment: EOF *)
    end end end end end.
End Codec.

(* bounds under which the uint64 fields are faithful *)
Fixpoint sn_boundedb (lvl : nat) (n : snode) {struct lvl} : bool :=
  match n with
  | SNode t _ s w ch =>
      (s <? 2 ^ 64)%N && (w <? 2 ^ 64)%N && (- 2 ^ 63 <=? slot_to_unix t) && (slot_to_unix t <? 2 ^ 63) &&
      match lvl with
      | O => true
      | S l => forallb (fun o => match o with Some c => sn_boundedb l c | None => true end) ch
      end
  end.
