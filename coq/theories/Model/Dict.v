(* Dict.v — model of pkg/storage/dict/{dict.go,trie.go,serialize.go} (symbol dictionary).
   Model stratum: definitions only.

   A trie node is its label and its children IN INSERTION ORDER (the Go slice; never sorted).
   Keys are sequences of uvarint pairs (child index, consumed length).

   Fidelity notes (each exercised by the correspondence check of C12):
   * findNodeAt takes the LAST child whose first byte equals key[0] ([lead_index]).
   * A split keeps the old node (with the tail of its label) as the single child of a new node that
     carries the head of the label and takes the old node's slot in the parent.
   * Dict.Get ignores the error of the second varint.Read: binary.ReadUvarint returns the bits
     accumulated so far together with the error, and Get uses that partial value as the expected
     length ([uvarint_read]).  Any error of the FIRST read ends the walk successfully.
   * `int(v) >= len(children)` is a signed comparison: v >= 2^63 passes it and the following index
     expression panics ([GPanic]).  `len(label) < int(expectedLen)` is signed too ([to_int64]) and
     `expectedLen -= len(label2)` wraps modulo 2^64 ([wrap_sub]); `label` is never reassigned inside
     the inner loop, so its length stays that of the child selected by the index.
   * Outside the model: a child with an EMPTY label makes findNodeAt panic (v.label[0]); such a trie is
     not reachable from New/Put/Deserialize(Serialize _) (the model treats it as "no lead").
     Deserialize pre-allocates `make([]byte, nameLen)` and loops `childrenLen` times whatever is
     left in the input (finding D13, property C16); the model answers None as soon as a length or a
     count exceeds the remaining input, which is also what Go answers when it survives. *)
From Pyro Require Export Model.Base Model.Varint.

Inductive trie := TrNode (label : bytes) (ch : list trie).
Definition tr_label (t : trie) := match t with TrNode l _ => l end.
Definition tr_ch (t : trie) := match t with TrNode _ c => c end.

Definition d_new : trie := TrNode [] [].

(* ---- binary.ReadUvarint including the value it returns next to an error ---------------------- *)
Definition two64 : N := 18446744073709551616.
Definition two63 : N := 9223372036854775808.

Fixpoint uvarint_read_aux (fuel : nat) (i : nat) (w acc : N) (bs : bytes) : N * bool * bytes :=
  match fuel with
  | O => (acc mod two64, false, bs)                       (* 10 continuation bytes: overflow *)
  | S f =>
      match bs with
      | [] => (acc mod two64, false, [])                   (* EOF / unexpected EOF *)
      | b :: bs' =>
          if b <? 128
          then (if Nat.eqb i 9 && (1 <? b) then (acc mod two64, false, bs')
                else (acc + b * w, true, bs'))
          else uvarint_read_aux f (S i) (w * 128) (acc + (b - 128) * w) bs'
      end
  end.
Definition uvarint_read (bs : bytes) : N * bool * bytes := uvarint_read_aux 10 0 1 0 bs.

Definition to_int64 (x : N) : Z := if x <? two63 then Z.of_N x else (Z.of_N x - Z.of_N two64)%Z.
Definition wrap_sub (x y : N) : N := (x + two64 - y mod two64) mod two64.

(* ---- findNodeAt ------------------------------------------------------------------------------ *)
Definition first_byte_is (b : byte) (t : trie) : bool :=
  match tr_label t with x :: _ => N.eqb x b | [] => false end.

(* for k, v := range children { if v.label[0] == key[0] { leadIndex = k } } *)
Fixpoint lead_index_from (b : byte) (ch : list trie) (k : nat) (acc : option nat) : option nat :=
  match ch with
  | [] => acc
  | c :: ch' => lead_index_from b ch' (S k) (if first_byte_is b c then Some k else acc)
  end.
Definition lead_index (b : byte) (ch : list trie) : option nat := lead_index_from b ch 0%nat None.

(* length of the longest common prefix *)
Fixpoint lcp (a b : bytes) : nat :=
  match a, b with
  | x :: a', y :: b' => if N.eqb x y then S (lcp a' b') else 0%nat
  | _, _ => 0%nat
  end.

Fixpoint list_set {A} (i : nat) (x : A) (l : list A) : list A :=
  match l, i with
  | [], _ => []
  | _ :: l', O => x :: l'
  | y :: l', S i' => y :: list_set i' x l'
  end.

Definition pair_enc (v e : N) : bytes := uvarint_enc v ++ uvarint_enc e.

(* The OuterLoop of findNodeAt at node [tn] with the rest of the key; returns what was written to w
   and the new node.  Each `continue OuterLoop` consumes at least one byte of the key, so the fuel
   S (length key) is never exhausted (DictProofs.d_put_loop_some). *)
Fixpoint d_put_loop (fuel : nat) (key : bytes) (tn : trie) : option (bytes * trie) :=
  match fuel with
  | O => None
  | S f =>
      match key with
      | [] => Some ([], tn)
      | k0 :: _ =>
          match tn with
          | TrNode l ch =>
              match lead_index k0 ch with
              | None =>                                                   (* case 1 *)
                  Some (pair_enc (Nlen ch) (Nlen key), TrNode l (ch ++ [TrNode key []]))
              | Some idx =>
                  match nth_error ch idx with
                  | None => None                                          (* unreachable *)
                  | Some (TrNode lk lch as c) =>
                      let p := lcp key lk in
                      if Nat.eqb p (length lk) then
                        if Nat.eqb p (length key)
                        then Some (pair_enc (N.of_nat idx) (Nlen lk), tn)  (* case 2 *)
                        else                                              (* case 4 *)
                          match d_put_loop f (skipn p key) c with
                          | None => None
                          | Some (out, c') =>
                              Some (pair_enc (N.of_nat idx) (Nlen lk) ++ out, TrNode l (list_set idx c' ch))
                          end
                      else                                                (* case 3 (both variants) *)
                        let newTn := TrNode (firstn p lk) [TrNode (skipn p lk) lch] in
                        match d_put_loop f (skipn p key) newTn with
                        | None => None
                        | Some (out, n') =>
                            Some (pair_enc (N.of_nat idx) (N.of_nat p) ++ out, TrNode l (list_set idx n' ch))
                        end
                  end
              end
          end
      end
  end.

Definition d_put_opt (name : bytes) (t : trie) : option (bytes * trie) :=
  d_put_loop (S (length name)) name t.
Definition d_put (name : bytes) (t : trie) : bytes * trie :=
  match d_put_opt name t with Some r => r | None => ([], t) end.

(* ---- Dict.Get -------------------------------------------------------------------------------- *)
Inductive gres := GFound (v : bytes) | GMissing | GPanic | GFuel.

(* the inner loop: for len(label) < int(expectedLen) { ... tn = tn.children[0] } *)
Fixpoint d_descend (tn : trie) (L : N) (E : N) (buf : bytes) : option (trie * bytes) :=
  match tn with
  | TrNode _ ch =>
      if (Z.of_N L <? to_int64 E)%Z then
        match ch with
        | [] => None
        | c0 :: _ => d_descend c0 L (wrap_sub E (Nlen (tr_label c0))) (buf ++ tr_label c0)
        end
      else Some (tn, buf)
  end.

Fixpoint d_get_loop (fuel : nat) (tn : trie) (key buf : bytes) : gres :=
  match fuel with
  | O => GFuel
  | S f =>
      match uvarint_dec key with
      | None => GFound buf
      | Some (v, rest) =>
          if two63 <=? v then GPanic
          else if Nlen (tr_ch tn) <=? v then GMissing
          else
            match nth_error (tr_ch tn) (N.to_nat v) with
            | None => GMissing
            | Some c =>
                let '(e, _, rest') := uvarint_read rest in
                match d_descend c (Nlen (tr_label c)) e (buf ++ tr_label c) with
                | None => GMissing
                | Some (tn', buf') => d_get_loop f tn' rest' buf'
                end
            end
      end
  end.

Definition d_get_res (key : bytes) (t : trie) : gres := d_get_loop (S (length key)) t key [].
Definition d_get (key : bytes) (t : trie) : option bytes :=
  match d_get_res key t with GFound v => Some v | _ => None end.

(* ---- Serialize / Deserialize ------------------------------------------------------------------ *)
Fixpoint ser_node (t : trie) : bytes :=
  match t with
  | TrNode l ch => uvarint_enc (Nlen l) ++ l ++ uvarint_enc (Nlen ch) ++ flat_map ser_node ch
  end.
Definition d_serialize (t : trie) : bytes := uvarint_enc 1 ++ ser_node t.

(* one node and, recursively, its childrenLen children (the Go code keeps a stack with the parent
   repeated childrenLen times; the order of reads is the same pre-order) *)
Fixpoint parse_node (fuel : nat) (bs : bytes) : option (trie * bytes) :=
  match fuel with
  | O => None
  | S f =>
      let '(nl, _, r1) := uvarint_read bs in            (* error of this read is overwritten in Go *)
      if Nlen r1 <? nl then None else
      match take_bytes (N.to_nat nl) r1 with
      | None => None
      | Some (name, r2) =>
          match uvarint_dec r2 with
          | None => None
          | Some (cl, r3) =>
              if Nlen r3 <? cl then None else
              match (fix kids (n : nat) (bs : bytes) : option (list trie * bytes) :=
                       match n with
                       | O => Some ([], bs)
                       | S n' => match parse_node f bs with
                                 | None => None
                                 | Some (c, r) => match kids n' r with
                                                  | None => None
                                                  | Some (cs, r') => Some (c :: cs, r')
                                                  end
                                 end
                       end) (N.to_nat cl) r3 with
              | None => None
              | Some (cs, r4) => Some (TrNode name cs, r4)
              end
          end
      end
  end.

Definition d_deserialize (bs : bytes) : option trie :=
  match uvarint_dec bs with
  | None => None
  | Some (_, r) => match parse_node (S (length r)) r with
                   | Some (t, _) => Some t
                   | None => None
                   end
  end.

(* ---- well-formedness --------------------------------------------------------------------------- *)
Fixpoint first_bytes_distinct (ch : list trie) : bool :=
  match ch with
  | [] => true
  | c :: ch' =>
      match tr_label c with
      | [] => false
      | b :: _ => negb (existsb (first_byte_is b) ch') && first_bytes_distinct ch'
      end
  end.
(* children: labels non-empty, first bytes pairwise distinct, recursively *)
Fixpoint tr_wfb (t : trie) : bool :=
  match t with TrNode _ ch => first_bytes_distinct ch && forallb tr_wfb ch end.

(* weight: nodes + label bytes; bounds every child count and every label length *)
Fixpoint tr_weight (t : trie) : N :=
  match t with TrNode l ch => 1 + Nlen l + fold_right (fun c n => tr_weight c + n) 0 ch end.

Fixpoint tr_eqb (a b : trie) {struct a} : bool :=
  match a, b with
  | TrNode al ach, TrNode bl bch =>
      beqb al bl &&
      (fix go (x y : list trie) {struct x} : bool :=
         match x, y with
         | [], [] => true
         | c :: x', c' :: y' => tr_eqb c c' && go x' y'
         | _, _ => false
         end) ach bch
  end.

(* ---- histories ---------------------------------------------------------------------------------- *)
Inductive d_op := OPut (name : bytes) | OReload.
(* a failed reload would lose the dictionary: modelled as the empty one (the theorems show it
   cannot happen) *)
Definition d_reload (t : trie) : trie :=
  match d_deserialize (d_serialize t) with Some t' => t' | None => d_new end.
Definition d_step (t : trie) (o : d_op) : trie :=
  match o with
  | OPut n => snd (d_put n t)
  | OReload => d_reload t
  end.
