(* Flame.v — model of pkg/storage/tree/flamebearer.go (Tree.FlamebearerStruct).
   Model stratum: definitions only.

   The Go loop keeps three parallel stacks (nodes, xOffsets, levels).  Popping a node that passes
   "Total >= minVal || name == other" records one bar and pushes, on top of the stack, first the shown
   children c1 .. ck in slice order (each PREPENDED, so ck ends above c1) and last the synthetic `other`
   node (above all of them).  Hence the visit order is: node, `other`, subtree of ck, .., subtree of c1.
   The result structure (names, name cache, levels, maxSelf) never feeds back into the stacks, so the
   loop factors into
     (1) [fb_visit]  — the sequence of visited (shown) nodes with their level and absolute x offset,
                       by structural recursion instead of the explicit stack, in exactly the Go order;
     (2) [fb_step]   — what the loop body does to the result for one visited node: name-cache lookup /
                       append (index 0 is renamed "total"), create the level when level = len(Levels),
                       PREPEND the bar to its level, update MaxSelf;
     (3) [delta_enc] — the delta encoding pass over every level.
   Go `int` values are modelled as unbounded: absolute offsets/totals in N (int(uint64) conversions are the
   identity below 2^63, a recorded assumption), delta-encoded offsets in Z (they are negative when a
   malformed tree has children wider than their parent). *)
From Pyro Require Export Model.Base Model.Tree Model.Cappedarr.

Definition other_name : bytes := [111; 116; 104; 101; 114].   (* "other" *)
Definition total_name : bytes := [116; 111; 116; 97; 108].    (* "total" *)

(* one visited node: level, absolute x offset, total, self, (original) name *)
Record vbar := { vb_lvl : nat; vb_x : N; vb_total : N; vb_self : N; vb_name : bytes }.

(* n.Total >= minVal *)
Definition shownb (th : N) (c : tnode) : bool := N.leb th (t_total c).

Fixpoint fb_visit (th : N) (t : tnode) (x : N) (lvl : nat) {struct t} : list vbar :=
  match t with
  | TNode n s tot ch =>
      if N.leb th tot || beqb n other_name then
        {| vb_lvl := lvl; vb_x := x; vb_total := tot; vb_self := s; vb_name := n |} ::
        (* for _, n := range tn.ChildrenNodes: xo = running xOffset, ot = otherTotal *)
        (fix go (l : list tnode) (xo ot : N) {struct l} : list vbar :=
           match l with
           | [] =>
               if N.eqb ot 0 then []
               else [{| vb_lvl := S lvl; vb_x := xo; vb_total := ot; vb_self := ot; vb_name := other_name |}]
           | c :: rest =>
               if N.leb th (t_total c)
               then go rest (xo + t_total c) ot ++ fb_visit th c xo (S lvl)
               else go rest xo (ot + t_total c)
           end) ch (x + s) 0
      else []
  end.

(* the same list for a children slice, as a top-level function (used to state lemmas) *)
Fixpoint fb_children (th : N) (lvl : nat) (l : list tnode) (xo ot : N) : list vbar :=
  match l with
  | [] =>
      if N.eqb ot 0 then []
      else [{| vb_lvl := S lvl; vb_x := xo; vb_total := ot; vb_self := ot; vb_name := other_name |}]
  | c :: rest =>
      if N.leb th (t_total c)
      then fb_children th lvl rest (xo + t_total c) ot ++ fb_visit th c xo (S lvl)
      else fb_children th lvl rest xo (ot + t_total c)
  end.

(* a bar as stored in a level: x offset, total, self, index into names *)
Definition bar := (N * N * N * nat)%type.

Record fb_state := {
  fs_keys : list bytes;           (* nameLocationCache, as the list of original names in index order *)
  fs_levels : list (list bar);
  fs_maxself : N
}.

Definition fb_init : fb_state := {| fs_keys := []; fs_levels := []; fs_maxself := 0 |}.

Fixpoint index_of (name : bytes) (keys : list bytes) : option nat :=
  match keys with
  | [] => None
  | k :: keys' => if beqb k name then Some O
                  else match index_of name keys' with Some i => Some (S i) | None => None end
  end.

(* res.Levels[level] = append([]int{..}, res.Levels[level]...), after appending an empty level when
   level == len(res.Levels).  level > len(res.Levels) would be an index panic in Go; it cannot happen
   (fb_visit never jumps more than one level down) and the model leaves the levels unchanged there. *)
Fixpoint add_bar (lvl : nat) (b : bar) (levels : list (list bar)) : list (list bar) :=
  match lvl, levels with
  | O, [] => [[b]]
  | O, l :: rest => (b :: l) :: rest
  | S _, [] => []
  | S lvl', l :: rest => l :: add_bar lvl' b rest
  end.

Definition fb_step (st : fb_state) (v : vbar) : fb_state :=
  let '(i, keys') :=
    match index_of (vb_name v) (fs_keys st) with
    | Some i => (i, fs_keys st)
    | None => (length (fs_keys st), fs_keys st ++ [vb_name v])
    end in
  {| fs_keys := keys';
     fs_levels := add_bar (vb_lvl v) (vb_x v, vb_total v, vb_self v, i) (fs_levels st);
     fs_maxself := if N.ltb (fs_maxself st) (vb_self v) then vb_self v else fs_maxself st |}.

(* l[i] -= prev; prev += l[i] + l[i+1]   (so the new prev is the absolute end of the bar) *)
Fixpoint delta_enc (prev : Z) (bars : list bar) : list Z :=
  match bars with
  | [] => []
  | (x, tot, s, i) :: rest =>
      (Z.of_N x - prev)%Z :: Z.of_N tot :: Z.of_N s :: Z.of_nat i ::
      delta_enc (Z.of_N x + Z.of_N tot)%Z rest
  end.

Record flame := {
  fb_names : list bytes;
  fb_levels : list (list Z);      (* flat, 4 numbers per bar, offsets delta encoded *)
  fb_numticks : N;
  fb_maxself : N
}.

(* names[0] was stored as "total" whatever the root's name is *)
Definition fb_out_names (keys : list bytes) : list bytes :=
  match keys with
  | [] => []
  | _ :: rest => total_name :: rest
  end.

Definition flame_with (th : N) (t : tnode) : flame :=
  let st := fold_left fb_step (fb_visit th t 0 O) fb_init in
  {| fb_names := fb_out_names (fs_keys st);
     fb_levels := map (delta_enc 0%Z) (fs_levels st);
     fb_numticks := t_total t;
     fb_maxself := fs_maxself st |}.

(* Tree.FlamebearerStruct(maxNodes) *)
Definition flamebearer (maxNodes : nat) (t : tnode) : flame := flame_with (t_minval maxNodes t) t.

(* ---- what the UI does first: undo the delta encoding ------------------------------------------ *)
Definition zbar := (Z * Z * Z * Z)%type.     (* absolute x, total, self, name index *)

Fixpoint delta_dec (prev : Z) (l : list Z) {struct l} : option (list zbar) :=
  match l with
  | [] => Some []
  | d :: tot :: s :: i :: rest =>
      match delta_dec (prev + d + tot)%Z rest with
      | Some r => Some ((prev + d, tot, s, i)%Z :: r)
      | None => None
      end
  | _ => None
  end.

Fixpoint decode_levels (ls : list (list Z)) : option (list (list zbar)) :=
  match ls with
  | [] => Some []
  | l :: rest =>
      match delta_dec 0%Z l, decode_levels rest with
      | Some b, Some r => Some (b :: r)
      | _, _ => None
      end
  end.

Definition zbar_of (b : bar) : zbar :=
  match b with (x, tot, s, i) => (Z.of_N x, Z.of_N tot, Z.of_N s, Z.of_nat i) end.
