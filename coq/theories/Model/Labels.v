(* Labels.v — pkg/storage/labels/labels.go (after fix D5): a set of Badger keys "l:<name>" and
   "v:<name>:<value>" listed by prefix scan in key order.  Model stratum: definitions only. *)
From Pyro Require Export Model.Base Model.Dimension.

Definition lstore := list bytes.     (* sorted, duplicate-free: the keys of the main Badger DB with these prefixes *)

Definition lkey (k : bytes) : bytes := 108 :: 58 :: k.                    (* "l:" + key *)
Definition vprefix (k : bytes) : bytes := 118 :: 58 :: k ++ [58].         (* "v:" + key + ":" *)
Definition vkey (k v : bytes) : bytes := vprefix k ++ v.

Definition labels_put (k v : bytes) (s : lstore) : lstore := d_insert (vkey k v) (d_insert (lkey k) s).

Fixpoint strip_prefix (p s : bytes) : option bytes :=
  match p, s with
  | [], _ => Some s
  | a :: p', b :: s' => if a =? b then strip_prefix p' s' else None
  | _ :: _, [] => None
  end.

(* iterator with opts.Prefix = p, callback gets key[len(p):] *)
Definition scan (p : bytes) (s : lstore) : list bytes :=
  flat_map (fun e => match strip_prefix p e with Some r => [r] | None => [] end) s.

Definition get_keys (s : lstore) : list bytes := scan [108; 58] s.
Definition get_values (k : bytes) (s : lstore) : list bytes := scan (vprefix k) s.
