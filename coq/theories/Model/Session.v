(* Session.v — model of pkg/agent/session.go (ProfileSession: takeSnapshots / reset / Stop / uploadTries).
   Model stratum: definitions only, no proofs.

   The session is a state machine over FINE-GRAINED events, so that every interleaving of the sampling
   goroutine with Stop() that the mutex allows is an event sequence of the model:

     SStart now        Start(): reset() before the sampling goroutine exists
     SDecide t1        takeSnapshots evaluates isDueForReset() with clock reading t1 (and, when due, calls
                       Reset() on resettable spies — no effect on the session's own state)
     SSample i k v     spy i's Snapshot callback ran its critical section: tries[idx].Insert(k, v, true)
                       (ignored when len(k) = 0, as in the code)
     SReset t2         end of the tick: if the decision was "due", reset() with clock reading t2
     SStop ts          Stop(): close(stopCh); uploadTries(ts)         (all under trieMutex)

   One tick of the real goroutine is SDecide; SSample*; SReset — Stop may fall between any two of them, and
   ticks may continue after Stop (select picks a ready ticker case at random; Stop does not wait for the
   goroutine).  Since /repo 628ae12 reset() is a no-op once Stop has run: callbacks that were blocked on
   trieMutex while Stop ran, and samples of later ticks, go into fresh tries that are never uploaded.  Every theorem about "exactly once" quantifies over ALL lists of these events, bracketed or not.

   Time is Z nanoseconds since Go's zero time (year 1); time.Truncate(d) for d > 0 rounds down to a multiple
   of d counted from there.  Tries are multisets stack -> count (association lists); the byte-level trie is
   C18/C06's subject.  Diff is the clipped difference per key (C18_diff). *)
From Pyro Require Export Model.Base.
Open Scope Z_scope.

(* ---- multisets of stacks ------------------------------------------------------------------------- *)
Definition mset := list (bytes * N).

Fixpoint ms_get (k : bytes) (m : mset) : N :=
  match m with
  | [] => 0%N
  | (k', v) :: m' => if beqb k k' then (v + ms_get k m')%N else ms_get k m'
  end.

(* Trie.Insert(k, v, merge=true): value += v *)
Definition ms_add (k : bytes) (v : N) (m : mset) : mset := (k, v) :: m.

(* Trie.Diff: every key of cur keeps max(cur - prev, 0); keys only in prev get 0 (never iterated) *)
Fixpoint ms_keys (m : mset) (seen : list bytes) : list bytes :=
  match m with
  | [] => []
  | (k, _) :: m' => if existsb (beqb k) seen then ms_keys m' seen else k :: ms_keys m' (k :: seen)
  end.
Definition ms_diff (cur prev : mset) : mset :=
  map (fun k => (k, (ms_get k cur - ms_get k prev)%N)) (ms_keys cur []).

(* ---- profile types (pkg/agent/spy/spy.go) -------------------------------------------------------- *)
Inductive ptype := PCpu | PInuseObjects | PAllocObjects | PInuseSpace | PAllocSpace | POther (name : bytes).

Definition pt_name (p : ptype) : bytes :=
  match p with
  | PCpu => [99;112;117]
  | PInuseObjects => [105;110;117;115;101;95;111;98;106;101;99;116;115]
  | PAllocObjects => [97;108;108;111;99;95;111;98;106;101;99;116;115]
  | PInuseSpace => [105;110;117;115;101;95;115;112;97;99;101]
  | PAllocSpace => [97;108;108;111;99;95;115;112;97;99;101]
  | POther n => n
  end%N.
Definition pt_cumulative (p : ptype) : bool :=
  match p with PAllocObjects | PAllocSpace => true | _ => false end.
Definition ascii_objects : bytes := [111;98;106;101;99;116;115]%N.
Definition ascii_bytes : bytes := [98;121;116;101;115]%N.
Definition ascii_samples : bytes := [115;97;109;112;108;101;115]%N.
Definition ascii_average : bytes := [97;118;101;114;97;103;101]%N.
Definition ascii_sum : bytes := [115;117;109]%N.
Definition pt_units (p : ptype) : bytes :=
  match p with
  | PInuseObjects | PAllocObjects => ascii_objects
  | PInuseSpace | PAllocSpace => ascii_bytes
  | _ => ascii_samples
  end.
Definition pt_agg (p : ptype) : bytes :=
  match p with
  | PInuseObjects | PInuseSpace => ascii_average
  | _ => ascii_sum
  end.

(* ---- configuration, jobs, state ------------------------------------------------------------------ *)
Record scfg := {
  sc_app : bytes;
  sc_spy : bytes;
  sc_gospy : bool;          (* spyName == "gospy": one trie per profile type; otherwise one trie, type 0 *)
  sc_rate : N;              (* sampleRate *)
  sc_interval : Z;          (* uploadRate in ns, > 0 *)
  sc_types : list ptype
}.

Record ujob := {
  uj_slot : nat;            (* index of the trie the job was cut from *)
  uj_name : bytes;
  uj_start : Z;
  uj_end : Z;
  uj_spy : bytes;
  uj_rate : N;
  uj_units : bytes;
  uj_agg : bytes;
  uj_data : mset
}.

Record sstate := {
  ss_tries : list (option mset);   (* None: nil before the first reset *)
  ss_prev : list (option mset);    (* previousTries *)
  ss_start : Z;                    (* startTime *)
  ss_due : bool;                   (* the decision of the tick in progress *)
  ss_stopped : bool
}.

Definition nslots (c : scfg) : nat := if sc_gospy c then length (sc_types c) else 1%nat.

Definition s_init (c : scfg) : sstate :=
  {| ss_tries := repeat None (nslots c); ss_prev := repeat None (nslots c);
     ss_start := 0; ss_due := false; ss_stopped := false |}.

(* t.Truncate(d), d > 0, t after year 1 *)
Definition trunc (d t : Z) : Z := t - t mod d.

Definition job_name (c : scfg) (p : ptype) : bytes := (sc_app c ++ [46%N] ++ pt_name p)%list.

Definition mk_job (c : scfg) (slot : nat) (p : ptype) (start now : Z) (data : mset) : ujob :=
  {| uj_slot := slot; uj_name := job_name c p; uj_start := start; uj_end := trunc (sc_interval c) now;
     uj_spy := sc_spy c; uj_rate := sc_rate c; uj_units := pt_units p; uj_agg := pt_agg p; uj_data := data |}.

(* one iteration of the loop in uploadTries for slot i: (job?, new previous) *)
Definition upload_slot (c : scfg) (start now : Z) (i : nat) (p : ptype) (t : option mset) (pv : option mset)
  : list ujob * option mset :=
  match t with
  | None => ([], pv)
  | Some m =>
      if pt_cumulative p then
        match pv with
        | None => ([], Some m)                                   (* first upload skipped *)
        | Some q => ([mk_job c i p start now (ms_diff m q)], Some m)
        end
      else ([mk_job c i p start now m], pv)
  end.

(* profileTypes[i]; the code indexes out of range (panics) when there are fewer types than tries — excluded
   by well-formedness: POther [] is only a placeholder *)
Definition type_of (c : scfg) (i : nat) : ptype := nth i (sc_types c) (POther []).

Fixpoint upload_slots (c : scfg) (start now : Z) (i : nat) (ts pvs : list (option mset))
  : list ujob * list (option mset) :=
  match ts, pvs with
  | t :: ts', pv :: pvs' =>
      let '(js, pv') := upload_slot c start now i (type_of c i) t pv in
      let '(js', pvs'') := upload_slots c start now (S i) ts' pvs' in
      ((js ++ js')%list, pv' :: pvs'')
  | _, _ => ([], pvs)
  end.

(* uploadTries(now): jobs in slot order, every trie replaced by a fresh one *)
Definition upload_tries (c : scfg) (now : Z) (s : sstate) : list ujob * sstate :=
  let '(js, pvs) := upload_slots c (ss_start s) now 0 (ss_tries s) (ss_prev s) in
  (js, {| ss_tries := map (fun _ => Some []) (ss_tries s); ss_prev := pvs; ss_start := ss_start s;
          ss_due := ss_due s; ss_stopped := ss_stopped s |}).

Definition with_start (s : sstate) (now : Z) : sstate :=
  {| ss_tries := ss_tries s; ss_prev := ss_prev s; ss_start := now; ss_due := ss_due s; ss_stopped := ss_stopped s |}.
Definition with_due (s : sstate) (d : bool) : sstate :=
  {| ss_tries := ss_tries s; ss_prev := ss_prev s; ss_start := ss_start s; ss_due := d; ss_stopped := ss_stopped s |}.
Definition with_stopped (s : sstate) : sstate :=
  {| ss_tries := ss_tries s; ss_prev := ss_prev s; ss_start := ss_start s; ss_due := ss_due s; ss_stopped := true |}.

(* reset(): nothing once Stop has run (/repo 628ae12); otherwise uploadTries(now); startTime = now *)
Definition do_reset (c : scfg) (now : Z) (s : sstate) : list ujob * sstate :=
  if ss_stopped s then ([], s)
  else let '(js, s') := upload_tries c now s in (js, with_start s' now).

Inductive sevent :=
| SStart (now : Z)
| SDecide (t1 : Z)
| SSample (spy : nat) (k : bytes) (v : N)
| SReset (t2 : Z)
| SStop (ts : Z).

Definition slot_of (c : scfg) (spy : nat) : nat := if sc_gospy c then spy else 0%nat.

Fixpoint upd_nth {A} (n : nat) (f : A -> A) (l : list A) : list A :=
  match l, n with
  | [], _ => []
  | x :: l', O => f x :: l'
  | x :: l', S n' => x :: upd_nth n' f l'
  end.

Definition insert_sample (c : scfg) (spy : nat) (k : bytes) (v : N) (s : sstate) : sstate :=
  match k with
  | [] => s                                      (* len(stack) > 0 *)
  | _ =>
      {| ss_tries := upd_nth (slot_of c spy) (fun t => match t with Some m => Some (ms_add k v m) | None => None end)
                             (ss_tries s);
         ss_prev := ss_prev s; ss_start := ss_start s; ss_due := ss_due s; ss_stopped := ss_stopped s |}
  end.

(* isDueForReset with clock reading t1 *)
Definition is_due (c : scfg) (s : sstate) (t1 : Z) : bool :=
  negb (Z.eqb (trunc (sc_interval c) t1) (trunc (sc_interval c) (ss_start s))).

Definition s_step (c : scfg) (s : sstate) (e : sevent) : list ujob * sstate :=
  match e with
  | SStart now => do_reset c now s
  | SDecide t1 => ([], with_due s (is_due c s t1))
  | SSample spy k v => ([], insert_sample c spy k v s)
  | SReset t2 => if ss_due s then let '(js, s') := do_reset c t2 s in (js, with_due s' false) else ([], s)
  | SStop ts =>
      (* a second Stop panics in its caller at close(stopCh), before anything is uploaded *)
      if ss_stopped s then ([], s) else upload_tries c ts (with_stopped s)
  end.

(* jobs in upload order, final state *)
Fixpoint s_run (c : scfg) (evs : list sevent) (s : sstate) : list ujob * sstate :=
  match evs with
  | [] => ([], s)
  | e :: evs' =>
      let '(js, s') := s_step c s e in
      let '(js', s'') := s_run c evs' s' in
      ((js ++ js')%list, s'')
  end.

(* ---- what was reported ----------------------------------------------------------------------------- *)
(* samples accepted into slot [i] by the event list (non-empty stack, slot exists and its trie is not nil:
   [live] tells which slots already have a trie) *)
Definition live_slots (s : sstate) : list bool := map (fun t => match t with Some _ => true | None => false end) (ss_tries s).

(* the coarse tick of the task description: decision, samples, reset *)
Definition tick (t1 t2 : Z) (samples : list (nat * bytes * N)) : list sevent :=
  (SDecide t1 :: map (fun x => SSample (fst (fst x)) (snd (fst x)) (snd x)) samples ++ [SReset t2])%list.

Definition jobs_of_slot (i : nat) (js : list ujob) : list ujob := filter (fun j => Nat.eqb (uj_slot j) i) js.

Definition sum_data (k : bytes) (js : list ujob) : N := fold_right (fun j n => (ms_get k (uj_data j) + n)%N) 0%N js.
