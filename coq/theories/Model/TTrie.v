(* TTrie.v — model of pkg/structs/transporttrie/{trie.go,diff.go,serialize.go} (the agent's byte-level
   radix trie).  Model stratum: definitions only.

   A Go [*trieNode] that is mutated in place becomes a function returning the new node.
   The loop of [findNodeAt] is kept as it is (one iteration = one unfolding, fuel = length of the key:
   every [continue OuterLoop] strictly shortens the key).  The work lists of Diff / Iterate / Serialize
   become structural recursion on the trie (a node is always handled before its descendants and the
   sub-tries handled by different work items are disjoint when sibling names start with different
   bytes, which is an invariant of every trie built by Insert).  Deserialize is a recursive-descent
   parser on fuel. *)
From Pyro Require Export Model.Base Model.Varint.

Inductive ttnode := TT (name : bytes) (value : N) (ch : list ttnode).

Definition tt_name (t : ttnode) := match t with TT n _ _ => n end.
Definition tt_value (t : ttnode) := match t with TT _ v _ => v end.
Definition tt_ch (t : ttnode) := match t with TT _ _ c => c end.

Definition tt_new (name : bytes) : ttnode := TT name 0 [].      (* newTrieNode *)
Definition tt_empty : ttnode := tt_new [].                      (* New().root *)
Definition tt_set_value (v : N) (t : ttnode) := match t with TT n _ c => TT n v c end.

(* ---- sort.Search(n, f): binary search exactly as in package sort ---------------------------- *)
Fixpoint go_search (fuel : nat) (f : nat -> bool) (i j : nat) : nat :=
  match fuel with
  | O => i
  | S fu =>
      if Nat.ltb i j then
        let h := Nat.div2 (i + j) in
        if f h then go_search fu f i h else go_search fu f (S h) j
      else i
  end.
Definition sort_search (n : nat) (f : nat -> bool) : nat := go_search (S n) f 0 n.

(* trieNode.insert: position = sort.Search(bytes.Compare(children[i].name, key) >= 0) *)
Definition ch_pos (key : bytes) (ch : list ttnode) : nat :=
  sort_search (length ch)
    (fun i => match nth_error ch i with
              | Some c => negb (bltb (tt_name c) key)
              | None => true
              end).
Definition ch_insert_at (i : nat) (x : ttnode) (ch : list ttnode) : list ttnode :=
  firstn i ch ++ x :: skipn i ch.
Definition ch_insert_named (key : bytes) (x : ttnode) (ch : list ttnode) : list ttnode :=
  ch_insert_at (ch_pos key ch) x ch.
Definition ch_insert (x : ttnode) (ch : list ttnode) : list ttnode := ch_insert_named (tt_name x) x ch.

(* ---- findNodeAt ------------------------------------------------------------------------------ *)
(* v.name[0] == key[0]  (Go panics on a child with an empty name; no trie built by Insert has one,
   the model says "no match" and every theorem excludes the case by well-formedness) *)
Definition fb_is (b : byte) (c : ttnode) : bool :=
  match tt_name c with [] => false | x :: _ => N.eqb x b end.

(* leadIndex: the LAST child whose name starts with b; returned as children[:i], children[i], children[i+1:] *)
Fixpoint lead_split (b : byte) (ch : list ttnode) : option (list ttnode * ttnode * list ttnode) :=
  match ch with
  | [] => None
  | c :: ch' =>
      match lead_split b ch' with
      | Some (l1, x, l2) => Some (c :: l1, x, l2)
      | None => if fb_is b c then Some ([], c, ch') else None
      end
  end.

(* the comparison loop  for i := 0; i < lk; i++ { if i == llk {case 4}; if leadKey[i] != key[i] {case 3} } ... *)
Inductive kcmp :=
| KEqual                                  (* case 2: key = leadKey *)
| KLonger (rest : bytes)                  (* case 4: key = leadKey ++ rest, rest <> [] *)
| KDiverge (a b krest : bytes)            (* case 3: leadKey = a ++ b, key = a ++ krest, heads of b and krest differ *)
| KShorter (b : bytes).                   (* case 3.2: leadKey = key ++ b, b <> [] *)

Fixpoint key_cmp (key leadKey : bytes) : kcmp :=
  match key, leadKey with
  | [], [] => KEqual
  | [], _ :: _ => KShorter leadKey
  | _ :: _, [] => KLonger key
  | x :: key', y :: lk' =>
      if N.eqb x y then
        match key_cmp key' lk' with
        | KEqual => KEqual
        | KLonger r => KLonger r
        | KDiverge a b kr => KDiverge (x :: a) b kr
        | KShorter b => KShorter b
        end
      else KDiverge [] leadKey key
  end.

Fixpoint tt_find_node_at_fuel (fuel : nat) (key : bytes) (f : ttnode -> ttnode) (tn : ttnode) : ttnode :=
  match key with
  | [] => f tn                                           (* len(key) == 0: fn(tn) *)
  | k0 :: _ =>
      match fuel with
      | O => tn                                          (* not reachable with fuel > length key *)
      | S fuel' =>
          match tn with
          | TT n v ch =>
              match lead_split k0 ch with
              | None =>                                  (* case 1: new child named key, inserted sorted *)
                  TT n v (ch_insert_named key (f (tt_new key)) ch)
              | Some (l1, TT lk cv cch, l2) =>
                  match key_cmp key lk with
                  | KLonger rest =>                      (* case 4: descend *)
                      TT n v (l1 ++ tt_find_node_at_fuel fuel' rest f (TT lk cv cch) :: l2)
                  | KDiverge a b krest =>                (* case 3: split at the first differing byte *)
                      let newTn := TT a 0 [TT b cv cch] in
                      TT n v (l1 ++ tt_find_node_at_fuel fuel' krest f newTn :: l2)
                  | KShorter b =>                        (* case 3.2: key is a proper prefix of leadKey *)
                      let newTn := TT key 0 [TT b cv cch] in
                      TT n v (l1 ++ tt_find_node_at_fuel fuel' [] f newTn :: l2)
                  | KEqual =>                            (* case 2 *)
                      TT n v (l1 ++ f (TT lk cv cch) :: l2)
                  end
              end
          end
      end
  end.
Definition tt_find_node_at (key : bytes) (f : ttnode -> ttnode) (tn : ttnode) : ttnode :=
  tt_find_node_at_fuel (S (length key)) key f tn.

(* Trie.Insert(key, value, merge...) *)
Definition tt_insert (key : bytes) (v : N) (merge : bool) (t : ttnode) : ttnode :=
  tt_find_node_at key
    (fun tn => if merge then tt_set_value (tt_value tn + v) tn else tt_set_value v tn) t.

(* ---- Iterate: depth first, parents before children, children in slice order; the reported name
   is the concatenation of the node names from the root (the root's own name included);
   only nodes with value > 0 are reported ---------------------------------------------------- *)
Fixpoint tt_iter_all (prefix : bytes) (t : ttnode) : list (bytes * N) :=
  match t with
  | TT n v ch => (prefix ++ n, v) :: flat_map (tt_iter_all (prefix ++ n)) ch
  end.
Definition tt_iterate (t : ttnode) : list (bytes * N) :=
  filter (fun kv => 0 <? snd kv) (tt_iter_all [] t).

(* ---- Diff ------------------------------------------------------------------------------------ *)
Definition tt_clip_sub (sv : N) (d : ttnode) : ttnode :=
  if tt_value d <? sv then tt_set_value 0 d else tt_set_value (tt_value d - sv) d.

(* the loop body for the pair (st, dt): every child of st is looked up (created / split) below dt,
   clipped, and then handled itself.  Structural on st. *)
Fixpoint tt_diff_node (st dt : ttnode) {struct st} : ttnode :=
  match st with
  | TT _ _ sch =>
      (fix go (sch : list ttnode) (dt : ttnode) {struct sch} : ttnode :=
         match sch with
         | [] => dt
         | c :: rest =>
             go rest (tt_find_node_at (tt_name c)
                        (fun d => tt_diff_node c (tt_clip_sub (tt_value c) d)) dt)
         end) sch dt
  end.
(* originalTrie.Diff(srcTrie): the deep clone is the identity in a pure model *)
Definition tt_diff (cur prev : ttnode) : ttnode := tt_diff_node prev cur.

(* ---- Serialize / Deserialize ----------------------------------------------------------------- *)
Definition tt_scale_val (m d v : N) : N :=
  if negb (N.eqb d 1) || negb (N.eqb m 1) then v * m / d else v.

Fixpoint tt_serialize (m d : N) (t : ttnode) : bytes :=
  match t with
  | TT n v ch =>
      uvarint_enc (Nlen n) ++ n ++ uvarint_enc (tt_scale_val m d v) ++ uvarint_enc (Nlen ch)
        ++ flat_map (tt_serialize m d) ch
  end.

(* one node and its announced number of children; each child is put into its parent with the
   sorted insert.  Every failed read is an error (name length and name are read through
   varint.Read / serialization.ReadBytes, which fail on truncation).  A child count larger than the
   rest of the input can never be satisfied (every node takes at least three bytes) and is rejected
   at once here, where the Go loop would fail at the first missing node. *)
Fixpoint tt_parse (fuel : nat) (bs : bytes) : option (ttnode * bytes) :=
  match fuel with
  | O => None
  | S f =>
      match uvarint_dec bs with None => None | Some (nl, bs1) =>
      if Nlen bs1 <? nl then None else
      match take_bytes (N.to_nat nl) bs1 with None => None | Some (name, bs2) =>
      match uvarint_dec bs2 with None => None | Some (v, bs3) =>
      match uvarint_dec bs3 with None => None | Some (nc, bs4) =>
      if Nlen bs4 <? nc then None else
      match (fix kids (n : nat) (acc : list ttnode) (bs : bytes) {struct n} : option (list ttnode * bytes) :=
               match n with
               | O => Some (acc, bs)
               | S n' => match tt_parse f bs with
                         | None => None
                         | Some (c, bs') => kids n' (ch_insert c acc) bs'
                         end
               end) (N.to_nat nc) [] bs4 with
      | None => None
      | Some (ch, rest) => Some (TT name v ch, rest)
      end end end end end
  end.
(* Deserialize: the first node read becomes the root; trailing bytes are not looked at *)
Definition tt_deserialize (bs : bytes) : option ttnode :=
  match tt_parse (S (length bs)) bs with Some (t, _) => Some t | None => None end.

(* ---- abstraction: the value stored under a full byte string ----------------------------------
   [tt_den t k]: k is read from below t (t's own name is not part of k, as in findNodeAt).
   It is the sum of the values of all nodes whose names concatenate to k; in a well-formed trie
   at most one node does. *)
Fixpoint strip_prefix (p k : bytes) : option bytes :=
  match p with
  | [] => Some k
  | x :: p' => match k with
               | [] => None
               | y :: k' => if N.eqb x y then strip_prefix p' k' else None
               end
  end.
Definition is_nil {A} (l : list A) : bool := match l with [] => true | _ => false end.

Fixpoint tt_den (t : ttnode) (k : bytes) : N :=
  match t with
  | TT _ v ch =>
      (if is_nil k then v else 0) +
      sumN (map (fun c => match strip_prefix (tt_name c) k with
                          | Some r => tt_den c r
                          | None => 0
                          end) ch)
  end.

(* well-formed: below the root no name is empty and sibling names start with different bytes *)
Definition first_byte (c : ttnode) : option byte := match tt_name c with [] => None | x :: _ => Some x end.
Fixpoint fb_distinct (ch : list ttnode) : bool :=
  match ch with
  | [] => true
  | c :: ch' => match tt_name c with
                | [] => false
                | x :: _ => negb (existsb (fb_is x) ch') && fb_distinct ch'
                end
  end.
Fixpoint tt_wfb (t : ttnode) : bool :=
  match t with TT _ _ ch => fb_distinct ch && forallb tt_wfb ch end.

(* sorted: sibling first bytes strictly increasing (implies well-formed; for such children the
   order of the names is the order of their first bytes) *)
Fixpoint fb_sorted (ch : list ttnode) : bool :=
  match ch with
  | [] => true
  | c :: ch' =>
      match tt_name c with
      | [] => false
      | x :: _ => match ch' with
                  | [] => true
                  | c' :: _ => match tt_name c' with [] => false | y :: _ => x <? y end
                  end && fb_sorted ch'
      end
  end.
Fixpoint tt_sortedb (t : ttnode) : bool :=
  match t with TT _ _ ch => fb_sorted ch && forallb tt_sortedb ch end.

(* everything the serializer writes as a uvarint fits a uint64 *)
Fixpoint tt_fitsb (m d : N) (t : ttnode) : bool :=
  match t with
  | TT n v ch =>
      (Nlen n <? 2 ^ 64) && (tt_scale_val m d v <? 2 ^ 64) && (Nlen ch <? 2 ^ 64) && forallb (tt_fitsb m d) ch
  end.

Fixpoint tt_eqb (a b : ttnode) {struct a} : bool :=
  match a, b with
  | TT an av ach, TT bn bv bch =>
      beqb an bn && N.eqb av bv &&
      (fix go (x y : list ttnode) {struct x} : bool :=
         match x, y with
         | [], [] => true
         | c :: x', c' :: y' => tt_eqb c c' && go x' y'
         | _, _ => false
         end) ach bch
  end.

Fixpoint tt_map_values (g : N -> N) (t : ttnode) : ttnode :=
  match t with TT n v ch => TT n (g v) (map (tt_map_values g) ch) end.

(* building a snapshot from a list of insertions (key, value, merge) *)
Definition tt_build (ops : list (bytes * N * bool)) : ttnode :=
  fold_left (fun t o => tt_insert (fst (fst o)) (snd (fst o)) (snd o) t) ops tt_empty.
Definition tt_of_multiset (ms : list (bytes * N)) : ttnode :=
  fold_left (fun t kv => tt_insert (fst kv) (snd kv) true t) ms tt_empty.
