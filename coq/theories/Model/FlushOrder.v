(* FlushOrder.v — why Storage.Close flushes the trees before the dictionaries (pkg/storage/storage.go, Close).
   Abstract model, definitions only: symbol names are numbers; a dictionary is the list of names it has issued keys
   for and the key of a name is its position (what C12 proves of the real radix dictionary is exactly what is used
   here: an issued key keeps resolving to its name while the dictionary grows).  A tree is the list of its frame
   names; its serialized form is the list of their dictionary keys.  Serializing a tree ADDS its new names to the
   in-memory dictionary (treeBytes -> dicts.Get -> Tree.Serialize -> Dict.Put). *)
From Coq Require Import List NArith Arith.
Import ListNotations.

Definition dict := list N.

Fixpoint d_index (n : N) (d : dict) : option nat :=
  match d with
  | [] => None
  | x :: d' => if N.eqb x n then Some O else option_map S (d_index n d')
  end.

Definition d_put (n : N) (d : dict) : dict * nat :=
  match d_index n d with Some i => (d, i) | None => (d ++ [n], length d) end.

Fixpoint t_ser (t : list N) (d : dict) : dict * list nat :=
  match t with
  | [] => (d, [])
  | n :: t' => let (d1, i) := d_put n d in let (d2, ks) := t_ser t' d1 in (d2, i :: ks)
  end.

Fixpoint t_deser (ks : list nat) (d : dict) : option (list N) :=
  match ks with
  | [] => Some []
  | i :: ks' => match nth_error d i, t_deser ks' d with Some n, Some t => Some (n :: t) | _, _ => None end
  end.

Fixpoint ser_all (ts : list (list N)) (d : dict) : dict * list (list nat) :=
  match ts with
  | [] => (d, [])
  | t :: ts' => let (d1, ks) := t_ser t d in let (d2, kss) := ser_all ts' d1 in (d2, ks :: kss)
  end.

Fixpoint deser_all (kss : list (list nat)) (d : dict) : option (list (list N)) :=
  match kss with
  | [] => Some []
  | ks :: kss' => match t_deser ks d, deser_all kss' d with Some t, Some ts => Some (t :: ts) | _, _ => None end
  end.

Record mem := { m_trees : list (list N); m_dict : dict }.   (* the trees of one application and its dictionary, in memory *)
Record dsk := { k_trees : list (list nat); k_dict : dict }. (* what Badger holds after Close *)

(* the order of the code: trees first (each serialization grows the in-memory dictionary), the dictionary last *)
Definition close_real (m : mem) : dsk :=
  let (d', kss) := ser_all (m_trees m) (m_dict m) in {| k_trees := kss; k_dict := d' |}.

(* the order swapped: the dictionary cache is flushed and closed first; the tree serializations then grow a
   dictionary object that is never saved again *)
Definition close_swapped (m : mem) : dsk :=
  let (d', kss) := ser_all (m_trees m) (m_dict m) in {| k_trees := kss; k_dict := m_dict m |}.

Definition reopen (k : dsk) : option (list (list N)) := deser_all (k_trees k) (k_dict k).
