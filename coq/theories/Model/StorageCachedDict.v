(* StorageCachedDict.v — the cached storage with the REAL tree bytes and the dictionaries store.
   Definitions only.  Extends builder cache's Model/StorageCached.v (imported, not modified).

   Part 1 writes storage.go's Put / Get / Delete / DeleteDataBefore once over an abstract trees store
   (read / put / delete a tree, "drop the related data of a series"), access by access as in
   Model/StorageCached.v; cache's twin is the instance "Model/Cache.v with the serialized form abstracted to what it
   decodes to" (Proofs/C02DictTwin.v shows the two coincide).

   Part 2 is the concrete trees store:
     * an LFU of trees (Model/Lfu.v, the same functions Model/Cache.v uses),
     * a disk of BYTES,
     * the dictionaries store: a Model/Cache.v object store, key = application name
       (storage.FromTreeToDictKey: the tree key up to the first '{'), value = dictionary, serialized with the
       dictionary codec of Model/Dict.v; a dictionary that is nowhere is dict.New().
     treeBytes   (save of tree key k):  d := dicts.Get(app k); bytes := tree.Bytes(d, maxNodes) — which PUTS the
                  tree's names into d, i.e. mutates the object the dictionaries store holds
                  (Cache.CMutate: Get, then mutate in place); the bytes go to the trees disk.
     treeFromBytes (load of k):         d := dicts.Get(app k) (which may itself reload d from its own bytes);
                  tree.FromBytes(d, bytes).
     Storage.deleteSegmentAndRelatedData: dicts.Delete(key.DictKey()) where DictKey() is the NORMALIZED SERIES name
                  "app{tags}" (the pre-tags dictionary key), not the application name.
   Saves are synchronous (Evict followed by the completion of its saves, as cache's twin; no write-back).
   Maintenance: eviction of trees, eviction of dictionaries, and Close = flush the trees (their saves write into the
   dictionaries), THEN flush the dictionaries, then reopen (storage.go: "dictionary has to flush last because trees
   write to dictionaries").

   The flag [b_ok] records the side conditions under which the refinement theorem speaks; it is sticky (once false,
   false).  It is cleared when a saved tree is not well-formed / does not fit uvarints / has more nodes than the
   cap (above the cap the codec prunes: property C04, outside this twin) / would push its dictionary beyond
   2^55 bytes, when stored bytes fail to decode, or when a series key without '{' is dropped.  In that case only, the
   in-place mutation of the dictionary is skipped (so that the mutation is total on valid dictionaries). *)
From Pyro Require Export Model.Base Model.Tree Model.TreeCodec Model.Dict Model.Lfu Model.Cache.
From Pyro Require Export Model.Segment Model.Timeline Model.Storage Model.StorageCached.
Local Open Scope Z_scope.

(* ================= Part 1: storage.go over an abstract trees store ================= *)
Section Generic.
Context {S : Type}.
Context (ts_read : tkey -> S -> S * tnode) (ts_put : tkey -> tnode -> S -> S) (ts_del : tkey -> S -> S)
        (ts_drop : bytes -> S -> S).

Fixpoint g_reads (keys : list tkey) (s : S) : S * list tnode :=
  match keys with
  | [] => (s, [])
  | k :: r => let (s1, v) := ts_read k s in let (s2, vs) := g_reads r s1 in (s2, v :: vs)
  end.

Record gst := { g_segs : list (sid * segment); g_store : S }.

Definition g_addon (k : bytes) (st : S * tnode) (a : nat * Z) : S * tnode :=
  let (s', v) := ts_read (k, fst a, snd a) (fst st) in (s', t_merge (snd st) v).

Definition g_put_cb (k : bytes) (prof : tnode) (s : S) (cb : put_cb) : S :=
  let tk := (k, pc_lvl cb, pc_t cb) in
  let (s1, cached) := ts_read tk s in
  let clone := t_clone (Z.to_N (pc_m cb)) (Z.to_N (pc_d cb)) prof in
  let (s2, clone') := fold_left (g_addon k) (pc_addons cb) (s1, clone) in
  ts_put tk (t_merge cached clone') s2.

Definition gst_put_go (pi : put_input) (st : gst) : gst * bool :=
  let k := pi_sid pi in
  let seg := match seg_lookup k (g_segs st) with Some s => s | None => Segment.s_empty end in
  let '(seg', cbs) := s_put_unix (pi_from pi) (pi_until pi) (t_total (pi_tree pi)) (s_set_meta (pi_meta pi) seg) in
  ({| g_segs := seg_store k seg' (g_segs st);
      g_store := fold_left (g_put_cb (sid_key k) (pi_tree pi)) cbs (g_store st) |}, true).

Definition gst_put (retention_thr : option Z) (pi : put_input) (st : gst) : gst * bool :=
  match retention_thr with
  | Some thr => if pi_from pi <? thr then (st, false) else gst_put_go pi st
  | None => gst_put_go pi st
  end.

Definition gst_get (sel : sid) (from until : Z) (st : gst) : gst * option get_output :=
  let '(a, b) := s_normalize_unix (from, until) in
  let matching := filter (fun ks => sel_matches sel (fst ks)) (g_segs st) in
  let items := get_items a b matching in
  let (s', vals) := g_reads (map item_key items) (g_store st) in
  ({| g_segs := g_segs st; g_store := s' |},
   get_finish a b matching (map (fun iv => item_part (fst iv) (snd iv)) (combine items vals))).

Definition g_del_cbs (k : bytes) (cbs : list (nat * Z)) (s : S) : S :=
  fold_left (fun s cb => ts_del (k, fst cb, snd cb) s) cbs s.

Definition gst_delete_series (st : gst) (ks : sid * segment) : gst :=
  let '(_, cbs, _) := s_delete_before_unix max_time_unix (snd ks) in
  {| g_segs := seg_remove (fst ks) (g_segs st);
     g_store := ts_drop (sid_key (fst ks)) (g_del_cbs (sid_key (fst ks)) cbs (g_store st)) |}.

Definition gst_delete (sel : sid) (st : gst) : gst :=
  fold_left gst_delete_series (filter (fun ks => sel_matches sel (fst ks)) (g_segs st)) st.

Definition gst_retention_series (thr : Z) (st : gst) (ks : sid * segment) : gst :=
  let '(seg', cbs, root_deleted) := s_delete_before_unix thr (snd ks) in
  let store' := g_del_cbs (sid_key (fst ks)) cbs (g_store st) in
  if root_deleted
  then {| g_segs := seg_remove (fst ks) (g_segs st); g_store := ts_drop (sid_key (fst ks)) store' |}
  else {| g_segs := seg_store (fst ks) seg' (g_segs st); g_store := store' |}.

Definition gst_retention (thr : Z) (st : gst) : gst :=
  fold_left (gst_retention_series thr) (g_segs st) st.

Definition gst_step (retention_thr : option Z) (st : gst) (o : st_op) : gst * st_out :=
  match o with
  | OpPut pi => let '(st', ok) := gst_put retention_thr pi st in (st', OutPut ok)
  | OpGet sel f u => let '(st', r) := gst_get sel f u st in (st', OutGet r)
  | OpDelete sel => (gst_delete sel st, OutUnit)
  | OpRetention thr => (gst_retention thr st, OutUnit)
  end.
End Generic.

(* ================= Part 2: the trees store over bytes, with the dictionaries store ================= *)
Definition bytes_dec : forall a b : bytes, {a = b} + {a <> b} := list_eq_dec N.eq_dec.

Definition dcache := Cache.cache (K:=bytes) (V:=trie) (D:=bytes).
Definition dc_dflt (k : bytes) : trie := d_new.                                   (* cache.New = dict.New() *)
Definition dc_enc (k : bytes) (d : trie) : bytes := d_serialize d.                 (* Dict.Bytes *)
Definition dc_dec (k : bytes) (bs : bytes) : trie :=                               (* dict.FromBytes *)
  match d_deserialize bs with Some d => d | None => d_new end.
Definition dc_run : dcache -> list Cache.op -> list Cache.out * dcache := Cache.run bytes_dec dc_dflt dc_enc dc_dec.

(* storage.FromTreeToDictKey: k[0 : strings.IndexAny(k, "{")] *)
Fixpoint app_of (k : bytes) : bytes :=
  match k with
  | [] => []
  | b :: k' => if N.eqb b 123 then [] else b :: app_of k'
  end.
Definition dict_key (tk : tkey) : bytes := app_of (fst (fst tk)).

Definition first_ret (outs : list (Cache.out (V:=trie))) : trie :=
  match outs with Cache.Ret d :: _ => d | _ => d_new end.

(* bytes of names (plus 2 per name) a save of t puts into the dictionary when nothing is pruned *)
Fixpoint names_bytes (t : tnode) : N :=
  match t with
  | TNode n _ tot ch => Nlen n + 2 + (if (0 <? tot)%N then fold_right (fun c a => (names_bytes c + a)%N) 0%N ch else 0)%N
  end%N.
Definition dict_limit : N := 36028797018963968.      (* 2^55 *)

(* every length, count and self value written fits a uvarint; key lengths fit ReadBytes *)
Fixpoint tree_fitsb (t : tnode) : bool :=
  match t with
  | TNode n s _ ch => (Nlen n <=? max_int64)%N && (s <? 2 ^ 64)%N && (Nlen ch <? 2 ^ 64)%N && forallb tree_fitsb ch
  end.

Record bstore := {
  b_lfu : lfu (K:=tkey) (V:=tnode);
  b_disk : tkey -> option bytes;
  b_dicts : dcache;
  b_ok : bool
}.
Definition b_empty : bstore := {| b_lfu := []; b_disk := fun _ => None; b_dicts := Cache.c_empty; b_ok := true |}.

Section Bytes.
Variable cap : nat.                                   (* config.MaxNodesSerialization *)

Definition side_ok (t : tnode) (d : trie) : bool :=
  t_wfb t && tree_fitsb t && Nat.leb (t_size t) cap && (tr_weight d + names_bytes t <? dict_limit)%N.

(* tree.Bytes(d, cap) seen from the dictionary: the names of t are put into d *)
Definition save_mut (t : tnode) (d : trie) : trie :=
  if side_ok t d then snd (tc_serialize cap t d) else d.

(* treeBytes + the write of the bytes to the trees disk *)
Definition b_save (s : bstore) (kv : tkey * tnode) : bstore :=
  let (k, v) := kv in
  let (outs, dc') := dc_run (b_dicts s) (Cache.lower1 (Cache.CMutate (dict_key k) (save_mut v))) in
  let d := first_ret outs in
  {| b_lfu := b_lfu s;
     b_disk := Cache.d_set tkey_dec k (Some (fst (tc_serialize cap v d))) (b_disk s);
     b_dicts := dc';
     b_ok := b_ok s && side_ok v d |}.

(* Cache.Get on the trees cache *)
Definition b_read (k : tkey) (s : bstore) : bstore * tnode :=
  match l_get tkey_dec k (b_lfu s) with
  | (Some v, l') => ({| b_lfu := l'; b_disk := b_disk s; b_dicts := b_dicts s; b_ok := b_ok s |}, v)
  | (None, _) =>
      match b_disk s k with
      | None =>                                                       (* nowhere: cache.New = tree.New() *)
          ({| b_lfu := l_set tkey_dec k t_empty (b_lfu s); b_disk := b_disk s; b_dicts := b_dicts s; b_ok := b_ok s |},
           t_empty)
      | Some bs =>                                                    (* treeFromBytes *)
          let (outs, dc') := dc_run (b_dicts s) (Cache.lower1 (Cache.CRead (dict_key k))) in
          match tc_deserialize (first_ret outs) bs with
          | Some v =>
              ({| b_lfu := l_set tkey_dec k v (b_lfu s); b_disk := b_disk s; b_dicts := dc'; b_ok := b_ok s |}, v)
          | None =>
              ({| b_lfu := l_set tkey_dec k t_empty (b_lfu s); b_disk := b_disk s; b_dicts := dc'; b_ok := false |},
               t_empty)
          end
      end
  end.

Definition b_put (k : tkey) (v : tnode) (s : bstore) : bstore :=
  {| b_lfu := l_set tkey_dec k v (b_lfu s); b_disk := b_disk s; b_dicts := b_dicts s; b_ok := b_ok s |}.

Definition b_del (k : tkey) (s : bstore) : bstore :=
  {| b_lfu := l_delete tkey_dec k (b_lfu s); b_disk := Cache.d_set tkey_dec k None (b_disk s);
     b_dicts := b_dicts s; b_ok := b_ok s |}.

(* deleteSegmentAndRelatedData: dicts.Delete(key.DictKey()), DictKey() = the normalized series name *)
Definition b_drop (key : bytes) (s : bstore) : bstore :=
  {| b_lfu := b_lfu s; b_disk := b_disk s;
     b_dicts := snd (dc_run (b_dicts s) (Cache.lower1 (Cache.CDelete key)));
     b_ok := b_ok s && existsb (N.eqb 123) key |}.

Definition dst_state := gst (S:=bstore).
Definition dst_init : dst_state := {| g_segs := []; g_store := b_empty |}.
Definition dst_step : option Z -> dst_state -> st_op -> dst_state * st_out := gst_step b_read b_put b_del b_drop.

(* ---- maintenance ---- *)
Inductive dmaint :=
| DEvictTrees (num den : nat) (order : list tkey)     (* trees.Evict(num/den), then its saves complete (dictionaries grow) *)
| DEvictDicts (num den : nat) (order : list bytes)    (* dicts.Evict(num/den), then its saves complete *)
| DClose.                                             (* Close + New: trees.Flush, THEN dicts.Flush, reopen *)

Definition b_evict_trees (num den : nat) (order : list tkey) (s : bstore) : bstore :=
  match den with
  | O => s
  | _ => match l_evict tkey_dec order (l_len (b_lfu s) * num / den) (b_lfu s) with
         | Some (l', sends) =>
             fold_left b_save sends {| b_lfu := l'; b_disk := b_disk s; b_dicts := b_dicts s; b_ok := b_ok s |}
         | None => s
         end
  end.

Definition b_evict_dicts (num den : nat) (order : list bytes) (s : bstore) : bstore :=
  {| b_lfu := b_lfu s; b_disk := b_disk s;
     b_dicts := snd (dc_run (b_dicts s) (Cache.lower1 (Cache.CEvict num den order))); b_ok := b_ok s |}.

Definition b_close (s : bstore) : bstore :=
  let s1 := fold_left b_save (Cache.flush_sends (b_lfu s)) s in
  {| b_lfu := []; b_disk := b_disk s1;
     b_dicts := snd (dc_run (b_dicts s1) (Cache.lower1 Cache.CFlushReopen)); b_ok := b_ok s1 |}.

Definition dst_maint (m : dmaint) (st : dst_state) : dst_state :=
  {| g_segs := g_segs st;
     g_store := match m with
                | DEvictTrees n d order => b_evict_trees n d order (g_store st)
                | DEvictDicts n d order => b_evict_dicts n d order (g_store st)
                | DClose => b_close (g_store st)
                end |}.

(* ---- histories: storage operations with maintenance steps of both stores inserted anywhere ---- *)
Inductive dhop := DO (o : st_op) | DM (m : dmaint).

Fixpoint d_run (rt : option Z) (h : list dhop) (st : dst_state) : dst_state * list st_out :=
  match h with
  | [] => (st, [])
  | DO o :: r =>
      let '(st1, out) := dst_step rt st o in
      let '(st2, outs) := d_run rt r st1 in
      (st2, out :: outs)
  | DM m :: r => d_run rt r (dst_maint m st)
  end.
End Bytes.

(* the same history for cache's twin (Model/StorageCached.v): the dictionaries store does not exist there *)
Definition dmap1 (x : dhop) : list chop :=
  match x with
  | DO o => [CO o]
  | DM (DEvictTrees n d order) => [CM (MEvict n d order)]
  | DM (DEvictDicts _ _ _) => []
  | DM DClose => [CM MFlushReopen]
  end.
Definition dmap (h : list dhop) : list chop := flat_map dmap1 h.
