(* Lfu.v — model of github.com/pyroscope-io/lfu-go v1.0.3 (lfu.go), the fork the cache is built on.
   Model stratum: definitions only, no proofs.

   An entry carries the value, its frequency and the `persisted` flag.  The frequency list of the Go code
   (a linked list of buckets, one per frequency, ascending) is represented by the frequencies themselves:
   the "front bucket" is the set of entries whose frequency is minimal.

   What the Go code leaves to map iteration order and to the non-blocking channel send is an ORACLE argument:
     l_evict   order count   `order` = the keys in the order the loop visited (and removed) them;
     l_persist acc           `acc`   = the keys whose write-back send was accepted, in order.
   Both functions return None when the oracle is impossible for the state (a key that is not in the front
   bucket, too few keys ...) or when the Go loop would not terminate (count larger than the number of entries). *)
From Coq Require Import List Arith Bool.
Import ListNotations.
Set Implicit Arguments.

Section Lfu.
Context {K V : Type}.
Context (keq : forall a b : K, {a = b} + {a <> b}).

Record entry := mkE { e_val : V; e_freq : nat; e_pers : bool }.
Definition lfu := list (K * entry).   (* at most one entry per key (maintained by the operations) *)

Fixpoint l_find (k : K) (l : lfu) : option entry :=
  match l with
  | [] => None
  | (k', e) :: l' => if keq k k' then Some e else l_find k l'
  end.

Fixpoint l_remove (k : K) (l : lfu) : lfu :=
  match l with
  | [] => []
  | (k', e) :: l' => if keq k k' then l_remove k l' else (k', e) :: l_remove k l'
  end.

Definition l_upd (k : K) (e : entry) (l : lfu) : lfu :=
  map (fun ke => if keq k (fst ke) then (fst ke, e) else ke) l.

Definition l_len (l : lfu) : nat := length l.      (* Cache.Len *)

(* Cache.Get: a hit clears `persisted` and moves the entry one bucket up *)
Definition l_get (k : K) (l : lfu) : option V * lfu :=
  match l_find k l with
  | Some e => (Some (e_val e), l_upd k (mkE (e_val e) (S (e_freq e)) false) l)
  | None => (None, l)
  end.

(* Cache.Set (UpperBound = LowerBound = 0: the automatic bounds are disabled by cache.New) *)
Definition l_set (k : K) (v : V) (l : lfu) : lfu :=
  match l_find k l with
  | Some e => l_upd k (mkE v (S (e_freq e)) false) l
  | None => l ++ [(k, mkE v 1 false)]
  end.

(* Cache.Delete *)
Definition l_delete (k : K) (l : lfu) : lfu := l_remove k l.

(* the object held by the entry is mutated through a pointer obtained earlier: the LFU is not involved,
   so neither the frequency nor `persisted` changes *)
Definition l_poke (k : K) (f : V -> V) (l : lfu) : lfu :=
  match l_find k l with
  | Some e => l_upd k (mkE (f (e_val e)) (e_freq e) (e_pers e)) l
  | None => l
  end.

Fixpoint l_minfreq (l : lfu) : nat :=
  match l with
  | [] => 0
  | (_, e) :: l' => match l' with [] => e_freq e | _ => Nat.min (e_freq e) (l_minfreq l') end
  end.

(* membership in the lowest-frequency bucket (c.freqs.Front()) *)
Definition l_in_front (k : K) (l : lfu) : bool :=
  match l_find k l with
  | Some e => Nat.eqb (e_freq e) (l_minfreq l)
  | None => false
  end.

Definition l_front (l : lfu) : list K :=
  map fst (filter (fun ke => Nat.eqb (e_freq (snd ke)) (l_minfreq l)) l).

(* Cache.evict(count): `count` times, take an entry of the current front bucket (which one: `order`),
   hand it to the eviction channel unless it is marked persisted, delete it.  An emptied bucket is removed,
   so the next entry comes from the next bucket.  Result: remaining entries and the blocking sends, in order. *)
Fixpoint l_evict (order : list K) (count : nat) (l : lfu) : option (lfu * list (K * V)) :=
  match count with
  | 0 => Some (l, [])
  | S c =>
      match order with
      | [] => None
      | k :: order' =>
          match l_find k l with
          | Some e =>
              if Nat.eqb (e_freq e) (l_minfreq l) then
                match l_evict order' c (l_remove k l) with
                | Some (l', sends) => Some (l', if e_pers e then sends else (k, e_val e) :: sends)
                | None => None
                end
              else None
          | None => None
          end
      end
  end.

(* Cache.persist(count) as cache.go calls it: count = Len().  The outer loop never leaves the front bucket
   (nothing is removed), so the bucket is walked ceil(len / |front|) times, the last round possibly partly;
   every entry of the bucket is visited at least once and marked persisted whether or not its non-blocking
   send was accepted.  Entries of the other buckets are neither sent nor marked. *)
Definition count_key (k : K) (l : list K) : nat :=
  length (filter (fun k' => if keq k k' then true else false) l).

Definition l_persist (acc : list K) (l : lfu) : option (lfu * list (K * V)) :=
  match l with
  | [] => match acc with [] => Some (l, []) | _ => None end
  | _ =>
      let m := length (l_front l) in
      let rounds := (l_len l + m - 1) / m in
      if forallb (fun k => l_in_front k l && Nat.leb (count_key k acc) rounds) acc && Nat.leb (length acc) (l_len l) then
        Some (map (fun ke => if Nat.eqb (e_freq (snd ke)) (l_minfreq l)
                             then (fst ke, mkE (e_val (snd ke)) (e_freq (snd ke)) true) else ke) l,
              flat_map (fun k => match l_find k l with Some e => [(k, e_val e)] | None => [] end) acc)
      else None
  end.

End Lfu.
