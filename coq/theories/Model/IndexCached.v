(* IndexCached.v — the index of Model/Index.v (labels, dimensions, series) with the DIMENSION objects behind a
   Model/Cache.v store, codec Model/DimCodec.v (Dimension.Bytes / FromBytes; a FromBytes error reads as an empty
   dimension).  Definitions only.
     Storage.Put      for every tag pair: dimensions.Get(k:v) (a miss creates dimension.New()), Insert through the pointer
     Storage.Get      dimensions.Get for every pair of the selector, then Intersection
     Storage.Delete   the same lookup, then for every selected series Delete through the pointers of its pairs' dimensions
   Maintenance: dimensions.Evict + completion of its saves, or Flush + reopen, anywhere. *)
From Pyro Require Export Model.Index Model.DimCodec Model.Lfu Model.Cache Model.StorageCached2.

Definition dxcache := Cache.cache (K:=bytes) (V:=dim) (D:=bytes).
Definition dx_dflt (n : bytes) : dim := [].
Definition dx_enc (n : bytes) (d : dim) : bytes := dim_enc d.
Definition dx_dec (n : bytes) (bs : bytes) : dim := match dim_dec bs with Some d => d | None => [] end.
Definition dx_read := g_read StorageCached2.bytes_dec dx_dflt dx_enc dx_dec.
Definition dx_reads := g_reads StorageCached2.bytes_dec dx_dflt dx_enc dx_dec.
Definition dx_poke := g_poke StorageCached2.bytes_dec dx_dflt dx_enc dx_dec.

Record cindex := { cx_labels : lstore; cx_dims : dxcache; cx_segs : segs_t }.
Definition cx_empty : cindex := {| cx_labels := []; cx_dims := Cache.c_empty; cx_segs := [] |}.

(* Get the dimension of every tag pair and apply f through the pointer *)
Definition cx_upd1 (f : dim -> dim) (c : dxcache) (kv : runes * runes) : dxcache :=
  let n := dim_name (fst kv) (snd kv) in
  let (c1, _) := dx_read n c in dx_poke n f c1.
Definition cx_upd_dims (f : dim -> dim) (K : labels) (c : dxcache) : dxcache := fold_left (cx_upd1 f) K c.

Definition cx_put (K : labels) (stack : bytes) (cnt : N) (st : cindex) : cindex :=
  let sk := normalized K in
  {| cx_labels := fold_left (fun s kv => labels_put (fst kv) (snd kv) s) K (cx_labels st);
     cx_dims := cx_upd_dims (d_insert sk) K (cx_dims st);
     cx_segs := seg_set sk (pr_add stack cnt (seg_get sk (cx_segs st))) (cx_segs st) |}.

Definition cx_select (Q : labels) (st : cindex) : cindex * option (list dkey) :=
  let (c', ds) := dx_reads (map (fun kv => dim_name (fst kv) (snd kv)) Q) (cx_dims st) in
  ({| cx_labels := cx_labels st; cx_dims := c'; cx_segs := cx_segs st |}, intersection ds).

Definition cx_select_series (Q : labels) (st : cindex) : cindex * option (list bytes) :=
  let (st', r) := cx_select Q st in
  (st', match r with
        | None => None
        | Some sks => Some (filter (fun k => seg_mem k (cx_segs st)) (map (fun sk => normalized (parse sk)) sks))
        end).

Definition cx_delete_series (K : labels) (st : cindex) : cindex :=
  {| cx_labels := cx_labels st;
     cx_dims := cx_upd_dims (d_delete (normalized K)) K (cx_dims st);
     cx_segs := seg_del (normalized K) (cx_segs st) |}.

Definition cx_delete (Q : labels) (st : cindex) : cindex :=
  let (st1, r) := cx_select Q st in
  match r with
  | None => st1
  | Some sks => fold_left (fun st sk => cx_delete_series (parse sk) st) sks st1
  end.

Definition cx_step (st : cindex) (o : iop) : cindex :=
  match o with
  | IPut K s c => cx_put K s c st
  | IDelete Q => cx_delete Q st
  | IDrop K => cx_delete_series K st
  end.

(* histories: index operations, selector lookups (observed), maintenance of the dimensions store *)
Inductive xhop :=
| XO (o : iop)
| XSel (Q : labels)
| XEvict (num den : nat) (order : list bytes)
| XFlushReopen.

Definition cx_maint (m : Cache.cop (K:=bytes) (V:=dim)) (st : cindex) : cindex :=
  {| cx_labels := cx_labels st;
     cx_dims := g_maint StorageCached2.bytes_dec dx_dflt dx_enc dx_dec m (cx_dims st);
     cx_segs := cx_segs st |}.

Fixpoint cx_run (h : list xhop) (st : cindex) : cindex * list (option (list bytes)) :=
  match h with
  | [] => (st, [])
  | XO o :: r => cx_run r (cx_step st o)
  | XSel Q :: r =>
      let (st1, out) := cx_select_series Q st in
      let (st2, outs) := cx_run r st1 in (st2, out :: outs)
  | XEvict n d order :: r => cx_run r (cx_maint (Cache.CEvict n d order) st)
  | XFlushReopen :: r => cx_run r (cx_maint Cache.CFlushReopen st)
  end.

(* the same history on the plain index of Model/Index.v *)
Fixpoint px_run (h : list xhop) (st : Index.index) : Index.index * list (option (list bytes)) :=
  match h with
  | [] => (st, [])
  | XO o :: r => px_run r (ix_step st o)
  | XSel Q :: r => let (st2, outs) := px_run r st in (st2, ix_select_series Q st :: outs)
  | _ :: r => px_run r st
  end.
