(* C20 — uploading never blocks the profiled program.  Headline theorems only.
   All statements quantify over every event sequence [evs] of the upload-queue model (Model/Upstream.v):
   any interleaving of Upload calls, worker takes, attempt outcomes (ok / http error / transport error /
   panic), worker exits and Stop, for every configuration (remote.Remote with any number of workers, or
   direct.Direct = one worker + stop branch in Upload), any capacity.
   PARTIAL: the latency of the real channel send, net/http and sockets are measured by the correspondence
   check (class < 50 ms), not proved. *)
From Pyro Require Import Model.Base Model.Upstream Proofs.UpstreamProofs.
From Coq Require Import Permutation.

(* Upload is one always-enabled step; the job ends in the queue, in the drop log, or (Direct after Stop) is
   returned silently; workers, attempts, results, stop flag and error log are untouched; the queue stays bounded *)
Theorem C20_upload_never_blocks : forall cfg evs j ps,
  let s := u_run cfg evs (u_init cfg) in
  let s' := u_step cfg s (EUpload j ps) in
  enabled cfg (EUpload j ps) s = true /\
  (s' = with_queue s (u_queue s ++ [j]) \/ s' = with_drop s j \/
   (c_mode cfg = MDirect /\ u_stopped s = true /\ s' = with_lost s j)) /\
  u_workers s' = u_workers s /\ u_attempts s' = u_attempts s /\ u_finished s' = u_finished s /\
  u_stopped s' = u_stopped s /\ u_errlog s' = u_errlog s /\
  (length (u_queue s') <= c_cap cfg)%nat.
Proof. exact upload_never_blocks. Qed.
Print Assumptions C20_upload_never_blocks.

Theorem C20_full_queue_drops_and_reports : forall cfg evs j ps,
  let s := u_run cfg evs (u_init cfg) in
  length (u_queue s) = c_cap cfg ->
  (c_mode cfg = MRemote \/ u_stopped s = false) ->
  let s' := u_step cfg s (EUpload j ps) in
  u_queue s' = u_queue s /\ u_drops s' = j :: u_drops s /\ u_lost s' = u_lost s.
Proof. exact full_queue_drops_and_reports. Qed.
Print Assumptions C20_full_queue_drops_and_reports.

(* every job handed to Upload is in exactly one place: queued, held by a worker, attempted and done,
   dropped (and logged), or — Direct after Stop only — returned silently *)
Theorem C20_jobs_conserved : forall cfg evs,
  let s := u_run cfg evs (u_init cfg) in
  Permutation (uploaded evs)
    (u_queue s ++ busy_jobs (u_workers s) ++ finished_jobs s ++ u_drops s ++ u_lost s).
Proof. exact jobs_conserved. Qed.
Print Assumptions C20_jobs_conserved.

Theorem C20_remote_accepted_plus_dropped : forall cfg evs,
  c_mode cfg = MRemote ->
  let s := u_run cfg evs (u_init cfg) in
  length (uploaded evs) =
  (length (u_queue s) + length (busy_jobs (u_workers s)) + length (finished_jobs s) + length (u_drops s))%nat.
Proof. exact remote_accepted_plus_dropped. Qed.
Print Assumptions C20_remote_accepted_plus_dropped.

(* attempted at most once each, only jobs that were uploaded, never a dropped or still queued one,
   and only by one of the k workers (never by the caller of Upload) *)
Theorem C20_attempted_at_most_once : forall cfg evs,
  NoDup (job_ids (uploaded evs)) ->
  let s := u_run cfg evs (u_init cfg) in
  NoDup (job_ids (attempt_jobs s)) /\
  (forall j, In j (attempt_jobs s) -> In j (uploaded evs)) /\
  (forall j, In j (attempt_jobs s) -> ~ In (j_id j) (job_ids (u_drops s)) /\ ~ In (j_id j) (job_ids (u_queue s))) /\
  Forall (fun a => (fst (fst a) < c_workers cfg)%nat) (u_attempts s).
Proof. exact attempted_at_most_once. Qed.
Print Assumptions C20_attempted_at_most_once.

(* a panic ends the attempt, not the worker *)
Theorem C20_panic_keeps_worker : forall cfg evs w j,
  let s := u_run cfg evs (u_init cfg) in
  nth_error (u_workers s) w = Some (WBusy j) ->
  let s' := u_step cfg s (EFinish w OPanic) in
  nth_error (u_workers s') w = Some WIdle /\
  u_errlog s' = (u_errlog s + 1)%N /\
  u_queue s' = u_queue s /\
  (u_queue s <> [] -> enabled cfg (ETake w) s' = true).
Proof. exact panic_keeps_worker. Qed.
Print Assumptions C20_panic_keeps_worker.

Theorem C20_workers_survive_without_stop : forall cfg evs,
  has_stop evs = false ->
  let s := u_run cfg evs (u_init cfg) in
  length (u_workers s) = c_workers cfg /\ forallb alive (u_workers s) = true.
Proof. exact workers_survive_without_stop. Qed.
Print Assumptions C20_workers_survive_without_stop.

(* ... so later uploads still happen: from every reachable state before Stop there is a continuation in which
   every queued job is attempted, even if every single attempt panics *)
Theorem C20_queue_can_always_drain : forall cfg evs,
  has_stop evs = false -> (0 < c_workers cfg)%nat ->
  let s := u_run cfg evs (u_init cfg) in
  exists sched, let s' := u_run cfg sched s in
    u_queue s' = [] /\ (forall j, In j (u_queue s) -> In j (finished_jobs s')).
Proof. exact queue_can_always_drain. Qed.
Print Assumptions C20_queue_can_always_drain.

(* the bearer token is attached iff one is configured; the other fields are the job's *)
Theorem C20_auth_iff_token : forall cfg j r,
  build_request cfg j = Some r ->
  (rq_auth r = None <-> c_token cfg = []) /\
  (c_token cfg <> [] -> rq_auth r = Some (ascii_bearer ++ c_token cfg)) /\
  rq_name r = j_name j /\ rq_from r = j_from j /\ rq_until r = j_until j /\ rq_spy r = j_spy j /\
  rq_rate r = j_rate j /\ rq_units r = j_units j /\ rq_agg r = j_agg j /\ rq_ctype r = ascii_ctype.
Proof. exact auth_iff_token. Qed.
Print Assumptions C20_auth_iff_token.

Theorem C20_attempts_carry_built_request : forall cfg evs,
  let s := u_run cfg evs (u_init cfg) in
  Forall (fun a => (fst (fst a) < c_workers cfg)%nat /\ snd a = build_request cfg (snd (fst a))) (u_attempts s).
Proof. exact attempts_carry_built_request. Qed.
Print Assumptions C20_attempts_carry_built_request.

Theorem C20_failures_are_logged : forall cfg evs,
  let s := u_run cfg evs (u_init cfg) in u_errlog s = count_bad (u_finished s).
Proof. exact failures_are_logged. Qed.
Print Assumptions C20_failures_are_logged.

(* the hypotheses are satisfiable by a non-trivial run: 2 workers, capacity 2, five uploads, one drop,
   one panic, the panicking worker takes the next job *)
Example C20_nonvacuous :
  let s := u_run ex_cfg ex_evs (u_init ex_cfg) in
  NoDup (job_ids (uploaded ex_evs)) /\ has_stop ex_evs = false /\
  job_ids (u_drops s) = [5%N] /\ job_ids (u_queue s) = [4%N] /\
  map (fun a => (fst (fst a), j_id (snd (fst a)), snd a)) (u_finished s) = [(0%nat, 1%N, OPanic)] /\
  nth_error (u_workers s) 0%nat = Some (WBusy (ex_job 3 false)) /\
  u_errlog s = 1%N.
Proof. exact ex_upstream_nonvacuous. Qed.
