(* C03 — no invented samples, nothing lost at full zoom-out.  Headline theorems only.
   Model: Model/Segment.v (time in 10 s slots since year 1).  Hypothesis throughout: every write
   lies in one epoch block K (10^8 slots = 10^9 s counted from year 1), is non-empty, and carries a
   non-negative per-slot amount ([valid_write K]). *)
From Pyro Require Import Model.Base Model.Float53 Model.Segment
  Proofs.SegmentProofs Proofs.SegStruct Proofs.SegGet Proofs.SegStore Proofs.SegInv Proofs.SegRead Proofs.SegMax Proofs.SegCanon Proofs.SegCanon18.
Local Open Scope Z_scope.

(* the five-way classification is the set-theoretic relation between node and range *)
Theorem C03_rel_spec : forall t1 t2 st et, t1 < t2 -> st < et ->
  match relationship t1 t2 st et with
  | Match => t1 = st /\ t2 = et
  | Inside => t1 <= st /\ et <= t2 /\ ~ (t1 = st /\ t2 = et)
  | Contain => st <= t1 /\ t2 <= et /\ ~ (t1 = st /\ t2 = et)
  | Outside => t2 <= st \/ et <= t1
  | Overlap => (t1 < st /\ st < t2 /\ t2 < et) \/ (st < t1 /\ t1 < et /\ et < t2)
  end.
Proof. exact rel_spec. Qed.
Print Assumptions C03_rel_spec.

(* every reachable segment is on the bucket grid, has root level <= 8, and every bucket with at
   least two children is present *)
Theorem C03_reachable_wf : forall K ws, Forall (valid_write K) ws -> seg_ok K (fst (run_writes ws)).
Proof. exact run_writes_ok. Qed.
Print Assumptions C03_reachable_wf.

Theorem C03_two_children_present : forall K ws, Forall (valid_write K) ws ->
  s_twob (fst (run_writes ws)) = true.
Proof. exact two_children_present. Qed.
Print Assumptions C03_two_children_present.

(* the buckets named by get, for any history and any aligned range: pairwise disjoint (in fact in
   increasing order), inside the range, taken whole (ratio 1/1), present in the tree, and each was
   named by some earlier put callback (its stored profile exists) *)
Theorem C03_cover_disjoint_present : forall K ws a b, Forall (valid_write K) ws -> a < b ->
  let s := fst (run_writes ws) in
  let g := s_get a b s in
  ForallOrdPairs (fun x y => gc_end x <= gc_t y) g /\
  Forall (fun c => a <= gc_t c /\ gc_end c <= b /\ gc_m c = 1 /\ gc_d c = 1 /\
                   In (gc_key c) (s_pkeys s) /\
                   In (gc_key c) (map pc_key (hist_cbs ws s_empty))) g.
Proof. exact get_sound. Qed.
Print Assumptions C03_cover_disjoint_present.

(* The exact store: [run_writes ws] applies every put callback to a store of integers,
   store[k] += m * beta + sum of store[addons], beta = per-slot amount of the write (profile = span * beta).
   [read_sum E (s_get a b s)] is what a reader assembles from the buckets get names.
   [WR ws a b] = sum over the writes of (slots of the write inside [a,b)) * beta. *)

(* no invented samples: for every history of writes of any span and every aligned range, what is
   returned is at most what was ingested into the range (any non-negative amounts, hence per stack) *)
Theorem C03_no_more : forall K ws a b, Forall (valid_write K) ws -> a < b ->
  read_sum (snd (run_writes ws)) (s_get a b (fst (run_writes ws))) <= WR ws a b.
Proof. exact no_more. Qed.
Print Assumptions C03_no_more.

(* ... and per write: tag write k with one unit per slot and every other write with none *)
Theorem C03_no_more_per_write : forall K ws k w a b,
  Forall (in_block_w K) ws -> nth_error ws k = Some w -> a < b ->
  read_sum (snd (run_writes (tag k ws))) (s_get a b (fst (run_writes ws))) <= ov (w_a w) (w_b w) a b.
Proof. exact no_more_per_write. Qed.
Print Assumptions C03_no_more_per_write.

(* nothing lost at full zoom-out: a range covering all writes returns every write entirely *)
Theorem C03_total : forall K ws a b, Forall (valid_write K) ws -> a < b ->
  Forall (fun w => a <= w_a w /\ w_b w <= b) ws ->
  read_sum (snd (run_writes ws)) (s_get a b (fst (run_writes ws))) =
  sumZ (map (fun w => (w_b w - w_a w) * w_beta w) ws).
Proof. exact total. Qed.
Print Assumptions C03_total.

Theorem C03_total_per_write : forall K ws k w a b,
  Forall (in_block_w K) ws -> nth_error ws k = Some w -> a < b ->
  Forall (fun w => a <= w_a w /\ w_b w <= b) ws ->
  read_sum (snd (run_writes (tag k ws))) (s_get a b (fst (run_writes ws))) = w_b w - w_a w.
Proof. exact total_per_write. Qed.
Print Assumptions C03_total_per_write.

(* splitting a range in two never yields more than querying it whole *)
Theorem C03_split : forall K ws s m e, Forall (valid_write K) ws -> s < m -> m < e ->
  read_sum (snd (run_writes ws)) (s_get s m (fst (run_writes ws))) +
  read_sum (snd (run_writes ws)) (s_get m e (fst (run_writes ws))) <=
  read_sum (snd (run_writes ws)) (s_get s e (fst (run_writes ws))).
Proof. exact split. Qed.
Print Assumptions C03_split.

(* get is answered from the largest pre-aggregated buckets that fit: no bucket it names lies strictly
   below a present bucket that itself fits in the range *)
Theorem C03_maximal : forall K ws a b, Forall (valid_write K) ws -> a < b ->
  let s := fst (run_writes ws) in
  forall c k, In c (s_get a b s) -> In k (s_pkeys s) -> fits a b k -> ~ sbelow (gc_key c) k.
Proof. exact maximal. Qed.
Print Assumptions C03_maximal.

(* sub-range answers are exact (not only bounded) when no write contains an aligned 100 s bucket *)
Theorem C03_exact_short_writes : forall K ws a b, Forall (valid_write K) ws -> a < b ->
  Forall (fun w => w_b w - w_a w < 10) ws ->
  read_sum (snd (run_writes ws)) (s_get a b (fst (run_writes ws))) =
    sumZ (map (fun w => w_beta w * ov (w_a w) (w_b w) a b) ws) /\
  Forall (fun c => gc_m c = 1 /\ gc_d c = 1) (s_get a b (fst (run_writes ws))).
Proof. exact seg_read_exact. Qed.
Print Assumptions C03_exact_short_writes.

(* C03_canonical, full statement (NOT proved as such, and false without a restriction on spans):
     for a window in which every slot was written, the cover of any aligned sub-range is the canonical
     decomposition into aligned power-of-ten buckets [s_canon], with at most 18 buckets per level.
   Proved: [C03_canonical_partial] — the same with the added hypothesis that every write spans fewer
   than 10 slots (no write contains an aligned bucket of level >= 1); it only needs the slots of the
   queried range itself to have been written.  [C03_canonical_refuted] — a machine-checked witness that
   the statement fails when a write contains an aligned 1000 s bucket and a later one-slot write creates
   a 100 s bucket below it (that bucket is not pre-aggregated: the cover is the single slot).
   [C03_canonical_general] — for writes of any span: canonical iff-condition "every aligned bucket fitting in the
   range is a present node"; [C03_canonical_refuted_fully_written] — one long write, every slot written, cover empty.
   [C03_canonical_size] — the canonical decomposition has at most 18 buckets of every level (at most one
   at the level of the root bucket), so under the hypotheses of [C03_canonical_partial] so has the cover. *)
Theorem C03_canonical_partial : forall K ws a b,
  Forall (valid_write K) ws -> Forall (fun w => w_b w - w_a w < 10) ws -> a < b ->
  (forall x, a <= x < b -> exists w, In w ws /\ w_a w <= x < w_b w) ->
  match s_root (fst (run_writes ws)) with
  | Some (lvl, n) => map gc_key (s_get a b (fst (run_writes ws))) = s_canon lvl (sn_time n) a b
  | None => True
  end.
Proof. exact canonical. Qed.
Print Assumptions C03_canonical_partial.

(* writes of ANY span: the cover is canonical exactly when the tree is fully pre-aggregated for the range, i.e.
   every aligned bucket below the root that fits in the range is a present node ([C03_canonical_partial] is the
   instance where writes shorter than 10 slots and a fully written range guarantee that) *)
Theorem C03_canonical_general : forall K ws a b, Forall (valid_write K) ws -> a < b ->
  match s_root (fst (run_writes ws)) with
  | Some (lvl, n) =>
      (forall k, abucket lvl (sn_time n) k -> fits a b k -> In k (pkeys lvl n)) ->
      map gc_key (s_get a b (fst (run_writes ws))) = s_canon lvl (sn_time n) a b
  | None => True
  end.
Proof. exact canonical_general. Qed.
Print Assumptions C03_canonical_general.

(* ... and a long write never leaves the tree pre-aggregated below the buckets it contains (they get a profile
   and no children): the property's proviso "for a fully written series" does not rescue the statement.
   Witness: ONE write covering exactly one aligned 1000 s bucket, so that every slot of the series is
   written; the aligned 100 s sub-range [610,620) has the canonical decomposition {that bucket}, the cover is
   EMPTY and the answer is 0 of the 20 units written there. *)
Theorem C03_canonical_refuted_fully_written :
  Forall (valid_write 63) canon_cex1 /\
  option_map (fun r => (fst r, sn_time (snd r), sn_present (snd r))) (s_root (fst (run_writes canon_cex1))) = Some (2%nat, 6321559600, true) /\
  (forall x, 6321559600 <= x < 6321559700 -> exists w, In w canon_cex1 /\ w_a w <= x < w_b w) /\
  s_get 6321559610 6321559620 (fst (run_writes canon_cex1)) = [] /\
  s_canon 2 6321559600 6321559610 6321559620 = [(1%nat, 6321559610)] /\
  WR canon_cex1 6321559610 6321559620 = 20.
Proof. exact canonical_refuted_one_long_write. Qed.
Print Assumptions C03_canonical_refuted_fully_written.

Theorem C03_canonical_size : forall lvl t a b j, a < b -> (cnt j (s_canon lvl t a b) <= 18)%nat.
Proof. exact canon_at_most_18. Qed.
Print Assumptions C03_canonical_size.

Theorem C03_canonical_refuted :
  Forall (valid_write 63) canon_cex /\
  (forall x, 6321559610 <= x < 6321559620 -> exists w, In w canon_cex /\ w_a w <= x < w_b w) /\
  s_root (fst (run_writes canon_cex)) <> None /\
  match s_root (fst (run_writes canon_cex)) with
  | Some (lvl, n) => map gc_key (s_get 6321559610 6321559620 (fst (run_writes canon_cex)))
                     <> s_canon lvl (sn_time n) 6321559610 6321559620
  | None => True
  end.
Proof. exact canonical_refuted. Qed.
Print Assumptions C03_canonical_refuted.

(* a concrete non-trivial history satisfying the hypotheses: a 25-slot write across a 100-slot
   boundary followed by a single-slot write, queried on a range that cuts present buckets; and a
   history with a write that contains an aligned 1000 s bucket, where a sub-range answer is strictly
   below what was written (approximate) while the whole is exact *)
Definition ex_ws : list write :=
  [ {| w_a := 6321559690; w_b := 6321559715; w_smp := 100%N; w_beta := 2 |};
    {| w_a := 6321559688; w_b := 6321559689; w_smp := 7%N; w_beta := 1 |} ].
Definition ex_ws2 : list write :=
  [ {| w_a := 6321559600; w_b := 6321559700; w_smp := 100%N; w_beta := 2 |};
    {| w_a := 6321559613; w_b := 6321559614; w_smp := 7%N; w_beta := 1 |} ].
Example C03_nonvacuous :
  Forall (valid_write 63) ex_ws /\ Forall (in_block_w 63) ex_ws /\ Forall (valid_write 63) ex_ws2 /\
  length (s_get 6321559685 6321559712 (fst (run_writes ex_ws))) = 5%nat /\
  read_sum (snd (run_writes ex_ws)) (s_get 6321559685 6321559712 (fst (run_writes ex_ws))) = 45 /\
  WR ex_ws 6321559685 6321559712 = 45 /\
  read_sum (snd (run_writes ex_ws2)) (s_get 6321559610 6321559620 (fst (run_writes ex_ws2))) = 1 /\
  WR ex_ws2 6321559610 6321559620 = 21 /\
  read_sum (snd (run_writes ex_ws2)) (s_get 6321559600 6321559700 (fst (run_writes ex_ws2))) = 201.
Proof.
  split; [|split; [|split; [|split; [|split; [|split; [|split; [|split]]]]]]].
  - repeat constructor; cbn; unfold pow10; cbn; lia.
  - repeat constructor; cbn; unfold pow10; cbn; lia.
  - repeat constructor; cbn; unfold pow10; cbn; lia.
  - vm_compute. reflexivity.
  - vm_compute. reflexivity.
  - vm_compute. reflexivity.
  - vm_compute. reflexivity.
  - vm_compute. reflexivity.
  - vm_compute. reflexivity.
Qed.
