(* C03 — no invented samples, nothing lost at full zoom-out.  Headline theorems only. *)
From Pyro Require Import Model.Base Model.Float53 Model.Segment Proofs.SegmentProofs.
Local Open Scope Z_scope.

Theorem C03_rel_spec : forall t1 t2 st et, t1 < t2 -> st < et ->
  match relationship t1 t2 st et with
  | Match => t1 = st /\ t2 = et
  | Inside => t1 <= st /\ et <= t2 /\ ~ (t1 = st /\ t2 = et)
  | Contain => st <= t1 /\ t2 <= et /\ ~ (t1 = st /\ t2 = et)
  | Outside => t2 <= st \/ et <= t1
  | Overlap => (t1 < st /\ st < t2 /\ t2 < et) \/ (st < t1 /\ t1 < et /\ et < t2)
  end.
Proof. exact rel_spec. Qed.
Print Assumptions C03_rel_spec.
