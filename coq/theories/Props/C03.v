(* C03 — no invented samples, nothing lost at full zoom-out.  Headline theorems only.
   Model: Model/Segment.v (time in 10 s slots since year 1).  Hypothesis throughout: every write
   lies in one epoch block K (10^8 slots = 10^9 s counted from year 1), is non-empty, and carries a
   non-negative per-slot amount ([valid_write K]). *)
From Pyro Require Import Model.Base Model.Float53 Model.Segment
  Proofs.SegmentProofs Proofs.SegStruct Proofs.SegGet.
Local Open Scope Z_scope.

(* the five-way classification is the set-theoretic relation between node and range *)
Theorem C03_rel_spec : forall t1 t2 st et, t1 < t2 -> st < et ->
  match relationship t1 t2 st et with
  | Match => t1 = st /\ t2 = et
  | Inside => t1 <= st /\ et <= t2 /\ ~ (t1 = st /\ t2 = et)
  | Contain => st <= t1 /\ t2 <= et /\ ~ (t1 = st /\ t2 = et)
  | Outside => t2 <= st \/ et <= t1
  | Overlap => (t1 < st /\ st < t2 /\ t2 < et) \/ (st < t1 /\ t1 < et /\ et < t2)
  end.
Proof. exact rel_spec. Qed.
Print Assumptions C03_rel_spec.

(* every reachable segment is on the bucket grid, has root level <= 8, and every bucket with at
   least two children is present *)
Theorem C03_reachable_wf : forall K ws, Forall (valid_write K) ws -> seg_ok K (fst (run_writes ws)).
Proof. exact run_writes_ok. Qed.
Print Assumptions C03_reachable_wf.

Theorem C03_two_children_present : forall K ws, Forall (valid_write K) ws ->
  s_twob (fst (run_writes ws)) = true.
Proof. exact two_children_present. Qed.
Print Assumptions C03_two_children_present.

(* the buckets named by get, for any history and any aligned range: pairwise disjoint (in fact in
   increasing order), inside the range, taken whole (ratio 1/1), present in the tree, and each was
   named by some earlier put callback (its stored profile exists) *)
Theorem C03_cover_disjoint_present : forall K ws a b, Forall (valid_write K) ws -> a < b ->
  let s := fst (run_writes ws) in
  let g := s_get a b s in
  ForallOrdPairs (fun x y => gc_end x <= gc_t y) g /\
  Forall (fun c => a <= gc_t c /\ gc_end c <= b /\ gc_m c = 1 /\ gc_d c = 1 /\
                   In (gc_key c) (s_pkeys s) /\
                   In (gc_key c) (map pc_key (hist_cbs ws s_empty))) g.
Proof. exact get_sound. Qed.
Print Assumptions C03_cover_disjoint_present.

(* a concrete non-trivial history satisfying the hypotheses: a 25-slot write across a 100-slot
   boundary followed by a single-slot write, queried on a range that cuts present buckets *)
Definition ex_ws : list write :=
  [ {| w_a := 6321559690; w_b := 6321559715; w_smp := 100%N; w_beta := 2 |};
    {| w_a := 6321559688; w_b := 6321559689; w_smp := 7%N; w_beta := 1 |} ].
Example C03_nonvacuous :
  Forall (valid_write 63) ex_ws /\
  length (s_get 6321559685 6321559712 (fst (run_writes ex_ws))) = 5%nat.
Proof.
  split.
  - repeat constructor; cbn; unfold pow10; cbn; lia.
  - vm_compute. reflexivity.
Qed.
