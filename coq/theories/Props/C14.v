(* C14 — reloading a series' time index changes nothing observable.  Headline theorems only.
   Model: Model/SegCodec.v (serialization.go, format version 2) over Model/Segment.v.
   encoding/json of the four metadata fields is an abstract pair [enc_meta]/[dec_meta]; the
   theorems assume it round-trips (hypothesis [meta_roundtrip]) and that the block is shorter than 2^64. *)
From Pyro Require Import Model.Base Model.Varint Model.Float53 Model.Segment Model.SegCodec Model.MetaJson
  Proofs.SegStruct Proofs.SegCodecProofs Proofs.MetaJsonProofs Proofs.SegCodecJson.
Local Open Scope Z_scope.

(* every segment reachable by writes (any spans/positions inside one epoch block), retention cuts and
   SetMetadata is well-formed: on the bucket grid, ten slots per node, root level <= 8 *)
Theorem C14_reachable_wf : forall K s, reachable K s -> seg_ok K s.
Proof. exact reachable_ok. Qed.
Print Assumptions C14_reachable_wf.

(* deserialize (serialize s) = s as model states, for every well-formed non-empty segment whose
   counters and node times fit in 64 bits *)
Theorem C14_roundtrip : forall (enc_meta : meta -> bytes) (dec_meta : bytes -> option meta),
  (forall m, dec_meta (enc_meta m) = Some m) -> (forall m, (Nlen (enc_meta m) < 2 ^ 64)%N) ->
  forall K s, seg_ok K s -> seg_bounded s -> s_root s <> None ->
    s_deserialize dec_meta (s_serialize enc_meta s) = Some s.
Proof. exact codec_roundtrip. Qed.
Print Assumptions C14_roundtrip.

(* ... in particular for every reachable one *)
Theorem C14_roundtrip_reachable : forall (enc_meta : meta -> bytes) (dec_meta : bytes -> option meta),
  (forall m, dec_meta (enc_meta m) = Some m) -> (forall m, (Nlen (enc_meta m) < 2 ^ 64)%N) ->
  forall K s, reachable K s -> seg_bounded s -> s_root s <> None ->
    s_deserialize dec_meta (s_serialize enc_meta s) = Some s.
Proof. intros e d H1 H2 K s Hr. apply (codec_roundtrip e d H1 H2 K). apply reachable_ok. exact Hr. Qed.
Print Assumptions C14_roundtrip_reachable.

(* hence every later put / get / retention pass / any function of the state (timeline, StartTime,
   getters) gives the same result on the reloaded copy, and re-saving yields identical bytes *)
Theorem C14_reload_any : forall (A : Type) (f : segment -> A)
  (enc_meta : meta -> bytes) (dec_meta : bytes -> option meta),
  (forall m, dec_meta (enc_meta m) = Some m) -> (forall m, (Nlen (enc_meta m) < 2 ^ 64)%N) ->
  forall K s, seg_ok K s -> seg_bounded s -> s_root s <> None ->
    option_map f (s_deserialize dec_meta (s_serialize enc_meta s)) = Some (f s).
Proof. intros A f e d H1 H2. exact (reload_any e d H1 H2 f). Qed.
Print Assumptions C14_reload_any.

Theorem C14_reload_put : forall (enc_meta : meta -> bytes) (dec_meta : bytes -> option meta),
  (forall m, dec_meta (enc_meta m) = Some m) -> (forall m, (Nlen (enc_meta m) < 2 ^ 64)%N) ->
  forall K s a b smp, seg_ok K s -> seg_bounded s -> s_root s <> None ->
    option_map (s_put a b smp) (s_deserialize dec_meta (s_serialize enc_meta s)) = Some (s_put a b smp s).
Proof. intros e d H1 H2 K s a b smp. exact (reload_put e d H1 H2 K s a b smp). Qed.
Print Assumptions C14_reload_put.

Theorem C14_reload_get : forall (enc_meta : meta -> bytes) (dec_meta : bytes -> option meta),
  (forall m, dec_meta (enc_meta m) = Some m) -> (forall m, (Nlen (enc_meta m) < 2 ^ 64)%N) ->
  forall K s a b, seg_ok K s -> seg_bounded s -> s_root s <> None ->
    option_map (s_get a b) (s_deserialize dec_meta (s_serialize enc_meta s)) = Some (s_get a b s).
Proof. intros e d H1 H2 K s a b. exact (reload_get e d H1 H2 K s a b). Qed.
Print Assumptions C14_reload_get.

Theorem C14_reload_delete : forall (enc_meta : meta -> bytes) (dec_meta : bytes -> option meta),
  (forall m, dec_meta (enc_meta m) = Some m) -> (forall m, (Nlen (enc_meta m) < 2 ^ 64)%N) ->
  forall K s thr, seg_ok K s -> seg_bounded s -> s_root s <> None ->
    option_map (s_delete_before thr) (s_deserialize dec_meta (s_serialize enc_meta s)) = Some (s_delete_before thr s).
Proof. intros e d H1 H2 K s thr. exact (reload_delete e d H1 H2 K s thr). Qed.
Print Assumptions C14_reload_delete.

Theorem C14_resave_identical : forall (enc_meta : meta -> bytes) (dec_meta : bytes -> option meta),
  (forall m, dec_meta (enc_meta m) = Some m) -> (forall m, (Nlen (enc_meta m) < 2 ^ 64)%N) ->
  forall K s, seg_ok K s -> seg_bounded s -> s_root s <> None ->
    option_map (s_serialize enc_meta) (s_deserialize dec_meta (s_serialize enc_meta s)) = Some (s_serialize enc_meta s).
Proof. intros e d H1 H2 K s. exact (reload_bytes e d H1 H2 K s). Qed.
Print Assumptions C14_resave_identical.

(* ---- the same with the metadata JSON modelled concretely (Model/MetaJson.v: json.Marshal of the map with
   encoding/json's string escaping, and a JSON object reader): no hypothesis about encoding/json is left ---- *)

(* the metadata block round-trips for valid UTF-8 strings and a uint32 rate *)
Theorem C14_meta_json_roundtrip : forall m, meta_validb m = true -> read_meta (write_meta m) = Some m.
Proof. exact meta_json_roundtrip. Qed.
Print Assumptions C14_meta_json_roundtrip.

(* for arbitrary bytes what comes back is the strings with malformed UTF-8 replaced by U+FFFD
   (the known finding metadata-invalid-utf8, as a theorem about the model) *)
Theorem C14_meta_json_fix : forall m, (m_rate m < 2 ^ 32)%N -> read_meta (write_meta m) = Some (fix_meta m).
Proof. exact read_write_meta. Qed.
Print Assumptions C14_meta_json_fix.

Theorem C14_roundtrip_json : forall K s, reachable K s -> seg_bounded s -> s_root s <> None -> meta_ok (s_meta s) ->
  s_deserialize read_meta (s_serialize write_meta s) = Some s.
Proof. exact codec_roundtrip_json_reachable. Qed.
Print Assumptions C14_roundtrip_json.

Theorem C14_roundtrip_json_fix : forall K s, seg_ok K s -> seg_bounded s -> s_root s <> None ->
  (m_rate (s_meta s) < 2 ^ 32)%N ->
  (Nlen (m_spy (s_meta s)) + Nlen (m_units (s_meta s)) + Nlen (m_agg (s_meta s)) < 2 ^ 60)%N ->
  s_deserialize read_meta (s_serialize write_meta s) = Some {| s_root := s_root s; s_meta := fix_meta (s_meta s) |}.
Proof. exact codec_roundtrip_json_fix. Qed.
Print Assumptions C14_roundtrip_json_fix.

(* non-vacuity: a three-level segment built by two writes and a retention cut is reachable, bounded
   and non-empty, and the codec round-trips on it (with the metadata block taken as given) *)
Definition ex_seg : segment :=
  fst (s_put 6321559688 6321559689 7
        (fst (fst (s_delete_before 6321559700
          (fst (s_put 6321559690 6321559715 100 s_empty)))))).
Example C14_nonvacuous :
  reachable 63 ex_seg /\ seg_bounded ex_seg /\ s_root ex_seg <> None /\
  s_deserialize (fun _ => Some (s_meta ex_seg)) (s_serialize (fun _ => []) ex_seg) = Some ex_seg /\
  (* concrete JSON: quotes, '<', newline, U+2028, non-BMP, NUL *)
  let m := {| m_spy := [103; 34; 60; 10; 226; 128; 168]%N; m_rate := 4294967295%N;
              m_units := [240; 159; 152; 128; 0]%N; m_agg := [115; 117; 109]%N |} in
  meta_ok m /\ s_deserialize read_meta (s_serialize write_meta (s_set_meta m ex_seg)) = Some (s_set_meta m ex_seg).
Proof.
  split; [|split; [|split; [|split]]].
  - unfold ex_seg. apply reach_put; [apply reach_del; apply reach_put; [apply reach_empty|]|];
      unfold valid_range; change (pow10 8) with 100000000; lia.
  - apply seg_boundedb_bounded. vm_compute. reflexivity.
  - assert (H : exists r, s_root ex_seg = Some r) by (vm_compute; eexists; reflexivity).
    destruct H as [r H]. rewrite H. discriminate.
  - vm_compute. reflexivity.
  - cbv zeta. split; [split; vm_compute; reflexivity|]. vm_compute. reflexivity.
Qed.
