(* C14 — reloading a series' time index changes nothing observable.  Headline theorems only. *)
From Pyro Require Import Model.Base Model.Varint Model.Float53 Model.Segment Model.SegCodec
  Proofs.SegCodecProofs.
Local Open Scope Z_scope.

Theorem C14_time_roundtrip : forall t, - 2 ^ 63 <= slot_to_unix t < 2 ^ 63 ->
  time_dec (time_enc t) = Some t /\ (time_enc t < 2 ^ 64)%N.
Proof. exact time_roundtrip. Qed.
Print Assumptions C14_time_roundtrip.
