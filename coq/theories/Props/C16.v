(* C16 — ingest is acknowledged only if stored whole; bad requests harm nothing.  Headline theorems only.
   Model: Model/Server.v.  The handlers are functions request x environment x state -> outcome x state over an abstract
   storage state; the body parsers, the key parser and the storage put are Section variables (the only thing used about a
   body parser is that it is a total function bytes -> option tree).  Go run-time panics are explicit outcomes. *)
From Pyro Require Import Model.Base Model.TimeParse Model.Server Proofs.TimeParseProofs Proofs.ServerProofs.
From Pyro Require Import Model.Tree Model.Segment Model.Storage Model.TTrie Model.TextFormats Proofs.StorageProofs Proofs.C06ProfileProofs Proofs.C16Concrete.
From Pyro Require Model.Ingest Proofs.TreeCodecProofs.
Local Open Scope Z_scope.

Section C16.
  Variables (tree key meta state : Type).
  Variable parse_key : bytes -> key.
  Variable meta_of : query -> meta.
  Variables parse_tree parse_trie parse_lines parse_groups : bytes -> option tree.
  Variable put : key -> Z -> Z -> tree -> meta -> state -> state.

  Notation ingest := (ingest tree key meta state parse_key meta_of parse_tree parse_trie parse_lines parse_groups put).
  Notation ingest_params_of := (ingest_params_of key meta parse_key meta_of).
  Notation parser_of := (parser_of tree parse_tree parse_trie parse_lines parse_groups).
  Notation run := (run tree key meta state parse_key meta_of parse_tree parse_trie parse_lines parse_groups put).

  (* status 200 => the new state is the put of the WHOLE parsed body under the requested key, with the metadata of the
     query, in a window of at least one 10 s slot that starts at from rounded down to 10 s; and neither refusal applied *)
  Theorem C16_ack : forall rq e st st', ingest rq e st = (Status 200, st') ->
    exists ip t w0 w1,
      ingest_params_of rq e = Some ip /\
      parser_of (ip_format _ _ ip) (rq_body rq) = Some t /\
      w0 = floor10 (ip_from _ _ ip) /\ w0 + ten_s <= w1 /\
      e_space_ok e = true /\
      (forall thr, e_retention_thr e = Some thr -> thr <= ip_from _ _ ip) /\
      st' = put (ip_key _ _ ip) w0 w1 t (ip_meta _ _ ip) st.
  Proof. exact (ingest_ack tree key meta state parse_key meta_of parse_tree parse_trie parse_lines parse_groups put). Qed.

  (* any other outcome => the state is unchanged: nothing of the request is visible, no earlier answer changes *)
  Theorem C16_reject : forall rq e st o st', ingest rq e st = (o, st') -> o <> Status 200 -> st' = st.
  Proof. exact (ingest_reject tree key meta state parse_key meta_of parse_tree parse_trie parse_lines parse_groups put). Qed.

  (* no combination of parameters, body bytes and environment makes a handler take a panic branch *)
  Theorem C16_total : forall rq e st, exists code, fst (ingest rq e st) = Status code.
  Proof. exact (ingest_total tree key meta state parse_key meta_of parse_tree parse_trie parse_lines parse_groups put). Qed.

  Theorem C16_render_total : forall q n1 n2, exists code, render q n1 n2 = Status code.
  Proof. exact (render_total tree key meta state meta_of put). Qed.

  (* whole request sequences, any length, any mix: every outcome is a status, and the final state is the one obtained by
     performing only the acknowledged requests (rejected ones can be erased from the history) *)
  Theorem C16_history_total : forall l st, Forall (fun o => exists code, o = Status code) (fst (run l st)).
  Proof. exact (run_total tree key meta state parse_key meta_of parse_tree parse_trie parse_lines parse_groups put). Qed.

  Theorem C16_history_rejected_erasable : forall l st,
    snd (run l st) =
    run_acked tree key meta state parse_key meta_of parse_tree parse_trie parse_lines parse_groups put l st.
  Proof. exact (run_state tree key meta state parse_key meta_of parse_tree parse_trie parse_lines parse_groups put). Qed.
End C16.

Print Assumptions C16_ack.
Print Assumptions C16_reject.
Print Assumptions C16_total.
Print Assumptions C16_render_total.
Print Assumptions C16_history_total.
Print Assumptions C16_history_rejected_erasable.

(* the reversed window of D8 (from=110, until=105) is acknowledged and lands in the slot [110 s, 120 s);
   an instance with a state that records every put: the hypotheses of C16_ack and C16_reject are both inhabited *)
Definition ex_put (k : bytes) (w0 w1 : Z) (t : bytes) (m : unit) (st : list (bytes * Z * Z * bytes)) := (k, w0, w1, t) :: st.
Definition ex_parser (ok : bool) (b : bytes) : option bytes := if ok then Some b else None.
Definition ex_ingest (ok : bool) := ingest bytes bytes unit (list (bytes * Z * Z * bytes)) (fun n => n) (fun _ => tt)
  (ex_parser ok) (ex_parser ok) (ex_parser ok) (ex_parser ok) ex_put.
Definition ex_rq : request :=
  {| rq_query := [(k_from, [49;49;48]%N); (k_until, [49;48;53]%N); (k_name, [97]%N)]; rq_content_type := []; rq_body := [97;32;49]%N |}.
Definition ex_env : env := {| e_now_from := 0; e_now_until := 0; e_space_ok := true; e_retention_thr := None |}.

Example C16_ack_nonvacuous :
  ex_ingest true ex_rq ex_env [] = (Status 200, [([97]%N, 110000000000, 120000000000, [97;32;49]%N)]).
Proof. vm_compute. reflexivity. Qed.

Example C16_reject_nonvacuous :
  ex_ingest false ex_rq ex_env [] = (Status 422, []) /\
  ex_ingest true ex_rq {| e_now_from := 0; e_now_until := 0; e_space_ok := false; e_retention_thr := None |} [] = (Status 503, []) /\
  ex_ingest true ex_rq {| e_now_from := 0; e_now_until := 0; e_space_ok := true; e_retention_thr := Some 111000000000 |} [] = (Status 503, []).
Proof. vm_compute. repeat split; reflexivity. Qed.

Example C16_render_nonvacuous :
  render [(k_from, [49;49;48]%N); (k_until, [49;48;53]%N); (k_format, v_json)] 0 0 = Status 422 /\
  render [(k_from, [49;48;48]%N); (k_until, [49;48;53]%N); (k_format, v_json)] 0 0 = Status 200 /\
  render [(k_from, [49;48;48]%N); (k_until, [49;48;53]%N)] 0 0 = Status 422.
Proof. vm_compute. repeat split; reflexivity. Qed.

(* which body parser C16_ack speaks about when a request carries BOTH a Content-Type header and a format parameter
   (ip_format = select_format format content-type): a binary Content-Type wins over every format parameter — except that
   format=tree wins over the trie header, tree being tested first — and without a binary header or a binary format the
   parameter chooses between lines and collapsed text (unknown and empty formats: collapsed text) *)
Theorem C16_content_type_tree_wins : forall fmt, select_format fmt ct_tree = FTree.
Proof. exact select_format_ct_tree. Qed.
Print Assumptions C16_content_type_tree_wins.

Theorem C16_content_type_trie_wins : forall fmt, beqb fmt v_tree = false -> select_format fmt ct_trie = FTrie.
Proof. exact select_format_ct_trie. Qed.
Print Assumptions C16_content_type_trie_wins.

Theorem C16_format_text : forall fmt ct, beqb fmt v_tree = false -> beqb fmt v_trie = false ->
  beqb ct ct_tree = false -> beqb ct ct_trie = false ->
  select_format fmt ct = if beqb fmt v_lines then FLines else FGroups.
Proof. exact select_format_text. Qed.
Print Assumptions C16_format_text.

Example C16_content_type_nonvacuous :
  select_format [102;111;108;100;101;100]%N ct_trie = FTrie /\ select_format v_lines ct_trie = FTrie /\
  select_format [] ct_trie = FTrie /\ select_format v_tree ct_trie = FTree /\ select_format v_trie ct_tree = FTree /\
  select_format [102;111;108;100;101;100]%N [] = FGroups.
Proof. vm_compute. repeat split; reflexivity. Qed.

(* ---------------------------------------------------------------------------------------------------------------- *)
(* The same statements for the CONCRETE handler (Proofs/C16Concrete.v): profile trees of Model/Tree.v, the four body
   parsers of Model/Ingest.v (TreeCodec, TTrie, TextFormats), Key.parse, the metadata defaults of Model/Ingest.v and the
   plain-map storage of Model/Storage.v (st_put).  Partial in two places, both stated in C16Concrete.v: a series name is
   read as runes byte by byte (exact for ASCII names: there is no UTF-8 decoder model), and the storage model takes whole
   seconds (the handler has already normalised the window to multiples of 10 s). *)

(* status 200 => the storage state is st_put of the tree parsed from the WHOLE body, under Key.parse of the name, with
   the metadata of the query, in the clamped and normalised window (>= one slot, starting at from rounded down) *)
Theorem C16_ack_concrete : forall rq e st st', conc_ingest rq e st = (Status 200, st') ->
  exists ip t w0 w1,
    conc_params rq e = Some ip /\
    conc_parser (ip_format _ _ ip) (rq_body rq) = Some t /\
    w0 = floor10 (ip_from _ _ ip) /\ w0 + ten_s <= w1 /\
    e_space_ok e = true /\
    (forall thr, e_retention_thr e = Some thr -> thr <= ip_from _ _ ip) /\
    st' = fst (st_put None (put_input_of (sid_of_name (q_get k_name (rq_query rq))) w0 w1 t (meta_of_query (rq_query rq))) st).
Proof. exact ack_concrete. Qed.
Print Assumptions C16_ack_concrete.

(* any other status => the storage state (segments and trees) is unchanged *)
Theorem C16_reject_concrete : forall rq e st o st', conc_ingest rq e st = (o, st') -> o <> Status 200 -> st' = st.
Proof. exact reject_concrete. Qed.
Print Assumptions C16_reject_concrete.

Theorem C16_total_concrete : forall rq e st, exists code, fst (conc_ingest rq e st) = Status code.
Proof. exact total_concrete. Qed.
Print Assumptions C16_total_concrete.

(* "the whole body" (with C06): in every wire format, the body rendered from a multiset of records parses to the
   profile of ALL the records — entry_ok, tt_fitsb, t_fitsb, cap as in C06_formats_agree *)
Theorem C16_whole_body : forall f cap ms, Forall entry_ok ms ->
  tt_fitsb 1 1 (tt_of_multiset ms) = true -> TreeCodecProofs.t_fitsb (Ingest.profile_of ms) = true ->
  (t_size (Ingest.profile_of ms) <= cap)%nat ->
  conc_parser f (body_of f cap ms) = Some (Ingest.profile_of ms).
Proof. exact whole_body. Qed.
Print Assumptions C16_whole_body.

(* with C01_exact: the handler acknowledges on top of any history of uploads; then the state is the history extended by
   the request's upload, and — for a single-slot window, under the hypotheses of C01_exact for the extended history —
   a query of the request's own series and window returns for EVERY stack what it returned before plus the count of that
   stack in the request's profile (left out: windows of several slots, where C01 needs counts divisible by the span) *)
Theorem C16_ack_then_query : forall K pis rq e st' p, conc_ingest rq e (st_after pis) = (Status 200, st') ->
  exists pi t,
    st' = st_after (pis ++ [pi]) /\
    pi_sid pi = sid_of_name (q_get k_name (rq_query rq)) /\ pi_tree pi = t /\ pi_meta pi = meta_of_query (rq_query rq) /\
    conc_parser (select_format (q_get k_format (rq_query rq)) (rq_content_type rq)) (rq_body rq) = Some t /\
    (Forall (exact_put K) (pis ++ [pi]) -> key_consistent (pis ++ [pi]) -> no_average (pis ++ [pi]) ->
     snd (pi_ab pi) - fst (pi_ab pi) = 1 ->
     answer p (pi_sid pi) (pi_from pi) (pi_until pi) (pis ++ [pi]) =
     answer p (pi_sid pi) (pi_from pi) (pi_until pi) pis + Z.of_N (t_self_at p t)).
Proof. exact ack_then_query. Qed.
Print Assumptions C16_ack_then_query.

(* non-vacuity: the reversed window of D8 (from=1600000110, until=1600000105) with the collapsed body "a;b 3\nc 2\n"
   on the empty storage: acknowledged; the upload satisfies the hypotheses of C01_exact and spans one slot; the query
   of that slot answers 3 for the stack a;b and 2 for c; a second, rejected request leaves that state as it is *)
Definition exc_rq (body : bytes) : request :=
  {| rq_query := [(k_from, [49;54;48;48;48;48;48;49;49;48]%N); (k_until, [49;54;48;48;48;48;48;49;48;53]%N); (k_name, [97;112;112]%N)];
     rq_content_type := []; rq_body := body |}.
Definition exc_st : st_state := snd (conc_ingest (exc_rq [97;59;98;32;51;10;99;32;50;10]%N) ex_env st_init).
Definition exc_pi : put_input :=
  put_input_of (sid_of_name [97;112;112]%N) 1600000110000000000 1600000120000000000
    (Ingest.profile_of [([97;59;98]%N, 3%N); ([99]%N, 2%N)]) (meta_of_query (rq_query (exc_rq []))).

Example C16_concrete_nonvacuous :
  fst (conc_ingest (exc_rq [97;59;98;32;51;10;99;32;50;10]%N) ex_env st_init) = Status 200 /\
  exc_st = st_after [exc_pi] /\
  exact_putb 63 exc_pi = true /\ snd (pi_ab exc_pi) - fst (pi_ab exc_pi) = 1 /\
  answer [[97]; [98]]%N (pi_sid exc_pi) (pi_from exc_pi) (pi_until exc_pi) [exc_pi] = 3 /\
  answer [[99]]%N (pi_sid exc_pi) (pi_from exc_pi) (pi_until exc_pi) [exc_pi] = 2 /\
  conc_ingest (exc_rq [97;59;98;32;120;10]%N) ex_env exc_st = (Status 422, exc_st).
Proof. vm_compute. repeat split; reflexivity. Qed.
