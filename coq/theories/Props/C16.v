(* C16 — ingest is acknowledged only if stored whole; bad requests harm nothing.  Headline theorems only.
   Model: Model/Server.v.  The handlers are functions request x environment x state -> outcome x state over an abstract
   storage state; the body parsers, the key parser and the storage put are Section variables (the only thing used about a
   body parser is that it is a total function bytes -> option tree).  Go run-time panics are explicit outcomes. *)
From Pyro Require Import Model.Base Model.TimeParse Model.Server Proofs.TimeParseProofs Proofs.ServerProofs.
Local Open Scope Z_scope.

Section C16.
  Variables (tree key meta state : Type).
  Variable parse_key : bytes -> key.
  Variable meta_of : query -> meta.
  Variables parse_tree parse_trie parse_lines parse_groups : bytes -> option tree.
  Variable put : key -> Z -> Z -> tree -> meta -> state -> state.

  Notation ingest := (ingest tree key meta state parse_key meta_of parse_tree parse_trie parse_lines parse_groups put).
  Notation ingest_params_of := (ingest_params_of key meta parse_key meta_of).
  Notation parser_of := (parser_of tree parse_tree parse_trie parse_lines parse_groups).
  Notation run := (run tree key meta state parse_key meta_of parse_tree parse_trie parse_lines parse_groups put).

  (* status 200 => the new state is the put of the WHOLE parsed body under the requested key, with the metadata of the
     query, in a window of at least one 10 s slot that starts at from rounded down to 10 s; and neither refusal applied *)
  Theorem C16_ack : forall rq e st st', ingest rq e st = (Status 200, st') ->
    exists ip t w0 w1,
      ingest_params_of rq e = Some ip /\
      parser_of (ip_format _ _ ip) (rq_body rq) = Some t /\
      w0 = floor10 (ip_from _ _ ip) /\ w0 + ten_s <= w1 /\
      e_space_ok e = true /\
      (forall thr, e_retention_thr e = Some thr -> thr <= ip_from _ _ ip) /\
      st' = put (ip_key _ _ ip) w0 w1 t (ip_meta _ _ ip) st.
  Proof. exact (ingest_ack tree key meta state parse_key meta_of parse_tree parse_trie parse_lines parse_groups put). Qed.

  (* any other outcome => the state is unchanged: nothing of the request is visible, no earlier answer changes *)
  Theorem C16_reject : forall rq e st o st', ingest rq e st = (o, st') -> o <> Status 200 -> st' = st.
  Proof. exact (ingest_reject tree key meta state parse_key meta_of parse_tree parse_trie parse_lines parse_groups put). Qed.

  (* no combination of parameters, body bytes and environment makes a handler take a panic branch *)
  Theorem C16_total : forall rq e st, exists code, fst (ingest rq e st) = Status code.
  Proof. exact (ingest_total tree key meta state parse_key meta_of parse_tree parse_trie parse_lines parse_groups put). Qed.

  Theorem C16_render_total : forall q n1 n2, exists code, render q n1 n2 = Status code.
  Proof. exact (render_total tree key meta state meta_of put). Qed.

  (* whole request sequences, any length, any mix: every outcome is a status, and the final state is the one obtained by
     performing only the acknowledged requests (rejected ones can be erased from the history) *)
  Theorem C16_history_total : forall l st, Forall (fun o => exists code, o = Status code) (fst (run l st)).
  Proof. exact (run_total tree key meta state parse_key meta_of parse_tree parse_trie parse_lines parse_groups put). Qed.

  Theorem C16_history_rejected_erasable : forall l st,
    snd (run l st) =
    run_acked tree key meta state parse_key meta_of parse_tree parse_trie parse_lines parse_groups put l st.
  Proof. exact (run_state tree key meta state parse_key meta_of parse_tree parse_trie parse_lines parse_groups put). Qed.
End C16.

Print Assumptions C16_ack.
Print Assumptions C16_reject.
Print Assumptions C16_total.
Print Assumptions C16_render_total.
Print Assumptions C16_history_total.
Print Assumptions C16_history_rejected_erasable.

(* the reversed window of D8 (from=110, until=105) is acknowledged and lands in the slot [110 s, 120 s);
   an instance with a state that records every put: the hypotheses of C16_ack and C16_reject are both inhabited *)
Definition ex_put (k : bytes) (w0 w1 : Z) (t : bytes) (m : unit) (st : list (bytes * Z * Z * bytes)) := (k, w0, w1, t) :: st.
Definition ex_parser (ok : bool) (b : bytes) : option bytes := if ok then Some b else None.
Definition ex_ingest (ok : bool) := ingest bytes bytes unit (list (bytes * Z * Z * bytes)) (fun n => n) (fun _ => tt)
  (ex_parser ok) (ex_parser ok) (ex_parser ok) (ex_parser ok) ex_put.
Definition ex_rq : request :=
  {| rq_query := [(k_from, [49;49;48]%N); (k_until, [49;48;53]%N); (k_name, [97]%N)]; rq_content_type := []; rq_body := [97;32;49]%N |}.
Definition ex_env : env := {| e_now_from := 0; e_now_until := 0; e_space_ok := true; e_retention_thr := None |}.

Example C16_ack_nonvacuous :
  ex_ingest true ex_rq ex_env [] = (Status 200, [([97]%N, 110000000000, 120000000000, [97;32;49]%N)]).
Proof. vm_compute. reflexivity. Qed.

Example C16_reject_nonvacuous :
  ex_ingest false ex_rq ex_env [] = (Status 422, []) /\
  ex_ingest true ex_rq {| e_now_from := 0; e_now_until := 0; e_space_ok := false; e_retention_thr := None |} [] = (Status 503, []) /\
  ex_ingest true ex_rq {| e_now_from := 0; e_now_until := 0; e_space_ok := true; e_retention_thr := Some 111000000000 |} [] = (Status 503, []).
Proof. vm_compute. repeat split; reflexivity. Qed.

Example C16_render_nonvacuous :
  render [(k_from, [49;49;48]%N); (k_until, [49;48;53]%N); (k_format, v_json)] 0 0 = Status 422 /\
  render [(k_from, [49;48;48]%N); (k_until, [49;48;53]%N); (k_format, v_json)] 0 0 = Status 200 /\
  render [(k_from, [49;48;48]%N); (k_until, [49;48;53]%N)] 0 0 = Status 422.
Proof. vm_compute. repeat split; reflexivity. Qed.
