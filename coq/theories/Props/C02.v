(* C02 — cache transparency and graceful restart.  Headline theorems only.

   Full statement (DESIGN.md section 4, C02_refines): the storage model instantiated with Cache (LFU + Badger + the four
   codecs) answers every query like the storage model over plain maps, for every history with evictions of any cache
   and restarts inserted anywhere.  That needs Model/Storage.v over an abstract KV and the round trips of the tree,
   dictionary and segment codecs (C04, C12, C14: other builders).  What is proved here is the part that does not
   depend on them:

   C02_cache_transparent — the lifting lemma over an ABSTRACT object store: for any key type, any object type V with an
     equivalence Req ("same self value on every stack", "same keys" ...), a validity predicate Pv (the domain on which
     the codec round-trips), any codec (enc = Bytes, dec = FromBytes) and any default constructor, a client history
     of Put / Get / Get-then-mutate / Delete with evictions (any fraction, any visiting order the LFU allows) and
     flush+reopen cycles inserted anywhere returns reads equivalent to the reads of the same history without them.
     Per-codec hypotheses (H1-H3 in the statement), discharged so far:
       dimensions: C02_dimensions_transparent (codec model Model/DimCodec.v, round trip C02_dim_roundtrip, Req = eq)
       trees:      C02_trees_transparent_self (Req = seq, serialized form abstracted by t_reload; the link from bytes
                   to t_reload is tree-b's tree_reload_below_cap, which includes the dictionary-stability argument of C12)
       segments:   C02_segments_transparent (seg's codec_roundtrip; Req = eq; valid = the default object or a non-empty
                   segment with the invariants of reachable segments and counters within their fields)
       dicts:      C02_dicts_transparent (tree-b's dict_codec_roundtrip; Req = eq; valid = weight < 2^64)
       trees+dicts: C02_trees_with_dict_transparent — the bytes of a tree saved against dictionary d decode to t_reload t
                   against whatever the dictionary STORE (with its own evictions and restarts) returns later, as long as
                   the uncached dictionary only grew (tree-b's tree_reload_codec + C02_dicts_transparent); at Close this
                   discipline is the flush order trees-before-dictionaries (C02_flush_order_keeps_names).
     Side conditions carried by the shape of the history (is_sync): an eviction is followed by the completion of its
     saves before the next client operation (VerifEvict waits on the eviction barrier; excludes D11), no write-back
     (excludes D10: C02_writeback_refuted), a mutation directly follows the Get that returned the object.
   C02_step_simulation — the same as a one-step simulation, for clients that are not lists of operations.
   C02_flush_order_keeps_names / _swapped_refuted — why Close flushes trees before dictionaries (abstract model).
   C02_storage_reload_transparent / C02_storage_reload_get (builder tree-a, Proofs/C02StorageReload.v) — at the level of
     the storage model over plain maps: replacing, at any points of a history, any subset of the stored trees by their
     reloaded form t_reload (what an eviction followed by a reload does to a tree, by tree_reload_codec) changes no Put
     result, no timeline, no metadata and no self value of any stack of any Get.  Its invariant `rel` (same segment
     table, seq-equal valid tree under every key) and `rel_step` are ingredient (3) below, already proved.
   NOT proved: the composition inside the storage model.  The exact remaining gap to a storage-level C02_refines over
   Model/Storage.v (plain association lists; the only access points are tree_get / tree_store / tree_remove on st_trees
   and seg_lookup / seg_store / seg_remove on st_segs; the index is abstracted by sel_matches over st_segs, names live in
   the trees, so dimensions and dictionaries do not occur in it):
     (1) a second step function cst_step : option Z -> cst_state -> st_op -> cst_state * st_out that is st_step with
         tree_get k := ORead k on a trees cache (Model/Cache.v step, codec tr_enc/tr_dec), tree_store k t := OPut k t,
         tree_remove k := ODelete k, and likewise seg_lookup/seg_store/seg_remove on a segments cache (sg_enc/sg_dec);
         plus cst_maint for OEvict/OSaveCompletes/OFlushReopen on either cache.  Because a Put reads trees, merges and
         stores them, the cache operations of one st_step depend on earlier reads: this is a fold of cache steps inside
         put_cb_apply / st_get, not a fixed operation list — hence C02_step_simulation, not the list theorem, is the tool.
     (2) the lemma to prove, by C02_step_simulation at every cache access:
           StInv cst st -> admissible (no access to a key with a save in flight) ->
           let (st', out) := st_step thr st o in let (cst', cout) := cst_step thr cst o in
           StInv cst' st' /\ out_seq cout out
         where StInv cst st := Inv _ tr_dec (Rel tvalid seq) (trees cache of cst) (fun k => tree_lookup k (st_trees st)) rest
                              /\ Inv _ sg_dec (Rel sg_valid eq) (segments cache of cst) (fun k => seg_lookup k (st_segs st)) rest,
         out_seq relates OutGet answers by seq on go_tree and equality on go_timeline / go_meta, and
         StInv cst st -> StInv (cst_maint m cst) st for every maintenance step m (spec_step of those is the identity).
     (3) its ingredients beyond this file: seq-congruence and validity of everything Storage does to trees —
         put_cb_apply (t_clone, t_merge of addons, t_merge into the stored tree: clone_seq, merge_seq, t_clone_sub,
         t_merge_sub, t_merge_wfb) and st_get (t_clone of every cover tree, merge_serial, the final average clone:
         tree-b's eval_seq covers exactly such merge/clone expressions); sg_valid of every stored segment (seg's
         reachable_ok, s_put_ok, plus the uint64 bounds as hypotheses); the default of a missing tree is t_empty on
         both sides (tree_get) and of a missing segment s_empty (seg_lookup ... | None => s_empty), which is what
         tr_dflt / sg_dflt are.
     (4) outside Model/Storage.v altogether: the dimension store (C02_dimensions_transparent covers the cache; that the
         cached index answers sel_matches is C07) and the dictionary coupling (C02_trees_with_dict_transparent).
   The storage-level statement is checked on the implementation by the correspondence run (two-run comparison).  Found there: totals of floor-scaled per-bucket trees are recomputed on decode — known
   finding scaled-totals-reloaded; hence "seq", not "teq", in the trees instance. *)
From Coq Require Import List NArith.
From Pyro Require Import Model.Base Model.Varint Model.Tree Model.TreeCodec Model.DimCodec Model.Lfu Model.Cache Model.FlushOrder.
From Pyro Require Import Model.Segment Model.SegCodec Proofs.SegStruct Proofs.SegCodecProofs Proofs.TreeCodecProofs.
From Pyro Require Model.Dict Proofs.DictProofs.
From Pyro Require Import Model.Timeline Model.Storage Proofs.C02StorageReload.
From Pyro Require Import Proofs.CacheProofs Proofs.C02Lift Proofs.DimCodecProofs Proofs.FlushOrderProofs Proofs.TreeReloadProofs Proofs.C02Trees Proofs.C02Stores.
Import ListNotations.

Theorem C02_cache_transparent :
  forall (K V D : Type) (keq : forall a b : K, {a = b} + {a <> b})
         (dflt : K -> V) (enc : K -> V -> D) (dec : K -> D -> V)
         (Pv : V -> Prop) (Req : V -> V -> Prop),
  RelationClasses.Equivalence Req ->                         (* H1 *)
  (forall k, Pv (dflt k)) ->                                  (* default objects are valid *)
  (forall k v, Pv v -> Pv (dec k (enc k v))) ->               (* a reloaded valid object is valid *)
  (forall k v, Pv v -> Req (dec k (enc k v)) v) ->            (* H2: round trip on valid objects *)
  forall cops,
  forallb (is_sync (K:=K) (V:=V)) cops = true ->
  Forall (valid_op Pv Req) (lower cops) ->                    (* H3: puts of valid objects, congruent validity-preserving mutations *)
  Forall2 Req (rets (fst (run keq dflt enc dec c_empty (lower cops))))
              (rets (fst (run keq dflt enc dec c_empty (lower (filter (fun o => negb (is_maint o)) cops))))).
Proof. exact (@cache_transparent_valid). Qed.
Print Assumptions C02_cache_transparent.

(* the same for a partial equivalence (validity folded into the relation); this is the form proved first *)
Theorem C02_cache_transparent_per :
  forall (K V D : Type) (keq : forall a b : K, {a = b} + {a <> b})
         (dflt : K -> V) (enc : K -> V -> D) (dec : K -> D -> V)
         (Req : V -> V -> Prop),
  RelationClasses.PER Req ->
  (forall k, Req (dflt k) (dflt k)) ->
  (forall k v v', Req v v' -> Req (dec k (enc k v)) v') ->
  forall cops,
  forallb (is_sync (K:=K) (V:=V)) cops = true ->
  Forall (congr_op Req) (lower cops) ->
  Forall2 Req (rets (fst (run keq dflt enc dec c_empty (lower cops))))
              (rets (fst (run keq dflt enc dec c_empty (lower (filter (fun o => negb (is_maint o)) cops))))).
Proof. exact (@cache_transparent). Qed.
Print Assumptions C02_cache_transparent_per.

(* instance 1 — the dimensions cache: codec = Dimension.Bytes / FromBytes (Model/DimCodec.v), Req = eq;
   no hypothesis about the codec is left *)
Theorem C02_dimensions_transparent : forall cops,
  forallb (is_sync (K:=bytes) (V:=dim)) cops = true ->
  Forall dim_op (lower cops) ->
  rets (fst (run bytes_eq_dec dm_dflt dm_enc dm_dec c_empty (lower cops))) =
  rets (fst (run bytes_eq_dec dm_dflt dm_enc dm_dec c_empty (lower (filter (fun o => negb (is_maint o)) cops)))).
Proof. exact dims_transparent. Qed.
Print Assumptions C02_dimensions_transparent.

(* instance 2 — the trees cache: valid = well-formed with total >= self + children, serialized form abstracted by
   what it decodes to (t_reload, tree-b's tree_reload_below_cap), mutations = merging a valid tree into the cached one;
   the reads agree on the self value of every stack (seq).  Totals are NOT claimed: scaled-totals-reloaded. *)
Theorem C02_trees_transparent_self :
  forall (K : Type) (keq : forall a b : K, {a = b} + {a <> b}) cops,
  forallb (is_sync (K:=K) (V:=tnode)) cops = true ->
  Forall tree_op (lower cops) ->
  Forall2 seq (rets (fst (run keq tr_dflt tr_enc tr_dec c_empty (lower cops))))
              (rets (fst (run keq tr_dflt tr_enc tr_dec c_empty (lower (filter (fun o => negb (is_maint o)) cops))))).
Proof. exact (@trees_transparent_self). Qed.
Print Assumptions C02_trees_transparent_self.

(* instance 3 — the segments cache (codec model Model/SegCodec.v over an abstract metadata codec with its round trip) *)
Theorem C02_segments_transparent :
  forall (enc_meta : meta -> bytes) (dec_meta : bytes -> option meta),
  (forall m, dec_meta (enc_meta m) = Some m) ->
  (forall m, (Nlen (enc_meta m) < 2 ^ 64)%N) ->
  forall (Kb : Z) cops,
  forallb (is_sync (K:=bytes) (V:=segment)) cops = true ->
  Forall (seg_op Kb) (lower cops) ->
  rets (fst (run bytes_eq_dec sg_dflt (sg_enc enc_meta) (sg_dec dec_meta) c_empty (lower cops))) =
  rets (fst (run bytes_eq_dec sg_dflt (sg_enc enc_meta) (sg_dec dec_meta) c_empty (lower (filter (fun o => negb (is_maint o)) cops)))).
Proof. exact segments_transparent. Qed.
Print Assumptions C02_segments_transparent.

(* instance 4 — the dictionaries cache *)
Theorem C02_dicts_transparent : forall cops,
  forallb (is_sync (K:=bytes) (V:=Dict.trie)) cops = true ->
  Forall dict_op (lower cops) ->
  rets (fst (run bytes_eq_dec dc_dflt dc_enc dc_dec c_empty (lower cops))) =
  rets (fst (run bytes_eq_dec dc_dflt dc_enc dc_dec c_empty (lower (filter (fun o => negb (is_maint o)) cops)))).
Proof. exact dicts_transparent. Qed.
Print Assumptions C02_dicts_transparent.

(* trees are encoded against a dictionary that lives in its own cache and may grow later *)
Theorem C02_trees_with_dict_transparent :
  forall cap t d ops (cops : list (cop (K:=bytes) (V:=Dict.trie))) i,
  t_wfb t = true -> t_fitsb t = true -> (t_size t <= cap)%nat ->
  (Dict.tr_weight d + names_weight 0 t + DictProofs.ops_weight ops < two55)%N ->
  forallb (is_sync (K:=bytes) (V:=Dict.trie)) cops = true ->
  Forall dict_op (lower cops) ->
  nth_error (rets (fst (run bytes_eq_dec dc_dflt dc_enc dc_dec c_empty (lower (filter (fun o => negb (is_maint o)) cops))))) i
    = Some (fold_left Dict.d_step ops (snd (tc_serialize cap t d))) ->
  exists dl, nth_error (rets (fst (run bytes_eq_dec dc_dflt dc_enc dc_dec c_empty (lower cops)))) i = Some dl /\
             tc_deserialize dl (fst (tc_serialize cap t d)) = Some (t_reload t).
Proof. exact trees_with_dict_transparent. Qed.
Print Assumptions C02_trees_with_dict_transparent.

(* storage level, over Model/Storage.v: reloads of stored trees inserted anywhere are invisible up to self values *)
Theorem C02_storage_reload_transparent : forall rt pops,
  Forall ok_pop pops ->
  Forall2 out_equiv (snd (p_run rt pops st_init)) (snd (st_run rt (strip pops) st_init)).
Proof. exact storage_reload_transparent. Qed.
Print Assumptions C02_storage_reload_transparent.

Theorem C02_storage_reload_get : forall rt pops sel from until,
  Forall ok_pop pops ->
  out_equiv (OutGet (st_get sel from until (fst (p_run rt pops st_init))))
            (OutGet (st_get sel from until (fst (st_run rt (strip pops) st_init)))).
Proof. exact storage_reload_get. Qed.
Print Assumptions C02_storage_reload_get.

(* one step of the simulation, for clients that are not lists of operations (the storage model calls the cache
   operation by operation): the invariant Inv relates a cache state to a plain map and is preserved by every
   admissible operation, with equivalent outputs *)
Theorem C02_step_simulation :
  forall (K V D : Type) (keq : forall a b : K, {a = b} + {a <> b})
         (dflt : K -> V) (enc : K -> V -> D) (dec : K -> D -> V)
         (Req : V -> V -> Prop),
  RelationClasses.PER Req ->
  (forall k, Req (dflt k) (dflt k)) ->
  (forall k v v', Req v v' -> Req (dec k (enc k v)) v') ->
  forall c m o rest,
  Inv keq dec Req c m (o :: rest) -> op_ok keq c o rest -> congr_op Req o ->
  out_rel Req (snd (step keq dflt enc dec c o)) (snd (spec_step keq dflt m o)) /\
  Inv keq dec Req (fst (step keq dflt enc dec c o)) (fst (spec_step keq dflt m o)) rest.
Proof. intros K V D keq dflt enc dec Req _. exact (@step_sim K V D keq dflt enc dec Req). Qed.
Print Assumptions C02_step_simulation.

Theorem C02_dim_roundtrip : forall d, keys_small d -> dim_dec (dim_enc d) = Some d.
Proof. exact dim_roundtrip. Qed.
Print Assumptions C02_dim_roundtrip.

(* D10 at the level of the object store: one dropped write-back send, flush+reopen, and a read differs *)
Theorem C02_writeback_refuted :
  ~ In Bad (fst (run N.eq_dec w_dflt w_id w_id c_empty (lower w_c02_wb))) /\
  rets (fst (run N.eq_dec w_dflt w_id w_id c_empty (lower w_c02_wb))) = [11; 1001]%N /\
  rets (fst (run N.eq_dec w_dflt w_id w_id c_empty (lower w_c02_plain))) = [11; 12]%N.
Proof. exact c02_writeback_refuted. Qed.
Print Assumptions C02_writeback_refuted.

(* symbol names survive a graceful restart because Close flushes the trees before the dictionaries
   (abstract model of Model/FlushOrder.v: serializing a tree adds its new names to the in-memory dictionary;
   "an issued key keeps resolving while the dictionary grows" is C12) ... *)
Theorem C02_flush_order_keeps_names : forall m, reopen (close_real m) = Some (m_trees m).
Proof. exact close_real_keeps_names. Qed.
Print Assumptions C02_flush_order_keeps_names.

(* ... and the order is not decorative: with the dictionaries flushed first a name that first appears at flush time is lost *)
Theorem C02_flush_order_swapped_refuted : exists m, reopen (close_swapped m) <> Some (m_trees m).
Proof. exact close_swapped_loses_names. Qed.
Print Assumptions C02_flush_order_swapped_refuted.

Example C02_cache_transparent_nonvacuous :
  (forall k v, w_req (w_id k (w_enc100 k v)) v) /\
  forallb (is_sync (K:=N) (V:=N)) w_transparent = true /\
  Forall (congr_op w_req) (lower w_transparent) /\
  rets (fst (run N.eq_dec w_dflt w_enc100 w_id c_empty (lower w_transparent))) = [205; 8; 8; 108]%N /\
  rets (fst (run N.eq_dec w_dflt w_enc100 w_id c_empty (lower (filter (fun o => negb (is_maint o)) w_transparent)))) = [205; 208; 208; 308]%N.
Proof. exact c02_transparent_nonvacuous. Qed.

Example C02_trees_transparent_nonvacuous :
  forallb (is_sync (K:=N) (V:=tnode)) wt_hist = true /\ Forall tree_op (lower wt_hist) /\
  t_exactb wt_a = false /\
  map t_total (rets (fst (run N.eq_dec tr_dflt tr_enc tr_dec c_empty (lower wt_hist)))) = [2; 4]%N /\
  map t_total (rets (fst (run N.eq_dec tr_dflt tr_enc tr_dec c_empty (lower (filter (fun o => negb (is_maint o)) wt_hist))))) = [3; 5]%N.
Proof. exact trees_transparent_nonvacuous. Qed.

Example C02_dim_roundtrip_nonvacuous :
  keys_small [[97; 112; 112; 123; 125]; []; [255; 0]]%N /\
  dim_dec (dim_enc [[97; 112; 112; 123; 125]; []; [255; 0]]%N) = Some [[97; 112; 112; 123; 125]; []; [255; 0]]%N.
Proof. exact dim_roundtrip_nonvacuous. Qed.
