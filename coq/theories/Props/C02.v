(* C02 — cache transparency and graceful restart.  Headline theorems only.

   Full statement (DESIGN.md section 4, C02_refines): the storage model instantiated with Cache (LFU + Badger + the four
   codecs) answers every query like the storage model over plain maps, for every history with evictions of any cache
   and restarts inserted anywhere.  That needs Model/Storage.v over an abstract KV and the round trips of the tree,
   dictionary and segment codecs (C04, C12, C14: other builders).  What is proved here is the part that does not
   depend on them:

   C02_cache_transparent — the lifting lemma over an ABSTRACT object store: for any key type, any object type V with an
     equivalence Req ("same profile up to zero frames", "same dictionary", "same segment tree" ...), any codec
     (enc = Bytes, dec = FromBytes) and any default constructor, a client history of Put / Get / Get-then-mutate /
     Delete with evictions (any fraction, any visiting order the LFU allows) and flush+reopen cycles inserted
     anywhere returns reads equivalent to the reads of the same history without them.
     Per-codec hypotheses, to be discharged per cache by the other builders' theorems:
       (H1) Equivalence Req
       (H2) forall k v, Req (dec k (enc k v)) v                      — round trip up to Req
              trees:      C04_lossless (node count < MaxNodesSerialization, exact trees) with C12 for the dictionary
              dicts:      C12 (keys stay valid; Req = "resolves every issued key to the same name")
              segments:   C14 (s_codec_roundtrip)
              dimensions: C02_dim_roundtrip below (Req = eq)
       (H3) Forall (congr_op Req) (lower cops)                       — every function applied to an object through a
              pointer (merge into a cached tree, Dimension.Insert/Delete, segment put, dictionary growth) maps
              equivalent objects to equivalent objects
     Side conditions carried by the shape of the history (is_sync): an eviction is followed by the completion of its
     saves before the next client operation (VerifEvict waits on the eviction barrier; excludes D11), no write-back
     (excludes D10: C02_writeback_refuted), a mutation directly follows the Get that returned the object.
   NOT covered, found by the correspondence run: floor-scaled per-bucket trees are not "exact", so (H2) fails for them
   with Req = "same totals": known finding scaled-totals-reloaded. *)
From Coq Require Import List NArith.
From Pyro Require Import Model.Base Model.Varint Model.DimCodec Model.Lfu Model.Cache Proofs.CacheProofs Proofs.DimCodecProofs.
Import ListNotations.

Theorem C02_cache_transparent :
  forall (K V D : Type) (keq : forall a b : K, {a = b} + {a <> b})
         (dflt : K -> V) (enc : K -> V -> D) (dec : K -> D -> V)
         (Req : V -> V -> Prop),
  RelationClasses.Equivalence Req ->
  (forall k v, Req (dec k (enc k v)) v) ->
  forall cops,
  forallb (is_sync (K:=K) (V:=V)) cops = true ->
  Forall (congr_op Req) (lower cops) ->
  Forall2 Req (rets (fst (run keq dflt enc dec c_empty (lower cops))))
              (rets (fst (run keq dflt enc dec c_empty (lower (filter (fun o => negb (is_maint o)) cops))))).
Proof. exact (@cache_transparent). Qed.
Print Assumptions C02_cache_transparent.

(* one step of the simulation, for clients that are not lists of operations (the storage model calls the cache
   operation by operation): the invariant Inv relates a cache state to a plain map and is preserved by every
   admissible operation, with equivalent outputs *)
Theorem C02_step_simulation :
  forall (K V D : Type) (keq : forall a b : K, {a = b} + {a <> b})
         (dflt : K -> V) (enc : K -> V -> D) (dec : K -> D -> V)
         (Req : V -> V -> Prop),
  RelationClasses.Equivalence Req ->
  (forall k v, Req (dec k (enc k v)) v) ->
  forall c m o rest,
  Inv keq dec Req c m (o :: rest) -> op_ok keq c o rest -> congr_op Req o ->
  out_rel Req (snd (step keq dflt enc dec c o)) (snd (spec_step keq dflt m o)) /\
  Inv keq dec Req (fst (step keq dflt enc dec c o)) (fst (spec_step keq dflt m o)) rest.
Proof. exact (@step_sim). Qed.
Print Assumptions C02_step_simulation.

Theorem C02_dim_roundtrip : forall d, keys_small d -> dim_dec (dim_enc d) = Some d.
Proof. exact dim_roundtrip. Qed.
Print Assumptions C02_dim_roundtrip.

(* D10 at the level of the object store: one dropped write-back send, flush+reopen, and a read differs *)
Theorem C02_writeback_refuted :
  ~ In Bad (fst (run N.eq_dec w_dflt w_id w_id c_empty (lower w_c02_wb))) /\
  rets (fst (run N.eq_dec w_dflt w_id w_id c_empty (lower w_c02_wb))) = [11; 1001]%N /\
  rets (fst (run N.eq_dec w_dflt w_id w_id c_empty (lower w_c02_plain))) = [11; 12]%N.
Proof. exact c02_writeback_refuted. Qed.
Print Assumptions C02_writeback_refuted.

Example C02_cache_transparent_nonvacuous :
  (forall k v, w_req (w_id k (w_enc100 k v)) v) /\
  forallb (is_sync (K:=N) (V:=N)) w_transparent = true /\
  Forall (congr_op w_req) (lower w_transparent) /\
  rets (fst (run N.eq_dec w_dflt w_enc100 w_id c_empty (lower w_transparent))) = [205; 8; 8; 108]%N /\
  rets (fst (run N.eq_dec w_dflt w_enc100 w_id c_empty (lower (filter (fun o => negb (is_maint o)) w_transparent)))) = [205; 208; 208; 308]%N.
Proof. exact c02_transparent_nonvacuous. Qed.

Example C02_dim_roundtrip_nonvacuous :
  keys_small [[97; 112; 112; 123; 125]; []; [255; 0]]%N /\
  dim_dec (dim_enc [[97; 112; 112; 123; 125]; []; [255; 0]]%N) = Some [[97; 112; 112; 123; 125]; []; [255; 0]]%N.
Proof. exact dim_roundtrip_nonvacuous. Qed.
