(* C02 — cache transparency and graceful restart.  Headline theorems only (first version). *)
From Coq Require Import List.
From Pyro Require Import Model.Lfu Model.Cache Proofs.CacheProofs.
Import ListNotations.

Theorem C02_cache_transparent :
  forall (K V D : Type) (keq : forall a b : K, {a = b} + {a <> b})
         (dflt : K -> V) (enc : K -> V -> D) (dec : K -> D -> V)
         (Req : V -> V -> Prop),
  RelationClasses.Equivalence Req ->
  (forall k v, Req (dec k (enc k v)) v) ->
  forall cops,
  forallb (is_sync (K:=K) (V:=V)) cops = true ->
  Forall (congr_op Req) (lower cops) ->
  Forall2 Req (rets (fst (run keq dflt enc dec c_empty (lower cops))))
              (rets (fst (run keq dflt enc dec c_empty (lower (filter (fun o => negb (is_maint o)) cops))))).
Proof. exact (@cache_transparent). Qed.
Print Assumptions C02_cache_transparent.
