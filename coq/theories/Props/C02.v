(* C02 — cache transparency and graceful restart.  Headline theorems only.

   Full statement (DESIGN.md section 4, C02_refines): the storage model instantiated with Cache (LFU + Badger + the four
   codecs) answers every query like the storage model over plain maps, for every history with evictions of any cache
   and restarts inserted anywhere.  That needs Model/Storage.v over an abstract KV and the round trips of the tree,
   dictionary and segment codecs (C04, C12, C14: other builders).  What is proved here is the part that does not
   depend on them:

   C02_cache_transparent — the lifting lemma over an ABSTRACT object store: for any key type, any object type V with an
     equivalence Req ("same self value on every stack", "same keys" ...), a validity predicate Pv (the domain on which
     the codec round-trips), any codec (enc = Bytes, dec = FromBytes) and any default constructor, a client history
     of Put / Get / Get-then-mutate / Delete with evictions (any fraction, any visiting order the LFU allows) and
     flush+reopen cycles inserted anywhere returns reads equivalent to the reads of the same history without them.
     Per-codec hypotheses (H1-H3 in the statement), discharged so far:
       dimensions: C02_dimensions_transparent (codec model Model/DimCodec.v, round trip C02_dim_roundtrip, Req = eq)
       trees:      C02_trees_transparent_self (Req = seq, serialized form abstracted by t_reload; the link from bytes
                   to t_reload is tree-b's tree_reload_below_cap, which includes the dictionary-stability argument of C12)
       segments:   C02_segments_transparent (seg's codec_roundtrip; Req = eq; valid = the default object or a non-empty
                   segment with the invariants of reachable segments and counters within their fields)
       dicts:      C02_dicts_transparent (tree-b's dict_codec_roundtrip; Req = eq; valid = weight < 2^64)
       trees+dicts: C02_trees_with_dict_transparent — the bytes of a tree saved against dictionary d decode to t_reload t
                   against whatever the dictionary STORE (with its own evictions and restarts) returns later, as long as
                   the uncached dictionary only grew (tree-b's tree_reload_codec + C02_dicts_transparent); at Close this
                   discipline is the flush order trees-before-dictionaries (C02_flush_order_keeps_names).
     Side conditions carried by the shape of the history (is_sync): an eviction is followed by the completion of its
     saves before the next client operation (VerifEvict waits on the eviction barrier; excludes D11), no write-back
     (excludes D10: C02_writeback_refuted), a mutation directly follows the Get that returned the object.
   C02_step_simulation — the same as a one-step simulation, for clients that are not lists of operations.
   C02_flush_order_keeps_names / _swapped_refuted — why Close flushes trees before dictionaries (abstract model).
   C02_storage_reload_transparent / C02_storage_reload_get (builder tree-a, Proofs/C02StorageReload.v) — at the level of
     the storage model over plain maps: replacing, at any points of a history, any subset of the stored trees by their
     reloaded form t_reload (what an eviction followed by a reload does to a tree, by tree_reload_codec) changes no Put
     result, no timeline, no metadata and no self value of any stack of any Get.  Its invariant `rel` (same segment
     table, seq-equal valid tree under every key) and `rel_step` are ingredient (3) below, already proved.
   C02_refines_partial (Model/StorageCached.v, Proofs/StorageCachedProofs.v) — the storage-level refinement for the TREES
     cache: cst_step is st_step of Model/Storage.v with every tree access going through Model/Cache.v
     (Storage.Put: trees.Get, trees.Get per addon, trees.Put per callback; Storage.Get: trees.Get per cover node;
     Delete / DeleteDataBefore: trees.Delete per callback); maintenance steps (Cache.Evict of any fraction in any order
     the LFU allows followed by the completion of its saves, and Flush+reopen) are inserted ANYWHERE in the history.
     Then every output of the cached run is equivalent to the output of st_run on the history without the maintenance
     steps: Put results, timelines and metadata literally equal, profiles equal in the self value of every stack.
     Proof: C02_cached_step_commutes (every storage operation commutes with the abstraction "what a Get of the key
     would return", with EQUAL outputs), C02_cached_maint_is_reload (a maintenance step replaces the abstract value of
     exactly the evicted keys by t_reload), then tree-a's C02_storage_reload_transparent.
     What the full C02_refines of DESIGN.md would add, i.e. what this theorem leaves out — exactly:
       (a) the SEGMENTS: done in the second twin, C02_refines_segments_partial at the end of this file (index = sorted
           list of live series ids, segment objects in a second Model/Cache.v store with seg's codec); its side
           condition: whenever the segments store is evicted or flushed, every segment of the table round-trips
           through the codec (rt_ok; C02_segment_roundtrips: true of reachable segments within seg_bounded whose
           metadata is valid UTF-8 with a rate below 2^32 — otherwise only up to fix_meta: known finding
           metadata-invalid-utf8);
       (b) the tree codec is abstracted by what it decodes to (ct_enc = t_reload); the link to the bytes and to the
           dictionaries cache is C02_trees_with_dict_transparent + C02_dicts_transparent + C02_flush_order_*, not
           composed into one transition system; the node cap hypothesis (stored trees below MaxNodesSerialization) is
           part of that link (tree_reload_codec), not of this theorem;
       (c) dimensions and labels do not occur in Model/Storage.v (the index is abstracted by sel_matches; C07 and
           C02_dimensions_transparent cover the two halves);
       (d) hypotheses carried by the shape of the history: saves complete inside the maintenance step (excludes D11),
           no write-back (excludes D10), client steps are atomic with respect to maintenance (sequential histories);
       (e) totals are not claimed (known finding scaled-totals-reloaded): out_equiv compares self values per stack.
   The storage-level statement including (a)-(c) is checked on the implementation by the correspondence run. *)
From Coq Require Import List NArith.
From Pyro Require Import Model.Base Model.Varint Model.Tree Model.TreeCodec Model.DimCodec Model.Lfu Model.Cache Model.FlushOrder.
From Pyro Require Import Model.Segment Model.SegCodec Proofs.SegStruct Proofs.SegCodecProofs Proofs.TreeCodecProofs.
From Pyro Require Model.Dict Proofs.DictProofs.
From Pyro Require Import Model.Timeline Model.Storage Proofs.C02StorageReload Model.StorageCached Proofs.StorageCachedProofs.
From Pyro Require Import Proofs.CacheProofs Proofs.C02Lift Proofs.DimCodecProofs Proofs.FlushOrderProofs Proofs.TreeReloadProofs Proofs.C02Trees Proofs.C02Stores.
Import ListNotations.

Theorem C02_cache_transparent :
  forall (K V D : Type) (keq : forall a b : K, {a = b} + {a <> b})
         (dflt : K -> V) (enc : K -> V -> D) (dec : K -> D -> V)
         (Pv : V -> Prop) (Req : V -> V -> Prop),
  RelationClasses.Equivalence Req ->                         (* H1 *)
  (forall k, Pv (dflt k)) ->                                  (* default objects are valid *)
  (forall k v, Pv v -> Pv (dec k (enc k v))) ->               (* a reloaded valid object is valid *)
  (forall k v, Pv v -> Req (dec k (enc k v)) v) ->            (* H2: round trip on valid objects *)
  forall cops,
  forallb (is_sync (K:=K) (V:=V)) cops = true ->
  Forall (valid_op Pv Req) (lower cops) ->                    (* H3: puts of valid objects, congruent validity-preserving mutations *)
  Forall2 Req (rets (fst (run keq dflt enc dec c_empty (lower cops))))
              (rets (fst (run keq dflt enc dec c_empty (lower (filter (fun o => negb (is_maint o)) cops))))).
Proof. exact (@cache_transparent_valid). Qed.
Print Assumptions C02_cache_transparent.

(* the same for a partial equivalence (validity folded into the relation); this is the form proved first *)
Theorem C02_cache_transparent_per :
  forall (K V D : Type) (keq : forall a b : K, {a = b} + {a <> b})
         (dflt : K -> V) (enc : K -> V -> D) (dec : K -> D -> V)
         (Req : V -> V -> Prop),
  RelationClasses.PER Req ->
  (forall k, Req (dflt k) (dflt k)) ->
  (forall k v v', Req v v' -> Req (dec k (enc k v)) v') ->
  forall cops,
  forallb (is_sync (K:=K) (V:=V)) cops = true ->
  Forall (congr_op Req) (lower cops) ->
  Forall2 Req (rets (fst (run keq dflt enc dec c_empty (lower cops))))
              (rets (fst (run keq dflt enc dec c_empty (lower (filter (fun o => negb (is_maint o)) cops))))).
Proof. exact (@cache_transparent). Qed.
Print Assumptions C02_cache_transparent_per.

(* instance 1 — the dimensions cache: codec = Dimension.Bytes / FromBytes (Model/DimCodec.v), Req = eq;
   no hypothesis about the codec is left *)
Theorem C02_dimensions_transparent : forall cops,
  forallb (is_sync (K:=bytes) (V:=dim)) cops = true ->
  Forall dim_op (lower cops) ->
  rets (fst (run bytes_eq_dec dm_dflt dm_enc dm_dec c_empty (lower cops))) =
  rets (fst (run bytes_eq_dec dm_dflt dm_enc dm_dec c_empty (lower (filter (fun o => negb (is_maint o)) cops)))).
Proof. exact dims_transparent. Qed.
Print Assumptions C02_dimensions_transparent.

(* instance 2 — the trees cache: valid = well-formed with total >= self + children, serialized form abstracted by
   what it decodes to (t_reload, tree-b's tree_reload_below_cap), mutations = merging a valid tree into the cached one;
   the reads agree on the self value of every stack (seq).  Totals are NOT claimed: scaled-totals-reloaded. *)
Theorem C02_trees_transparent_self :
  forall (K : Type) (keq : forall a b : K, {a = b} + {a <> b}) cops,
  forallb (is_sync (K:=K) (V:=tnode)) cops = true ->
  Forall tree_op (lower cops) ->
  Forall2 seq (rets (fst (run keq tr_dflt tr_enc tr_dec c_empty (lower cops))))
              (rets (fst (run keq tr_dflt tr_enc tr_dec c_empty (lower (filter (fun o => negb (is_maint o)) cops))))).
Proof. exact (@trees_transparent_self). Qed.
Print Assumptions C02_trees_transparent_self.

(* instance 3 — the segments cache (codec model Model/SegCodec.v over an abstract metadata codec with its round trip) *)
Theorem C02_segments_transparent :
  forall (enc_meta : meta -> bytes) (dec_meta : bytes -> option meta),
  (forall m, dec_meta (enc_meta m) = Some m) ->
  (forall m, (Nlen (enc_meta m) < 2 ^ 64)%N) ->
  forall (Kb : Z) cops,
  forallb (is_sync (K:=bytes) (V:=segment)) cops = true ->
  Forall (seg_op Kb) (lower cops) ->
  rets (fst (run bytes_eq_dec sg_dflt (sg_enc enc_meta) (sg_dec dec_meta) c_empty (lower cops))) =
  rets (fst (run bytes_eq_dec sg_dflt (sg_enc enc_meta) (sg_dec dec_meta) c_empty (lower (filter (fun o => negb (is_maint o)) cops)))).
Proof. exact segments_transparent. Qed.
Print Assumptions C02_segments_transparent.

(* instance 4 — the dictionaries cache *)
Theorem C02_dicts_transparent : forall cops,
  forallb (is_sync (K:=bytes) (V:=Dict.trie)) cops = true ->
  Forall dict_op (lower cops) ->
  rets (fst (run bytes_eq_dec dc_dflt dc_enc dc_dec c_empty (lower cops))) =
  rets (fst (run bytes_eq_dec dc_dflt dc_enc dc_dec c_empty (lower (filter (fun o => negb (is_maint o)) cops)))).
Proof. exact dicts_transparent. Qed.
Print Assumptions C02_dicts_transparent.

(* trees are encoded against a dictionary that lives in its own cache and may grow later *)
Theorem C02_trees_with_dict_transparent :
  forall cap t d ops (cops : list (cop (K:=bytes) (V:=Dict.trie))) i,
  t_wfb t = true -> t_fitsb t = true -> (t_size t <= cap)%nat ->
  (Dict.tr_weight d + names_weight 0 t + DictProofs.ops_weight ops < two55)%N ->
  forallb (is_sync (K:=bytes) (V:=Dict.trie)) cops = true ->
  Forall dict_op (lower cops) ->
  nth_error (rets (fst (run bytes_eq_dec dc_dflt dc_enc dc_dec c_empty (lower (filter (fun o => negb (is_maint o)) cops))))) i
    = Some (fold_left Dict.d_step ops (snd (tc_serialize cap t d))) ->
  exists dl, nth_error (rets (fst (run bytes_eq_dec dc_dflt dc_enc dc_dec c_empty (lower cops)))) i = Some dl /\
             tc_deserialize dl (fst (tc_serialize cap t d)) = Some (t_reload t).
Proof. exact trees_with_dict_transparent. Qed.
Print Assumptions C02_trees_with_dict_transparent.

(* storage level, over Model/Storage.v: reloads of stored trees inserted anywhere are invisible up to self values *)
Theorem C02_storage_reload_transparent : forall rt pops,
  Forall ok_pop pops ->
  Forall2 out_equiv (snd (p_run rt pops st_init)) (snd (st_run rt (strip pops) st_init)).
Proof. exact storage_reload_transparent. Qed.
Print Assumptions C02_storage_reload_transparent.

Theorem C02_storage_reload_get : forall rt pops sel from until,
  Forall ok_pop pops ->
  out_equiv (OutGet (st_get sel from until (fst (p_run rt pops st_init))))
            (OutGet (st_get sel from until (fst (st_run rt (strip pops) st_init)))).
Proof. exact storage_reload_get. Qed.
Print Assumptions C02_storage_reload_get.

(* the cached twin of the storage model: trees behind the LFU+Badger cache, maintenance anywhere *)
Theorem C02_refines_partial : forall rt h,
  Forall ok_op (cstrip h) ->
  Forall2 out_equiv (snd (c_run rt h cst_init)) (snd (st_run rt (cstrip h) st_init)).
Proof. exact cached_storage_refines. Qed.
Print Assumptions C02_refines_partial.

Theorem C02_cached_step_commutes : forall rt o cst st, repr cst st ->
  repr (fst (cst_step rt cst o)) (fst (st_step rt st o)) /\ snd (cst_step rt cst o) = snd (st_step rt st o).
Proof. exact step_commutes. Qed.
Print Assumptions C02_cached_step_commutes.

Theorem C02_cached_maint_is_reload : forall m cst st, repr cst st ->
  exists sel, repr (cst_maint m cst) (st_reload sel st).
Proof. exact maint_sim. Qed.
Print Assumptions C02_cached_maint_is_reload.

(* one step of the simulation, for clients that are not lists of operations (the storage model calls the cache
   operation by operation): the invariant Inv relates a cache state to a plain map and is preserved by every
   admissible operation, with equivalent outputs *)
Theorem C02_step_simulation :
  forall (K V D : Type) (keq : forall a b : K, {a = b} + {a <> b})
         (dflt : K -> V) (enc : K -> V -> D) (dec : K -> D -> V)
         (Req : V -> V -> Prop),
  RelationClasses.PER Req ->
  (forall k, Req (dflt k) (dflt k)) ->
  (forall k v v', Req v v' -> Req (dec k (enc k v)) v') ->
  forall c m o rest,
  Inv keq dec Req c m (o :: rest) -> op_ok keq c o rest -> congr_op Req o ->
  out_rel Req (snd (step keq dflt enc dec c o)) (snd (spec_step keq dflt m o)) /\
  Inv keq dec Req (fst (step keq dflt enc dec c o)) (fst (spec_step keq dflt m o)) rest.
Proof. intros K V D keq dflt enc dec Req _. exact (@step_sim K V D keq dflt enc dec Req). Qed.
Print Assumptions C02_step_simulation.

Theorem C02_dim_roundtrip : forall d, keys_small d -> dim_dec (dim_enc d) = Some d.
Proof. exact dim_roundtrip. Qed.
Print Assumptions C02_dim_roundtrip.

(* D10 at the level of the object store: one dropped write-back send, flush+reopen, and a read differs *)
Theorem C02_writeback_refuted :
  ~ In Bad (fst (run N.eq_dec w_dflt w_id w_id c_empty (lower w_c02_wb))) /\
  rets (fst (run N.eq_dec w_dflt w_id w_id c_empty (lower w_c02_wb))) = [11; 1001]%N /\
  rets (fst (run N.eq_dec w_dflt w_id w_id c_empty (lower w_c02_plain))) = [11; 12]%N.
Proof. exact c02_writeback_refuted. Qed.
Print Assumptions C02_writeback_refuted.

(* symbol names survive a graceful restart because Close flushes the trees before the dictionaries
   (abstract model of Model/FlushOrder.v: serializing a tree adds its new names to the in-memory dictionary;
   "an issued key keeps resolving while the dictionary grows" is C12) ... *)
Theorem C02_flush_order_keeps_names : forall m, reopen (close_real m) = Some (m_trees m).
Proof. exact close_real_keeps_names. Qed.
Print Assumptions C02_flush_order_keeps_names.

(* ... and the order is not decorative: with the dictionaries flushed first a name that first appears at flush time is lost *)
Theorem C02_flush_order_swapped_refuted : exists m, reopen (close_swapped m) <> Some (m_trees m).
Proof. exact close_swapped_loses_names. Qed.
Print Assumptions C02_flush_order_swapped_refuted.

Example C02_cache_transparent_nonvacuous :
  (forall k v, w_req (w_id k (w_enc100 k v)) v) /\
  forallb (is_sync (K:=N) (V:=N)) w_transparent = true /\
  Forall (congr_op w_req) (lower w_transparent) /\
  rets (fst (run N.eq_dec w_dflt w_enc100 w_id c_empty (lower w_transparent))) = [205; 8; 8; 108]%N /\
  rets (fst (run N.eq_dec w_dflt w_enc100 w_id c_empty (lower (filter (fun o => negb (is_maint o)) w_transparent)))) = [205; 208; 208; 308]%N.
Proof. exact c02_transparent_nonvacuous. Qed.

Example C02_refines_partial_nonvacuous :
  Forall ok_op (cstrip ex_hist) /\
  c_lfu (cs_trees (fst (c_run None (firstn 4 ex_hist) cst_init))) = [] /\
  match snd (c_run None ex_hist cst_init), snd (st_run None (cstrip ex_hist) st_init) with
  | [_; _; OutGet (Some a)], [_; _; OutGet (Some b)] =>
      go_tree a = TNode [] 0 7 [TNode [97%N] 0 7 [TNode [98%N] 3 3 []; TNode [99%N] 4 4 []]] /\
      go_tree b = TNode [] 0 9 [TNode [97%N] 0 9 [TNode [98%N] 3 3 []; TNode [99%N] 4 4 []]]
  | _, _ => False
  end.
Proof. exact cached_storage_refines_nonvacuous. Qed.

Example C02_trees_transparent_nonvacuous :
  forallb (is_sync (K:=N) (V:=tnode)) wt_hist = true /\ Forall tree_op (lower wt_hist) /\
  t_exactb wt_a = false /\
  map t_total (rets (fst (run N.eq_dec tr_dflt tr_enc tr_dec c_empty (lower wt_hist)))) = [2; 4]%N /\
  map t_total (rets (fst (run N.eq_dec tr_dflt tr_enc tr_dec c_empty (lower (filter (fun o => negb (is_maint o)) wt_hist))))) = [3; 5]%N.
Proof. exact trees_transparent_nonvacuous. Qed.

Example C02_dim_roundtrip_nonvacuous :
  keys_small [[97; 112; 112; 123; 125]; []; [255; 0]]%N /\
  dim_dec (dim_enc [[97; 112; 112; 123; 125]; []; [255; 0]]%N) = Some [[97; 112; 112; 123; 125]; []; [255; 0]]%N.
Proof. exact dim_roundtrip_nonvacuous. Qed.

(* ---- (added by builder tree-b) the dictionaries store and the real tree bytes ------------------------------------
   Model/StorageCachedDict.v is a third twin of the storage: the trees cache holds BYTES on its disk, produced by the
   real tree codec (Model/TreeCodec.v) against the application's dictionary, which lives in a second Model/Cache.v object
   store (key = application name, dictionary codec of Model/Dict.v).  A tree save reads the dictionary through that
   store (possibly reloading it from its own bytes) and PUTS the tree's names into it in place; a tree load reads the
   dictionary the same way and decodes.  Maintenance: eviction of trees, eviction of dictionaries, Close+New = flush
   trees THEN dictionaries, reopen — inserted anywhere.
   C02_refines_dict_partial: whenever the run keeps its side conditions (the sticky flag [dok]: every saved tree is
   well-formed, fits uvarints and has at most [cap] nodes, dictionaries stay below 2^55 bytes, dropped series keys
   contain '{'), the outputs are LITERALLY those of cache's twin (C02_refines_partial) on the same history without the
   dictionary steps, hence equivalent to the storage over plain maps.  The proof is a step simulation whose invariant
   says: the bytes stored under a key decode, against the dictionary's current value AND against every extension of it,
   to t_reload of the tree last saved there (Proofs/TreeCodecProofs.v serialize_stable, resting on C12's key stability
   and the dictionary codec round trip); dictionaries only grow between a save and a load because nothing but saves
   mutates them and their own evictions/reloads are exact.
   PARTIAL — still outside: (a) the segments cache (plain association list, as in C02_refines_partial);
   (b) dimensions (not in Model/Storage.v); (c) write-back and in-flight saves (both stores are driven synchronously:
   Evict = hand-off + completion; the known findings D10/D11 live there); (d) trees above the node cap (the codec then
   prunes: C04_prune; the flag goes down and the theorem says nothing); (e) a dictionary miss at load time ("label not
   found" text) — excluded by the invariant, not modelled. *)
From Pyro Require Import Model.StorageCachedDict Proofs.C02DictTwin.

Theorem C02_refines_dict_partial : forall cap rt h,
  dok (fst (d_run cap rt h dst_init)) = true ->
  Forall ok_op (cstrip (dmap h)) ->
  snd (d_run cap rt h dst_init) = snd (c_run rt (dmap h) cst_init) /\
  Forall2 out_equiv (snd (d_run cap rt h dst_init)) (snd (st_run rt (cstrip (dmap h)) st_init)).
Proof. exact refines_dict. Qed.
Print Assumptions C02_refines_dict_partial.

(* one key, spelled out: in any state related to cache's twin where the twin's disk holds t_reload v under k (i.e. v was
   the tree last saved there) and the tree is not in memory, the load from bytes + dictionary returns t_reload v *)
Theorem C02_load_after_save : forall (s : bstore) (c : tcache) k v,
  brel s c -> Cache.c_disk c k = Some (t_reload v) -> l_find tkey_dec k (b_lfu s) = None ->
  snd (b_read k s) = t_reload v.
Proof. exact load_after_save. Qed.
Print Assumptions C02_load_after_save.

Example C02_refines_dict_nonvacuous :
  let fin := fst (d_run 1024 None exd_hist dst_init) in
  dok fin = true /\
  (let s := g_store (fst (d_run 1024 None (firstn 5 exd_hist) dst_init)) in b_lfu s = [] /\ Cache.c_lfu (b_dicts s) = []) /\
  (match Cache.c_disk (b_dicts (g_store fin)) [102;111;111]%N with
   | Some bs => match d_deserialize bs with Some d => tr_weight d | None => 0%N end
   | None => 0%N
   end = 10%N) /\
  snd (d_run 1024 None exd_hist dst_init) = snd (c_run None (dmap exd_hist) cst_init).
Proof. exact refines_dict_nonvacuous. Qed.


(* ================== the second twin: trees AND segments behind caches (builder cache) ==================
   Model/StorageCached2.v: the cached state is an index (the sorted list of live series ids — what the dimensions
   provide; C07_storage_index_sound), a segments store and a trees store, both Model/Cache.v object stores.
   Storage.Put does segments.Get (a miss creates segment.New()), mutates, segments.Put; Storage.Get does segments.Get per
   matching id; Delete and DeleteDataBefore do segments.Get, then segments.Delete or a mutation through the pointer.
   Maintenance (Evict + completion of its saves, Flush+reopen) of EITHER store anywhere in the history.
   Theorem: the outputs are LITERALLY those of the first twin on the same history without the segment maintenance, hence
   equivalent to st_run (C02_refines_partial).
   PARTIAL — exactly: (1) side condition segs_rt_at_maint (see (a) in the header): at every maintenance step of the
   segments store all segments of the table round-trip through Bytes/FromBytes; (2) a FromBytes error is read as
   segment.New() (never exercised under (1)); (3) the index is exact (dimensions cache not modelled: C07 +
   C02_dimensions_transparent); (4) as before: saves complete inside the maintenance step, no write-back, sequential
   histories, tree codec abstracted by t_reload (tree-b's C02_refines_dict_partial removes that for the trees store),
   totals not claimed. *)
From Pyro Require Import Model.StorageCached2 Proofs.StorageCached2Proofs.
From Pyro Require Import Proofs.SegCodecJson.

Theorem C02_refines_segments_partial : forall rt h,
  segs_rt_at_maint rt h cst_init ->
  snd (c2_run rt h c2_init) = snd (c_run rt (c2map h) cst_init) /\
  (Forall ok_op (cstrip (c2map h)) ->
   Forall2 out_equiv (snd (c2_run rt h c2_init)) (snd (st_run rt (cstrip (c2map h)) st_init))).
Proof. exact cached2_storage_refines. Qed.
Print Assumptions C02_refines_segments_partial.

Theorem C02_cached2_step_commutes : forall rt o c2 cst, R2 c2 cst ->
  R2 (fst (c2_step rt c2 o)) (fst (cst_step rt cst o)) /\ snd (c2_step rt c2 o) = snd (cst_step rt cst o).
Proof. exact step2_commutes. Qed.
Print Assumptions C02_cached2_step_commutes.

(* when the side condition holds: seg's C14 round trip *)
Theorem C02_segment_roundtrips : forall Kb s,
  reachable Kb s -> seg_bounded s -> s_root s <> None -> meta_ok (s_meta s) -> rt_ok s.
Proof. exact rt_ok_reachable. Qed.
Print Assumptions C02_segment_roundtrips.

Example C02_refines_segments_nonvacuous :
  segs_rt_at_maint None ex2_hist cst_init /\
  (let c2 := fst (c2_run None (firstn 3 ex2_hist) c2_init) in c_lfu (c2_segs c2) = [] /\ c_lfu (c2_trees c2) = []) /\
  c_lfu (c2_segs (fst (c2_run None (firstn 5 ex2_hist) c2_init))) = [] /\
  match snd (c2_run None ex2_hist c2_init) with
  | [OutPut true; OutPut true; OutGet (Some a)] =>
      go_tree a = TNode [] 0 7 [TNode [97%N] 0 7 [TNode [98%N] 3 3 []; TNode [99%N] 4 4 []]]
  | _ => False
  end.
Proof. exact cached2_storage_refines_nonvacuous. Qed.

(* ================== ONE twin for trees, dictionaries and segments (builder cache) ==================
   Model/StorageCachedAll.v: the storage code written once over the index of live series (exact), a segments store
   behind Model/Cache.v and an ARBITRARY trees store; instantiated with tree-b's store (real tree bytes on disk, the
   dictionaries behind their own Model/Cache.v store).  Maintenance of all three stores anywhere in one history:
   trees.Evict / dicts.Evict (each with the completion of its saves) / Close (trees, then dictionaries, reopen) through
   tree-b's dmaint, segments.Evict / segments.Flush+reopen.
   C02_refines_all_partial: under the two side conditions — every segment of the table round-trips whenever the
   segments store is evicted or flushed (all_segs_ok; C02_segment_roundtrips), and tree-b's flag dok (stored trees
   well formed, below the node cap, dictionaries below 2^55 bytes) — the outputs are literally those of tree-b's twin,
   hence of the first twin, hence equivalent to st_run on the history without any maintenance (Put results, timelines,
   metadata equal; profiles equal in every stack's self value).
   C02_all_step_commutes is the generic statement: for ANY trees store, putting the segments behind a cache changes no
   output of a storage operation.
   PARTIAL — still outside: the dimensions and labels stores (the index is exact: C07_storage_index_sound +
   C02_dimensions_transparent), write-back and in-flight saves (D10/D11), trees above the node cap, a FromBytes error of
   a segment is read as segment.New(), totals are not claimed (scaled-totals-reloaded). *)
From Pyro Require Import Model.StorageCachedAll Proofs.StorageCachedAllProofs.

Theorem C02_refines_all_partial : forall cap rt h,
  all_segs_ok cap rt h ->
  dok (fst (d_run cap rt (admap h) dst_init)) = true ->
  Forall ok_op (cstrip (dmap (admap h))) ->
  snd (all_run cap rt h all_init) = snd (d_run cap rt (admap h) dst_init) /\
  Forall2 out_equiv (snd (all_run cap rt h all_init)) (snd (st_run rt (cstrip (dmap (admap h))) st_init)).
Proof. exact all_refines. Qed.
Print Assumptions C02_refines_all_partial.

Theorem C02_all_step_commutes :
  forall (S : Type) (ts_read : tkey -> S -> S * tnode) (ts_put : tkey -> tnode -> S -> S) (ts_del : tkey -> S -> S)
         (ts_drop : bytes -> S -> S) rt o a g,
  RA a g ->
  RA (fst (a_step ts_read ts_put ts_del ts_drop rt a o)) (fst (gst_step ts_read ts_put ts_del ts_drop rt g o)) /\
  snd (a_step ts_read ts_put ts_del ts_drop rt a o) = snd (gst_step ts_read ts_put ts_del ts_drop rt g o).
Proof. exact (@a_step_commutes). Qed.
Print Assumptions C02_all_step_commutes.

Example C02_refines_all_nonvacuous :
  all_segs_ok 1024 None exa_hist /\
  dok (fst (d_run 1024 None (admap exa_hist) dst_init)) = true /\
  Forall ok_op (cstrip (dmap (admap exa_hist))) /\
  (let a := fst (all_run 1024 None (firstn 7 exa_hist) all_init) in
   c_lfu (a_segs a) = [] /\ b_lfu (a_store a) = [] /\ c_lfu (b_dicts (a_store a)) = []) /\
  match snd (all_run 1024 None exa_hist all_init) with
  | [OutPut true; OutPut true; OutGet (Some r)] => t_self_at [[97]%N; [98]%N] (go_tree r) = 3%N
  | _ => False
  end.
Proof. exact all_refines_nonvacuous. Qed.

(* ================== the dimensions behind a cache (builder cache) ==================
   Model/IndexCached.v: keys' index (Model/Index.v: labels, dimensions, series) with the DIMENSION objects in a
   Model/Cache.v store, codec Model/DimCodec.v.  Put reads the dimension of every tag pair through the store and inserts
   the key through the pointer, a selector lookup reads the pairs' dimensions through the store and intersects them,
   Delete removes through the pointers; the dimensions store is evicted (+ completion of its saves) or flushed and
   reopened anywhere.
   C02_refines_dimensions_partial: every selector lookup returns exactly what the plain index of Model/Index.v returns
   on the history without the maintenance steps — under the side condition that every dimension round-trips through
   Bytes/FromBytes whenever the store is evicted or flushed (dims_rt_at_maint; C02_dimensions_roundtrip: true when all
   keys are shorter than 2^64 bytes).
   C02_cached_index_is_table_filter: composed with keys' bridge (C07 index_lookup_is_filter): after any storage history
   of admitted names, with maintenance of the dimensions store anywhere, the lookup for a selector returns the keys of
   exactly the entries of Storage.v's series table the selector matches, in table order.  This is what the cached
   storage twins (C02_refines_partial, _segments_partial, _all_partial) take as given when they keep the list of live
   series ids as an exact index.
   PARTIAL — the cached index and the cached storage twins are two transition systems related by this theorem, not one;
   the labels store (plain Badger keys, no cache in the code) is carried along unchanged. *)
From Pyro Require Import Model.Index Model.IndexCached Proofs.IndexProofs Proofs.IndexCachedProofs Proofs.C07StorageBridge.

Theorem C02_refines_dimensions_partial : forall h,
  dims_rt_at_maint h ix_empty -> snd (cx_run h cx_empty) = snd (px_run h ix_empty).
Proof. exact cached_index_refines. Qed.
Print Assumptions C02_refines_dimensions_partial.

Theorem C02_dimensions_roundtrip : forall ist, (forall n, keys_small (dm_get n (ix_dims ist))) -> dims_rt ist.
Proof. exact dims_rt_small. Qed.
Print Assumptions C02_dimensions_roundtrip.

Theorem C02_cached_index_is_table_filter : forall rthr ops Q h,
  Forall op_parsed ops -> IndexProofs.key_ok Q ->
  xops h = all_iops rthr ops st_init ->
  dims_rt_at_maint (h ++ [XSel Q]) ix_empty ->
  last (snd (cx_run (h ++ [XSel Q]) cx_empty)) None =
  Some (map (fun ks => sid_key (fst ks))
            (filter (fun ks => sel_matches (sid_of Q) (fst ks)) (st_segs (fst (st_run rthr ops st_init))))).
Proof. exact cached_index_is_table_filter. Qed.
Print Assumptions C02_cached_index_is_table_filter.

Example C02_refines_dimensions_nonvacuous :
  dims_rt_at_maint exx_hist ix_empty /\
  c_lfu (cx_dims (fst (cx_run (firstn 4 exx_hist) cx_empty))) = [] /\
  snd (cx_run exx_hist cx_empty) = [Some [normalized exx_K1; normalized exx_K2]; Some [normalized exx_K2]].
Proof. exact cached_index_refines_nonvacuous. Qed.
