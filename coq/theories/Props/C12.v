(* C12 — symbol dictionary keys stay valid forever.  Headline theorems only. *)
From Pyro Require Import Model.Base Model.Varint Model.Dict Proofs.DictProofs.

Theorem C12_put_total : forall name t, d_put_opt name t <> None.
Proof. exact d_put_opt_some. Qed.
Print Assumptions C12_put_total.
