(* C12 — symbol dictionary keys stay valid forever.  Headline theorems only.
   Size hypotheses: tr_weight = number of nodes + label bytes of the trie, ops_weight = sum over the
   puts of (name length + 2); "< 2^63" is what Dict.Get's signed comparisons need. *)
From Pyro Require Import Model.Base Model.Varint Model.Dict Proofs.DictProofs.

(* findNodeAt terminates: the fuel of the model's loop is never exhausted *)
Theorem C12_put_total : forall name t, d_put_opt name t <> None.
Proof. exact d_put_opt_some. Qed.
Print Assumptions C12_put_total.

(* the key returned by Put decodes to the name *)
Theorem C12_dict_put_get : forall name t k t',
  tr_weight t + Nlen name < two63 -> d_put name t = (k, t') -> d_get k t' = Some name.
Proof. exact dict_put_get. Qed.
Print Assumptions C12_dict_put_get.

(* over ANY history of puts and save/reload events before and after, a key once returned decodes to its
   name in every later state (ops2 is arbitrary, so "every later state" is every prefix of any future) *)
Theorem C12_dict_stable : forall t0 ops1 name ops2 k t1,
  tr_weight t0 + ops_weight (ops1 ++ OPut name :: ops2) < two63 ->
  d_put name (fold_left d_step ops1 t0) = (k, t1) ->
  d_get k (fold_left d_step ops2 t1) = Some name.
Proof. exact dict_stable. Qed.
Print Assumptions C12_dict_stable.

(* putting the same name again, after any history, returns a key that decodes to the same name, and
   the key returned the first time still does *)
Theorem C12_dict_put_same : forall t0 ops1 name ops2 ops3 k1 t1 k2 t2,
  tr_weight t0 + ops_weight (ops1 ++ OPut name :: ops2 ++ OPut name :: ops3) < two63 ->
  d_put name (fold_left d_step ops1 t0) = (k1, t1) ->
  d_put name (fold_left d_step ops2 t1) = (k2, t2) ->
  d_get k2 (fold_left d_step ops3 t2) = Some name /\ d_get k1 (fold_left d_step ops3 t2) = Some name.
Proof. exact dict_put_same. Qed.
Print Assumptions C12_dict_put_same.

(* Deserialize (Serialize t) = t, for every trie whose lengths fit a uvarint (in particular for every
   well-formed one: the hypothesis asked for in DESIGN.md — non-empty labels, distinct first bytes — is
   not needed for the round trip) *)
Theorem C12_dict_codec_roundtrip : forall t, tr_weight t < 2 ^ 64 -> d_deserialize (d_serialize t) = Some t.
Proof. exact dict_codec_roundtrip. Qed.
Print Assumptions C12_dict_codec_roundtrip.

(* tries reachable from New by Put / reload are well-formed (non-empty labels, distinct first bytes
   among siblings): the situation in which the Go code would index an empty label cannot arise *)
Theorem C12_put_wf : forall name t, tr_wfb t = true -> tr_wfb (snd (d_put name t)) = true.
Proof. exact d_put_wf. Qed.
Print Assumptions C12_put_wf.

(* a concrete history with a split on the path of an earlier key, a reload, and a repeated name *)
Example C12_nonvacuous :
  let ops1 := [OPut [97;98;99]; OReload] in
  let ops2 := [OPut [97;98;100]; OReload; OPut [97]; OPut []; OPut [98]] in
  let ops3 := [OReload; OPut [97;98;99;100]] in
  let name := [97;98;99] in
  let '(k1, t1) := d_put name (fold_left d_step ops1 d_new) in
  let '(k2, t2) := d_put name (fold_left d_step ops2 t1) in
  (tr_weight d_new + ops_weight (ops1 ++ OPut name :: ops2 ++ OPut name :: ops3) <? two63) = true /\
  k1 = [0; 3] /\ k2 = [0; 1; 0; 1; 0; 1] /\
  tr_wfb (fold_left d_step ops3 t2) = true /\
  d_get k1 (fold_left d_step ops3 t2) = Some name /\ d_get k2 (fold_left d_step ops3 t2) = Some name.
Proof. vm_compute. repeat split. Qed.
