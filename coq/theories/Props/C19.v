(* C19 — agent session.  Headline theorems (being filled in). *)
From Pyro Require Import Model.Base Model.Session.
