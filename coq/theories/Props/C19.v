(* C19 — agent session: each reported sample is uploaded exactly once, in ordered windows.
   Headline theorems only.  All statements quantify over EVERY sequence of the fine-grained session events
   (Model/Session.v): clock reading of the due decision, each sample callback's critical section, the reset at
   the end of a tick, Stop — in any order, so every interleaving of the sampling goroutine with Stop() that
   trieMutex allows (a tick overlapping Stop, ticks after Stop) is covered; any number of spies/profile types,
   any stacks and counts, any clock readings (monotone or not) unless a hypothesis says otherwise.
   Samples are compared as multisets: "exactly once" = for every stack the uploaded count equals the
   reported count.
   PARTIAL: wall clock, ticker and goroutine scheduling are sampled by the correspondence check.
   NOTE (not a violation: the property bounds the window length from above only): Stop uploads the window
   [time of the last reset, Truncate(stop time)], whose end lies BEFORE its start whenever the session stops in
   the interval of its last reset — see [C19_stop_window_reversed]. *)
From Pyro Require Import Model.Base Model.Session Proofs.SessionProofs.
Open Scope Z_scope.

(* at every moment: uploaded + still in the current trie = reported (non-cumulative profile types) *)
Theorem C19_conservation : forall c t0 evs i k,
  (i < nslots c)%nat -> pt_cumulative (type_of c i) = false ->
  forall js s', s_run c (SStart t0 :: evs) (s_init c) = (js, s') ->
  (sum_data k (jobs_of_slot i js) + cur k i s' = reported c k i evs)%N.
Proof. exact session_conservation. Qed.
Print Assumptions C19_conservation.

(* every sample reported before Stop is uploaded exactly once; whatever is reported after Stop (callbacks that
   were blocked on trieMutex while Stop ran, later ticks) goes into tries that are never uploaded: at most once *)
Theorem C19_exactly_once_before_stop : forall c t0 pre ts post i k,
  (i < nslots c)%nat -> pt_cumulative (type_of c i) = false -> no_stop pre = true ->
  forall js s', s_run c (SStart t0 :: pre ++ SStop ts :: post) (s_init c) = (js, s') ->
  sum_data k (jobs_of_slot i js) = reported c k i pre.
Proof. exact exactly_once_before_stop. Qed.
Print Assumptions C19_exactly_once_before_stop.

(* nothing is uploaded twice / never more than reported, at any time *)
Theorem C19_never_more_than_reported : forall c t0 evs i k,
  (i < nslots c)%nat -> pt_cumulative (type_of c i) = false ->
  forall js s', s_run c (SStart t0 :: evs) (s_init c) = (js, s') ->
  (sum_data k (jobs_of_slot i js) <= reported c k i evs)%N.
Proof. exact never_more_than_reported. Qed.
Print Assumptions C19_never_more_than_reported.

(* cumulative profile types (alloc_objects, alloc_space): the first upload is skipped and every job is the
   clipped per-stack difference of two consecutive snapshots (C18_diff relates this to the byte-level trie) *)
Theorem C19_cumulative_jobs_are_clipped_diffs : forall c evs s js s' i,
  started s -> (i < length (ss_tries s))%nat -> pt_cumulative (type_of c i) = true ->
  s_run c evs s = (js, s') ->
  Forall (fun j => exists m q, uj_data j = ms_diff m q /\
                   forall k, ms_get k (uj_data j) = (ms_get k m - ms_get k q)%N) (jobs_of_slot i js).
Proof. exact cumulative_jobs_are_clipped_diffs. Qed.
Print Assumptions C19_cumulative_jobs_are_clipped_diffs.

(* names <application>.<profile type>, spy name, sample rate, units, aggregation type as configured; every
   window ends on a multiple of the upload interval *)
Theorem C19_jobs_named_and_aligned : forall c evs s js s',
  0 < sc_interval c -> s_run c evs s = (js, s') -> Forall (job_ok c) js.
Proof. exact jobs_named_and_aligned. Qed.
Print Assumptions C19_jobs_named_and_aligned.

(* each window starts no earlier than the previous one (of the same profile type) ended — unconditionally,
   since /repo 628ae12 made reset() a no-op after Stop *)
Theorem C19_windows_ordered : forall c t0 evs i,
  (i < nslots c)%nat -> 0 < sc_interval c ->
  forall js s', s_run c (SStart t0 :: evs) (s_init c) = (js, s') ->
  ordered_from None (jobs_of_slot i js).
Proof. exact windows_ordered. Qed.
Print Assumptions C19_windows_ordered.

(* windows are at most one interval long — hypothesis [timely]: every clock reading at which a window is cut
   lies before the end of the interval following the one in which the window started (what tick gaps shorter
   than the interval guarantee) *)
Theorem C19_windows_at_most_one_interval : forall c evs s js s',
  0 < sc_interval c -> timely c evs s -> s_run c evs s = (js, s') ->
  Forall (fun j => uj_end j - uj_start j <= sc_interval c) js.
Proof. exact windows_at_most_one_interval. Qed.
Print Assumptions C19_windows_at_most_one_interval.

(* ... and that hypothesis follows from "tick gaps shorter than the interval" ([regular]: every tick's reset reading
   comes less than one interval after the previous tick's decision reading, Stop less than one interval after the
   last decision reading): a whole session Start; ticks; Stop with regular ticks has windows of at most one interval *)
Theorem C19_regular_ticks_timely : forall c ticks ts prev s,
  0 < sc_interval c -> regular (sc_interval c) prev ticks ts ->
  ss_stopped s = false -> prev < trunc (sc_interval c) (ss_start s) + sc_interval c ->
  timely c (ticks_events ticks ++ [SStop ts]) s.
Proof. exact regular_ticks_timely. Qed.
Print Assumptions C19_regular_ticks_timely.

Theorem C19_regular_session_windows : forall c t0 ticks ts js s',
  0 < sc_interval c -> regular (sc_interval c) t0 ticks ts ->
  s_run c (SStart t0 :: ticks_events ticks ++ [SStop ts]) (s_init c) = (js, s') ->
  Forall (fun j => uj_end j - uj_start j <= sc_interval c) js.
Proof. exact regular_session_windows. Qed.
Print Assumptions C19_regular_session_windows.

Example C19_nonvacuous :
  let '(js, s') := s_run ex_scfg (SStart 3 :: ex_sevs) (s_init ex_scfg) in
  map (fun j => (uj_start j, uj_end j, uj_data j)) js =
    [(3, 10, [([97%N], 1%N); ([98%N], 1%N); ([97%N], 2%N)]); (13, 20, [([99%N], 5%N)])] /\
  timely ex_scfg (SStart 3 :: ex_sevs) (s_init ex_scfg) /\
  cur [100%N] 0 s' = 7%N.
Proof. exact ex_session_nonvacuous. Qed.

Example ex_C19_stop_window_reversed :
  let '(js, _) := s_run ex_scfg [SStart 3; SSample 0 [97%N] 1%N; SStop 7] (s_init ex_scfg) in
  map (fun j => (uj_start j, uj_end j)) js = [(3, 0)].
Proof. exact stop_window_reversed. Qed.
