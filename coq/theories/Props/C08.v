(* C08 — concurrent ingest, render and maintenance: race-free, deadlock-free, atomic reads, no lost update.
   Headline theorems only.

   FINE model (Model/Conc.v): threads are lists of lock acquisitions / releases (read or write mode, with the
   writer-pending rule of Go's sync.RWMutex) and accesses of shared locations; the theorems quantify over EVERY
   schedule (any list of thread indexes) and over ANY multiset of threads taken from the access table of
   Storage.Put / Storage.Get / Storage.Delete+retention / write-back and eviction tasks / cache savers as they are
   in /repo after the fix commits ffa16da, 39795c3, 560e1ec, 6f0bdb0, fba57a2 — any number of clients, series,
   dimensions, trees, addon trees.
   COARSE model: ingests and renders of one series as called / atomic section / returned; every list of events is
   a schedule.  The step from the fine to the coarse model ("a section protected by one lock is one step") is
   mechanised observationally in [C08_atomic_read_fine] (Proofs/C08Reduction.v): on the fine model instrumented
   with data, for every schedule, everything a reader's segment read section observes (segment tree and every
   profile tree read inside it) is the content after exactly the writers whose write section began before it,
   each whole, in section order.  [C08_atomic_read_full] instantiates it for the FULL access-table threads (Put with
   its cache / dimension / segment / tree sections, Delete+retention, renders, write-back and eviction tasks,
   savers) of one series, for ANY number of them and all parameters (Proofs/C08Full.v proves the two section
   disciplines [wdisc]/[rdisc] of these threads parametrically), and [C08_atomic_read_full_linearised] exhibits
   the explicit coarse schedule — the writers of S, each whole, in section order, then the render — on which the
   coarse model's render returns exactly S.  Left out: the linearisation is built from the invariant's witness S,
   not by commuting the actions of the given fine schedule step by step; it covers ONE render's observation (not
   several renders in one coarse schedule); Badger / lfu contents are not data.
   SEVERAL SERIES (Proofs/C08Multi.v): profile trees are partitioned by series ([tree_series]); the instrumentation
   tracks one series s at a time and the fine schedule does not depend on which ([C08_schedule_independent_of_
   tracked_series]), so every statement holds for every series of the same run.  [C08_atomic_read_multi]: among
   threads of ALL series a render of s observes a prefix S of the writers OF s, threads of other series write no
   location of s ([C08_foreign_put_writes_nothing]).  A selector render takes ONE read section PER matching series
   (Storage.Get loops over the segment keys: AggregationType and GetWithTimeline under each segment's own read
   lock): [C08_atomic_read_selector] gives per-series atomicity for every matched series; the answer as a whole is
   NOT a cross-series snapshot ([ex_C08_selector_not_a_snapshot]) — that is what the code guarantees and what the
   property asks for (a query on a SINGLE series).  [C08_quiescent_sum_multi]: when every thread has finished, every
   series holds exactly its writers, each whole.
   PARTIAL: the Go scheduler and the Go memory model are sampled by the correspondence run (race detector). *)
From Pyro Require Import Model.Base Model.Conc Model.ConcData Proofs.ConcProofs Proofs.C08Reduction Proofs.C08Full Proofs.C08Multi.
From Coq Require Import Permutation.

(* lockset: every thread of the table makes every access holding that location's lock in the right mode, and
   therefore no schedule ever reaches a state in which two threads are at conflicting accesses *)
Theorem C08_lockset : forall ts sched,
  Forall table_thread ts ->
  forallb lockset_thread ts = true /\ ~ racing (run_sched sched (init_config ts)).
Proof. exact storage_threads_lockset. Qed.
Print Assumptions C08_lockset.

(* generic form: ANY threads that respect the lock order and the lockset discipline never race *)
Theorem C08_lockset_generic : forall ts sched,
  forallb ordered_thread ts = true -> forallb lockset_thread ts = true ->
  ~ racing (run_sched sched (init_config ts)).
Proof. exact lockset_threads_never_race. Qed.
Print Assumptions C08_lockset_generic.

(* the access tables before the fixes fail the obligation *)
Example ex_C08_d9_table_fails_lockset : lockset_thread (get_thread_d9 0 [0; 1] [0; 3]) = false.
Proof. exact d9_table_fails_lockset. Qed.
Example ex_C08_unlocked_dimension_save_fails_lockset :
  lockset_thread (evict_task CDims (save_dimension_unlocked 1)) = false.
Proof. exact unlocked_dimension_save_fails_lockset. Qed.
Example ex_C08_unlocked_dimension_save_races :
  racing (run_sched (repeat 0 19) (init_config [put_thread 0 [0] []; save_dimension_unlocked 0])).
Proof. exact unlocked_dimension_save_races. Qed.

(* no deadlock: locks are taken in the order putMutex < dimensions cache < segments cache < segment < trees cache
   < dicts cache < tree / dimension < dict (never two of one rank at once), so no reachable state is stuck *)
Theorem C08_no_deadlock : forall ts sched,
  Forall table_thread ts -> stuck (run_sched sched (init_config ts)) = false.
Proof. exact storage_threads_no_deadlock. Qed.
Print Assumptions C08_no_deadlock.

Theorem C08_no_deadlock_generic : forall ts sched,
  forallb ordered_thread ts = true -> stuck (run_sched sched (init_config ts)) = false.
Proof. exact ordered_threads_never_stuck. Qed.
Print Assumptions C08_no_deadlock_generic.

(* the table before 560e1ec (Intersection holding the read locks of all its dimensions, in map order) is not
   ordered and reaches a stuck state: two renders, one ingest, one delete *)
Example ex_C08_nested_table_not_ordered : ordered_thread (get_thread_nested 0 [0; 1] []) = false.
Proof. exact nested_table_not_ordered. Qed.
Example ex_C08_nested_table_deadlocks : stuck (run_sched [0; 1; 0; 1; 2; 3] (init_config dl_threads)) = true.
Proof. exact nested_table_deadlocks. Qed.

(* mutual exclusion of a segment's write section with every other section of that segment *)
Theorem C08_segment_sections_exclusive : forall ts sched i j t u s,
  Forall table_thread ts ->
  let c := run_sched sched (init_config ts) in
  i <> j -> nth_error c i = Some t -> nth_error c j = Some u ->
  holds_w (LSeg s) (ts_held t) = true -> holds (LSeg s) (ts_held u) = false.
Proof. exact segment_sections_exclusive. Qed.
Print Assumptions C08_segment_sections_exclusive.

(* atomic read (coarse model, all schedules): a render returns the state after a whole number of ingests — a
   prefix of the order in which the ingests were applied — containing at least the ingests acknowledged before it
   was called and at most those called before it returned *)
Theorem C08_atomic_read : forall evs r S,
  let s := c_run evs in
  In (r, S) (r_read s) ->
  (exists rest, c_applied s = S ++ rest) /\
  (forall E, In (r, E) (r_started s) -> incl E S) /\
  (forall T, In (r, T) (r_ended s) -> incl S T).
Proof. exact atomic_read. Qed.
Print Assumptions C08_atomic_read.

(* atomic read on the FINE model with data (all schedules; any threads that respect the lock order, keep their
   tracked writes in one segment write section — every thread but g — and, for the reader g, its tracked reads in
   one segment read section): whatever g's read section observed is the content after exactly the writers in S,
   each WHOLE, in section order; S is a prefix of the final section order, contains every writer that had
   finished when the read section began and only threads that had begun *)
Theorem C08_atomic_read_fine : forall s g ts,
  forallb ordered_thread ts = true ->
  (forall i, i <> g -> wdisc s false [] (nth i ts []) = true) ->
  rdisc s false [] (nth g ts []) = true ->
  forall sched,
  let d := snd (drun s g sched ts) in
  forall S C T, d_snap d = Some (S, C, T) ->
    (forall x v, In (x, v) (d_obs d) -> v = after_puts s ts S x) /\
    NoDup S /\ (exists rest, d_order d = S ++ rest) /\
    (forall i, In i C -> i <> g -> 0 < nwrites s (nth i ts []) -> In i S) /\
    (forall i, In i S -> In i T).
Proof. exact atomic_read_fine. Qed.
Print Assumptions C08_atomic_read_fine.

(* instance: k ingests (each merging into any trees) and one render (reading any trees) of one series *)
Theorem C08_atomic_read_fine_core : forall s puts reads sched,
  let ts := core_threads s puts reads in
  let g := length puts in
  let d := snd (drun s g sched ts) in
  forall S C T, d_snap d = Some (S, C, T) ->
    (forall x v, In (x, v) (d_obs d) -> v = after_puts s ts S x) /\
    NoDup S /\ (exists rest, d_order d = S ++ rest) /\
    (forall i, In i C -> i <> g -> 0 < nwrites s (nth i ts []) -> In i S) /\
    (forall i, In i S -> In i T).
Proof. exact atomic_read_fine_core. Qed.
Print Assumptions C08_atomic_read_fine_core.

(* the same for the FULL access-table threads of one series: any number of ingests, deletes / retention runs,
   renders, write-back and eviction tasks and savers, any parameters, any schedule; g is any of the renders *)
Theorem C08_atomic_read_full : forall s g ts ds trs,
  Forall (series_thread s) ts -> nth_error ts g = Some (get_thread s ds trs) ->
  forall sched,
  let d := snd (drun s g sched ts) in
  forall S C T, d_snap d = Some (S, C, T) ->
    (forall x v, In (x, v) (d_obs d) -> v = after_puts s ts S x) /\
    NoDup S /\ (exists rest, d_order d = S ++ rest) /\
    (forall i, In i C -> i <> g -> 0 < nwrites s (nth i ts []) -> In i S) /\
    (forall i, In i S -> In i T).
Proof. exact atomic_read_full. Qed.
Print Assumptions C08_atomic_read_full.

(* ... and the explicit coarse schedule: the writers of S, each whole (called, write section, acknowledged), in
   section order, then the render; on it the COARSE model's render returns exactly S, and every fine observation
   is the content after the ingests the coarse schedule applied *)
Theorem C08_atomic_read_full_linearised : forall s g ts ds trs,
  Forall (series_thread s) ts -> nth_error ts g = Some (get_thread s ds trs) ->
  forall sched,
  let d := snd (drun s g sched ts) in
  forall S C T, d_snap d = Some (S, C, T) ->
    let lin := linearisation S g in
    r_read (c_run lin) = [(g, S)] /\ c_applied (c_run lin) = S /\
    (forall x v, In (x, v) (d_obs d) -> v = after_puts s ts (c_applied (c_run lin)) x).
Proof. exact atomic_read_full_linearised. Qed.
Print Assumptions C08_atomic_read_full_linearised.

(* the section disciplines of the full threads, for all parameters *)
Theorem C08_full_threads_disciplined : forall s t, series_thread s t ->
  wdisc s false [] t = true /\ ordered_thread t = true /\ lockset_thread t = true.
Proof. exact full_threads_disciplined. Qed.
Print Assumptions C08_full_threads_disciplined.

Theorem C08_render_disciplined : forall s ds ts, rdisc s false [] (get_thread s ds ts) = true.
Proof. exact get_thread_rdisc. Qed.
Print Assumptions C08_render_disciplined.

Example C08_full_run_nonvacuous :
  let d := snd (drun 0 2 (repeat 0 200 ++ repeat 2 40 ++ repeat 1 200 ++ repeat 2 200) full_example_threads) in
  d_obs d = [(LocTree 6, [0]); (LocTree 2, [0; 1]); (LocSegTree 0, [0; 1]); (LocSegTree 0, [0; 1])] /\
  d_snap d = Some ([0; 1], [0; 1], [0; 1; 2]).
Proof. exact full_run_nonvacuous. Qed.

(* ---- several series at once: N writers each owning its series, M readers, tasks -------------------------------- *)
(* threads of ALL series (each Put merging into trees of its own series); g renders series s *)
Theorem C08_atomic_read_multi : forall s g ts ds trs,
  Forall mthread ts -> nth_error ts g = Some (get_thread s ds trs) ->
  forall sched,
  let d := snd (drun s g sched ts) in
  forall S C T, d_snap d = Some (S, C, T) ->
    (forall x v, In (x, v) (d_obs d) -> v = after_puts s ts S x) /\
    NoDup S /\ (exists rest, d_order d = S ++ rest) /\
    (forall i, In i C -> i <> g -> 0 < nwrites s (nth i ts []) -> In i S) /\
    (forall i, In i S -> In i T) /\
    (forall i, In i S -> i <> g /\ 0 < nwrites s (nth i ts [])).
Proof. exact atomic_read_multi. Qed.
Print Assumptions C08_atomic_read_multi.

(* frame: an ingest into another series writes no location of s *)
Theorem C08_foreign_put_writes_nothing : forall s sj ds cbs,
  sj <> s -> owns sj cbs = true -> nwrites s (put_thread sj ds cbs) = 0.
Proof. exact foreign_put_writes_nothing. Qed.
Print Assumptions C08_foreign_put_writes_nothing.

(* a selector matching several series: one read section per series; per-series atomicity for every matched series *)
Theorem C08_atomic_read_selector : forall g ts ds sel,
  Forall mthread2 ts -> nth_error ts g = Some (get_selector ds sel) -> selector_wf sel ->
  forall sched s, In s (map fst sel) ->
  let d := snd (drun s g sched ts) in
  forall S C T, d_snap d = Some (S, C, T) ->
    (forall x v, In (x, v) (d_obs d) -> v = after_puts s ts S x) /\
    NoDup S /\ (exists rest, d_order d = S ++ rest) /\
    (forall i, In i C -> i <> g -> 0 < nwrites s (nth i ts []) -> In i S) /\
    (forall i, In i S -> In i T) /\
    (forall i, In i S -> i <> g /\ 0 < nwrites s (nth i ts [])).
Proof. exact atomic_read_selector. Qed.
Print Assumptions C08_atomic_read_selector.

Theorem C08_schedule_independent_of_tracked_series : forall s1 s2 g sched ts,
  fst (drun s1 g sched ts) = fst (drun s2 g sched ts).
Proof. exact drun_config_independent. Qed.
Print Assumptions C08_schedule_independent_of_tracked_series.

(* not a cross-series snapshot: the render misses an ingest into series 0 that was acknowledged before the ingest into
   series 1 that it shows had even begun *)
Example ex_C08_selector_not_a_snapshot :
  d_obs (snd (drun 0 0 snap_sched snap_threads)) = [(LocTree 0, []); (LocSegTree 0, []); (LocSegTree 0, [])] /\
  d_obs (snd (drun 1 0 snap_sched snap_threads)) = [(LocTree 1, [2]); (LocSegTree 1, [2]); (LocSegTree 1, [2])] /\
  finished (fst (drun 0 0 snap_sched snap_threads)) = true.
Proof. exact selector_not_a_snapshot. Qed.

(* quiescence, every series: when all threads have finished, the locations of s hold exactly the writers of s, each
   whole, in section order (merge being addition: the sum of everything acknowledged) *)
Theorem C08_quiescent_sum_multi : forall s ts sched,
  Forall mthread ts ->
  let cd := drun s (length ts) sched ts in
  finished (fst cd) = true ->
  NoDup (d_order (snd cd)) /\
  (forall i, In i (d_order (snd cd)) <-> 0 < nwrites s (nth i ts [])) /\
  (forall x, tracked s x = true -> d_val (snd cd) x = after_puts s ts (d_order (snd cd)) x).
Proof. exact quiescent_sum_multi. Qed.
Print Assumptions C08_quiescent_sum_multi.

(* every observation is covered: without the snapshot nothing was observed *)
Theorem C08_no_observation_without_snapshot : forall s g ts,
  forallb ordered_thread ts = true ->
  (forall i, i <> g -> wdisc s false [] (nth i ts []) = true) ->
  rdisc s false [] (nth g ts []) = true ->
  forall sched, d_snap (snd (drun s g sched ts)) = None -> d_obs (snd (drun s g sched ts)) = [].
Proof. exact no_observation_without_snapshot. Qed.
Print Assumptions C08_no_observation_without_snapshot.

Example ex_C08_full_templates_disciplined_instance :
  wdisc 0 false [] (put_thread 0 [0; 1] [(0, [1; 2], true); (3, [], false)]) = true /\
  rdisc 0 false [] (get_thread 0 [0; 1] [0; 3]) = true /\
  wdisc 0 false [] (delete_thread 0 [0; 1] [0; 3]) = true /\
  wdisc 0 false [] (evict_task CTrees (save_tree 1 0)) = true.
Proof. exact full_templates_disciplined_instance. Qed.

Example C08_fine_nonvacuous :
  let r := drun 0 2 [0;0;0;0;0;0; 2;2; 1;1;1; 0;0;0;0;0;0;0;0;0;0;0;0; 2;2;2;2; 1;1;1;1;1;1;1;1;1;1; 2;2;2;2;2;2;2;2;2;2;2]
                (core_threads 0 [[2; 4]; [4]] [2; 4]) in
  d_obs (snd r) = [(LocTree 4, [0]); (LocTree 2, [0]); (LocSegTree 0, [0]); (LocSegTree 0, [0])] /\
  d_snap (snd r) = Some ([0], [0], [0; 2]).
Proof. exact fine_nonvacuous. Qed.

(* quiescent sum (coarse model, all schedules): once every called ingest has returned, the series holds each of
   them exactly once — the sequential sum *)
Theorem C08_quiescent_sum : forall evs w,
  let s := c_run evs in
  (forall g, In g (c_started s) -> In g (c_ended s)) ->
  NoDup (c_applied s) /\ Permutation (c_applied s) (c_started s) /\ sumw w (c_applied s) = sumw w (c_started s).
Proof. exact quiescent_sum. Qed.
Print Assumptions C08_quiescent_sum.

Example C08_nonvacuous :
  let s := c_run [WStart 1; WApply 1; WEnd 1; RStart 7; WStart 2; WApply 2; RRead 7; WStart 3; WEnd 2; REnd 7; WApply 3; WEnd 3] in
  r_read s = [(7, [1; 2])] /\ r_started s = [(7, [1])] /\ r_ended s = [(7, [3; 2; 1])] /\ c_applied s = [1; 2; 3] /\
  (forall g, In g (c_started s) -> In g (c_ended s)).
Proof. exact coarse_nonvacuous. Qed.

(* what Storage.Get did before fba57a2: timeline and tree read in two sections may come from different states *)
Example ex_C08_two_sections_see_different_states :
  r_read (c_run two_sections_example) = [(11, [1]); (10, [])].
Proof. exact two_sections_see_different_states. Qed.
