(* C08 — concurrent ingest / render / maintenance.  Headline theorems (being filled in). *)
From Pyro Require Import Model.Base.
