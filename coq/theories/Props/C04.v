(* C04 — profile codec: lossless below the node cap, pure truncation above it.  Headline theorems only.
   Hypotheses: t_wfb (children strictly sorted by name, as Insert/Merge/decode build them), t_fitsb (name lengths,
   self values and child counts fit a uvarint), t_exactb (total = self + children), and for the dictionary
   encoding a size bound (dictionary nodes+bytes + names written + later puts < 2^55).  Caps are >= 1. *)
From Pyro Require Import Model.Base Model.Varint Model.Tree Model.Cappedarr Model.Dict Model.TreeCodec
  Proofs.DictProofs Proofs.TreeCodecProofs.

(* cappedarr_topN, sequence part: after pushing ANY sequence of values (accepted or refused) into CappedArray(cap)
   its window is exactly the cap largest pushed values in ascending order (isort vs is the sorted permutation of
   vs, topn takes its last cap elements), so MinValue is the cap-th largest value once cap values were pushed *)
Theorem cappedarr_topN : forall cap vs, (1 <= cap)%nat ->
  ca_vals (push_all vs (ca_new cap)) = topn cap (isort vs) /\
  Sorted.StronglySorted N.le (isort vs) /\ Permutation.Permutation (isort vs) vs.
Proof. exact cappedarr_window. Qed.
Print Assumptions cappedarr_topN.

(* cappedarr_topN, tree part: whenever minValue uses the array (the pruned walk visited more than cap nodes) the
   threshold is the cap-th largest node total of the WHOLE tree — fewer than cap totals are greater, at least cap
   are greater or equal — although the walk never pushes the descendants of refused nodes (children <= parent) *)
Theorem cappedarr_topN_tree : forall cap t, (1 <= cap)%nat -> t_subb t = true ->
  let st := mv_visit t (ca_new cap, 0%nat) in
  (cap < snd st)%nat ->
  let m := ca_min (fst st) in
  t_minval cap t = m /\
  (count_gt m (all_totals t) < cap)%nat /\ (cap <= count_ge m (all_totals t))%nat.
Proof. exact cappedarr_tree_topN. Qed.
Print Assumptions cappedarr_topN_tree.

Example cappedarr_topN_nonvacuous :
  let t := TNode [] 0 9 [TNode [] 0 3 [TNode [97] 3 3 []]; TNode [97] 0 3 [TNode [0; 255] 0 3 [TNode [98] 3 3 []]];
                         TNode [98] 3 3 []; TNode [99] 0 0 [TNode [100] 0 0 []]] in
  t_subb t = true /\ snd (mv_visit t (ca_new 3, 0%nat)) = 6%nat /\ t_minval 3 t = 3 /\
  count_gt 3 (all_totals t) = 1%nat /\ count_ge 3 (all_totals t) = 7%nat /\
  ca_vals (push_all [5; 0; 7; 7; 1; 9] (ca_new 3)) = [7; 7; 9].
Proof. vm_compute. repeat split. Qed.

(* For ANY cap: what both decoders return is retotal (prune th t) with th = the threshold of minval.go — a pruned
   copy.  The dictionary form is decoded with the dictionary as it is after any later history of puts and
   save/reload events (this is where C12 is used).  Every stack of the decoded tree is a stack of t with the same
   self value (so nothing new, no new count), its totals are consistent, and both encodings decode to the SAME tree. *)
Theorem C04_prune : forall cap t d bs d' ops,
  (1 <= cap)%nat -> t_wfb t = true -> t_fitsb t = true ->
  tr_weight d + names_weight (t_minval cap t) t + ops_weight ops < two55 ->
  tc_serialize cap t d = (bs, d') ->
  let dec := t_retotal (t_prune (t_minval cap t) t) in
  tc_deserialize (fold_left d_step ops d') bs = Some dec /\
  tc_deserialize_nodict (tc_serialize_nodict cap t) = Some dec /\
  (forall x, In x (t_den dec) -> In x (t_den t)) /\
  t_exactb dec = true.
Proof. exact C04_prune_full. Qed.
Print Assumptions C04_prune.

(* Node count <= cap (in particular < cap): both encodings decode to t with the children of zero-total nodes
   removed (t_prune 0 t); that tree equals t once zero-total frames are stripped from both, and is t itself when
   no frame has total zero. *)
Theorem C04_lossless : forall cap t d bs d' ops,
  (1 <= cap)%nat -> t_wfb t = true -> t_exactb t = true -> t_fitsb t = true ->
  tr_weight d + names_weight 0 t + ops_weight ops < two55 ->
  (t_size t <= cap)%nat ->
  tc_serialize cap t d = (bs, d') ->
  tc_deserialize (fold_left d_step ops d') bs = Some (t_prune 0 t) /\
  tc_deserialize_nodict (tc_serialize_nodict cap t) = Some (t_prune 0 t) /\
  t_strip0 (t_prune 0 t) = t_strip0 t /\
  (t_posb t = true -> t_prune 0 t = t).
Proof. exact C04_lossless_full. Qed.
Print Assumptions C04_lossless.

(* ---- inexact trees (known finding scaled-totals-reloaded) ------------------------------------------------------
   The full statement "below the cap the identical tree comes back" for ALL trees the system stores would be
     forall cap t, 1 <= cap -> t_wfb t -> t_subb t -> t_fitsb t -> t_size t < cap ->
       exists t', decode (encode cap t) = Some t' /\ t_strip0 t' = t_strip0 t
   (t_subb: total >= self + children, which is what Clone's independent flooring of a multi-slot upload yields).
   It is FALSE of the faithful model and of the code: the codec writes self values only and recomputes totals. *)
Theorem C04_lossless_inexact_refuted :
  exists cap t, (1 <= cap)%nat /\ t_wfb t = true /\ t_subb t = true /\ t_fitsb t = true /\ (t_size t < cap)%nat /\
    ~ (exists t', tc_deserialize_nodict (tc_serialize_nodict cap t) = Some t' /\ t_strip0 t' = t_strip0 t).
Proof. exact lossless_inexact_refuted. Qed.
Print Assumptions C04_lossless_inexact_refuted.

(* What IS preserved for inexact trees below the cap (added hypothesis relative to C04_lossless: t_subb instead of
   t_exactb): both encodings decode to retotal (prune 0 t) — names, shape and self values of prune 0 t (t_untotal
   erases totals), which is t up to zero-total frames; every stack with a non-zero self value survives with that
   value, nothing new appears, and the decoded totals are the sums self + children. *)
Theorem C04_inexact_preserved : forall cap t d bs d' ops,
  (1 <= cap)%nat -> t_wfb t = true -> t_subb t = true -> t_fitsb t = true ->
  tr_weight d + names_weight 0 t + ops_weight ops < two55 ->
  (t_size t <= cap)%nat ->
  tc_serialize cap t d = (bs, d') ->
  let dec := t_retotal (t_prune 0 t) in
  tc_deserialize (fold_left d_step ops d') bs = Some dec /\
  tc_deserialize_nodict (tc_serialize_nodict cap t) = Some dec /\
  t_untotal dec = t_untotal (t_prune 0 t) /\
  t_strip0 (t_prune 0 t) = t_strip0 t /\
  (forall x, In x (t_den t) -> snd x <> 0 -> In x (t_den dec)) /\
  (forall x, In x (t_den dec) -> In x (t_den t)) /\
  t_exactb dec = true.
Proof. exact inexact_preserved. Qed.
Print Assumptions C04_inexact_preserved.

Example C04_inexact_nonvacuous :
  let t := t_clone 7 8 (t_insert [97] 2 (t_insert [109; 97; 105; 110; 59; 109; 97; 105; 110] 2 t_empty)) in
  t_wfb t = true /\ t_subb t = true /\ t_exactb t = false /\ t_fitsb t = true /\ t_total t = 3 /\
  tc_deserialize_nodict (tc_serialize_nodict 1024 t) = Some (t_retotal (t_prune 0 t)) /\ t_total (t_retotal (t_prune 0 t)) = 2.
Proof. vm_compute. repeat split. Qed.

(* the self-contained encoding alone needs no dictionary hypothesis *)
Theorem C04_nodict_roundtrip : forall cap t, t_wfb t = true -> t_fitsb t = true ->
  tc_deserialize_nodict (tc_serialize_nodict cap t) = Some (t_retotal (t_prune (t_minval cap t) t)).
Proof. exact nodict_roundtrip. Qed.
Print Assumptions C04_nodict_roundtrip.

(* the threshold is 0 whenever the tree fits the budget (fix D1) *)
Theorem C04_threshold_fits : forall cap t, (t_size t <= cap)%nat -> t_minval cap t = 0.
Proof. exact t_minval_fits. Qed.
Print Assumptions C04_threshold_fits.

(* the hypotheses are met by every tree the system builds: trees made by Insert are well-formed and exact (C09 adds:
   Merge preserves both), and every decoded tree is again well-formed and exact, so it can be re-encoded *)
Theorem C04_hypotheses_reachable :
  (forall ss : list (bytes * N),
     let t := fold_left (fun t kv => t_insert (fst kv) (snd kv) t) ss t_empty in
     t_wfb t = true /\ t_exactb t = true) /\
  (forall th t, t_wfb t = true ->
     t_wfb (t_retotal (t_prune th t)) = true /\ t_exactb (t_retotal (t_prune th t)) = true).
Proof. split; [exact built_wf_exact|]. intros th t H. split; [exact (R_wf th t H)|apply t_retotal_exact]. Qed.
Print Assumptions C04_hypotheses_reachable.

(* regression for D1, machine-checked: with the threshold function as it was before fix c217b1a (smallest
   collected total even when the whole tree fits the budget) the profile "a;b 5" encodes to bytes that decode to
   the empty tree; with the current threshold it round-trips *)
Example C04_unfixed_refuted :
  let t := t_insert [97; 59; 98] 5 t_empty in
  tc_deserialize_nodict (ser_nd (t_minval_old 1024 t) t) = Some (TNode [] 0 0 []) /\
  tc_deserialize_nodict (tc_serialize_nodict 1024 t) = Some t.
Proof. vm_compute. split; reflexivity. Qed.
Print Assumptions C04_unfixed_refuted.

(* non-vacuity: a tree with tying totals (zero-self chain, equal siblings, empty and binary names, a zero-total
   frame), a dictionary with earlier entries, later dictionary history, caps below / at / above the node count *)
Example C04_nonvacuous :
  let t := TNode [] 0 9 [TNode [] 0 3 [TNode [97] 3 3 []]; TNode [97] 0 3 [TNode [0; 255] 0 3 [TNode [98] 3 3 []]];
                         TNode [98] 3 3 []; TNode [99] 0 0 [TNode [100] 0 0 []]] in
  let d := snd (d_put [97; 98] (snd (d_put [98; 99] d_new))) in
  let ops := [OPut [97; 99]; OReload; OPut []] in
  t_wfb t = true /\ t_exactb t = true /\ t_fitsb t = true /\ t_size t = 9%nat /\
  (tr_weight d + names_weight 0 t + ops_weight ops <? two55) = true /\
  t_minval 3 t = 3 /\ t_minval 9 t = 0 /\
  (let '(bs, d') := tc_serialize 3 t d in tc_deserialize (fold_left d_step ops d') bs) =
    Some (TNode [] 0 3 [TNode [] 0 0 []; TNode [97] 0 0 []; TNode [98] 3 3 []; TNode [99] 0 0 []]) /\
  (let '(bs, d') := tc_serialize 9 t d in tc_deserialize (fold_left d_step ops d') bs) = Some (t_prune 0 t) /\
  t_prune 0 t <> t.
Proof. vm_compute. repeat split; try reflexivity; discriminate. Qed.
