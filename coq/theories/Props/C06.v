(* C06 — what the agent samples is what the server stores, in every wire format.  Headline theorems only. *)
From Coq Require Import Ascii.
From Pyro Require Import Model.Base Model.TextFormats Model.Ingest Proofs.TextFormatsProofs.

Local Open Scope N_scope.

(* omitted parameters yield ('unknown', 100, 'samples', 'sum'), for every request *)
Theorem C06_defaults : forall q ct,
  q_get (ascii "spyName") q = [] -> q_get (ascii "sampleRate") q = [] ->
  q_get (ascii "units") q = [] -> q_get (ascii "aggregationType") q = [] ->
  let ip := ingest_params_of q ct in
  ip_spy ip = ascii "unknown" /\ ip_rate ip = 100 /\ ip_units ip = ascii "samples" /\ ip_aggregation ip = ascii "sum".
Proof. exact ingest_defaults. Qed.
Print Assumptions C06_defaults.
