(* C06 — what the agent samples is what the server stores, in every wire format.  Headline theorems only.

   profile_of ms        : the profile tree obtained by inserting the multiset ms of (stack, count) directly
   render_groups ms     : "stack count\n" per entry            tree_via_groups : ParseGroups + Tree.Insert
   render_lines ms      : the stack written count times         tree_via_lines  : ParseIndividualLines + Tree.Insert
   trie_body ms         : Serialize of the agent's trie         tree_via_trie   : Deserialize, Iterate + Tree.Insert
   entry_ok (k, v)      : k <> "", k has no '\n', k does not end in '\r', 1 <= v < 2^63, the text line is
                          shorter than 64 KiB  (C06ProfileProofs.entry_ok)
   tt_fitsb 1 1 t       : name lengths, child counts and values of the trie are below 2^64

   tree_body cap ms     : Tree.SerializeNoDict(cap) of the profile    tree_via_tree : tree.DeserializeNoDict
   t_fitsb t            : name lengths <= MaxInt64, self values and child counts below 2^64 (TreeCodecProofs)
   The model and the round trip of the tree codec are builder tree-b's (Model/TreeCodec.v, Proofs/TreeCodecProofs.v). *)
From Coq Require Import Ascii.
From Pyro Require Import Model.Base Model.Tree Model.Varint Model.TTrie Model.TextFormats Model.TreeCodec Model.Ingest.
From Pyro Require Import Model.UrlCoding.
From Pyro Require Import Proofs.TTrieProofs Proofs.C18SortedProofs Proofs.TextFormatsProofs Proofs.TreeCodecProofs Proofs.C06ProfileProofs Proofs.C06UrlProofs.

Local Open Scope N_scope.

(* the trie wire format loses nothing *)
Theorem ttrie_roundtrip : forall t,
  tt_wf t -> tt_name t = [] -> tt_fitsb 1 1 t = true ->
  exists t', tt_deserialize (tt_serialize 1 1 t) = Some t' /\ tt_wf t' /\ tt_name t' = [] /\
    (forall k, tt_den t' k = tt_den t k) /\
    (forall K v, In (K, v) (tt_iterate t') <-> In (K, v) (tt_iterate t)).
Proof. exact TTrieProofs.ttrie_roundtrip. Qed.
Print Assumptions ttrie_roundtrip.

(* as DESIGN states it: for the agent's tries (built by Insert) Iterate after the wire is the same sequence *)
Theorem ttrie_roundtrip_iterate : forall ms, tt_fitsb 1 1 (tt_of_multiset ms) = true ->
  option_map tt_iterate (tt_deserialize (tt_serialize 1 1 (tt_of_multiset ms))) = Some (tt_iterate (tt_of_multiset ms)).
Proof. exact C18SortedProofs.ttrie_roundtrip_iterate. Qed.
Print Assumptions ttrie_roundtrip_iterate.

(* Insert adds to one key and leaves every other key alone (shared with C18) *)
Theorem ttrie_den_insert : forall key v merge t, tt_wf t ->
  tt_wf (tt_insert key v merge t) /\
  forall k, tt_den (tt_insert key v merge t) k =
            if beqb k key then (if merge then tt_den t key + v else v) else tt_den t k.
Proof. exact TTrieProofs.ttrie_den_insert. Qed.
Print Assumptions ttrie_den_insert.

(* the stored profile depends only on the positive counts per stack: order, repeats and splitting of
   counts over several entries are not observable *)
Theorem C06_profile_is_multiset : forall a b,
  Forall (fun kv => 0 < snd kv) a -> Forall (fun kv => 0 < snd kv) b ->
  (forall k, ms_count a k = ms_count b k) -> profile_of a = profile_of b.
Proof. exact profile_of_equiv. Qed.
Print Assumptions C06_profile_is_multiset.

(* collapsed text, one stack per line, the binary trie and the binary tree all build the tree of the multiset
   itself; cap is the node budget the client passes to SerializeNoDict (no pruning while the tree fits it) *)
Theorem C06_formats_agree : forall cap ms, Forall entry_ok ms ->
  tt_fitsb 1 1 (tt_of_multiset ms) = true -> t_fitsb (profile_of ms) = true -> (t_size (profile_of ms) <= cap)%nat ->
  tree_via_groups (render_groups ms) = Some (profile_of ms) /\
  tree_via_lines (render_lines ms) = Some (profile_of ms) /\
  tree_via_trie (trie_body ms) = Some (profile_of ms) /\
  tree_via_tree (tree_body cap ms) = Some (profile_of ms).
Proof. exact formats_agree4. Qed.
Print Assumptions C06_formats_agree.

Example C06_formats_agree_nonvacuous :
  let ms := [([109;97;105;110;59;102;111;111], 3); ([109;97;105;110;59;102;111;111;98;97;114], 2);
             ([109;97;105;110], 1); ([120;32;121;59;195;169], 4); ([109;97;105;110;59;102;111;111], 5)] in
  tt_fitsb 1 1 (tt_of_multiset ms) = true /\ t_fitsb (profile_of ms) = true /\ Nat.leb (t_size (profile_of ms)) 2048 = true /\
  tree_via_groups (render_groups ms) = Some (profile_of ms) /\
  tree_via_lines (render_lines ms) = Some (profile_of ms) /\
  tree_via_trie (trie_body ms) = Some (profile_of ms) /\
  tree_via_tree (tree_body 2048 ms) = Some (profile_of ms) /\
  t_total (profile_of ms) = 15.
Proof. vm_compute. repeat split. Qed.

(* omitted parameters yield ('unknown', 100, 'samples', 'sum'), for every request *)
Theorem C06_defaults : forall q ct,
  q_get (ascii "spyName") q = [] -> q_get (ascii "sampleRate") q = [] ->
  q_get (ascii "units") q = [] -> q_get (ascii "aggregationType") q = [] ->
  let ip := ingest_params_of q ct in
  ip_spy ip = ascii "unknown" /\ ip_rate ip = 100 /\ ip_units ip = ascii "samples" /\ ip_aggregation ip = ascii "sum".
Proof. exact ingest_defaults. Qed.
Print Assumptions C06_defaults.

(* the handler reads the uploader's query back as the job's own name, window (whole seconds), spy name, sample
   rate, units and aggregation type, and selects the trie parser.
   job_ok: times < 2^63, rate < 2^32, spy/units/aggregation not empty (an empty value would be replaced by the
   default), and the decimal time strings are not 8 characters long (attime.Parse reads those as dates). *)
Theorem C06_job_roundtrip : forall j, job_ok j ->
  ingest_params_of (upload_query j) upload_content_type =
  {| ip_format := FTrie; ip_name := j_name j;
     ip_from := TUnix (Z.of_N (j_start j)); ip_until := TUnix (Z.of_N (j_end j));
     ip_spy := j_spy j; ip_rate := j_rate j; ip_units := j_units j; ip_aggregation := j_aggregation j |}.
Proof. exact job_roundtrip. Qed.
Print Assumptions C06_job_roundtrip.

Example C06_job_roundtrip_nonvacuous :
  job_ok {| j_name := ascii "app.cpu{env=prod}"; j_start := 1609459200; j_end := 1609459210;
            j_spy := ascii "gospy"; j_rate := 100; j_units := ascii "samples"; j_aggregation := ascii "sum" |}.
Proof. unfold job_ok. cbn. repeat split; try discriminate; reflexivity. Qed.

(* strconv.Atoi reads back what strconv.Itoa wrote *)
Theorem C06_atoi_itoa : forall n, n < 2 ^ 63 -> atoi (itoa n) = Some (Z.of_N n).
Proof. exact atoi_itoa. Qed.
Print Assumptions C06_atoi_itoa.

(* the hypotheses of C06_formats_agree are satisfiable: "main;foo" x3 and "x y;e" x2 *)
Example C06_entry_ok_nonvacuous :
  Forall entry_ok [([109;97;105;110;59;102;111;111], 3); ([120;32;121;59;101], 2)].
Proof.
  repeat constructor; cbn [fst snd]; try discriminate; try reflexivity;
    try (intros s c E Hc; subst c; apply (f_equal (@rev _)) in E; rewrite rev_app_distr in E; cbn in E; discriminate).
Qed.

(* ---- the URL query coding between uploader and handler (Model/UrlCoding.v: url.QueryEscape / Values.Encode on the
   agent's side, r.URL.Query() = url.ParseQuery with its error dropped on the server's side) loses nothing.
   bytes_okP s: every element of s is a byte (< 256); pair_ok: both sides of a pair are; keys_sortedb: keys strictly
   increasing (Encode writes the keys in sorted order; sort_query is that order). ---- *)
Theorem C06_url_roundtrip :
  (forall s, bytes_okP s -> url_unescape (url_escape s) = Some s) /\
  (forall q, Forall pair_ok q -> url_parse_query (url_encode_query q) = sort_query q) /\
  (forall q, Forall pair_ok q -> keys_sortedb q = true -> url_parse_query (url_encode_query q) = q) /\
  (forall a b, bytes_okP a -> bytes_okP b -> url_escape a = url_escape b -> a = b) /\
  (forall q1 q2, Forall pair_ok q1 -> Forall pair_ok q2 -> url_encode_query q1 = url_encode_query q2 -> sort_query q1 = sort_query q2).
Proof.
  exact (conj url_unescape_escape (conj url_parse_encode (conj url_roundtrip (conj url_escape_injective url_encode_injective)))).
Qed.
Print Assumptions C06_url_roundtrip.

Example C06_url_roundtrip_nonvacuous :
  let q := [(ascii "name", ascii "app.c++{team=r&d,q=100%}"); (ascii "units", [108; 111; 99; 107; 32; 195; 169; 47; 115])] in
  Forall pair_ok q /\ keys_sortedb q = true /\
  url_encode_query q = ascii "name=app.c%2B%2B%7Bteam%3Dr%26d%2Cq%3D100%25%7D&units=lock+%C3%A9%2Fs" /\
  url_parse_query (url_encode_query q) = q.
Proof.
  split; [repeat constructor; cbn [fst snd]; try apply ascii_bytes_ok; repeat constructor; cbn; lia|].
  vm_compute. repeat split.
Qed.

(* C06_job_roundtrip with the request line in between: the uploader encodes its query (Values.Encode), the handler
   parses the raw query string (r.URL.Query()) and reads the job's own parameters.  job_bytes_ok: name, spy name,
   units and aggregation type are byte strings. *)
Theorem C06_job_roundtrip_url : forall j, job_ok j -> job_bytes_ok j ->
  ingest_params_of (url_parse_query (url_encode_query (upload_query j))) upload_content_type =
  {| ip_format := FTrie; ip_name := j_name j;
     ip_from := TUnix (Z.of_N (j_start j)); ip_until := TUnix (Z.of_N (j_end j));
     ip_spy := j_spy j; ip_rate := j_rate j; ip_units := j_units j; ip_aggregation := j_aggregation j |}.
Proof. exact job_roundtrip_url. Qed.
Print Assumptions C06_job_roundtrip_url.

(* the defaults hold for whatever request line arrives: any raw query string, well formed or not, in which the
   handler finds none of the four parameters (absent, empty, or dropped because of a malformed escape) *)
Theorem C06_defaults_url : forall raw ct,
  let q := url_parse_query raw in
  q_get (ascii "spyName") q = [] -> q_get (ascii "sampleRate") q = [] ->
  q_get (ascii "units") q = [] -> q_get (ascii "aggregationType") q = [] ->
  let ip := ingest_params_of q ct in
  ip_spy ip = ascii "unknown" /\ ip_rate ip = 100 /\ ip_units ip = ascii "samples" /\ ip_aggregation ip = ascii "sum".
Proof. exact (fun raw ct => ingest_defaults (url_parse_query raw) ct). Qed.
Print Assumptions C06_defaults_url.

(* ---- under exactly which series: the composition with storage.ParseKey (Model/Key.v) and Storage.Put through the
   concrete handler of Proofs/C16Concrete.v.
   job_request j ms : the request remote.go sends (query through the URL model, Content-Type of the trie, trie body)
   conc_ingest      : Server.ingest instantiated with Key.parse, Ingest.ingest_params_of, the four body parsers, st_put
   sid_of_name n    : the series identifier of a name: key text utf8 (normalized (parse n)), application name, tags
   The handler answers 200 and the new state is the old one after ONE Storage.Put of: that series, the 10 s-normalised
   window of the job's whole seconds, the profile of the samples, the job's metadata.
   storage.ParseKey returns a nil error for every string, so no name is refused (there is no 4xx for names). ---- *)
From Pyro Require Import Model.Key Model.Storage Model.Server Proofs.C16Concrete Proofs.C06SeriesProofs.

Theorem C06_series_exact : forall j ms e st w0 w1,
  job_ok j -> job_bytes_ok j -> (Ingest.j_start j <= Ingest.j_end j)%N ->
  Forall (fun kv => (0 < snd kv)%N) ms -> tt_fitsb 1 1 (tt_of_multiset ms) = true ->
  e_space_ok e = true -> e_retention_thr e = None ->
  Server.normalize (sec_ns (Ingest.j_start j)) (sec_ns (Ingest.j_end j)) = (w0, w1) ->
  conc_ingest (job_request j ms) e st =
  (Status 200,
   fst (st_put None (put_input_of (sid_of_name (Ingest.j_name j)) w0 w1 (Ingest.profile_of ms) (job_meta j)) st)).
Proof. exact series_exact. Qed.
Print Assumptions C06_series_exact.

(* two names are stored as the same series exactly when storage.ParseKey gives them the same labels (tag order,
   white space around names, keys and values and repeated tags do not matter; the hypothesis excludes finding D15:
   a '{' smuggled into the application name through the reserved tag) *)
Theorem C06_same_series : forall n1 n2, bytes_okP n1 -> bytes_okP n2 ->
  has c_lbrace (app_name (Key.parse n1)) = false -> has c_lbrace (app_name (Key.parse n2)) = false ->
  (sid_key (sid_of_name n1) = sid_key (sid_of_name n2) <-> Key.parse n1 = Key.parse n2) /\
  (Key.parse n1 = Key.parse n2 -> sid_of_name n1 = sid_of_name n2).
Proof. exact same_series_bytes. Qed.
Print Assumptions C06_same_series.

Example C06_same_series_nonvacuous :
  sid_key (sid_of_name (Ingest.ascii "app.cpu{ b = 2 ,a=1,b=3}")) = Ingest.ascii "app.cpu{a=1,b=3}" /\
  Key.parse (Ingest.ascii " app.cpu {a=1, b=3}") = Key.parse (Ingest.ascii "app.cpu{ b = 2 ,a=1,b=3}").
Proof. vm_compute. split; reflexivity. Qed.
