(* C07 — tag selectors match exactly the right series; every ingested label is listed.  Headline theorems only. *)
From Pyro Require Import Model.Base Model.Dimension Model.Labels Model.Index.
