(* C07 — tag selectors match exactly the right series; every ingested label is listed.  Headline theorems only.

   Vocabulary: a dimension is a list of keys; ssorted = strictly increasing w.r.t. bytes.Compare (sorted and
   duplicate-free).  intersection_gen srt true is the cursor machine of dimension.Intersection with `srt`
   standing for sort.Sort; `intersection` instantiates it with Go's insertion sort.  An index state is
   ix_run ops for a history ops of IPut K stack count / IDelete Q / IDrop K (IDrop = what a retention pass does
   to a series all of whose buckets expired: deleteSegmentAndRelatedData) (Model/Index.v); live ops is the list of
   series ingested and not deleted since, computed from the history alone; sub_labels Q K = every pair of Q
   is a pair of K.  key_ok K (Proofs/IndexProofs.v): K has the shape ParseKey produces, its __name__ value has
   no '{' (C15 finding reserved-name-brace) and no tag NAME contains ':' (values may). *)
From Pyro Require Import Model.Base Model.Key Model.Dimension Model.Labels Model.Index.
From Pyro Require Import Proofs.BcmpProofs Proofs.KeyProofs Proofs.DimensionProofs Proofs.IndexProofs Proofs.IndexSumProofs.
From Pyro Require Import Model.Segment Model.Storage Proofs.C07StorageBridge.
Require Pyro.Proofs.StorageProofs.
From Coq Require Import Permutation.

(* --- Intersection: any number of sorted duplicate-free inputs of any length, whatever permutation the sort returns --- *)
Theorem intersection_spec_any_sort : forall srt, (forall l, Permutation (srt l) l) ->
  forall input, Forall ssorted input ->
  exists r, intersection_gen srt true input = Some r /\ ssorted r /\
            (input <> [] -> forall k, In k r <-> Forall (In k) input).
Proof. exact intersection_gen_spec. Qed.
Print Assumptions intersection_spec_any_sort.

Theorem intersection_spec : forall input, Forall ssorted input ->
  exists r, intersection input = Some r /\ ssorted r /\
            (input <> [] -> forall k, In k r <-> Forall (In k) input).
Proof. exact DimensionProofs.intersection_spec. Qed.
Print Assumptions intersection_spec.

Theorem intersection_is_filter : forall d ds, Forall ssorted (d :: ds) ->
  intersection (d :: ds) = Some (filter (fun k => forallb (d_mem k) ds) d).
Proof. exact intersection_filter. Qed.
Print Assumptions intersection_is_filter.

Example intersection_spec_nonvacuous :
  let input := [[[1]; [3]; [5]; [7]]; [[2]; [3]; [7]]; [[0]; [3]; [4]; [7]; [8]]] in
  Forall ssorted input /\ intersection input = Some [[3]; [7]].
Proof. split; [repeat constructor|vm_compute; reflexivity]. Qed.

(* regression for D2: the rule before the fix (every cursor moves on after a round) loses key 3 *)
Theorem intersection_unfixed_refuted : exists input, Forall ssorted input /\ input <> [] /\
  exists r k, intersection_unfixed input = Some r /\ Forall (In k) input /\ ~ In k r.
Proof. exact DimensionProofs.intersection_unfixed_refuted. Qed.
Print Assumptions intersection_unfixed_refuted.

Example intersection_old_rule_loses_3 :
  intersection_unfixed [[[1]; [3]]; [[2]; [3]]] = Some [] /\ intersection [[[1]; [3]]; [[2]; [3]]] = Some [[3]].
Proof. exact intersection_unfixed_loses_key. Qed.
Print Assumptions intersection_old_rule_loses_3.

Theorem union_spec : forall input,
  (forall k, In k (union input) <-> Exists (In k) input) /\
  (Forall (@NoDup dkey) input -> NoDup (union input)).
Proof. exact DimensionProofs.union_spec. Qed.
Print Assumptions union_spec.

Theorem insert_delete_keep_sorted_sets : forall k d, ssorted d ->
  ssorted (d_insert k d) /\ (forall x, In x (d_insert k d) <-> x = k \/ In x d) /\
  ssorted (d_delete k d) /\ (forall x, In x (d_delete k d) <-> In x d /\ x <> k).
Proof.
  exact (fun k d H => conj (d_insert_sorted k d H) (conj (d_insert_In k d)
          (conj (d_delete_sorted k d H) (fun x => d_delete_In k d x H)))).
Qed.
Print Assumptions insert_delete_keep_sorted_sets.

(* --- the index over any history of ingests and deletes --- *)
Theorem dimension_inv : forall ops, Forall op_ok ops ->
  let st := ix_run ops in
  Forall key_ok (live ops) /\
  (forall n, ssorted (dm_get n (ix_dims st))) /\
  (forall n x, In x (dm_get n (ix_dims st)) <->
               exists K, In K (live ops) /\ x = normalized K /\ In n (names K)) /\
  (forall x, seg_mem x (ix_segs st) = true <-> exists K, In K (live ops) /\ x = normalized K).
Proof.
  exact (fun ops H => let I := IndexProofs.dimension_inv ops H in
         conj (inv_ok _ _ I) (conj (inv_sorted _ _ I) (conj (inv_dims _ _ I) (inv_segs _ _ I)))).
Qed.
Print Assumptions dimension_inv.

(* Full statement (any tag names) is FALSE of the code: see C07_selector_colon_refuted.  Proved with key_ok. *)
Theorem C07_selector_exact : forall ops Q, Forall op_ok ops -> key_ok Q ->
  exists r, ix_select_series Q (ix_run ops) = Some r /\ NoDup r /\
            (forall x, In x r <-> exists K, In K (live ops) /\ sub_labels Q K = true /\ x = normalized K).
Proof. exact selector_exact. Qed.
Print Assumptions C07_selector_exact.

Theorem C07_selector_colon_refuted :
  let ops := [IPut colon_K1 [115; 48] 1; IPut colon_K2 [115; 49] 2] in
  sub_labels colon_K2 colon_K1 = false /\
  exists r, ix_select_series colon_K2 (ix_run ops) = Some r /\ In (normalized colon_K1) r.
Proof. exact selector_colon_refuted. Qed.
Print Assumptions C07_selector_colon_refuted.

(* any string whose parse has no '{' in the name and no ':' in a tag name is admitted *)
Theorem C07_names_admitted : forall s,
  has c_lbrace (app_name (parse s)) = false ->
  forallb (fun kv => negb (has c_colon (fst kv))) (parse s) = true ->
  key_ok (parse s).
Proof. exact parse_key_ok. Qed.
Print Assumptions C07_names_admitted.

(* app{a=1,u=http://x/y.z}, app{a=1}, b{a=1}; delete app{u=http://x/y.z}; re-ingest; retention drops b{a=1}; query app{a=1} *)
Example C07_selector_exact_nonvacuous :
  let k1 := parse [97;112;112;123;97;61;49;44;117;61;104;116;116;112;58;47;47;120;47;121;46;122;125] in
  let k2 := parse [97;112;112;123;97;61;49;125] in
  let k3 := parse [98;123;97;61;49;125] in
  let q := parse [97;112;112;123;117;61;104;116;116;112;58;47;47;120;47;121;46;122;125] in
  let ops := [IPut k1 [115;49] 1; IPut k2 [115;50] 2; IPut k3 [115;51] 4; IDelete q; IPut k1 [115;49] 8;
              IPut k3 [115;51] 16; IDrop k3] in
  forallb (fun o => match o with IPut K _ _ | IDelete K | IDrop K =>
     negb (has c_lbrace (app_name K)) && forallb (fun kv => negb (has c_colon (fst kv))) K end) ops = true /\
  List.length (live ops) = 2%nat /\
  ix_select_series k2 (ix_run ops) = Some [normalized k1; normalized k2] /\
  ix_get k2 (ix_run ops) = Some [([115;49], 8); ([115;50], 2)].
Proof. vm_compute. auto. Qed.

(* --- label listings --- *)
Theorem C07_labels_verbatim : forall ops K s c k v, In (IPut K s c) ops -> In (k, v) K ->
  In k (get_keys (ix_labels (ix_run ops))) /\ In v (get_values k (ix_labels (ix_run ops))).
Proof. exact labels_verbatim. Qed.
Print Assumptions C07_labels_verbatim.

Theorem C07_apps_listed : forall ops K s c, In (IPut K s c) ops -> lget name_key K <> None ->
  In (app_name K) (get_values name_key (ix_labels (ix_run ops))).
Proof. exact apps_listed. Qed.
Print Assumptions C07_apps_listed.

Example C07_labels_nonvacuous :
  let k1 := parse [97;112;112;123;117;61;104;116;116;112;58;47;47;120;47;121;46;122;125] in   (* app{u=http://x/y.z} *)
  let st := ix_run [IPut k1 [115] 1; IDelete k1] in
  get_values [117] (ix_labels st) = [[104;116;116;112;58;47;47;120;47;121;46;122]] /\
  get_keys (ix_labels st) = [name_key; [117]] /\ get_values name_key (ix_labels st) = [[97;112;112]].
Proof. vm_compute. auto. Qed.

(* --- order independence: of Intersection's arguments (Go's random map iteration) and of the tags in the selector text --- *)
Theorem intersection_any_argument_order : forall input input', Forall ssorted input -> Permutation input input' ->
  intersection input = intersection input'.
Proof. exact intersection_perm. Qed.
Print Assumptions intersection_any_argument_order.

Theorem C07_selector_text_order : forall n n' l l' st,
  name_ok n -> name_ok n' -> Forall tag_ok l -> Forall tag_ok l' ->
  trim n = trim n' -> NoDup (map fst (KeyProofs.trim_tags l)) -> Permutation (KeyProofs.trim_tags l) (KeyProofs.trim_tags l') ->
  ix_select_series (parse (render n l)) st = ix_select_series (parse (render n' l')) st /\
  ix_get (parse (render n l)) st = ix_get (parse (render n' l')) st.
Proof. exact selector_text_order. Qed.
Print Assumptions C07_selector_text_order.

(* --- nothing invented: with ':'-free tag names a listed value was ingested under that name --- *)
Theorem C07_labels_exact : forall ops k v,
  (forall K s c, In (IPut K s c) ops -> Forall (fun kv => has c_colon (fst kv) = false) K) ->
  has c_colon k = false ->
  (In v (get_values k (ix_labels (ix_run ops))) <-> exists K s c, In (IPut K s c) ops /\ In (k, v) K).
Proof. exact labels_exact. Qed.
Print Assumptions C07_labels_exact.

(* --- at the level of uploads: what a query returns is the sum, stack by stack, of the uploads still live
   (spec_get: computed from the history alone - every upload whose series matches the selector and was not
   deleted since, once) --- the same function the correspondence check compares Storage.Get with *)
Theorem C07_get_exact : forall ops Q, Forall op_ok ops -> key_ok Q ->
  ix_get Q (ix_run ops) = Some (spec_get Q ops).
Proof. exact get_exact. Qed.
Print Assumptions C07_get_exact.

(* --- bridge to Model/Storage.v (the storage specification of C01/C11/C13): it abstracts the inverted index
   by a filter over its sorted table of live series and assumes `key_consistent`; both follow from the models of
   the index and of series names.  sid_of K = (normalized K, app_name K, tags K); op_parsed: every Put/Delete
   identifier is sid_of K for an admitted K (key_ok); bridge_run drives Model/Index.v in lock-step with st_run:
   accepted Put -> IPut, Delete -> IDelete, retention pass -> IDrop of exactly the series whose segment root
   s_delete_before_unix deletes. --- *)
Theorem C07_key_consistent : forall pis,
  (forall pi, In pi pis -> sid_parsed (pi_sid pi)) -> StorageProofs.key_consistent pis.
Proof. exact key_consistent_parsed. Qed.
Print Assumptions C07_key_consistent.

Theorem C07_key_consistent_from_parse : forall s s',
  has c_lbrace (app_name (parse s)) = false -> has c_lbrace (app_name (parse s')) = false ->
  sid_key (sid_of (parse s)) = sid_key (sid_of (parse s')) ->
  sid_of (parse s) = sid_of (parse s') /\
  sid_app (sid_of (parse s)) = sid_app (sid_of (parse s')) /\
  sid_tags (sid_of (parse s)) = sid_tags (sid_of (parse s')).
Proof. exact key_consistent_from_parse. Qed.
Print Assumptions C07_key_consistent_from_parse.

Theorem C07_storage_index_sound : forall rthr ops Q, Forall op_parsed ops -> key_ok Q ->
  let st := fst (st_run rthr ops st_init) in
  let ist := snd (bridge_run rthr ops st_init ix_empty) in
  ix_select_series Q ist
  = Some (map (fun ks => sid_key (fst ks)) (filter (fun ks => sel_matches (sid_of Q) (fst ks)) (st_segs st))).
Proof. exact index_lookup_is_filter. Qed.
Print Assumptions C07_storage_index_sound.

Theorem C07_sel_matches_is_sub_labels : forall Q K, key_ok Q -> key_ok K ->
  sel_matches (sid_of Q) (sid_of K) = sub_labels Q K.
Proof. exact sel_matches_sub. Qed.
Print Assumptions C07_sel_matches_is_sub_labels.
