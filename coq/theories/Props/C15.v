(* C15 — series names have one canonical form; derived storage keys are unambiguous.  Headline theorems only.

   Vocabulary (Proofs/KeyProofs.v):  name_ok n  := n has no '{';   tag_ok (k,v) := k has no '=' '}' and v has no ',' '}'
   (exactly the texts in which the parts are what the author wrote: a delimiter inside a part would end it);
   render n [(k1,v1);..] is the text n{k1=v1,..};  trim_tags trims every key and value (strings.TrimSpace, Unicode White_Space);
   padded s s' := s' is s with white space added on both sides. *)
From Pyro Require Import Model.Base Model.Key Proofs.BcmpProofs Proofs.KeyProofs Proofs.Utf8Proofs.
From Coq Require Import Permutation.

(* --- order of distinct tags and white space around name, keys, values do not matter --- *)
Theorem C15_order_ws : forall n n' l l',
  name_ok n -> name_ok n' -> Forall tag_ok l -> Forall tag_ok l' ->
  trim n = trim n' ->
  NoDup (map fst (trim_tags l)) ->
  Permutation (trim_tags l) (trim_tags l') ->
  parse (render n l) = parse (render n' l') /\
  normalized (parse (render n l)) = normalized (parse (render n' l')).
Proof. exact order_ws_both. Qed.
Print Assumptions C15_order_ws.

Theorem C15_ws_padding : forall n n' l l',
  name_ok n -> Forall tag_ok l -> padded n n' -> Forall2 padded_tag l l' ->
  parse (render n' l') = parse (render n l).
Proof. exact ws_parse. Qed.
Print Assumptions C15_ws_padding.

Theorem C15_bare_name : forall n, name_ok n -> parse n = parse (render n []).
Proof. exact parse_bare. Qed.
Print Assumptions C15_bare_name.

(* app { b = 1 ,a=2} and app{a=2,b=1} *)
Example C15_order_ws_nonvacuous :
  let n := [32; 97; 112; 112; 32] in let l := [([32; 98; 32], [32; 49; 32]); ([97], [50])] in
  let n' := [97; 112; 112] in let l' := [([97], [50]); ([98], [49])] in
  name_ok n /\ name_ok n' /\ Forall tag_ok l /\ Forall tag_ok l' /\ trim n = trim n' /\
  NoDup (map fst (trim_tags l)) /\ Permutation (trim_tags l) (trim_tags l') /\
  normalized (parse (render n l)) = [97; 112; 112; 123; 97; 61; 50; 44; 98; 61; 49; 125].
Proof.
  cbv zeta. repeat split; try reflexivity.
  - repeat constructor; reflexivity.
  - repeat constructor; reflexivity.
  - repeat constructor; cbn; intuition discriminate.
  - vm_compute. apply perm_swap.
Qed.

(* --- the canonical text parses back to the same name ---
   Full statement (FALSE of the code, finding D15 / reserved-name-brace):
       forall s, parse (normalized (parse s)) = parse s
   Proved with the hypothesis that the __name__ value has no '{' (true of every name that does not set the
   reserved tag to such a value); refuted without it. *)
Theorem C15_fixpoint_partial : forall s,
  has c_lbrace (app_name (parse s)) = false ->
  parse (normalized (parse s)) = parse s.
Proof. exact fixpoint_partial. Qed.
Print Assumptions C15_fixpoint_partial.

Theorem C15_canonical_idempotent_partial : forall s,
  has c_lbrace (app_name (parse s)) = false ->
  normalized (parse (normalized (parse s))) = normalized (parse s).
Proof. exact normalized_idem_partial. Qed.
Print Assumptions C15_canonical_idempotent_partial.

Theorem C15_fixpoint_refuted : exists s, parse (normalized (parse s)) <> parse s.
Proof. exact fixpoint_refuted. Qed.
Print Assumptions C15_fixpoint_refuted.

(* the general form: any label map of the shape ParseKey produces *)
Theorem C15_fixpoint_labels : forall m,
  labels_ok m -> lget name_key m <> None -> name_ok (app_name m) -> parse (normalized m) = m.
Proof. exact fixpoint_labels. Qed.
Print Assumptions C15_fixpoint_labels.

Theorem C15_parse_shape : forall s, labels_ok (parse s) /\ lget name_key (parse s) <> None.
Proof. exact parse_ok. Qed.
Print Assumptions C15_parse_shape.

(* " app { b = x=y , a,c = {z }" : duplicate-free, value with '=' and '{', key with ',' *)
Example C15_fixpoint_nonvacuous :
  let s := [32; 97; 112; 112; 32; 123; 32; 98; 32; 61; 32; 120; 61; 121; 32; 44; 32; 97; 44; 99; 32; 61; 32; 123; 122; 32; 125] in
  has c_lbrace (app_name (parse s)) = false /\ List.length (parse s) = 3%nat.
Proof. vm_compute. auto. Qed.

(* --- the tree key of a bucket splits back into series key and application name --- *)
Theorem C15_split_main : forall m (depth : nat) (unix : Z),
  from_tree_to_main_key (tree_key m depth unix) = Some (normalized m).
Proof. exact split_main. Qed.
Print Assumptions C15_split_main.

(* Full statement for the application name is FALSE with '{' in the __name__ value (same finding D15). *)
Theorem C15_split_dict_partial : forall m (depth : nat) (unix : Z),
  has c_lbrace (app_name m) = false ->
  from_tree_to_dict_key (tree_key m depth unix) = Some (app_name m).
Proof. exact split_dict. Qed.
Print Assumptions C15_split_dict_partial.

Theorem C15_split_dict_refuted : exists s depth unix,
  from_tree_to_dict_key (tree_key (parse s) depth unix) <> Some (app_name (parse s)).
Proof. exact split_dict_refuted. Qed.
Print Assumptions C15_split_dict_refuted.

(* level 10, one second before year 1 *)
Example C15_split_nonvacuous :
  let m := parse [97; 58; 98; 123; 107; 61; 58; 58; 125] in    (* a:b{k=::} *)
  has c_lbrace (app_name m) = false /\
  from_tree_to_main_key (tree_key m 10 (-62135596801)%Z) = Some (normalized m) /\
  from_tree_to_dict_key (tree_key m 10 (-62135596801)%Z) = Some [97; 58; 98].
Proof. vm_compute. auto. Qed.

(* --- the model sorts tag keys by code points, Go by the bytes of the UTF-8 text: the same order --- *)
Theorem C15_utf8_order : forall s t, Forall valid_rune s -> Forall valid_rune t ->
  bcmp (utf8 s) (utf8 t) = bcmp s t.
Proof. exact utf8_order. Qed.
Print Assumptions C15_utf8_order.

Example C15_utf8_order_nonvacuous :
  Forall valid_rune [65535; 97] /\ Forall valid_rune [65536] /\
  bcmp (utf8 [65535; 97]) (utf8 [65536]) = Lt /\ utf8 [65536] = [240; 144; 128; 128].
Proof. repeat split; try (repeat constructor; reflexivity); vm_compute; reflexivity. Qed.

(* --- "every name not using the reserved tag": its application name is the trimmed name part, without '{',
   so the fixpoint holds for it --- *)
Theorem C15_fixpoint_no_reserved_tag : forall n l, name_ok n -> Forall tag_ok l ->
  (forall kv, In kv l -> trim (fst kv) <> name_key) ->
  parse (normalized (parse (render n l))) = parse (render n l).
Proof. exact fixpoint_no_reserved. Qed.
Print Assumptions C15_fixpoint_no_reserved_tag.

Theorem C15_app_name_no_reserved_tag : forall n l, name_ok n -> Forall tag_ok l ->
  (forall kv, In kv l -> trim (fst kv) <> name_key) ->
  app_name (parse (render n l)) = trim n /\ has c_lbrace (app_name (parse (render n l))) = false.
Proof. exact app_name_render. Qed.
Print Assumptions C15_app_name_no_reserved_tag.
