(* C15 — series names have one canonical form; derived storage keys are unambiguous.  Headline theorems only. *)
From Pyro Require Import Model.Base Model.Key.
