(* C11 — deleted data stays deleted; deletion and retention touch nothing else.
   Headline theorems only; lemmas in Proofs/StorageProofs.v; model Model/Storage.v (after the fixes D3, D4).

   [st_after pis] is the state after the ingests pis; [keep sel pi] = the upload's series does not match sel.
   st_equiv st1 st2 := same series table and, under every tree key, the same stored tree or none.
   Hypotheses: valid_put K (non-empty range inside the epoch block K, as everywhere for segments),
   block_deletable K (the block lies before storage.maxTime = Unix 2^62, true for every real date),
   key_consistent (equal key text = equal series, C15). *)
From Pyro Require Import Model.Base Model.Tree Model.Segment Model.Timeline Model.Storage
  Proofs.TreeProofs Proofs.SegStruct Proofs.StorageProofs Proofs.RetentionProofs.
Local Open Scope Z_scope.

Theorem C11_get_readonly : forall rt sel f u st, fst (st_step rt st (OpGet sel f u)) = st.
Proof. exact st_get_readonly. Qed.
Print Assumptions C11_get_readonly.

(* every stored tree key of a live series is a node that the Delete walk of its segment reports (this is
   what D4 violated before the fix: the walk stopped at the first present node) *)
Theorem C11_keys_are_nodes : forall K pis, block_deletable K -> Forall (valid_put K) pis ->
  forall ks l t tr, In ks (st_segs (st_after pis)) ->
    tree_lookup (sid_key (fst ks), l, t) (st_trees (st_after pis)) = Some tr ->
    cb_hits l t (del_cbs (snd ks)) = true.
Proof. exact keys_are_nodes_after. Qed.
Print Assumptions C11_keys_are_nodes.

(* C11_delete: after Delete sel the state is the one in which the matching series were never ingested *)
Theorem C11_delete_state : forall K sel pis, block_deletable K -> Forall (valid_put K) pis -> key_consistent pis ->
  st_equiv (st_delete sel (st_after pis)) (st_after (filter (keep sel) pis)).
Proof. exact delete_complete. Qed.
Print Assumptions C11_delete_state.

(* ... hence every later history (ingests — also into the deleted series —, queries with any selector and
   range, further deletes, retention passes; retention on or off) produces exactly the outputs it produces
   when the matching series never existed: matching series answer nothing, old samples never reappear,
   non-matching series answer as before *)
Theorem C11_delete : forall K sel pis rt ops, block_deletable K -> Forall (valid_put K) pis -> key_consistent pis ->
  snd (st_run rt ops (st_delete sel (st_after pis))) = snd (st_run rt ops (st_after (filter (keep sel) pis))).
Proof. exact delete_then_run. Qed.
Print Assumptions C11_delete.

Theorem C11_delete_no_trees : forall K sel pis, block_deletable K -> Forall (valid_put K) pis -> key_consistent pis ->
  forall pi l t, In pi pis -> sel_matches sel (pi_sid pi) = true ->
  tree_lookup (sid_key (pi_sid pi), l, t) (st_trees (st_delete sel (st_after pis))) = None /\
  seg_lookup (pi_sid pi) (st_segs (st_delete sel (st_after pis))) = None.
Proof. exact delete_no_trees. Qed.
Print Assumptions C11_delete_no_trees.

Theorem C11_delete_other_unchanged : forall K sel pis, block_deletable K -> Forall (valid_put K) pis -> key_consistent pis ->
  forall pi, In pi pis -> sel_matches sel (pi_sid pi) = false ->
  agree_on (sid_key (pi_sid pi)) (st_delete sel (st_after pis)) (st_after pis).
Proof. exact delete_other_unchanged. Qed.
Print Assumptions C11_delete_other_unchanged.

(* observationally equivalent states cannot be told apart by any history of operations *)
Theorem C11_equiv_run : forall rt ops st1 st2, st_equiv st1 st2 ->
  st_equiv (fst (st_run rt ops st1)) (fst (st_run rt ops st2)) /\ snd (st_run rt ops st1) = snd (st_run rt ops st2).
Proof. exact st_run_equiv. Qed.
Print Assumptions C11_equiv_run.

(* retention: an ingest that starts before now - retention is refused and stores nothing *)
Theorem C11_retention_reject : forall thr pi st, pi_from pi < thr -> st_put (Some thr) pi st = (st, false).
Proof. exact retention_reject. Qed.
Print Assumptions C11_retention_reject.

Theorem C11_retention_accept : forall thr pi st, thr <= pi_from pi -> st_put (Some thr) pi st = st_put None pi st.
Proof. exact retention_accept. Qed.
Print Assumptions C11_retention_accept.

(* C11_retention: a retention pass at threshold thr (Storage.DeleteDataBefore), T = unix_to_slot thr.
   The three clauses are proved for EVERY state st satisfying the stated invariants (table sorted by key,
   segment trees well formed, stored trees well formed with root ""); C11_retention_hyps shows that the
   state after any history of valid ingests satisfies them.  [ab] is the query range rounded to slots.
   Stated for series without aggregation type "average" (has_average = false); metadata is left out of
   (a): with several matching series it is taken from the last one, which a pass may drop entirely. *)

(* (a) a query whose rounded range starts at or after T returns the same tree and timeline as before *)
Theorem C11_retention_after : forall thr sel from until st, segs_sorted (st_segs st) ->
  let ab := s_normalize_unix (from, until) in
  fst ab < snd ab -> unix_to_slot thr <= fst ab -> has_average (st_matching sel st) = false ->
  option_map (fun o => (go_tree o, go_timeline o)) (st_get sel from until (st_retention thr st)) =
  option_map (fun o => (go_tree o, go_timeline o)) (st_get sel from until st).
Proof. exact retention_after. Qed.
Print Assumptions C11_retention_after.

(* (b) a query whose rounded range ends at or before T returns nothing *)
Theorem C11_retention_before : forall thr sel from until st, segs_sorted (st_segs st) ->
  (forall ks, In ks (st_segs st) -> seg_wf (snd ks)) ->
  let ab := s_normalize_unix (from, until) in
  fst ab < snd ab -> snd ab <= unix_to_slot thr ->
  st_get sel from until (st_retention thr st) = None.
Proof. exact retention_before. Qed.
Print Assumptions C11_retention_before.

(* (c) no query returns more than before, stack by stack (None counts as 0) *)
Theorem C11_retention_le : forall thr sel from until st p, segs_sorted (st_segs st) -> TW (st_trees st) ->
  (forall ks, In ks (st_segs st) -> seg_wf (snd ks)) ->
  let ab := s_normalize_unix (from, until) in
  fst ab < snd ab -> has_average (st_matching sel st) = false ->
  (get_self p (st_get sel from until (st_retention thr st)) <= get_self p (st_get sel from until st))%N.
Proof. exact retention_le. Qed.
Print Assumptions C11_retention_le.

(* the pass itself: which series survive, which trees are removed *)
Theorem C11_retention_spec : forall thr st, segs_sorted (st_segs st) ->
  st_segs (st_retention thr st) = flat_map (ret_entry thr) (st_segs st) /\
  forall kb lv t, tree_lookup (kb, lv, t) (st_trees (st_retention thr st)) =
                  if ret_hits thr (st_segs st) kb lv t then None else tree_lookup (kb, lv, t) (st_trees st).
Proof. exact st_retention_spec. Qed.
Print Assumptions C11_retention_spec.

Theorem C11_retention_hyps : forall K pis, Forall (valid_put K) pis -> Forall (fun pi => inW [] (pi_tree pi)) pis ->
  segs_sorted (st_segs (st_after pis)) /\ TW (st_trees (st_after pis)) /\
  forall ks, In ks (st_segs (st_after pis)) -> seg_wf (snd ks).
Proof. exact retention_hyps. Qed.
Print Assumptions C11_retention_hyps.

(* clause (a), metadata.  With several matching series the returned metadata is that of the LAST matching
   series of the table (key order).  A pass keeps every series' metadata but may drop a series whose data lies
   entirely before the threshold.  Hence: the metadata after the pass is that of the last matching series that
   survives (C11_retention_meta); it is unchanged whenever the last matching series is not dropped
   (C11_retention_meta_same); and "metadata unchanged" in general is false (C11_retention_meta_refuted), although
   tree and timeline are unchanged (C11_retention_after). *)
Theorem C11_retention_meta : forall thr sel from until st o', segs_sorted (st_segs st) ->
  st_get sel from until (st_retention thr st) = Some o' ->
  go_meta o' = last_meta (flat_map (ret_entry thr) (st_matching sel st)).
Proof. exact retention_meta. Qed.
Print Assumptions C11_retention_meta.

Theorem C11_retention_meta_same : forall thr sel from until st o o' m0 ks, segs_sorted (st_segs st) ->
  st_matching sel st = m0 ++ [ks] -> ret_del thr (snd ks) = false ->
  st_get sel from until st = Some o -> st_get sel from until (st_retention thr st) = Some o' ->
  go_meta o' = go_meta o.
Proof. exact retention_meta_same. Qed.
Print Assumptions C11_retention_meta_same.

Definition exm_s1 : sid := {| sid_key := [97;123;120;61;49;125]%N; sid_app := [97]%N; sid_tags := [([120], [49])]%N |}.
Definition exm_s2 : sid := {| sid_key := [97;123;120;61;50;125]%N; sid_app := [97]%N; sid_tags := [([120], [50])]%N |}.
Definition exm_sel : sid := {| sid_key := [97;123;125]%N; sid_app := [97]%N; sid_tags := [] |}.
Definition exm_put (s : sid) (f : Z) (spy : bytes) : put_input :=
  {| pi_sid := s; pi_from := f; pi_until := f + 10; pi_tree := t_insert [122]%N 3%N t_empty;
     pi_meta := {| m_spy := spy; m_rate := 100%N; m_units := []; m_agg := [115;117;109]%N |} |}.
(* series x=2 (the last in key order) only has data before the threshold; series x=1 after it *)
Definition exm_st : st_state := st_after [exm_put exm_s2 1600000000 [50]%N; exm_put exm_s1 1600001000 [49]%N].

Theorem C11_retention_meta_refuted :
  exists st thr sel from until o o',
    segs_sorted (st_segs st) /\ unix_to_slot thr <= fst (s_normalize_unix (from, until)) /\
    has_average (st_matching sel st) = false /\
    st_get sel from until st = Some o /\ st_get sel from until (st_retention thr st) = Some o' /\
    go_tree o' = go_tree o /\ go_meta o' <> go_meta o.
Proof.
  exists exm_st, 1600000500, exm_sel, 1600001000, 1600001010. eexists. eexists.
  split; [apply sorted_after|]. split; [vm_compute; discriminate|]. split; [vm_compute; reflexivity|].
  split; [vm_compute; reflexivity|]. split; [vm_compute; reflexivity|]. split; [reflexivity|]. vm_compute. discriminate.
Qed.
Print Assumptions C11_retention_meta_refuted.

(* the invariants of the three retention clauses hold after EVERY history of ingests (valid range, tree as
   built by Insert), queries, deletes and retention passes, with retention on or off *)
Theorem C11_invariants_run : forall K rt ops, Forall (good_op K) ops -> forall st, st_good K st ->
  st_good K (fst (st_run rt ops st)).
Proof. exact good_run. Qed.
Print Assumptions C11_invariants_run.

(* C11_retention over histories: after any such history, a further pass at thr leaves queries starting at or
   after the threshold unchanged (tree, timeline), empties queries ending at or before it, and never
   increases any stack count *)
Theorem C11_retention_run : forall K rt ops thr sel from until p, Forall (good_op K) ops ->
  let st := fst (st_run rt ops st_init) in
  let ab := s_normalize_unix (from, until) in
  fst ab < snd ab -> has_average (st_matching sel st) = false ->
  (unix_to_slot thr <= fst ab ->
     option_map (fun o => (go_tree o, go_timeline o)) (st_get sel from until (st_retention thr st)) =
     option_map (fun o => (go_tree o, go_timeline o)) (st_get sel from until st)) /\
  (snd ab <= unix_to_slot thr -> st_get sel from until (st_retention thr st) = None) /\
  (get_self p (st_get sel from until (st_retention thr st)) <= get_self p (st_get sel from until st))%N.
Proof. exact retention_run. Qed.
Print Assumptions C11_retention_run.

(* ---- non-vacuity (the D4 shape): foo gets [0,10) and [10,20) — its root bucket becomes aggregated —,
   bar one upload; Delete foo; re-ingest foo [0,10) with another stack: the old stack p;q is gone ---- *)
Definition ex_foo : sid := {| sid_key := [102;111;111;123;125]%N; sid_app := [102;111;111]%N; sid_tags := [] |}.
Definition ex_bar : sid := {| sid_key := [98;97;114;123;125]%N; sid_app := [98;97;114]%N; sid_tags := [] |}.
Definition ex_m : meta := {| m_spy := []; m_rate := 100%N; m_units := []; m_agg := [115;117;109]%N |}.
Definition ex_put (s : sid) (f u : Z) (key : bytes) (v : N) : put_input :=
  {| pi_sid := s; pi_from := f; pi_until := u; pi_tree := t_insert key v t_empty; pi_meta := ex_m |}.
Definition ex_hist : list put_input :=
  [ ex_put ex_foo 1600000000 1600000010 [112;59;113]%N 6%N; ex_put ex_foo 1600000010 1600000020 [112;59;113]%N 4%N;
    ex_put ex_bar 1600000000 1600000010 [122]%N 3%N ].

Example C11_delete_nonvacuous :
  block_deletable 63 /\ Forall (valid_put 63) ex_hist /\ key_consistent ex_hist /\
  length (st_trees (st_after ex_hist)) = 4%nat /\
  length (st_trees (st_delete ex_foo (st_after ex_hist))) = 1%nat /\
  st_get ex_foo 1600000000 1600000100 (st_delete ex_foo (st_after ex_hist)) = None /\
  match st_get ex_foo 1600000000 1600000100
          (fst (st_put None (ex_put ex_foo 1600000000 1600000010 [114]%N 5%N) (st_delete ex_foo (st_after ex_hist)))) with
  | Some out => t_self_at [[112]%N; [113]%N] (go_tree out) = 0%N /\ t_self_at [[114]%N] (go_tree out) = 5%N
  | None => False
  end /\
  match st_get ex_bar 1600000000 1600000100 (st_delete ex_foo (st_after ex_hist)) with
  | Some out => t_self_at [[122]%N] (go_tree out) = 3%N
  | None => False
  end.
Proof.
  split; [vm_compute; discriminate|]. split.
  { unfold ex_hist. repeat (apply Forall_cons; [apply valid_rangeb_ok; vm_compute; reflexivity|]). apply Forall_nil. }
  split.
  { intros pi pi' H1 H2. cbn in H1, H2.
    destruct H1 as [<-|[<-|[<-|[]]]], H2 as [<-|[<-|[<-|[]]]]; cbn; intros E; try reflexivity; discriminate E. }
  vm_compute. repeat split.
Qed.

Example C11_retention_reject_nonvacuous :
  st_put (Some 1600000005) (ex_put ex_foo 1600000000 1600000010 [114]%N 5%N) (st_after ex_hist) = (st_after ex_hist, false) /\
  snd (st_put (Some 1600000000) (ex_put ex_foo 1600000000 1600000010 [114]%N 5%N) (st_after ex_hist)) = true.
Proof. split; vm_compute; reflexivity. Qed.

(* a pass at 1600000010 on ex_hist: foo keeps its second slot, bar is dropped *)
Example C11_retention_nonvacuous :
  let st := st_after ex_hist in
  length (st_segs (st_retention 1600000010 st)) = 1%nat /\
  st_get ex_foo 1600000000 1600000010 (st_retention 1600000010 st) = None /\
  get_self [[112]%N; [113]%N] (st_get ex_foo 1600000010 1600000020 (st_retention 1600000010 st)) = 4%N /\
  get_self [[112]%N; [113]%N] (st_get ex_foo 1600000000 1600000020 st) = 10%N /\
  get_self [[112]%N; [113]%N] (st_get ex_foo 1600000000 1600000020 (st_retention 1600000010 st)) = 4%N /\
  get_self [[112]%N; [113]%N] (st_get ex_foo 1600000000 1600000020 (st_retention 1600000020 st)) = 0%N /\
  has_average (st_matching ex_foo st) = false.
Proof. vm_compute. repeat split. Qed.

Example C11_retention_run_nonvacuous :
  let ops := [OpPut (ex_put ex_foo 1600000000 1600000010 [112;59;113]%N 6%N); OpRetention 1600000005;
              OpPut (ex_put ex_foo 1600000010 1600000020 [112;59;113]%N 4%N); OpDelete ex_bar;
              OpPut (ex_put ex_bar 1600000010 1600000020 [122]%N 3%N); OpGet ex_foo 1600000000 1600000020] in
  Forall (good_op 63) ops /\
  get_self [[112]%N; [113]%N] (st_get ex_foo 1600000000 1600000020 (fst (st_run None ops st_init))) = 10%N /\
  get_self [[112]%N; [113]%N] (st_get ex_foo 1600000000 1600000020 (st_retention 1600000010 (fst (st_run None ops st_init)))) = 4%N.
Proof.
  cbv zeta. split; [|split; vm_compute; reflexivity].
  repeat (apply Forall_cons; [first [exact I | split; [apply valid_rangeb_ok; vm_compute; reflexivity|split; vm_compute; reflexivity]]|]). apply Forall_nil.
Qed.
