(* C11 — delete and retention.  Headline theorems only. *)
From Pyro Require Import Model.Base Model.Tree Model.Segment Model.Timeline Model.Storage Proofs.StorageProofs.

Theorem C11_get_readonly : forall rt sel f u st, fst (st_step rt st (OpGet sel f u)) = st.
Proof. exact st_get_readonly. Qed.
Print Assumptions C11_get_readonly.
