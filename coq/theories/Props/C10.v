(* C10 — the rendered flamegraph is well formed and accounts for every sample.  Headline theorems only. *)
From Pyro Require Import Model.Base Model.Tree Model.Cappedarr Model.Flame.

Theorem C10_numticks : forall maxNodes t, fb_numticks (flamebearer maxNodes t) = t_total t.
Proof. reflexivity. Qed.
Print Assumptions C10_numticks.
