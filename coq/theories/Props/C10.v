(* C10 — the rendered flamegraph is well formed and accounts for every sample.
   Headline theorems only; lemmas in Proofs/FlameProofs.v, model in Model/Flame.v + Model/Cappedarr.v.

   [flamebearer n t] is the model of Tree.FlamebearerStruct(n).  [fb_bars n t] are its bars level by
   level with ABSOLUTE offsets, (x, total, self, name index); C10_decode says that undoing the delta
   encoding of the returned structure yields exactly these bars, so every statement below is a
   statement about the decoded output.  All theorems hold for every tree and every budget n >= 1 (the
   budget hypothesis is kept in the statements although the model does not need it: Go panics for n = 0).
   Hypothesis t_subb: total >= self + children totals at every node — what insert / merge / decode /
   scale produce (C09); t_exactb (equality) is what unscaled storage trees satisfy. *)
From Pyro Require Import Model.Base Model.Tree Model.Cappedarr Model.Flame Proofs.TreeProofs Proofs.FlameProofs Proofs.CappedarrProofs.

Theorem C10_numticks : forall n t, fb_numticks (flamebearer n t) = t_total t.
Proof. reflexivity. Qed.
Print Assumptions C10_numticks.

(* delta encoding is undone by the decoder, for arbitrary bars *)
Theorem C10_delta_roundtrip : forall ls, decode_levels (map (delta_enc 0%Z) ls) = Some (map (map zbar_of) ls).
Proof. exact decode_levels_enc. Qed.
Print Assumptions C10_delta_roundtrip.

Theorem C10_decode : forall n t,
  decode_levels (fb_levels (flamebearer n t)) = Some (map (map zbar_of) (fb_bars n t)).
Proof. exact fb_decode. Qed.
Print Assumptions C10_decode.

(* the threshold never exceeds the root total, so the root is always drawn *)
Theorem C10_threshold_le : forall n t, t_subb t = true -> t_minval n t <= t_total t.
Proof. exact t_minval_le. Qed.
Print Assumptions C10_threshold_le.

(* level 0 is a single bar [0, total), carrying name index 0 *)
Theorem C10_root : forall n t, (1 <= n)%nat -> t_subb t = true ->
  nth 0 (fb_bars n t) [] = [(0, t_total t, t_self t, O)] /\ fb_bars n t <> [].
Proof. exact fb_root. Qed.
Print Assumptions C10_root.

(* every bar at level l+1 lies inside [x + self, x + total) of a bar at level l *)
Theorem C10_nesting : forall n t l b, (1 <= n)%nat -> t_subb t = true ->
  In b (nth (S l) (fb_bars n t) []) ->
  exists p, In p (nth l (fb_bars n t) []) /\
            bar_x p + bar_self p <= bar_x b /\ bar_x b + bar_total b <= bar_x p + bar_total p.
Proof. exact fb_nesting. Qed.
Print Assumptions C10_nesting.

(* the bars of a level are in ascending order, pairwise disjoint, and lie in [0, total):
   asc_in lo hi [b1;..;bk]  :=  lo <= x1, x1+t1 <= x2, .., xk+tk <= hi *)
Theorem C10_disjoint : forall n t l, (1 <= n)%nat -> t_subb t = true ->
  asc_in 0 (t_total t) (nth l (fb_bars n t) []).
Proof. exact fb_disjoint. Qed.
Print Assumptions C10_disjoint.

(* every name index is valid; names[0] is "total"; each bar's index resolves, in the name cache
   (= names with entry 0 replaced by the root's own name), to the name of the frame it was drawn for *)
Theorem C10_names : forall n t,
  idx_ok (length (fb_names (flamebearer n t))) (fb_bars n t) /\
  (fb_bars n t <> [] -> nth 0 (fb_names (flamebearer n t)) [] = total_name) /\
  (forall v, In v (fb_V n t) -> nth (idx_in (fb_keys n t) (vb_name v)) (fb_keys n t) [] = vb_name v) /\
  fb_names (flamebearer n t) = fb_out_names (fb_keys n t).
Proof. exact fb_names_ok. Qed.
Print Assumptions C10_names.

(* the self values of all bars, `other` bars included, add up to the total *)
Theorem C10_conservation : forall n t, (1 <= n)%nat -> t_exactb t = true ->
  sum_selfs (concat (fb_bars n t)) = t_total t.
Proof. exact fb_conservation. Qed.
Print Assumptions C10_conservation.

(* Full statement for floor-scaled trees would be
     forall n t, (1 <= n)%nat -> t_subb t = true -> sum_selfs (concat (fb_bars n t)) = t_total t
   which is false (C10_conservation_scaled_refuted): scaling floors every value independently, so the
   children of a node may sum to less than its total (C09 states "equality unless scaled").
   Proved instead, with the hypothesis weakened from t_exactb to t_subb and "=" to "<=": *)
Theorem C10_conservation_scaled_partial : forall n t, (1 <= n)%nat -> t_subb t = true ->
  sum_selfs (concat (fb_bars n t)) <= t_total t.
Proof. exact fb_conservation_sub. Qed.
Print Assumptions C10_conservation_scaled_partial.

Definition ex_scaled : tnode :=
  t_clone 1 2 (TNode [] 0 3 [TNode [97] 1 1 []; TNode [98] 1 1 []; TNode [99] 1 1 []]).

Theorem C10_conservation_scaled_refuted :
  exists n t, (1 <= n)%nat /\ t_subb t = true /\ sum_selfs (concat (fb_bars n t)) <> t_total t.
Proof. exists 1024%nat, ex_scaled. split; [lia|]. split; [reflexivity|]. vm_compute. discriminate. Qed.
Print Assumptions C10_conservation_scaled_refuted.

(* which frames have a bar.  [fbars th 0 t] is the set of (level, total, self, name):
     - the root;
     - every child c of a drawn frame with total c >= th (one level down), recursively;
     - for every drawn frame whose children below th have a non-zero summed total S: one bar
       (other, S, S) one level down.
   A frame literally named `other` follows the same rule.  th is the budget threshold t_minval n t
   (cappedarr: the n-th largest total seen by the pruned walk, 0 when the walk visited <= n nodes). *)
Theorem C10_shown_iff : forall n t, (1 <= n)%nat -> t_subb t = true -> forall l tot s name,
  (exists x, In (x, tot, s, idx_in (fb_keys n t) name) (nth l (fb_bars n t) []) /\
             nth (idx_in (fb_keys n t) name) (fb_keys n t) [] = name)
  <-> fbars (t_minval n t) O t (l, tot, s, name).
Proof. exact fb_shown_iff. Qed.
Print Assumptions C10_shown_iff.

(* ... and since totals decrease downwards, "every frame on the way reaches th" is just "the frame
   reaches th": every descendant at depth d with total >= th is in the set *)
Theorem C10_shown_total : forall th d t n, desc_at d t n -> t_subb t = true -> th <= t_total n -> forall lvl,
  fbars th lvl t ((lvl + d)%nat, t_total n, t_self n, t_name n).
Proof. exact fbars_desc. Qed.
Print Assumptions C10_shown_total.

(* the visit sequence of the loop vs. the frame set, for any threshold and any tree *)
Theorem C10_visit_frames : forall th t, root_shown th t = true -> forall x lvl f,
  In f (map vproj (fb_visit th t x lvl)) <-> fbars th lvl t f.
Proof. exact fb_visit_frames. Qed.
Print Assumptions C10_visit_frames.

(* ---- the threshold ------------------------------------------------------------------------------ *)
(* the capped array holds, in ascending order, the n largest values pushed so far (n = maxSize >= 1) *)
Theorem C10_cappedarr_topn : forall n vs, (1 <= n)%nat ->
  ca_vals (ca_pushes vs (ca_new n)) = keep_last n (isort vs) /\ ca_max (ca_pushes vs (ca_new n)) = n.
Proof. exact ca_pushes_vals. Qed.
Print Assumptions C10_cappedarr_topn.

(* th = 0 when the pruned walk of minValue visited at most n nodes, otherwise the n-th largest of the
   totals it visited ([mv_seq]: pre-order, children of a refused node skipped; [isort] ascending).
   That the pruned walk may be replaced by "all totals of the tree" (trees with total >= self + children)
   is not proved; it is checked on every correspondence case (CorrC10.theta_spec sorts all totals). *)
Theorem C10_threshold_nth : forall n t, (1 <= n)%nat ->
  let vs := mv_seq t (ca_new n) in
  t_minval n t = if Nat.leb (length vs) n then 0 else nth (length vs - n) (isort vs) 0.
Proof. exact t_minval_nth. Qed.
Print Assumptions C10_threshold_nth.

(* a tree that fits the budget has threshold 0 (fix of D1) ... *)
Theorem C10_small_tree : forall n t, (t_size t <= n)%nat -> t_minval n t = 0.
Proof. exact t_minval_small. Qed.
Print Assumptions C10_small_tree.

(* ... and with threshold 0 every frame of the tree has a bar and there is no `other` bar *)
Theorem C10_all_shown : forall t lvl f,
  fbars 0 lvl t f <-> exists d n, desc_at d t n /\ f = ((lvl + d)%nat, t_total n, t_self n, t_name n).
Proof. exact fbars_zero_iff. Qed.
Print Assumptions C10_all_shown.

(* ---- non-vacuity: a tree with ties, a frame literally named `other`, zero-valued frames and the
   same name at two depths; with budget 3 two `other` bars are synthesised -------------------------- *)
Definition ex_t : tnode :=
  TNode [] 1 12 [TNode [] 5 6 [TNode [120] 1 1 []];
                 TNode [98] 2 5 [TNode other_name 0 0 []; TNode [255; 0] 3 3 []];
                 TNode total_name 0 0 []; TNode [120] 0 0 []].

Example C10_nonvacuous :
  t_exactb ex_t = true /\ t_subb ex_t = true /\ t_minval 3 ex_t = 5 /\
  fb_bars 3 ex_t = [[(0, 12, 1, 0%nat)];
                    [(1, 6, 5, 0%nat); (7, 5, 2, 1%nat)];
                    [(6, 1, 1, 2%nat); (9, 3, 3, 2%nat)]] /\
  fb_names (flamebearer 3 ex_t) = [total_name; [98]; other_name] /\
  fb_levels (flamebearer 3 ex_t) = [[0; 12; 1; 0]; [1; 6; 5; 0; 0; 5; 2; 1]; [6; 1; 1; 2; 2; 3; 3; 2]]%Z /\
  sum_selfs (concat (fb_bars 3 ex_t)) = 12 /\
  fbars (t_minval 3 ex_t) 0 ex_t (2%nat, 3, 3, other_name).
Proof.
  repeat split; try (vm_compute; reflexivity).
  apply (fbars_child _ 0 ex_t (TNode [98] 2 5 [TNode other_name 0 0 []; TNode [255; 0] 3 3 []])).
  - right. left. reflexivity.
  - vm_compute. discriminate.
  - apply (fbars_other (t_minval 3 ex_t) 1 (TNode [98] 2 5 [TNode other_name 0 0 []; TNode [255; 0] 3 3 []])).
    vm_compute. discriminate.
Qed.

Example C10_threshold_nonvacuous :
  mv_seq ex_t (ca_new 3) = [12; 6; 1; 5; 0; 3; 0; 0] /\ isort (mv_seq ex_t (ca_new 3)) = [0; 0; 0; 1; 3; 5; 6; 12] /\
  t_minval 3 ex_t = 5 /\ t_minval 9 ex_t = 0 /\ t_size ex_t = 8%nat /\
  ca_vals (ca_pushes [12; 6; 1; 5; 0; 3] (ca_new 3)) = [5; 6; 12].
Proof. vm_compute. repeat split. Qed.

Example C10_conservation_scaled_nonvacuous :
  t_subb ex_scaled = true /\ t_exactb ex_scaled = false /\
  sum_selfs (concat (fb_bars 1024 ex_scaled)) = 0 /\ t_total ex_scaled = 1.
Proof. vm_compute. repeat split. Qed.
